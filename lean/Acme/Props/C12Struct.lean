/-
C12, structural part: saving a network and loading the saved tree reproduces the network
(model: `Acme.Save`, tied to saver.go / loader.go by stream `sv`).

The model covers the LOGIC of save / load — reference tables and their resolution, signal trees
with multiplexer groups, enum attribute value order, interfaces, receivers, static CAN-IDs,
builder operations; every scalar that is copied verbatim is one opaque payload per entity
(`Ent.pl`, `Asg.val`; see the header of `Acme/Core/Save.lean` for what each payload stands for).
-/
import Acme.Proofs.SaveNet
import Acme.Proofs.SaveSound
import Acme.Proofs.SaveNorm
import Acme.Spec.SaveDecEq
import Acme.Spec.SaveExample

namespace Acme.Props.C12Struct
open Acme.Save

/-- (a) Saving a well-formed network whose narrowed numbers fit and loading the saved tree gives
    the network back, in the order normal form `norm` (lists in the order of the getters the saver
    iterates, multiplexer children in the order of their last appearance in the walk over the
    groups, enum attribute values with the default first).  `NetWF` includes what the loader checks
    network-wide: distinct message entity ids and distinct signal entity ids (nested children
    included) — the public API draws entity ids at random. -/
theorem load_save (n : Net) (hw : NetWF n) (hr : InRange n) : load (save n) = .ok (norm n) :=
  load_save_aux n hw hr

/-- `norm` is a normal form … -/
theorem norm_idem (n : Net) (hw : NetWF n) : norm (norm n) = norm n := norm_idem_aux n hw

/-- … that only reorders: every look-up in the definition tables gives the same entry (attributes:
    its normal form `normAttr`, nodes: with sorted assignments), and the members of every list are
    the (normalised) members of the original list. -/
theorem norm_preserves (n : Net) (hw : NetWF n) :
    (∀ id, (norm n).t.attr id = (n.t.attr id).map normAttr ∧
           (norm n).t.node id = (n.t.node id).map (normNode n.t) ∧
           (norm n).t.builder id = n.t.builder id ∧
           findEnt (norm n).t.types id = findEnt n.t.types id ∧
           findEnt (norm n).t.units id = findEnt n.t.units id ∧
           findEnt (norm n).t.enums id = findEnt n.t.enums id) ∧
    (∀ b, b ∈ (norm n).buses ↔ ∃ b0 ∈ n.buses, b = normBus n.t b0) ∧
    (∀ t b i, i ∈ (normBus t b).ifaces ↔ ∃ i0 ∈ b.ifaces, i = normIface t i0) ∧
    (∀ t i m, m ∈ (normIface t i).msgs ↔ ∃ m0 ∈ i.msgs, m = normMsg t m0) ∧
    (∀ t m, (∀ r, r ∈ (normMsg t m).recvs ↔ r ∈ m.recvs) ∧ (∀ a, a ∈ (normMsg t m).asg ↔ a ∈ m.asg) ∧
        (∀ p, p ∈ (normMsg t m).sigs ↔ ∃ p0 ∈ m.sigs, p = (normSig t p0.1, p0.2)) ∧
        (normMsg t m).e = m.e ∧ (normMsg t m).mid = m.mid ∧ (normMsg t m).static = m.static) :=
  ⟨norm_lookups n hw, mem_norm_buses n, mem_normBus_ifaces, mem_normIface_msgs, mem_normMsg⟩

/-- the children of a normalised multiplexer are the normalised children, each with its position and
    its groups -/
theorem norm_preserves_children (t : Tbl) (gc : Nat) (kids : List Kid)
    (hw : bodyWf t (.mux gc kids) = true) (k : Kid) :
    ∃ ks, normBody t (.mux gc kids) = .mux gc ks ∧
      (k ∈ ks ↔ ∃ k0 ∈ kids, k = Kid.mk (normSig t k0.sig) k0.pos k0.grp) :=
  mem_normBody_kids t gc kids hw k

/-- an enum attribute keeps its default value and its values; the default comes first -/
theorem norm_enum_attribute (e : Ent) (vs : List String) (d : String) (hd : d ∈ vs) :
    ∃ vs', normAttr ⟨e, .enm vs d⟩ = ⟨e, .enm vs' d⟩ ∧ vs'.head? = some d ∧ ∀ v, v ∈ vs' ↔ v ∈ vs :=
  normAttr_values e vs d hd

/-- the public API always makes the first value the default one: such an attribute is in normal form -/
theorem norm_enum_attribute_api (e : Ent) (d : String) (r : List String) (hn : (d :: r).Nodup) :
    normAttr ⟨e, .enm (d :: r) d⟩ = ⟨e, .enm (d :: r) d⟩ := by
  rw [List.nodup_cons] at hn
  simp only [normAttr, Attr.mk.injEq, AttrKind.enm.injEq, true_and, and_true]
  simp only [List.filter_cons, bne_self_eq_false, Bool.false_eq_true, if_false, List.cons.injEq, true_and]
  rw [List.filter_eq_self]
  intro v hv
  simpa using fun he : v = d => hn.1 (he ▸ hv)

/-- (c) The group id is the list index: a saved multiplexer has exactly `groupCount` group lists
    (empty groups included) and list `k` holds the positions of the children of group `k`. -/
theorem group_index_is_id (t : Tbl) (gc : Nat) (kids : List Kid) :
    ∃ sigs fixed groups,
      saveBody t (.mux gc kids) = .mux (u32 gc) sigs fixed groups ∧
      groups.length = gc ∧
      ∀ k, k < gc → groups[k]? = some (refsOf (kids.map fun c => (c.h, c)) k) := by
  refine ⟨_, _, _, rfl, ?_, ?_⟩
  · simp [muxGroups]
  · intro k hk
    rw [saveKids_eq, muxGroups_map (fun c : Kid => saveSig t c.sig), muxGroups_eq]
    simp [hk]

/-- the positions of group `k` are those of the children that are fixed or list `k`, by position -/
theorem mem_group_positions {α : Type} (ps : List (KH × α)) (k : Nat) (r : Id × Nat) :
    r ∈ refsOf ps k ↔ ∃ p ∈ ps, p.1.inGrp k = true ∧ r = (p.1.id, u32 p.1.pos) := by
  simp only [refsOf, List.mem_map, mem_groupOf]
  constructor
  · rintro ⟨p, ⟨hp, hg⟩, rfl⟩; exact ⟨p, hp, hg, rfl⟩
  · rintro ⟨p, hp, hg, rfl⟩; exact ⟨p, ⟨hp, hg⟩, rfl⟩

/-! ### (b) what the loader refuses -/

/-- A reference (builder of a bus, node of an interface or of a receiver, type / unit / enum of a
    signal, attribute of an assignment) to an id that is in no table of the file: the loader
    answers with an error, never with a network. -/
theorem load_refuses_dangling (p : PNet) (r : Ref) (hr : r ∈ prefs p) (hd : ¬ p.has r) :
    ∃ e, load p = .error e := by
  cases h : load p with
  | error e => exact ⟨e, rfl⟩
  | ok n => exact absurd ((load_sound p n h).1 r hr) hd

/-- … and the exact cause class of each look-up: `EntityIDError{ErrNotFound}` carrying the id. -/
theorem dangling_cause (T : Tbl) :
    (∀ p r, T.attr p.attr = none → loadAsgs T (p :: r) = .error (.notFound .attr p.attr)) ∧
    (∀ self sn ty un, findEnt T.types ty = none →
        loadBody T 1 self sn (.std ty un) = .error (.notFound .type ty)) ∧
    (∀ self sn ty un, (findEnt T.types ty).isSome = true → un ≠ "" → findEnt T.units un = none →
        loadBody T 1 self sn (.std ty un) = .error (.notFound .unit un)) ∧
    (∀ self sn en, findEnt T.enums en = none → loadBody T 2 self sn (.enm en) = .error (.notFound .enum en)) ∧
    (∀ st p, T.node p.node = none → loadIface T st p = .error (.notFound .node p.node)) ∧
    (∀ mid st acc node num r, T.node node = none →
        loadRecvs T mid st acc ((node, num) :: r) = .error (.notFound .node node)) ∧
    (∀ st p, p.builder ≠ "" → T.builder p.builder = none →
        loadBus T st p = .error (.notFound .builder p.builder)) :=
  ⟨loadAsgs_dangling T, loadBody_dangling_type T, loadBody_dangling_unit T, loadBody_dangling_enum T,
   loadIface_dangling_node T, loadRecvs_dangling_node T, loadBus_dangling_builder T⟩

/-- A multiplexer one of whose children is in no group list: never a network. -/
theorem load_refuses_unplaced_child (p : PNet)
    (h : ¬ p.muxAll fun sigs groups => ∀ s ∈ sigs, ∃ t ∈ triplesFrom 0 groups, t.2.1 = s.id) :
    ∃ e, load p = .error e := by
  cases hl : load p with
  | error e => exact ⟨e, rfl⟩
  | ok n => exact absurd (PNet.muxAll_mono (fun _ _ hq => hq.1) p (load_sound p n hl).2) h

/-- … with the exact cause: when the loop over the group lists raised nothing, the loader answers
    `EntityIDError{ErrNotFound}` naming one of the unplaced children (`LoadErr.unplaced ids`: Go
    meets them in map order). -/
theorem unplaced_cause (gc : Nat) (kids : List Sig) (fixed : List Id) (groups : List (List (Id × Nat)))
    (hc : checkTriples gc (kids.map Sig.id) fixed (triplesFrom 0 groups) (triplesFrom 0 groups) = .ok ())
    (c : Sig) (hcm : c ∈ kids) (hun : ∀ t ∈ triplesFrom 0 groups, t.2.1 ≠ c.id) :
    ∃ ids, assembleMux gc kids fixed groups = .error (.unplaced ids) ∧ c.id ∈ ids :=
  assembleMux_unplaced gc kids fixed groups hc c hcm (firstPos_none_of_absent _ _ hun)

/-- A multiplexer child with two different positions in two group lists: never a network. -/
theorem load_refuses_two_positions (p : PNet)
    (h : ¬ p.muxAll fun _ groups => ∀ t ∈ triplesFrom 0 groups, ∀ t' ∈ triplesFrom 0 groups,
        t.2.1 = t'.2.1 → t.2.2 = t'.2.2) :
    ∃ e, load p = .error e := by
  cases hl : load p with
  | error e => exact ⟨e, rfl⟩
  | ok n => exact absurd (PNet.muxAll_mono (fun _ _ hq => hq.2.1) p (load_sound p n hl).2) h

/-- … with the exact cause `StartBitError` (`LoadErr.twoPositions`), when every entry of the group
    lists names a child and no populated list lies beyond the group count. -/
theorem two_positions_cause (gc : Nat) (kids : List Sig) (fixed : List Id) (groups : List (List (Id × Nat)))
    (hk : ∀ t ∈ triplesFrom 0 groups, ∃ s ∈ kids, s.id = t.2.1)
    (hg : ∀ t ∈ triplesFrom 0 groups, fixed.contains t.2.1 = true ∨ t.1 < gc)
    (h : ∃ t ∈ triplesFrom 0 groups, ∃ t' ∈ triplesFrom 0 groups, t.2.1 = t'.2.1 ∧ t.2.2 ≠ t'.2.2) :
    ∃ pos, assembleMux gc kids fixed groups = .error (.twoPositions pos) :=
  assembleMux_two_positions gc kids fixed groups hk hg h

/-! ### (d) the example -/

section Example
open Acme.Save.Ex

set_option maxRecDepth 100000

theorem example_wf : NetWF Ex.net := by decide
theorem example_inRange : InRange Ex.net := by decide

/-- the round trip of the example, evaluated by the kernel -/
theorem example_round_trip : load (save Ex.net) = .ok (norm Ex.net) := by decide

/-- … and as an instance of (a) -/
example : load (save Ex.net) = .ok (norm Ex.net) := load_save _ example_wf example_inRange

/-- the enum attribute of the example is loaded with its default value first -/
example : ((norm Ex.net).t.attr "a1").map (·.kind) = some (.enm ["mid", "low", "high"] "mid") := by decide

/-- (c) on the example: group 0 of the outer multiplexer is empty and is still written, so the
    children of groups 1 and 2 come back in groups 1 and 2 -/
example : (saveBody Ex.net.t Ex.outer.body) =
    .mux 3 [saveSig Ex.net.t Ex.inner, saveSig Ex.net.t (Ex.leaf "s8" "both" "t2"),
            saveSig Ex.net.t (Ex.leaf "s4" "late" "t1"), saveSig Ex.net.t (Ex.leaf "s8" "both" "t2")]
      [] [[], [("s5", 0), ("s8", 12)], [("s4", 0), ("s8", 12)]] := by decide

example :
    (match loadBody (norm Ex.net).t 3 "s2" [] (saveBody Ex.net.t Ex.outer.body) with
     | .ok (.mux gc kids, _) => some (gc, kids.map fun c => (c.sig.id, c.pos, c.grp))
     | _ => none) =
    some (3, [("s5", 0, some [1]), ("s4", 0, some [2]), ("s8", 12, some [1, 2])]) := by decide

/-! the refusals on the example: one defect each, exact cause class, evaluated by the kernel -/

/-- delete the signal type `t1` from the saved tree -/
example : load { save Ex.net with types := (save Ex.net).types.filter (·.id != "t1") } =
    .error (.notFound .type "t1") := by decide

/-- an interface that names a node without entry -/
example : load { save Ex.net with nodes := (save Ex.net).nodes.filter (·.e.id != "n2") } =
    .error (.notFound .node "n2") := by decide

/-- the saved inner multiplexer with the group entry of child `s7` removed / moved -/
def innerSaved (groups : List (List (Id × Nat))) : PBody :=
  .mux 2 [saveSig Ex.net.t (Ex.leaf "s6" "flag" "t2"), saveSig Ex.net.t (.mk ⟨"s7", "m", "d=;st=1;sv=0"⟩ [] (.enm "e1"))]
    ["s6"] groups

example : saveBody Ex.net.t Ex.inner.body = innerSaved [[("s6", 0)], [("s6", 0), ("s7", 4)]] := by decide

/-- child `s7` in no group: `unplaced` -/
example : loadBody (norm Ex.net).t 3 "s5" [] (innerSaved [[("s6", 0)], [("s6", 0)]]) = .error (.unplaced ["s7"]) := by
  decide

/-- the fixed child `s6` at two positions: `twoPositions` (the position of the later entry) -/
example : loadBody (norm Ex.net).t 3 "s5" [] (innerSaved [[("s6", 0)], [("s6", 1), ("s7", 4)]]) =
    .error (.twoPositions 1) := by decide

/-- the two group lists swapped: the child of group 1 comes back in group 0 -/
example :
    (match loadBody (norm Ex.net).t 3 "s5" [] (innerSaved [[("s6", 0), ("s7", 4)], [("s6", 0)]]) with
     | .ok (.mux _ kids, _) => kids.map fun c => (c.sig.id, c.grp)
     | _ => []) = [("s6", none), ("s7", some [0])] := by decide

end Example

end Acme.Props.C12Struct
