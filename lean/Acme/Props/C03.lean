/-
C03 — Physical values and type ranges follow raw*scale+offset and two's complement.

  The decoded value of a standard signal equals its raw value, sign-extended from the
  signal's bit size when the type is signed, multiplied by the type's scale plus its
  offset (integer kinds yield integers, other kinds float64); flags decode to raw != 0
  and enum signals to the name of the enum value whose index equals the raw value, or
  the empty string when there is none.  Integer and decimal signal types created for n
  bits report as minimum and maximum exactly the n-bit two's-complement range when
  signed and 0..2^n-1 when unsigned.  The bit width reserved for an enum, and for a
  multiplexer's group selector, is the smallest width able to represent its largest
  index (never below the enum's configured minimum).

Model: Acme.Core.Arith.  float64 rounding is outside the model (values over ℚ).
-/
import Acme.Core.Arith
import Acme.Spec.Arith
import Acme.Proofs.Arith
import Acme.Proofs.SitesConsts

namespace Acme.Props.C03
open Acme.Arith

/-- sign extension = two's complement, every size 1..64, every raw value of that size -/
theorem C03_signExtend (n : Nat) (h1 : 1 ≤ n) (h2 : n ≤ 64) (raw : BitVec 64)
    (hr : raw.toNat < 2 ^ n) :
    (signExtend raw n).toInt = twos n raw.toNat :=
  Acme.Arith.signExtend_twos n h1 h2 raw hr

/-- signed integer kind: value = twos(raw)·scale + offset whenever that is an int64 -/
theorem C03_int_signed (n : Nat) (h1 : 1 ≤ n) (h2 : n ≤ 64) (raw : BitVec 64)
    (hr : raw.toNat < 2 ^ n) (scale off : Int) (sq oq : Rat)
    (hrep : -(2 ^ 63 : Int) ≤ twos n raw.toNat * scale + off ∧ twos n raw.toNat * scale + off < 2 ^ 63) :
    decodeStd .integer n true scale off sq oq raw = .int (twos n raw.toNat * scale + off) :=
  Acme.Arith.int_signed n h1 h2 raw hr scale off sq oq hrep

/-- unsigned integer kind: value = raw·scale + offset whenever that is a uint64 -/
theorem C03_int_unsigned (n : Int) (raw : BitVec 64) (scale off : Int) (sq oq : Rat)
    (hs : 0 ≤ scale) (ho : 0 ≤ off) (hrep : (raw.toNat : Int) * scale + off < 2 ^ 64) :
    decodeStd .integer n false scale off sq oq raw = .uint ((raw.toNat : Int) * scale + off).toNat :=
  Acme.Arith.int_unsigned n raw scale off sq oq hs ho hrep

/-- decimal / custom kinds -/
theorem C03_float_signed (k : Kind) (hk : k = .decimal ∨ k = .custom) (n : Nat) (h1 : 1 ≤ n)
    (h2 : n ≤ 64) (raw : BitVec 64) (hr : raw.toNat < 2 ^ n) (si oi : Int) (scale off : Rat) :
    decodeStd k n true si oi scale off raw = .float ((twos n raw.toNat : Rat) * scale + off) :=
  Acme.Arith.float_signed k hk n h1 h2 raw hr si oi scale off

theorem C03_float_unsigned (k : Kind) (hk : k = .decimal ∨ k = .custom) (n : Int)
    (raw : BitVec 64) (si oi : Int) (scale off : Rat) :
    decodeStd k n false si oi scale off raw = .float ((raw.toNat : Rat) * scale + off) :=
  Acme.Arith.float_unsigned k hk n raw si oi scale off

/-- flags decode to raw ≠ 0 -/
theorem C03_flag (n : Int) (s : Bool) (si oi : Int) (sq oq : Rat) (raw : BitVec 64) :
    decodeStd .flag n s si oi sq oq raw = .flag (decide (raw.toNat ≠ 0)) :=
  Acme.Arith.flag_spec n s si oi sq oq raw

/-- enum signals decode to the name of the value whose index equals the raw value
    (indexes are unique within an enum: C04), else to the empty string -/
theorem C03_enum_hit (values : List (String × Int)) (hu : (values.map (·.2)).Nodup)
    (raw : BitVec 64) (hr : raw.toNat < 2 ^ 63) (name : String)
    (hm : (name, (raw.toNat : Int)) ∈ values) :
    decodeEnum values raw = name :=
  Acme.Arith.enum_hit values hu raw hr name hm

theorem C03_enum_miss (values : List (String × Int)) (raw : BitVec 64) (hr : raw.toNat < 2 ^ 63)
    (hm : ∀ v ∈ values, v.2 ≠ (raw.toNat : Int)) :
    decodeEnum values raw = "" :=
  Acme.Arith.enum_miss values raw hr hm

/-- n-bit ranges, 1 ≤ n ≤ 64 -/
theorem C03_range_signed (n : Nat) (h1 : 1 ≤ n) (h2 : n ≤ 64) :
    typeRange n true = (-(2 ^ (n - 1) : Int), 2 ^ (n - 1) - 1) :=
  Acme.Arith.range_signed n h1 h2

theorem C03_range_unsigned (n : Nat) (h1 : 1 ≤ n) (h2 : n ≤ 64) :
    typeRange n false = (0, 2 ^ n - 1) :=
  Acme.Arith.range_unsigned n h1 h2

/-- `calcSizeFromValue` is the smallest width able to represent a non-negative int64 -/
theorem C03_calcSize (v : Int) (h0 : 0 ≤ v) : IsBitLen v (calcSize v) :=
  Acme.Arith.calcSize_spec v h0

/-- enum width: the smallest width ≥ the configured minimum able to represent the largest index -/
theorem C03_enumSize (minSize maxIndex : Int) (h0 : 0 ≤ maxIndex) :
    minSize ≤ enumSize minSize maxIndex ∧ calcSize maxIndex ≤ enumSize minSize maxIndex ∧
    (enumSize minSize maxIndex = minSize ∨ enumSize minSize maxIndex = calcSize maxIndex) ∧
    IsBitLen maxIndex (calcSize maxIndex) :=
  Acme.Arith.enumSize_spec minSize maxIndex h0

/-- multiplexer selector width: smallest width able to represent the largest group id -/
theorem C03_muxSel (groupCount : Int) (h : 1 ≤ groupCount) :
    IsBitLen (groupCount - 1) (muxSelWidth groupCount) :=
  Acme.Arith.muxSel_spec groupCount h

/-- Tie B: the numeric constants in the current source (regenerated on every run) are the
    ones of the model. -/
theorem C03_consts :
    Acme.Gen.maxSize = Acme.Arith.maxSize ∧ Acme.Gen.headerBits = Acme.BusLoad.headerBits ∧
    Acme.Gen.trailerBits = Acme.BusLoad.trailerBits ∧
    Acme.Gen.headerStuffingBits = Acme.BusLoad.headerStuffingBits :=
  Acme.Sites.consts_expected

/-! Non-vacuity -/
example : (signExtend 0x9#64 4).toInt = -7 := by decide
example : twos 4 9 = -7 := by decide
example : decodeStd .integer 8 true 1 0 1 0 0x01#64 = .int 1 := by decide
example : typeRange 8 true = (-128, 127) := by decide
example : typeRange 64 false = (0, 18446744073709551615) := by decide
example : calcSize 4611686018427387904 = 63 := by decide

end Acme.Props.C03
