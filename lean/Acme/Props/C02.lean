/-
C02 — Decoding extracts exactly the payload bits each signal occupies.

  For every message layout and every payload at least as long as the message, decoding
  returns one result per standard or enum signal, in layout order, whose raw value consists
  of exactly the payload bits that signal occupies: in a little-endian message raw bit i is
  payload bit start+i, in a big-endian message the bits are read most-significant first
  along the DBC Motorola saw-tooth from the start position.  The per-byte bit masks the
  layout publishes never share a payload bit between two signals, cover each signal's full
  size, and always describe the current layout, whatever edits preceded the call.

Kernel part: every layout, every payload.  KNOWN FINDING D08: for a big-endian signal that
lies inside one byte asymmetrically the code uses the little-endian offset; this is pinned by
Test_SignalLayout_Unpack, so the big-endian theorems carry the hypothesis `BeOK` and the
negation is proved on a witness.
-/
import Acme.Core.Bits
import Acme.Spec.Bits
import Acme.Proofs.Bits

namespace Acme.Props.C02
open Acme.Layout Acme.Bits

/-- Little-endian: one result per signal in layout order, raw bit i = payload bit start+i;
    never indexes past the payload. -/
theorem C02_decode_le (n : Nat) (l : List Slot) (hwf : WF (8 * n) l) (hn : IdsNodup l)
    (h64 : ∀ s ∈ l, s.size ≤ 64) (data : List Nat) (hd : DataOK n data) :
    decodeRaw (genFilters (l.map (fun s => (s, false)))) data =
      some (l.map (fun s => (s.id, rawLE data s.start.toNat s.size.toNat))) :=
  Acme.Bits.decode_le n l hwf hn h64 data hd

/-- Big-endian (outside D08): bits read most-significant first from the start position. -/
theorem C02_decode_be_partial (n : Nat) (l : List Slot) (hwf : WF (8 * n) l) (hn : IdsNodup l)
    (h64 : ∀ s ∈ l, s.size ≤ 64) (hok : ∀ s ∈ l, BeOK s) (data : List Nat) (hd : DataOK n data) :
    decodeRaw (genFilters (l.map (fun s => (s, true)))) data =
      some (l.map (fun s => (s.id, rawBE data s.start.toNat s.size.toNat))) :=
  Acme.Bits.decode_be n l hwf hn h64 hok data hd

/-- The big-endian sequential numbering is the DBC Motorola saw-tooth: position p is Intel
    bit conv p, stepping to p+1 is the saw-tooth step, and conv is an involution; hence the
    big-endian raw value is the DBC Motorola value for start bit conv(start). -/
theorem C02_sawtooth (data : List Nat) (p sz : Nat) :
    bitBE data p = bitLE data (conv p) ∧ conv (p + 1) = sawNext (conv p) ∧ conv (conv p) = p ∧
    rawBE data p sz = motorola data (conv p) sz :=
  Acme.Bits.sawtooth data p sz

/-- Masks, little-endian: the published bits of a signal are exactly start..start+size-1,
    each once. -/
theorem C02_masks_le (s : Slot) (h0 : 0 ≤ s.start) (h1 : 1 ≤ s.size) :
    (sigBits s false).Nodup ∧ ∀ k, k ∈ sigBits s false ↔ s.start ≤ k ∧ (k : Int) < s.start + s.size :=
  Acme.Bits.masks_le s h0 h1

/-- Masks, big-endian (outside D08): exactly the bits at positions start..start+size-1. -/
theorem C02_masks_be_partial (s : Slot) (h0 : 0 ≤ s.start) (h1 : 1 ≤ s.size) (hok : BeOK s) :
    (sigBits s true).Nodup ∧
    ∀ k, k ∈ sigBits s true ↔ ∃ p : Nat, s.start ≤ p ∧ (p : Int) < s.start + s.size ∧ k = conv p :=
  Acme.Bits.masks_be s h0 h1 hok

/-- Two different signals of a well-formed layout never share a payload bit
    (same byte order; big-endian outside D08). -/
theorem C02_masks_disjoint (cap : Int) (l : List Slot) (hwf : WF cap l) (a b : Slot) (be : Bool)
    (ha : a ∈ l) (hb : b ∈ l) (hab : a ≠ b) (hok : be = true → BeOK a ∧ BeOK b) :
    ∀ k, ¬ (k ∈ sigBits a be ∧ k ∈ sigBits b be) :=
  Acme.Bits.masks_disjoint cap l hwf a b be ha hb hab hok

/-! ### D08 — the full big-endian statement is false on the unchanged tree (known finding) -/

/-- full statement of the big-endian clause, kept visible -/
def C02_decode_be_full : Prop :=
  ∀ (n : Nat) (l : List Slot), WF (8 * n) l → IdsNodup l → (∀ s ∈ l, s.size ≤ 64) →
    ∀ data, DataOK n data →
      decodeRaw (genFilters (l.map (fun s => (s, true)))) data =
        some (l.map (fun s => (s.id, rawBE data s.start.toNat s.size.toNat)))

/-- witness: a 4-bit big-endian signal at position 28 reads bits 7..4 of byte 3 instead of
    bits 3..0 (replayed on the real code by the harness: stream `bits`, corpus d08) -/
theorem C02_D08_witness : ¬ C02_decode_be_full :=
  Acme.Bits.d08_witness

/-- witness for the mask clause: big-endian A = (8,4) and B = (12,8) publish the same bit -/
theorem C02_D08_masks_witness :
    ∃ k, k ∈ sigBits ⟨1, 8, 4⟩ true ∧ k ∈ sigBits ⟨2, 12, 8⟩ true :=
  Acme.Bits.d08_masks_witness

/-! Non-vacuity -/
example : WF 64 [⟨1, 0, 12⟩, ⟨2, 28, 4⟩, ⟨3, 34, 20⟩] ∧ DataOK 8 [1, 8, 0, 0x90, 4, 0, 0x20, 0x84] := by
  decide
example : BeOK ⟨3, 34, 20⟩ ∧ BeOK ⟨4, 58, 4⟩ ∧ ¬ BeOK ⟨2, 28, 4⟩ := by decide
example : rawLE [1, 8, 0, 0x90, 4, 0, 0x20, 0x84] 28 4 = 9 := by decide

end Acme.Props.C02
