/-
C08 — DBC text survives write-parse and parse-write-parse.

  For every DBC document whose identifiers and strings are expressible in the DBC grammar,
  parsing the text produced by the writer yields an equivalent document - the same sections,
  entries, order and values, numeric attribute values compared by value - in both the decimal and
  the hex-number mode.  For every text the parser accepts, writing the parsed document and
  parsing it again yields the same document: the writer never drops or alters anything the
  parser understood.

Model: `Acme.Core.Dbc`, `Acme.Core.DbcWrite` (`writeToks`), `Acme.Core.DbcParse` (`parseToks`):
token level, one Lean function per Go function, checked against the Go code by the harness
stream `dbc`.  Vocabulary: `Acme.Spec.Dbc` (`DbcWF`, `norm`, `NumEq`, `TokensWF`).
Lemmas: `Acme.Proofs.Dbc*`.

Findings recorded here
* D44 (known, pinned by a test of the Go repository): an empty version is written as `"_"`
  (`C08_D44_witness`); it is the first clause of `norm`.
* The second sentence of the property is FALSE as stated (`C08_idem_full_false`): the parser
  accepts texts without `VERSION`, `NS_` or `BS_` section (and `VERSION ""`), the writer always
  prints the three sections, so the re-parsed document differs in exactly these three fields.
  `C08_idem_partial` is the strongest true variant; the three hypotheses are each necessary
  (`C08_idem_needs_*`).
-/
import Acme.Core.Dbc
import Acme.Core.DbcWrite
import Acme.Core.DbcParse
import Acme.Spec.Dbc
import Acme.Proofs.DbcMain
import Acme.Proofs.DbcIdem
import Acme.Proofs.DbcMono

namespace Acme.Props.C08
open Acme.Dbc

/-! ## write, then parse -/

/-- Writing a well-formed document and parsing the result yields the document, up to `norm`
(empty version ↦ `"_"` (D44), absent `NS_`/`BS_` ↦ the default ones, numeric attribute values
re-tagged by value).  Both number modes. -/
theorem C08_write_parse (h : Bool) (f : File) (hw : DbcWF h f) :
    parseToks h (writeToks h f) = .ok (norm h f) :=
  parse_write finiteFloatText (fun _ hs => accepted_of_finite hs) h f hw

/-- The same for documents whose floats are arbitrary accepted number texts (`1e5`, `+2.`):
what parsed documents are. -/
theorem C08_write_parse_parsed (h : Bool) (f : File) (hw : DbcWFParsed h f) :
    parseToks h (writeToks h f) = .ok (norm h f) :=
  parse_write acceptedFloatText (fun _ hs => hs) h f hw

/-- `DbcWF` is the special case of `DbcWFParsed` with `FormatFloat` texts. -/
theorem C08_wf_parsed (h : Bool) (f : File) (hw : DbcWF h f) : DbcWFParsed h f :=
  fileOK_mono (fun _ hs => accepted_of_finite hs) hw

/-- `norm` changes numeric attribute values only by re-tagging: the value is the same number
("numeric attribute values compared by value"). -/
theorem C08_retag_numEq (h : Bool) (v : TaggedVal) : NumEq v (retag h v) := by
  unfold retag
  cases hty : v.type <;> simp only
  · exact .refl v
  · exact .refl v
  · by_cases hdot : containsDot v.valueFloat = true
    · rw [if_pos hdot]
      exact .refl v
    · rw [if_neg hdot]
      cases hi : parseInt v.valueFloat with
      | none => exact .refl v
      | some i => exact .floatInt v i hty (by simpa using hdot) hi
  · cases h
    · exact .hexInt v hty
    · exact .refl v

/-- `norm` is the identity on documents with a non-empty version, explicit new symbols and bit
timing, and attribute values in parser-normal form … -/
theorem C08_norm_id (h : Bool) (f : File) (hv : f.version ≠ "") (hns : f.newSymbols ≠ none)
    (hbt : f.bitTiming ≠ none) (hn : AttrNormal h f) : norm h f = f :=
  norm_eq_self h f hv hns hbt hn

/-- … so that the round trip is the identity there. -/
theorem C08_write_parse_id (h : Bool) (f : File) (hw : DbcWF h f) (hv : f.version ≠ "")
    (hns : f.newSymbols ≠ none) (hbt : f.bitTiming ≠ none) (hn : AttrNormal h f) :
    parseToks h (writeToks h f) = .ok f := by
  rw [C08_write_parse h f hw, C08_norm_id h f hv hns hbt hn]

/-- every accepted document (on a scanner-image token list) is well formed — so the writer can
express everything the parser understood — and its attribute values are in parser-normal form -/
theorem C08_parsed_wf (h : Bool) (ts : List Token) (f : File) (ht : TokensWF ts)
    (hp : parseToks h ts = .ok f) :
    DbcWFParsed h f ∧ AttrNormal h f :=
  ⟨(parseToks_inv h ts f ht hp).1, attrNormal_of_inv (parseToks_inv h ts f ht hp)⟩

/-! ## parse, then write, then parse -/

/-- "The writer never drops or alters anything the parser understood", for accepted texts that
have a non-empty `VERSION`, an `NS_` and a `BS_` section. -/
theorem C08_idem_partial (h : Bool) (ts : List Token) (f : File) (ht : TokensWF ts)
    (hp : parseToks h ts = .ok f) (hv : f.version ≠ "") (hns : f.newSymbols ≠ none)
    (hbt : f.bitTiming ≠ none) : parseToks h (writeToks h f) = .ok f :=
  parse_write_parse h ts f ht hp hv hns hbt

/-- without the three hypotheses: everything else is kept — the re-parsed document is `norm h f`,
which differs from `f` in `version` / `newSymbols` / `bitTiming` only -/
theorem C08_idem_norm (h : Bool) (ts : List Token) (f : File) (ht : TokensWF ts)
    (hp : parseToks h ts = .ok f) :
    parseToks h (writeToks h f) = .ok (norm h f) ∧
      norm h f = { f with
        version := if f.version = "" then "_" else f.version
        newSymbols := some (f.newSymbols.getD newSymbolsValues)
        bitTiming := some (f.bitTiming.getD {}) } := by
  have hi := parseToks_inv h ts f ht hp
  refine ⟨C08_write_parse_parsed h f hi.1, ?_⟩
  obtain ⟨hd, hval⟩ := attrNormal_of_inv hi
  have h1 : f.attributeDefaults.map (normAttributeDefault h) = f.attributeDefaults := by
    apply map_eq_self
    intro d hmem
    unfold normAttributeDefault
    rw [hd d hmem, AttributeDefault.withVal_val]
  have h2 : f.attributeValues.map (normAttributeValue h) = f.attributeValues := by
    apply map_eq_self
    intro v hmem
    unfold normAttributeValue
    rw [(hval v hmem).1, (hval v hmem).2]
  unfold norm
  rw [h1, h2]

/-- the full statement of the second sentence of C08 -/
def C08_idem_full : Prop :=
  ∀ (h : Bool) (ts : List Token) (f : File), TokensWF ts → parseToks h ts = .ok f →
    parseToks h (writeToks h f) = .ok f

/-- … is false: the empty text is accepted (document `{}`), its re-written form has
`VERSION "_"`, the default `NS_` list and `BS_:` -/
theorem C08_idem_full_false : ¬ C08_idem_full := by
  intro hfull
  have h1 := hfull false [] {} (by decide) rfl
  have h2 := C08_write_parse false {} (by decide)
  rw [h2] at h1
  have h3 : norm false {} = ({} : File) := by
    injection h1
  have h4 : (norm false {}).version = ({} : File).version := by rw [h3]
  exact absurd h4 (by decide)

/-- the three hypotheses of `C08_idem_partial` are each necessary: accepted, scanner-image texts
whose re-written form parses to another document -/
theorem C08_idem_needs_version :
    ∃ (ts : List Token) (f : File), TokensWF ts ∧ parseToks false ts = .ok f ∧
      f.newSymbols ≠ none ∧ f.bitTiming ≠ none ∧
      parseToks false (writeToks false f) ≠ .ok f := by
  refine ⟨[.keyword "VERSION", .string "", .keyword "NS_", .punct ":", .keyword "BS_", .punct ":"],
    { version := "", newSymbols := some [], bitTiming := some {} }, by decide, rfl, by decide,
    by decide, ?_⟩
  rw [C08_write_parse false _ (by decide)]
  intro h
  injection h with h
  have : (norm false { version := "", newSymbols := some [], bitTiming := some {} }).version =
      "" := by rw [h]
  exact absurd this (by decide)

theorem C08_idem_needs_newSymbols :
    ∃ (ts : List Token) (f : File), TokensWF ts ∧ parseToks false ts = .ok f ∧
      f.version ≠ "" ∧ f.bitTiming ≠ none ∧
      parseToks false (writeToks false f) ≠ .ok f := by
  refine ⟨[.keyword "VERSION", .string "1", .keyword "BS_", .punct ":"],
    { version := "1", bitTiming := some {} }, by decide, rfl, by decide, by decide, ?_⟩
  rw [C08_write_parse false _ (by decide)]
  intro h
  injection h with h
  have : (norm false { version := "1", bitTiming := some {} }).newSymbols = none := by rw [h]
  exact absurd this (by decide)

theorem C08_idem_needs_bitTiming :
    ∃ (ts : List Token) (f : File), TokensWF ts ∧ parseToks false ts = .ok f ∧
      f.version ≠ "" ∧ f.newSymbols ≠ none ∧
      parseToks false (writeToks false f) ≠ .ok f := by
  refine ⟨[.keyword "VERSION", .string "1", .keyword "NS_", .punct ":"],
    { version := "1", newSymbols := some [] }, by decide, rfl, by decide, by decide, ?_⟩
  rw [C08_write_parse false _ (by decide)]
  intro h
  injection h with h
  have : (norm false { version := "1", newSymbols := some [] }).bitTiming = none := by rw [h]
  exact absurd this (by decide)

/-! ## D44 -/

/-- KNOWN DEFECT D44: the version clause of the full property ("the same … values") is violated —
a well-formed document with an empty version comes back with version `"_"` (both modes). -/
theorem C08_D44_witness (h : Bool) :
    ∃ f g : File, DbcWF h f ∧ f.version = "" ∧
      parseToks h (writeToks h f) = .ok g ∧ g.version = "_" ∧ g ≠ f := by
  refine ⟨{ nodes := some [] }, norm h { nodes := some [] }, by cases h <;> decide, rfl,
    C08_write_parse h _ (by cases h <;> decide), by cases h <;> rfl, ?_⟩
  intro e
  have : (norm h { nodes := some [] }).version = "" := by rw [e]
  exact absurd this (by cases h <;> decide)

/-! ## non-vacuity: a document that uses every section -/

def exampleFile : File :=
  { version := "1.0"
    newSymbols := some ["NS_DESC_", "CM_", "BA_DEF_", "SG_MUL_VAL_"]
    bitTiming := some { baudrate := 500000, bitTimingReg1 := 1, bitTimingReg2 := 10 }
    nodes := some ["ECU1", "ECU2"]
    valueTables := [{ name := "VT_State", values := [{ id := 0, name := "off" }, { id := 1, name := "on" }] }]
    messages :=
      [{ id := 256, name := "Msg1", size := 8, transmitter := "ECU1",
         signals :=
           [{ name := "Mux", isMultiplexor := true, size := 4, startBit := 0, factor := "1",
              offset := "0", min := "0", max := "15", unit := "", receivers := ["ECU2"] },
            { name := "SigA", isMultiplexed := true, muxSwitchValue := 1, size := 8, startBit := 8,
              byteOrder := .bigEndian, valueType := .signed, factor := "0.5", offset := "-10",
              min := "-10", max := "117.5", unit := "degC", receivers := ["ECU2", "ECU1"] },
            { name := "SigB", isMultiplexed := true, isMultiplexor := true, muxSwitchValue := 2,
              size := 8, startBit := 16, factor := "1", offset := "0", min := "0",
              max := "4294967295", unit := "", receivers := ["Vector__XXX"] }] },
       { id := 4294967295, name := "Msg2", size := 0, transmitter := "Vector__XXX", signals := [] }]
    messageTransmitters := [{ messageID := 256, transmitters := ["ECU1", "ECU2"] }]
    envVars :=
      [{ name := "EnvA", type := .float, min := "0", max := "100", unit := "V",
         initialValue := "5", id := 1, accessType := .v8001, accessNodes := ["ECU1", "ECU2"] }]
    envVarDatas := [{ envVarName := "EnvA", dataSize := 8 }]
    signalTypes :=
      [{ typeName := "Type1", size := 8, factor := "1", offset := "0", min := "0", max := "255",
         unit := "", defaultValue := "0", valueTableName := "VT_State" }]
    comments :=
      [{ kind := .general, text := "a network" },
       { kind := .node, text := "a node", nodeName := "ECU1" },
       { kind := .message, text := "a message", messageID := 256 },
       { kind := .signal, text := "a signal", messageID := 256, signalName := "SigA" },
       { kind := .envVar, text := "a variable", envVarName := "EnvA" }]
    attributes :=
      [{ kind := .general, type := .int, name := "AttI", minInt := -9223372036854775808,
         maxInt := 9223372036854775807 },
       { kind := .node, type := .hex, name := "AttH", minHex := 0, maxHex := 4294967295 },
       { kind := .message, type := .float, name := "AttF", minFloat := "-1.5", maxFloat := "1000" },
       { kind := .signal, type := .string, name := "AttS" },
       { kind := .envVar, type := .enum, name := "AttE", enumValues := ["a", "b c"] }]
    attributeDefaults :=
      [{ type := .int, attributeName := "AttI", valueInt := -5 },
       { type := .hex, attributeName := "AttH", valueHex := 255 },
       { type := .float, attributeName := "AttF", valueFloat := "2.5" },
       { type := .float, attributeName := "AttF", valueFloat := "3" },
       { type := .float, attributeName := "AttF", valueFloat := "100000000000000000000" },
       { type := .string, attributeName := "AttS", valueString := "x y" }]
    attributeValues :=
      [{ attributeKind := .general, type := .int, attributeName := "AttI", valueInt := 7 },
       { attributeKind := .node, type := .hex, attributeName := "AttH", nodeName := "ECU1",
         valueHex := 48879 },
       { attributeKind := .message, type := .float, attributeName := "AttF", messageID := 256,
         valueFloat := "-0" },
       { attributeKind := .signal, type := .string, attributeName := "AttS", messageID := 256,
         signalName := "SigA", valueString := "s" },
       { attributeKind := .envVar, type := .int, attributeName := "AttE", envVarName := "EnvA",
         valueInt := 1 }]
    valueEncodings :=
      [{ kind := .signal, messageID := 256, signalName := "SigA",
         values := [{ id := 0, name := "cold" }, { id := 255, name := "hot" }] },
       { kind := .envVar, envVarName := "EnvA", values := [{ id := 1, name := "one" }] }]
    signalTypeRefs := [{ typeName := "Type1", messageID := 256, signalName := "SigA" }]
    signalGroups :=
      [{ messageID := 256, groupName := "Grp", repetitions := 1, signalNames := ["SigA", "SigB"] }]
    signalExtValueTypes := [{ messageID := 256, signalName := "SigA", extValueType := .double }]
    extendedMuxes :=
      [{ messageID := 256, multiplexorName := "Mux", multiplexedName := "SigA",
         ranges := [{ from_ := 1, to := 1 }, { from_ := 3, to := 7 }] }] }

/-- the example is well formed in both modes -/
example : DbcWF false exampleFile ∧ DbcWF true exampleFile := by decide

/-- the theorem instantiates on it -/
example : parseToks false (writeToks false exampleFile) = .ok (norm false exampleFile) :=
  C08_write_parse false exampleFile (by decide)

example : parseToks true (writeToks true exampleFile) = .ok (norm true exampleFile) :=
  C08_write_parse true exampleFile (by decide)

-- and, independently of the theorem, the model computes the same (kernel evaluation)
set_option maxRecDepth 20000 in
example :
    (match parseToks false (writeToks false exampleFile) with
     | .ok g => decide (g = norm false exampleFile)
     | .error _ => false) = true := by decide

/-- `norm` re-tags on the example: decimal mode reads the `hex` default 255 as an `int`, the
integral floats `3` and `-0` as `int`s, keeps `2.5` and the 21-digit float -/
example :
    (norm false exampleFile).attributeDefaults.map (fun d => (d.type, d.valueInt, d.valueFloat)) =
      [(.int, -5, "0"), (.int, 255, "0"), (.float, 0, "2.5"), (.int, 3, "0"),
       (.float, 0, "100000000000000000000"), (.string, 0, "0")] := by decide

/-- in hex-number mode the `hex` default stays `hex` -/
example :
    (norm true exampleFile).attributeDefaults.map (fun d => (d.type, d.valueHex)) =
      [(.int, 0), (.hex, 255), (.float, 0), (.int, 0), (.float, 0), (.string, 0)] := by decide

end Acme.Props.C08
