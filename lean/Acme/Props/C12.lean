/-
C12 (the part that is decision logic and constant tables; the field-for-field round trip
through the protobuf library is observed by stream `saveload`, see DESIGN.md).

1. `SaveNetwork` writes exactly the requested encodings, in the order wire, JSON, text, up
   to the first requested encoding whose writer is missing, and names that writer.
2. Every enumeration the saver maps to a schema constant is mapped back to the same
   constant by the loader.  The tables are REGENERATED from saver.go / loader.go on every
   run (Acme.Gen.EnumMaps); the theorem is re-checked against them.
-/
import Acme.Core.SaveSel
import Acme.Gen.EnumMaps
import Acme.Gen.ProtoFields

namespace Acme.Props.C12
open Acme.SaveSel

def has (hw hj ht : Bool) : Enc → Bool
  | .wire => hw | .json => hj | .text => ht

def writerName : Enc → String
  | .wire => "wWire" | .json => "wJSON" | .text => "wText"

/-- the full statement: what is written is the longest prefix of the requested encodings
    whose writers exist; the error names the first requested encoding without a writer -/
theorem C12_select (enc : Nat) (hw hj ht : Bool) :
    saveSelect enc hw hj ht =
      ((requested enc).takeWhile (has hw hj ht),
       ((requested enc).find? (fun e => !has hw hj ht e)).map writerName) := by
  unfold saveSelect requested
  simp only [Nat.div_one]
  by_cases h1 : enc % 2 = 1 <;> by_cases h2 : enc / 2 % 2 = 1 <;> by_cases h4 : enc / 4 % 2 = 1 <;>
    cases hw <;> cases hj <;> cases ht <;> simp [h1, h2, h4, has, writerName, List.takeWhile, List.find?]

/-- all requested writers present: exactly the requested encodings are written, no error -/
theorem C12_select_ok (enc : Nat) (hw hj ht : Bool)
    (h : ∀ e ∈ requested enc, has hw hj ht e = true) :
    saveSelect enc hw hj ht = (requested enc, none) := by
  rw [C12_select]
  revert h
  unfold requested
  simp only [Nat.div_one]
  by_cases h1 : enc % 2 = 1 <;> by_cases h2 : enc / 2 % 2 = 1 <;> by_cases h4 : enc / 4 % 2 = 1 <;>
    cases hw <;> cases hj <;> cases ht <;> simp [h1, h2, h4, has, writerName, List.takeWhile, List.find?]

/-- nothing that was not requested, or that has no writer, is ever written -/
theorem C12_select_sub (enc : Nat) (hw hj ht : Bool) :
    ∀ e ∈ (saveSelect enc hw hj ht).1, e ∈ requested enc ∧ has hw hj ht e = true := by
  rw [C12_select]
  unfold requested
  simp only [Nat.div_one]
  by_cases h1 : enc % 2 = 1 <;> by_cases h2 : enc / 2 % 2 = 1 <;> by_cases h4 : enc / 4 % 2 = 1 <;>
    cases hw <;> cases hj <;> cases ht <;> simp [h1, h2, h4, has, writerName, List.takeWhile, List.find?]

/-- a requested encoding without a writer is refused -/
theorem C12_select_missing (enc : Nat) (hw hj ht : Bool) (e : Enc)
    (he : e ∈ requested enc) (hn : has hw hj ht e = false) :
    (saveSelect enc hw hj ht).2 ≠ none := by
  rw [C12_select]
  revert he hn
  unfold requested
  simp only [Nat.div_one]
  by_cases h1 : enc % 2 = 1 <;> by_cases h2 : enc / 2 % 2 = 1 <;> by_cases h4 : enc / 4 % 2 = 1 <;>
    cases hw <;> cases hj <;> cases ht <;> cases e <;> simp [h1, h2, h4, has, writerName, List.takeWhile, List.find?]

/-- the bit set decodes as documented -/
theorem C12_requested (enc : Nat) (e : Enc) :
    e ∈ requested enc ↔
      (e = .wire ∧ enc % 2 = 1) ∨ (e = .json ∧ enc / 2 % 2 = 1) ∨ (e = .text ∧ enc / 4 % 2 = 1) := by
  unfold requested
  by_cases h1 : enc % 2 = 1 <;> by_cases h2 : enc / 2 % 2 = 1 <;> by_cases h4 : enc / 4 % 2 = 1 <;>
    cases e <;> simp [h1, h2, h4, Nat.div_one]

/-- premises satisfiable / non-trivial instance -/
example : saveSelect 7 true false true = ([.wire], some "wJSON") := by decide
example : saveSelect 5 true false true = ([.wire, .text], none) := by decide

/-- enum tables regenerated from saver.go and loader.go: each of these saver switches has a
    loader switch that maps every constant it writes back to the constant it came from -/
theorem C12_enum_tables :
    invertedTables Acme.Gen.saverMaps Acme.Gen.loaderMaps =
      ["saver.saveCANIDBuilderOp: switch builderOp.kind",
       "saver.saveMessage: switch msg.priority",
       "saver.saveMessage: switch msg.byteOrder",
       "saver.saveMessage: switch msg.sendType",
       "saver.saveSignal: switch sig.SendType()",
       "saver.saveSignalType: switch sigType.kind",
       "saver.saveSignalUnit: switch sigUnit.kind"] := by decide

/-- what `invertedTables` listing a table means -/
theorem invertedTables_sound (savers loaders : List (String × Table)) (name : String)
    (h : name ∈ invertedTables savers loaders) :
    ∃ s ∈ savers, s.1 = name ∧ ∃ l ∈ loaders, ∀ p ∈ s.2, lookup l.2 p.2 = some p.1 := by
  unfold invertedTables at h
  rw [List.mem_filterMap] at h
  obtain ⟨s, hs, hv⟩ := h
  refine ⟨s, hs, ?_⟩
  split at hv
  · rename_i l hl
    split at hv
    · rename_i hi
      refine ⟨by simpa using hv, l, List.mem_of_find?_eq_some hl, ?_⟩
      intro p hp
      have := List.all_eq_true.1 hi p hp
      simpa using this
    · cases hv
  · cases hv

/-! ### every field of the schema is written by the saver and read back by the loader

`Acme.Gen.schemaFields / savedFields / loadedFields` are REGENERATED from the generated schema
package, saver.go and loader.go on every run.  A field the saver stops writing, a field the
loader stops reading (or reconstructs from something else), or a new schema field that neither
touches, changes these lists and breaks the theorem. -/

/-- fields that are written but deliberately not read back, with the reason -/
def savedNotLoaded : List ((String × String) × String) := [
  (("AttributeAssignment", "EntityId"), "id of the owning entity: the assignment is nested in its owner, the loader assigns to that owner"),
  (("Entity", "EntityKind"), "the loader passes the kind that the position in the tree implies (loadEntity(_, kind))")
]

theorem C12_fields :
    Acme.Gen.savedFields = Acme.Gen.schemaFields ∧
    Acme.Gen.loadedFields = Acme.Gen.savedFields.filter (fun p => !(savedNotLoaded.map (·.1)).contains p) := by
  decide

/-- the inventory is about the real schema: a few of its fields -/
example : ("Message", "StaticCanId") ∈ Acme.Gen.loadedFields ∧ ("SignalType", "Min") ∈ Acme.Gen.loadedFields ∧
    ("MultiplexerSignal", "Groups") ∈ Acme.Gen.savedFields := by decide

end Acme.Props.C12
