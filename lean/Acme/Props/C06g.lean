/-
C06 (graph part) — rejected operations change nothing and fail for the documented reason.

  Any mutating call that returns an error leaves every observable property of the whole
  model exactly as it was before the call.  A call is refused exactly when its documented
  precondition is violated, and the returned error exposes the documented cause.  No
  mutating call panics.

Here: the container / registry / reference graph (networks, buses, nodes, node
interfaces, messages without signals, CAN-ID builders, attributes, signal types / units).
Model: Acme.Core.Graph (tied to the code by the harness stream `graph`).
Spec: Acme.Spec.Graph.  Lemmas: Acme.Proofs.GraphAtomic, Acme.Proofs.GraphCause.
-/
import Acme.Spec.Graph
import Acme.Proofs.GraphAtomic
import Acme.Proofs.GraphCause

namespace Acme.Props.C06g
open Acme.Graph

/-- an operation answering `err c` returns the world it was given — for EVERY world and
operation (literal equality of the model state) -/
theorem C06g_atomic (g : G) (op : Op) (c : Cause) (h : (step g op).2 = .err c) : (step g op).1 = g :=
  step_err g op c h

/-- an operation outside the model (`unsupported`) returns the world it was given -/
theorem C06g_unsupported_unchanged (g : G) (op : Op) (h : (step g op).2 = .unsupported) : (step g op).1 = g :=
  step_uns g op h

/-- no operation of the graph model answers `panic`, in any world -/
theorem C06g_nopanic_any (g : G) (op : Op) : (step g op).2 ≠ .panic := step_np g op

/-- in particular: no admissible operation panics in a reachable world -/
theorem C06g_nopanic {g : G} (_ : Reach g) {op : Op} (_ : OpOK g op) : (step g op).2 ≠ .panic :=
  C06g_nopanic_any g op

/-! ### the decision logic, stated outright (see `Acme.Proofs.GraphCause` for the wording of
each documented precondition) -/

theorem C06g_cause_iff_netAddBus (g : G) (n b : Nat) (c : Cause) :
    (step g (.netAddBus n b)).2 = .err c ↔
      g.nets.get n ≠ none ∧
      ((g.buses.get b = none ∧ c = .nil) ∨
       (∃ nm, busName g.buses b = some nm ∧ busParent g.buses b = none ∧
          (netBusNames g.nets n).get nm ≠ none ∧ c = .duplicated)) := cause_netAddBus g n b c

theorem C06g_cause_iff_busRename (g : G) (b : Nat) (name : String) (c : Cause) :
    (step g (.busRename b name)).2 = .err c ↔
      c = .duplicated ∧ ∃ cur n, busName g.buses b = some cur ∧ cur ≠ name ∧ busParent g.buses b = some n ∧
        (netBusNames g.nets n).get name ≠ none := cause_busRename g b name c

theorem C06g_cause_iff_busAddIface (g : G) (b i : Nat) (c : Cause)
    (hnd : ∀ bus ifc, g.buses.get b = some bus → g.ifaces.get i = some ifc →
      ¬ (sendsTooBig g ifc ∧ sendsClash g bus ifc)) :
    (step g (.busAddIface b i)).2 = .err c ↔
      ∃ bus, g.buses.get b = some bus ∧
        ((g.ifaces.get i = none ∧ c = .nil) ∨
         ∃ ifc, g.ifaces.get i = some ifc ∧ ifc.parentBus = none ∧
           ((bus.nodeNames.get (nodeNameC g.nodes ifc.node) ≠ none ∧ c = .duplicated) ∨
            (bus.nodeNames.get (nodeNameC g.nodes ifc.node) = none ∧
               bus.nodeIDs.get (nodeNidC g.nodes ifc.node) ≠ none ∧ c = .duplicated) ∨
            (bus.nodeNames.get (nodeNameC g.nodes ifc.node) = none ∧
               bus.nodeIDs.get (nodeNidC g.nodes ifc.node) = none ∧ sendsTooBig g ifc ∧ c = .tooBig) ∨
            (bus.nodeNames.get (nodeNameC g.nodes ifc.node) = none ∧
               bus.nodeIDs.get (nodeNidC g.nodes ifc.node) = none ∧ sendsClash g bus ifc ∧ c = .duplicated))) :=
  cause_busAddIface g b i c hnd

theorem C06g_cause_iff_ifaceAddSent (g : G) (i m : Nat) (c : Cause) :
    (step g (.ifaceAddSent i m)).2 = .err c ↔
      ∃ ifc, g.ifaces.get i = some ifc ∧
        ((g.msgs.get m = none ∧ c = .nil) ∨
         ∃ msg, g.msgs.get m = some msg ∧ msg.sender = none ∧
           ((ifc.received.get m ≠ none ∧ c = .receiverIsSender) ∨
            (ifc.received.get m = none ∧ ifc.sentNames.get msg.name ≠ none ∧ c = .duplicated) ∨
            (ifc.received.get m = none ∧ ifc.sentNames.get msg.name = none ∧
               (∃ b, ifc.parentBus = some b ∧ g.buses.get b ≠ none) ∧ 8 < msg.sizeByte ∧ c = .tooBig) ∨
            (ifc.received.get m = none ∧ ifc.sentNames.get msg.name = none ∧
               ¬ ((∃ b, ifc.parentBus = some b ∧ g.buses.get b ≠ none) ∧ 8 < msg.sizeByte) ∧
               ((∃ cid, msg.static = some cid ∧
                   (ifc.sentStatic.get cid ≠ none ∨
                    ∃ b, ifc.parentBus = some b ∧ (busStaticIDs g.buses b).get cid ≠ none)) ∨
                (msg.static = none ∧ ifc.sentIDs.get msg.mid ≠ none)) ∧
               c = .duplicated))) := cause_ifaceAddSent g i m c

theorem C06g_cause_iff_msgRename (g : G) (m : Nat) (name : String) (c : Cause) :
    (step g (.msgRename m name)).2 = .err c ↔
      c = .duplicated ∧ ∃ cur i, msgName g.msgs m = some cur ∧ cur ≠ name ∧ msgSender g.msgs m = some i ∧
        (ifaceSentNames g.ifaces i).get name ≠ none := cause_msgRename g m name c

theorem C06g_cause_iff_msgSetId (g : G) (m mid : Nat) (c : Cause) :
    (step g (.msgSetId m mid)).2 = .err c ↔
      c = .duplicated ∧ ∃ i, msgSender g.msgs m = some i ∧
        ¬ (msgMid g.msgs m = some mid ∧ msgStatic g.msgs m = none) ∧
        (ifaceSentIDs g.ifaces i).get mid ≠ none := cause_msgSetId g m mid c

theorem C06g_cause_iff_msgSetStatic (g : G) (m cid : Nat) (c : Cause) :
    (step g (.msgSetStatic m cid)).2 = .err c ↔
      c = .duplicated ∧ ∃ i, msgSender g.msgs m = some i ∧
        ((ifaceSentStatic g.ifaces i).get cid ≠ none ∨
         ∃ b, ifaceBus g.ifaces i = some b ∧ (busStaticIDs g.buses b).get cid ≠ none) :=
  cause_msgSetStatic g m cid c

theorem C06g_cause_iff_msgResize (g : G) (m : Nat) (k : Int) (c : Cause) :
    (step g (.msgResize m k)).2 = .err c ↔
      ∃ msg, g.msgs.get m = some msg ∧
        ((k < 0 ∧ c = .negative) ∨
         (0 ≤ k ∧ msg.sizeByte ≠ k ∧ 8 < k ∧ (∃ i b, msg.sender = some i ∧ ifaceBus g.ifaces i = some b) ∧
            c = .tooBig)) := cause_msgResize g m k c

theorem C06g_cause_iff_nodeRename (g : G) (n : Nat) (name : String) (c : Cause) :
    (step g (.nodeRename n name)).2 = .err c ↔
      c = .duplicated ∧ ∃ nd, g.nodes.get n = some nd ∧ nd.name ≠ name ∧
        ∃ b, b ∈ attachedBuses g nd.ifaces ∧ (busNodeNames g.buses b).get name ≠ none :=
  cause_nodeRename g n name c

theorem C06g_cause_iff_nodeSetId (g : G) (n nid : Nat) (c : Cause) :
    (step g (.nodeSetId n nid)).2 = .err c ↔
      c = .duplicated ∧ ∃ nd, g.nodes.get n = some nd ∧ nd.nid ≠ nid ∧
        ∃ b, b ∈ attachedBuses g nd.ifaces ∧ (busNodeIDs g.buses b).get nid ≠ none :=
  cause_nodeSetId g n nid c

theorem C06g_cause_iff_nodeRemoveIface {g : G} (hr : Reach g) (n : Nat) (k : Int) (c : Cause) :
    (step g (.nodeRemoveIface n k)).2 = .err c ↔
      ∃ nd, g.nodes.get n = some nd ∧
        ((k < 0 ∧ c = .negative) ∨ (0 ≤ k ∧ nd.ifaceCount ≤ k ∧ c = .outOfBounds)) :=
  cause_nodeRemoveIface (Inv_reach hr) n k c

theorem C06g_cause_iff_assign (g : G) (k : EKind) (x a : Nat) (v : AVal) (c : Cause) :
    (step g (.assign k x a v)).2 = .err c ↔
      getAttrs g k x ≠ none ∧
      ((g.attrs.get a = none ∧ c = .nil) ∨
       (∃ att, g.attrs.get a = some att ∧ valueError v att.kind = some c)) := cause_assign g k x a v c

end Acme.Props.C06g
