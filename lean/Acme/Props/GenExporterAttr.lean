/-
The GENERATED attribute functions of the exporter (Acme.Gen.X.exportsAsHex / exportAttribute /
exportAttributeAssignment, translated from exporter.go) against the hand model Acme.Attr, and the
round trip C11Attr.attrs_roundtrip_partial restated about them.  The caller (`driveItem`) is
hand-written, see Acme/Proofs/GenExporterAttrDefs.lean.
-/
import Acme.Proofs.GenExporterAttr4
import Acme.Props.C11Attr

namespace Acme.Props.GenExporterAttr
open Acme.Attr Acme.XSem Acme.GenX Acme.Gen

theorem X_attr_u32 (i : Int) : Acme.XSem.u32 i = Acme.Attr.u32 i := Acme.GenX.X_attr_u32 i

theorem X_exportsAsHex (n : String) (d mn mx : Int) (hex : Bool) :
    X.exportsAsHex { name := n, defValue := d, min := mn, max := mx, isHexFormat := hex } =
      Acme.Attr.exportsAsHex hex mn mx := X_attr_exportsAsHex n d mn mx hex

/-- `exportAttribute`: one definition and one default, those of the hand model -/
theorem X_exportAttribute (k : Kind) (a : AttrDef) (st : Acme.XSem.St) :
    ∃ d dd, X.exportAttribute id (viewAttr a) { kind := kindOf k } st =
        { st with attributes := st.attributes ++ [d], attributeDefaults := st.attributeDefaults ++ [dd] } ∧
      dattrOf d = (exportDef k a).1 ∧ ddefaultOf dd = (exportDef k a).2 :=
  X_attr_exportAttribute k a st

/-- one assignment, for any state whose four name sets hold `seen` (`attr_Inv`): the call does not
    panic; the value has the form of the hand model (`attr_target`: the kind set by the call with
    the object fields of the caller; equal to `it.target` for every item of `items A`,
    `attr_items_cons`); the name sets are updated; a definition and its default are appended iff
    the name was not yet in the set of the kind -/
theorem X_exportAttributeAssignment (it : Item) (ht : Typed it.asg) (hk : it.kind ≠ .envVar)
    (tv : DbcAttributeValue) (st : Acme.XSem.St) (seen : List (Kind × String)) (hinv : attr_Inv seen st) :
    ∃ v st', X.exportAttributeAssignment id (viewAsg it.asg) (kindOf it.kind) tv st = .val (v, st') ∧
      dvalueOf v = ⟨it.asg.att.name, attr_target it.kind tv, exportVal it.asg.att.ty it.asg.val⟩ ∧
      attr_Inv ((it.kind, it.asg.att.name) :: seen) st' ∧
      st'.attributeValues = st.attributeValues ∧
      st'.attributes.map dattrOf = st.attributes.map dattrOf ++
        (if seen.contains (it.kind, it.asg.att.name) then [] else [(exportDef it.kind it.asg.att).1]) ∧
      st'.attributeDefaults.map ddefaultOf = st.attributeDefaults.map ddefaultOf ++
        (if seen.contains (it.kind, it.asg.att.name) then [] else [(exportDef it.kind it.asg.att).2]) :=
  X_attr_exportAttributeAssignment it ht hk tv st seen hinv

/-- with the caller's object fields: the written value is `exportItem it` -/
theorem X_exportAttributeAssignment_item (A : ModelAttrs) (it : Item) (hi : it ∈ items A) :
    it.kind ≠ .envVar ∧ attr_target it.kind (targetVal it.target) = it.target :=
  attr_items_cons A it hi

/-- the generated exportAttributeAssignment / exportAttribute, driven over the items of ANY model,
    never panic and write exactly the definitions, defaults and values of the hand model -/
theorem X_exportAttrs (A : ModelAttrs) (h : AllTyped A) :
    ∃ st : Acme.XSem.St, driveItems (items A) {} = .val st ∧
      st.attributes.map dattrOf = (exportAttrs A).defs ∧
      st.attributeDefaults.map ddefaultOf = (exportAttrs A).defaults ∧
      st.attributeValues.map dvalueOf = (exportAttrs A).values :=
  X_attr_exportAttrs A h

/-- C11Attr.attrs_roundtrip_partial about the GENERATED functions -/
theorem X_attrs_roundtrip (A : ModelAttrs) (wf : AttrWF A) (ll : Lossless A) (ht : AllTyped A) :
    ∃ st : Acme.XSem.St, driveItems (items A) {} = .val st ∧
      importAttrs { keys := A.ents.map Ent.key, defs := st.attributes.map dattrOf,
                    defaults := st.attributeDefaults.map ddefaultOf,
                    values := st.attributeValues.map dvalueOf } = .ok (normA A) := by
  obtain ⟨st, hr, h1, h2, h3⟩ := X_exportAttrs A ht
  refine ⟨st, hr, ?_⟩
  rw [h1, h2, h3]
  exact Acme.Props.C11Attr.attrs_roundtrip_partial A wf ll

end Acme.Props.GenExporterAttr
