/-
C19 — Interval tree behaves as an ordered set with exact overlap queries.

  After any sequence of inserts (inverted intervals are ignored), deletes and clears,
  the interval tree reports the size and the ascending-by-low contents of the
  corresponding multiset, stays height-balanced, and keeps a correct subtree maximum
  at every node.  Whenever the stored intervals are pairwise disjoint its intersection
  query, and its can-update query that disregards the interval being updated, answer
  exactly as a brute-force scan of the contents would.

Model: Acme.Core.Avl (mirror of /repo/internal/interval_bst.go).
Only statements and short proofs live here; lemmas are in Acme.Proofs.Avl.
-/
import Acme.Core.Avl
import Acme.Spec.Avl
import Acme.Proofs.Avl

namespace Acme.Props.C19
open Acme.Avl

/-! ### Theorems (every history; no bound on length or coordinates) -/

/-- No mutator ever dereferences nil (the model's `none`), and after every history the
    tree is a search tree ordered by (low, high), every stored height is the true height,
    every node is balanced (|bf| ≤ 1), every stored max is the true subtree maximum,
    the size counter equals the number of nodes, and the in-order contents are a
    permutation of the abstract multiset. -/
theorem C19_history (ops : List Op) :
    ∃ t, run {} ops = some t ∧ Inv t.root ∧ t.size = (inorder t.root).length ∧
      (inorder t.root).Perm (specRun [] ops) :=
  Acme.Avl.run_spec ops

/-- The contents are reported in ascending order by low (ties by high). -/
theorem C19_sorted (ops : List Op) (t : Bst) (h : run {} ops = some t) :
    (inorder t.root).Pairwise (fun a b => a.1 < b.1 ∨ (a.1 = b.1 ∧ a.2 ≤ b.2)) :=
  Acme.Avl.run_sorted ops t h

/-- Intersection query = brute-force scan, whenever the contents are pairwise disjoint
    proper intervals. -/
theorem C19_intersects (ops : List Op) (t : Bst) (h : run {} ops = some t)
    (hd : (inorder t.root).Pairwise (fun a b => a.2 < b.1 ∨ b.2 < a.1))
    (lo hi : Int) :
    intersects t lo hi = anyOverlap (inorder t.root) lo hi :=
  Acme.Avl.intersects_exact ops t h hd lo hi

/-- Can-update query = brute-force scan over the other intervals. -/
theorem C19_canUpdate (ops : List Op) (t : Bst) (h : run {} ops = some t)
    (hd : (inorder t.root).Pairwise (fun a b => a.2 < b.1 ∨ b.2 < a.1))
    (slo shi : Int) (hs : (slo, shi) ∈ inorder t.root) (lo hi : Int) :
    canUpdate t slo shi lo hi = !(anyOtherOverlap (inorder t.root) slo shi lo hi) :=
  Acme.Avl.canUpdate_exact ops t h hd slo shi hs lo hi

/-! ### Non-vacuity: a concrete history with a two-children delete and equal lows -/

def sampleOps : List Op :=
  [.insert 5 9, .insert 3 4, .insert 3 3, .insert 10 12, .insert 7 2, .insert 0 1,
   .insert 20 30, .delete 5 9, .delete 3 4, .insert 13 14]

example : (run {} sampleOps).map (fun t => (inorder t.root, t.size)) =
    some ([(0,1),(3,3),(10,12),(13,14),(20,30)], 5) := by decide

example : ∃ t, run {} sampleOps = some t ∧
    (inorder t.root).Pairwise (fun a b => a.2 < b.1 ∨ b.2 < a.1) := by
  refine ⟨_, rfl, ?_⟩; decide

end Acme.Props.C19
