/-
C16 — Human-readable exports succeed and list every entity.

  For every well-formed network, Markdown export and the String renderings complete without
  error or panic.  The Markdown document has one section per bus, node interface and message,
  one table row per signal at every multiplexing depth carrying its name, start bit and size,
  every table row has as many cells as its header, and every referenced type, unit and enum is
  listed exactly once in its appendix.

The statements are about `Acme.Md.exportToMarkdown` (`Acme.Core.Md`), the model of the structure
of `md_exporter.go`: headings, tables, the cells of every row and the three collector maps.  They
hold for EVERY input of the model's input type (`Net`: any list of buses / node interfaces /
messages, any signal trees — nested multiplexers, empty groups, messages without signals, enums
without values; no well-formedness premise is needed).  The model is tied to the code by the
stream `md` of the harness: the real `ExportToMarkdown` output is parsed back into headings and
table cells and compared, cell by cell, with what the model prints for the same network.
Outside the model: the rendering of the tables by the Markdown library (trusted; the harness
oracle `c16-text-breaks-table` shows that texts containing `|` or a line break are NOT rendered
as one row — a finding about the code, recorded by the stream), the paragraph texts, and the
`String()` renderings (exercised under `recover` by the same stream, no model).
-/
import Acme.Core.Md
import Acme.Spec.Md
import Acme.Proofs.Md

namespace Acme.Props.C16
open Acme.Md

/-- Every row of every table of the document has exactly as many cells as the header of its
    table: 8 for the signal table of a message, 9 / 4 / 3 for the appendix tables of signal types /
    signal units / the values of a signal enum; there is no other kind of table. -/
theorem C16_row_width (n : Net) :
    (∀ hdr rows, Item.table hdr rows ∈ exportNetwork n →
      (hdr = sigHeader ∨ hdr = typeHeader ∨ hdr = unitHeader ∨ hdr = valueHeader) ∧
      ∀ r ∈ rows, r.length = hdr.length) ∧
    sigHeader.length = 8 ∧ typeHeader.length = 9 ∧ unitHeader.length = 4 ∧ valueHeader.length = 3 ∧
    -- the rows the exporter produces for a signal tree, whatever the collector state
    (∀ (ss : Sigs) (c : Coll), ∀ r ∈ (exportSigs ss c).1, r.cells.length = 8) :=
  ⟨fun hdr rows h => exportNetwork_ok n (.table hdr rows) h, rfl, rfl, rfl, rfl,
   fun ss c r h => Sigs.rows_width ss r (exportSigs_rows ss c ▸ h)⟩

/-- The rows of a message's table that are not group separators are, in order, exactly the
    signal occurrences of the message's tree at every depth (a signal living in several groups
    occurs once per group), and each carries the occurrence's name, start bit and size in its
    cells 0, 1, 2; the number of separator rows is the total number of groups. -/
theorem C16_row_per_signal (ss : Sigs) (c : Coll) :
    (exportSigs ss c).1.filterMap Row.info = ss.occs ∧
    ((exportSigs ss c).1.filter Row.isSep).length = ss.nGroups ∧
    (∀ r ∈ (exportSigs ss c).1, ∀ name start size, r.info = some (name, start, size) →
      r.isSep = false ∧ r.cells[0]? = some name ∧ r.cells[1]? = some (toString start) ∧
      r.cells[2]? = some (toString size)) ∧
    (∀ r ∈ (exportSigs ss c).1, r.info = none → ∃ g, r = .sep g ∧ r.cells = List.replicate 8 (sepCell g)) := by
  rw [exportSigs_rows]
  refine ⟨Sigs.rows_info ss, Sigs.rows_seps ss, ?_, ?_⟩
  · intro r _ name start size h
    cases r with
    | sig n s z rest =>
      simp only [Row.info, Option.some.injEq, Prod.mk.injEq] at h
      obtain ⟨rfl, rfl, rfl⟩ := h
      simp [Row.isSep, Row.cells]
    | sep g => simp [Row.info] at h
  · intro r _ h
    cases r with
    | sig n s z rest => simp [Row.info] at h
    | sep g => exact ⟨g, rfl, rfl⟩

/-- The table of a message in the document is the rendering of exactly these rows (and a message
    without signals has no table). -/
theorem C16_message_table (n : Net) :
    exportNetwork n = .h 1 n.name :: n.buses.flatMap busItems ++ appendix (collected n) ∧
    ∀ m : Msg, msgItems m =
      if m.sigs.isEmpty then [.h 4 m.name]
      else [.h 4 m.name, .table sigHeader (m.sigs.rows.map Row.cells)] :=
  ⟨exportNetwork_eq n, fun _ => rfl⟩

/-- Each referenced signal type / unit / enum id occurs exactly once in its appendix list and
    nothing else occurs there; the appendix tables / sections of the document are these lists. -/
theorem C16_appendix_once (n : Net) :
    (∀ id, (((collected n).typeList.map (·.id)).count id = if id ∈ n.typeRefs.map (·.id) then 1 else 0)) ∧
    (∀ id, (((collected n).unitList.map (·.id)).count id = if id ∈ n.unitRefs.map (·.id) then 1 else 0)) ∧
    (∀ id, (((collected n).enumList.map (·.id)).count id = if id ∈ n.enumRefs.map (·.id) then 1 else 0)) ∧
    appendix (collected n) =
      [.h 2 "Signal Types", .table typeHeader ((collected n).typeList.map typeRow),
       .h 2 "Signal Units", .table unitHeader ((collected n).unitList.map unitRow),
       .h 2 "Signal Enums"] ++ (collected n).enumList.flatMap exportEnum := by
  rw [collected_eq]
  exact ⟨fun id => listing_once (·.id) typeLe n.typeRefs id,
         fun id => listing_once (·.id) unitLe n.unitRefs id,
         fun id => listing_once (·.id) enumLe n.enumRefs id, rfl⟩

/-- One H2 per bus, under it one H3 per node interface, under it one H4 per message, in the order
    of the input; then the three appendix H2 and one H4 per listed enum. -/
theorem C16_sections (n : Net) :
    headings (exportNetwork n) = (1, n.name) :: n.bodyHeadings ++
      ([(2, "Signal Types"), (2, "Signal Units"), (2, "Signal Enums")] ++
        (collected n).enumList.map (fun e => (4, e.name))) ∧
    headingsAt 2 (exportNetwork n) = n.buses.map (·.name) ++ ["Signal Types", "Signal Units", "Signal Enums"] ∧
    headingsAt 3 (exportNetwork n) = n.buses.flatMap (fun b => b.ifaces.map (·.node)) ∧
    headingsAt 4 (exportNetwork n) = n.msgs.map (·.name) ++ (collected n).enumList.map (·.name) :=
  ⟨headings_exportNetwork n, headingsAt_2 n, headingsAt_3 n, headingsAt_4 n⟩

/-- The export is total and never takes the error outcome: the only failure mode of the Markdown
    library is a row whose width differs from its header (`build`), which `C16_row_width` excludes. -/
theorem C16_total (n : Net) : exportToMarkdown n = .ok (exportNetwork n) :=
  exportToMarkdown_ok n

/-! ## Non-vacuity: a nested multiplexer with an empty group, a message without signals, an enum
without values, two types that tie on size and name -/

def exType (id : String) : TypeRef := { id := id, size := 8, name := "u8" }
def exEnum : EnumRef := { id := "e1", name := "mode" }

/-- `outer` has two groups: group 0 holds `inner` (three groups: a signal, EMPTY, an enum signal
    whose enum has no values), group 1 is EMPTY. -/
def exMux : Sig :=
  .mux "outer" 0 21 "" (.cons
    (.cons (.mux "inner" 1 8 "" (.cons (.cons (.std "a" 3 8 "" (exType "t2") none) .nil)
      (.cons .nil (.cons (.cons (.enm "m" 3 1 "" exEnum) .nil) .nil)))) .nil)
    (.cons .nil .nil))

def exNet : Net :=
  { name := "net", buses := [{ name := "bus", ifaces := [{ node := "node", msgs :=
      [{ name := "empty", sigs := .nil },
       { name := "msg", sigs := .cons exMux (.cons (.std "b" 21 8 "" (exType "t1") none) .nil) }] }] }] }

example : (exportSignal exMux {}).1.map Row.info =
    [some ("outer", 0, 21), none, some ("inner", 1, 8), none, some ("a", 3, 8), none, none,
     some ("m", 3, 1), none] := by decide

example : exMux.occs = [("outer", 0, 21), ("inner", 1, 8), ("a", 3, 8), ("m", 3, 1)] ∧ exMux.nGroups = 5 := by
  decide

example : ((exportSignal exMux {}).1.map Row.cells).map (·.take 3) =
    [["outer", "0", "21"], ["- 0 -", "- 0 -", "- 0 -"], ["inner", "1", "8"], ["- 0 -", "- 0 -", "- 0 -"],
     ["a", "3", "8"], ["- 1 -", "- 1 -", "- 1 -"], ["- 2 -", "- 2 -", "- 2 -"], ["m", "3", "1"],
     ["- 1 -", "- 1 -", "- 1 -"]] := by decide

example : headings (exportNetwork exNet) =
    [(1, "net"), (2, "bus"), (3, "node"), (4, "empty"), (4, "msg"),
     (2, "Signal Types"), (2, "Signal Units"), (2, "Signal Enums"), (4, "mode")] := by decide

/-- the two types tie on (size, name) and are listed in id order; the enum without values has an
    empty value table; the unit table is empty -/
example : (collected exNet).typeList.map (·.id) = ["t1", "t2"] ∧
    (collected exNet).unitList = [] ∧ (collected exNet).enumList.map (·.id) = ["e1"] ∧
    Item.table valueHeader [] ∈ exportNetwork exNet := by decide

example : ∃ d, exportToMarkdown exNet = .ok d ∧ d.length = 13 := ⟨_, C16_total exNet, by decide⟩

/-- The width check is not vacuous: a table with a five-cell row (what the multiplexer row was
    before the repair of D65) makes `build` fail. -/
example : ∃ e, build [.table sigHeader [["`multiplexer`", "0", "2", "-", "-"]]] = .error e := ⟨_, rfl⟩

end Acme.Props.C16
