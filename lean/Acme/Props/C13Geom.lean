/-
C13 — loading untrusted or inconsistent saves fails cleanly: THE GEOMETRY.

`Acme.LoadGeom.loadFull z p = load p >>= loadGeom z` is the loader with the placement the real
`LoadNetwork` performs by re-running the public mutators (`Message.InsertSignal`,
`MultiplexerSignal.InsertSignal`): the structural loader of Core/Save followed by the fold of the
layout kernel's checked insertion (`Acme.Layout.verifyAndInsert`, regenerated from
signal_layout.go: Props/GenKernels `K_verifyBeforeInsert`, `K_layoutInsert`) over the saved
positions.  `z` reads the scalar fields out of the opaque payloads (sizes of types, enums,
messages, multiplexer groups); every theorem holds for EVERY reader and EVERY saved tree.

  * `loadFull_ok_layouts`   a successful load gives, for every message of the loaded network, a
    layout that is well-formed for `sizeByte * 8` (ascending, pairwise disjoint, inside, positive
    sizes) and contains every top-level signal at its saved position with its size, and for every
    multiplexer at every depth one layout per group, each well-formed for the group size;
  * `loadFull_refuses_overlap`, `loadFull_refuses_out_of_payload`,
    `loadFull_refuses_duplicate_in_message`   overlapping positions, a signal behind the payload,
    one signal id listed twice by a message (the gap of the structural model) ⇒ refused;
    `loadFull_overlap_cause` names the cause at the first fault;
  * `loadFull_total`   the answer is a network or one of the causes of the real loader: never the
    kernel's `panic` (an index out of range in the Go code), `zero`, `tooSmall` or `negative`;
  * witnesses by `decide`: each class of refusal is reachable, a nested multiplexed tree loads.

The tie is stream `sv`: `err geom <cause>` of the real loader against `loadGeom`, and the layouts of
the loaded network (read through the public getters) against `GNet`.
-/
import Acme.Core.LoadGeom
import Acme.Spec.Layout
import Acme.Proofs.LoadGeom
import Acme.Proofs.LoadGeomTotal
import Acme.Proofs.LoadGeomDup

namespace Acme.Props.C13Geom
open Acme.Save Acme.Layout Acme.LoadGeom

/-- the invariant of one loaded message `m` with its layouts `g` -/
def MsgLayoutOK (z : Sizes) (t : Tbl) (m : Msg) (g : GMsg) : Prop :=
  g.id = m.e.id ∧ g.cap = (z.msgSize m.e : Int) * 8 ∧
  -- C01's invariant of the message layout
  WF g.cap g.slots ∧
  -- every top-level signal is there, where the save says, with its size
  (∀ j (hj : j < m.sigs.length), (⟨j, (m.sigs[j].2 : Nat), sigSize z t m.sigs[j].1⟩ : Slot) ∈ g.slots) ∧
  -- C07's invariant of every multiplexer inside, at every depth
  (∀ x ∈ g.muxes, 0 < x.gs ∧ x.groups.length = x.gc ∧ ∀ l ∈ x.groups, WF x.gs l) ∧
  -- … and `g.muxes` lists every multiplexer of the message, parents before children
  g.muxes.map (·.id) = m.sigs.flatMap (fun p => sigMuxIds p.1)

theorem loadFull_ok_layouts (z : Sizes) (p : PNet) (g : GNet) (h : loadFull z p = .ok g) :
    load p = .ok g.net ∧ List.Forall₂ (MsgLayoutOK z g.net.t) (allMsgs g.net) g.msgs := by
  obtain ⟨hl, hg⟩ := loadFull_ok h
  refine ⟨hl, ?_⟩
  obtain ⟨_, hms⟩ := loadGeom_ok hg
  exact forall₂_imp (fun m gm hm => by
    obtain ⟨⟨w, x⟩, c, i, s⟩ := msgGeom_wf z g.net.t m gm hm
    exact ⟨i, c, w, s, x, msgGeom_muxIds z g.net.t m gm hm⟩) hms

/-- two top-level signals of one message whose saved ranges overlap: refused -/
theorem loadFull_refuses_overlap (z : Sizes) (p : PNet) (n : Net) (hl : load p = .ok n)
    (m : Msg) (hm : m ∈ allMsgs n) (i j : Nat) (hi : i < m.sigs.length) (hj : j < m.sigs.length) (hij : i ≠ j)
    (hov : (m.sigs[i].2 : Int) < m.sigs[j].2 + sigSize z n.t m.sigs[j].1 ∧
           (m.sigs[j].2 : Int) < m.sigs[i].2 + sigSize z n.t m.sigs[i].1) :
    ∃ e, loadFull z p = .error (.geom e) := by
  rcases loadFull_cases z p n hl with ⟨e, he⟩ | ⟨g, he, hg⟩
  · exact ⟨e, he⟩
  · exfalso
    obtain ⟨hn, hms⟩ := loadGeom_ok hg
    subst hn
    obtain ⟨gm, _, hgm⟩ := forall₂_mem hms m hm
    obtain ⟨⟨w, _⟩, _, _, s⟩ := msgGeom_wf z g.net.t m gm hgm
    have := WFfrom_disjoint w _ (s i hi) _ (s j hj) (by intro h; injection h with h; exact hij h)
    simp only at this
    omega

/-- a top-level signal that ends behind the payload of its message: refused -/
theorem loadFull_refuses_out_of_payload (z : Sizes) (p : PNet) (n : Net) (hl : load p = .ok n)
    (m : Msg) (hm : m ∈ allMsgs n) (j : Nat) (hj : j < m.sigs.length)
    (hout : (z.msgSize m.e : Int) * 8 < m.sigs[j].2 + sigSize z n.t m.sigs[j].1) :
    ∃ e, loadFull z p = .error (.geom e) := by
  rcases loadFull_cases z p n hl with ⟨e, he⟩ | ⟨g, he, hg⟩
  · exact ⟨e, he⟩
  · exfalso
    obtain ⟨hn, hms⟩ := loadGeom_ok hg
    subst hn
    obtain ⟨gm, _, hgm⟩ := forall₂_mem hms m hm
    obtain ⟨⟨w, _⟩, c, _, s⟩ := msgGeom_wf z g.net.t m gm hgm
    have := WFfrom_mem w _ (s j hj)
    simp only at this
    rw [c] at this
    unfold Sizes.msgCap at this
    omega

/-- the cause at the first fault: the signals before are placed, the signal itself is fine inside
    and ends inside the payload, its range meets the range of an earlier one ⇒ `ErrIntersect` on it -/
theorem loadFull_overlap_cause (z : Sizes) (t : Tbl) (mid : Id) (cap : Int)
    (pre : List (Sig × Nat)) (s : Sig) (pos : Nat) (rest : List (Sig × Nat))
    (l : List Slot) (mx : List GMux) (hpre : msgSteps z t mid cap pre 0 [] = .ok (l, mx)) (hcap : 0 ≤ cap)
    (sz : Int) (m1 : List GMux) (hs : sigGeom z t s = .ok (sz, m1)) (hin : (pos : Int) + sz ≤ cap)
    (k : Nat) (hk : k < pre.length)
    (hov : (pos : Int) < pre[k].2 + sigSize z t pre[k].1 ∧ (pre[k].2 : Int) < pos + sz) :
    msgSteps z t mid cap (pre ++ (s, pos) :: rest) 0 [] = .error (.layout .intersect (.msg mid) s.id) :=
  msgSteps_overlap_cause z t mid cap pre s pos rest l mx hpre hcap sz m1 hs hin k hk hov

/-- gap (d) of the structural model: a message of the saved tree that lists one signal id twice is
    refused by the composed loader (structurally or, at the latest, by the layout) -/
theorem loadFull_refuses_duplicate_in_message (z : Sizes) (p : PNet)
    (b : PBus) (hb : b ∈ p.buses) (f : PIface) (hf : f ∈ b.ifaces) (pm : PMsg) (hpm : pm ∈ f.msgs)
    (i j : Nat) (hi : i < pm.sigs.length) (hj : j < pm.sigs.length) (hij : i ≠ j)
    (hid : pm.sigs[i].id = pm.sigs[j].id) :
    ∃ e, loadFull z p = .error e :=
  loadFull_dup z p b hb f hf pm hpm i j hi hj hij hid

/-- the causes of the real loader -/
def RealCause : FullErr → Prop
  | .struct _ => True
  | .geom (.layout c _ _) => c = .outOfBounds ∨ c = .noSpaceLeft ∨ c = .intersect
  | .geom (.typeSize _) => True
  | .geom (.groupSize _) => True

/-- the composed loader answers every saved tree with a network or with a cause of the real loader
    (the functions are structurally recursive: there is no fuel; the kernel's `panic`, `zero`,
    `tooSmall`, `negative` never surface) -/
theorem loadFull_total (z : Sizes) (p : PNet) :
    (∃ g, loadFull z p = .ok g) ∨ ∃ e, loadFull z p = .error e ∧ RealCause e := by
  unfold loadFull
  cases load p with
  | error e => exact .inr ⟨_, rfl, trivial⟩
  | ok n =>
    cases hg : loadGeom z n with
    | ok g => exact .inl ⟨g, by simp only [hg]⟩
    | error e =>
      refine .inr ⟨.geom e, by simp only [hg], ?_⟩
      have := loadGeom_real z n e hg
      cases e with
      | layout c w s => exact this
      | typeSize _ => trivial
      | groupSize _ => trivial

/-! ### witnesses: every class of refusal is reachable, a nested multiplexed tree loads -/

section Witnesses
set_option maxRecDepth 100000

/-- the reader of the examples: sizes by entity id -/
def zEx : Sizes :=
  { typeSize := fun e => if e.id = "t4" then 4 else if e.id = "t8" then 8 else if e.id = "t0" then 0 else 1
    enumMin := fun _ => 0
    enumMax := fun e => if e.id = "e5" then 5 else 0
    msgSize := fun e => if e.id = "m0" then 0 else if e.id = "m1" then 1 else 8
    groupSize := fun e => if e.id = "x" then 12 else if e.id = "y" then 4 else 0 }

def std (id ty : String) : PSig := .mk ⟨id, id, ""⟩ [] 1 (.std ty "")
def enm (id en : String) : PSig := .mk ⟨id, id, ""⟩ [] 2 (.enm en)
def mux (id : String) (gc : Nat) (sigs : List PSig) (fixed : List Id) (groups : List (List (Id × Nat))) : PSig :=
  .mk ⟨id, id, ""⟩ [] 3 (.mux gc sigs fixed groups)

def pmsg (mid : String) (sigs : List PSig) (refs : List (Id × Nat)) : PMsg :=
  { e := ⟨mid, mid, ""⟩, asg := [], mid := 1, staticVal := 0, hasStatic := false
    sigs := sigs, refs := refs, recvs := [] }

def pbus (ms : List PMsg) : PBus :=
  { e := ⟨"b", "b", ""⟩, builder := "", asg := [], ifaces := [⟨"n1", 0, ms⟩] }

def pnet (mid : String) (sigs : List PSig) (refs : List (Id × Nat)) : PNet :=
  { e := ⟨"net", "net", ""⟩, builders := [], units := [], attrs := []
    nodes := [⟨⟨"n1", "node1", ""⟩, 1, 1, []⟩]
    types := [⟨"t4", "t4", ""⟩, ⟨"t8", "t8", ""⟩, ⟨"t1", "t1", ""⟩]
    enums := [⟨"e5", "e5", ""⟩]
    buses := [pbus [pmsg mid sigs refs]] }

def errOf (r : Except FullErr GNet) : Option FullErr :=
  match r with | .error e => some e | .ok _ => none

def layoutsOf (r : Except FullErr GNet) : Option (List (List Slot × List (Id × List (List Slot)))) :=
  match r with
  | .error _ => none
  | .ok g => some (g.msgs.map fun m => (m.slots, m.muxes.map fun x => (x.id, x.groups)))

/-- a nested multiplexed message: a byte, an enum (3 bits), a multiplexer `x` of 2 groups × 12 bits
    (1 selector bit) with a fixed child, a child in both groups and, in group 1, the multiplexer
    `y` (1 group × 4 bits, 1 selector bit); the signals are listed out of position order -/
def good : PNet :=
  pnet "m"
    [mux "x" 2 [std "f" "t4", std "a" "t4", std "c" "t1", mux "y" 1 [std "d" "t4"] [] [[("d", 0)]]] ["f"]
       [[("f", 0), ("a", 4), ("c", 11)], [("f", 0), ("y", 4), ("c", 11)]],
     std "s" "t8", enm "v" "e5"]
    [("s", 0), ("v", 8), ("x", 16)]

example : layoutsOf (loadFull zEx good) =
    some [([⟨1, 0, 8⟩, ⟨2, 8, 3⟩, ⟨0, 16, 13⟩],
           [("x", [[⟨0, 0, 4⟩, ⟨1, 4, 4⟩, ⟨2, 11, 1⟩], [⟨0, 0, 4⟩, ⟨3, 4, 5⟩, ⟨2, 11, 1⟩]]),
            ("y", [[⟨0, 0, 4⟩]])])] := by decide

/-- overlapping positions -/
example : errOf (loadFull zEx (pnet "m" [std "a" "t8", std "b" "t4"] [("a", 0), ("b", 7)])) =
    some (.geom (.layout .intersect (.msg "m") "b")) := by decide
/-- a signal that ends behind the payload / is wider than the payload -/
example : errOf (loadFull zEx (pnet "m" [std "a" "t8"] [("a", 57)])) =
    some (.geom (.layout .noSpaceLeft (.msg "m") "a")) := by decide
example : errOf (loadFull zEx (pnet "m0" [std "a" "t4"] [("a", 0)])) =
    some (.geom (.layout .outOfBounds (.msg "m0") "a")) := by decide
/-- gap (d): one signal id listed twice by a message — accepted by `load`, refused by `loadFull` -/
example : (load (pnet "m" [std "a" "t4", std "a" "t4"] [("a", 0)])).toBool = true ∧
    errOf (loadFull zEx (pnet "m" [std "a" "t4", std "a" "t4"] [("a", 0)])) =
      some (.geom (.layout .intersect (.msg "m") "a")) := by decide
/-- inside a group: overlap, behind the group end; a fixed child against a later group; a child
    copied into a group where its range is taken -/
example : errOf (loadFull zEx (pnet "m" [mux "x" 2 [std "a" "t8", std "b" "t4"] [] [[("a", 0), ("b", 6)], []]] [("x", 0)])) =
    some (.geom (.layout .intersect (.mux "x") "b")) := by decide
example : errOf (loadFull zEx (pnet "m" [mux "x" 2 [std "a" "t8"] [] [[], [("a", 5)]]] [("x", 0)])) =
    some (.geom (.layout .noSpaceLeft (.mux "x") "a")) := by decide
example : errOf (loadFull zEx (pnet "m" [mux "x" 2 [std "f" "t4", std "b" "t4"] ["f"] [[("f", 0)], [("b", 2)]]] [("x", 0)])) =
    some (.geom (.layout .intersect (.mux "x") "b")) := by decide
example : errOf (loadFull zEx (pnet "m" [mux "x" 2 [std "a" "t8", std "b" "t4"] [] [[("a", 0)], [("b", 6), ("a", 0)]]] [("x", 0)])) =
    some (.geom (.layout .intersect (.mux "x") "b")) := by decide
/-- the multiplexer itself is placed with group size + selector bits: 12 + 1 does not fit behind bit 52 -/
example : errOf (loadFull zEx (pnet "m" [mux "x" 2 [] [] [[], []]] [("x", 52)])) =
    some (.geom (.layout .noSpaceLeft (.msg "m") "x")) := by decide
example : (layoutsOf (loadFull zEx (pnet "m" [mux "x" 2 [] [] [[], []]] [("x", 51)]))).isSome = true := by decide
/-- sizes refused before any placement -/
example : errOf (loadFull zEx (pnet "m" [mux "q" 2 [] [] [[], []]] [("q", 0)])) = some (.geom (.groupSize "q")) := by decide
example : errOf (loadFull zEx { pnet "m" [] [] with types := [⟨"t0", "t0", ""⟩] }) = some (.geom (.typeSize "t0")) := by decide
/-- a structural refusal wins -/
example : errOf (loadFull zEx (pnet "m" [std "a" "t8", std "b" "zz"] [("a", 60), ("b", 0)])) =
    some (.struct (.notFound .type "zz")) := by decide

end Witnesses

end Acme.Props.C13Geom
