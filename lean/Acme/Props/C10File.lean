/-
C10 for WHOLE documents: `Acme.ImportFile.importDoc` (the model of `importer.importFile`, tied to
ImportDBCFile by stream `impfile`) is the composition of the three import models over ONE
document, and an accepted document satisfies all three parts of C10 at once.

  `C10_file_accept_iff`   a document is accepted iff the bus-level pass (`busPass`: the bus-level
                          model without its little-endian placement checks, which belong to the
                          message level), the message-level import of EVERY message and the
                          attribute import all accept; `C10_file_result`: the accepted result is
                          exactly these three results side by side
  `C10_file_error_order`  which refusal surfaces: tables ≺ value encodings ≺ nodes ≺ message 0 ≺
                          message 1 ≺ … ≺ attributes (a later pass is never looked at), and
                          `C10_file_msg_order_*`: inside one message first loop (message level) ≺
                          receivers / transmitter / AddSentMessage (bus level) ≺ the signals in
                          start-bit order, where the bus-level refusal of a signal and the
                          placement refusals are interleaved call by call
  `C10_file_faithful`     for every accepted document, all at once: nodes, messages, signals
                          (the statements of `Acme.Props.C10Bus` through `busView`), for every
                          message `import_wf`, `import_wf_nested`, `import_faithful` (through
                          `msgView`), the attributes are `importAttrs` of `attrView`
  `C10_file_cross`        what no single model can state: per message the bus-level signals ARE
                          the non-multiplexor entries of the placement tree — same names, each
                          exactly once, the bus-level size (of the type / enum object) is the size
                          of the entry and of the file — and the entries are the bus-level
                          signals plus the multiplexors
  `C10_file_*_sharing`    two signals anywhere in the document share a type / enum / unit object
                          only if the file gives them the same parameters
  examples by `decide` on a two-node, two-message document (one multiplexed message with an enum
  signal and a shared type, attributes): accepted, and every refusal class reached.
-/
import Acme.Proofs.ImportFile
import Acme.Props.C10Bus
import Acme.Props.C10Msg
import Acme.Props.C11Attr

namespace Acme.Props.C10File
open Acme.ImportFile Acme.ImportBus Acme.Arith
open Acme.Import (sortBy importMsg entriesN EntryRel)

/-! ## acceptance -/

theorem treesOf_iff (d : DDoc) : ∀ l : List DMsg,
    (∃ ts, TreesOf d l ts) ↔ ∀ m ∈ l, ∃ t, importMsg (msgView d m) = .ok t
  | [] => by
    constructor
    · intro _ m hm; cases hm
    · intro _; exact ⟨[], .nil⟩
  | m :: r => by
    constructor
    · rintro ⟨ts, h⟩
      cases h with
      | cons hi hr =>
        intro x hx
        rcases List.mem_cons.mp hx with rfl | hx
        · exact ⟨_, hi⟩
        · exact (treesOf_iff d r).mp ⟨_, hr⟩ x hx
    · intro h
      obtain ⟨t, ht⟩ := h m (List.mem_cons_self ..)
      obtain ⟨ts, hts⟩ := (treesOf_iff d r).mpr (fun x hx => h x (List.mem_cons_of_mem _ hx))
      exact ⟨t :: ts, .cons ht hts⟩

/-- the accepted result is the three results side by side -/
theorem C10_file_result (d : DDoc) (r : IDoc) :
    importDoc d = .ok r ↔
      busPass d = .ok r.bus ∧ TreesOf d d.msgs r.trees ∧ r.muxors = d.msgs.map (muxorDescs d) ∧
      Attr.importAttrs (attrView d) = .ok r.attrs := importDoc_ok_iff

/-- a document is accepted iff each of the three models accepts its view of it: the bus level sees
    `busView d` without looking at positions (`busPass`), the message level sees `msgView d m` for
    every message `m`, the attribute level sees `attrView d` -/
theorem C10_file_accept_iff (d : DDoc) :
    (∃ r, importDoc d = .ok r) ↔
      (∃ b, busPass d = .ok b) ∧ (∀ m ∈ d.msgs, ∃ t, importMsg (msgView d m) = .ok t) ∧
      (∃ a, Attr.importAttrs (attrView d) = .ok a) := by
  constructor
  · rintro ⟨r, h⟩
    obtain ⟨h1, h2, _, h4⟩ := importDoc_ok_iff.mp h
    exact ⟨⟨_, h1⟩, (treesOf_iff d d.msgs).mp ⟨_, h2⟩, ⟨_, h4⟩⟩
  · rintro ⟨⟨b, h1⟩, h2, ⟨a, h4⟩⟩
    obtain ⟨ts, hts⟩ := (treesOf_iff d d.msgs).mpr h2
    exact ⟨⟨b, ts, d.msgs.map (muxorDescs d), a⟩, importDoc_ok_iff.mpr ⟨h1, hts, rfl, h4⟩⟩

/-! ## the order of the refusals -/

/-- which refusal surfaces: exactly one of five cases, each saying that all earlier passes
    accepted and that nothing later was looked at -/
theorem C10_file_error_order (d : DDoc) (e : DocErr) (h : importDoc d = .error e) :
    (∃ x, importTables d.tables = .error x ∧ e = ⟨.tables, .bus x⟩) ∨
    (∃ reg x, importTables d.tables = .ok reg ∧ importEncs reg reg [] d.encs = .error x ∧ e = ⟨.encs, .bus x⟩) ∨
    (∃ reg p x, importTables d.tables = .ok reg ∧ importEncs reg reg [] d.encs = .ok p ∧
      importNodes d.comments d.nodes = .error x ∧ e = ⟨.nodes, .bus x⟩) ∨
    (∃ reg enums se ns pre m post st done ts c,
      importTables d.tables = .ok reg ∧ importEncs reg reg [] d.encs = .ok (enums, se) ∧
      importNodes d.comments d.nodes = .ok ns ∧ d.msgs = pre ++ m :: post ∧
      busFold d (ns.map (·.name)) (initSt enums se) [] pre = .ok (st, done) ∧ TreesOf d pre ts ∧
      msgStep d (ns.map (·.name)) st done m = .error c ∧ e = ⟨.msg pre.length, c⟩) ∨
    (∃ b ts x, busPass d = .ok b ∧ TreesOf d d.msgs ts ∧
      Attr.importAttrs (attrView d) = .error x ∧ e = ⟨.attrs, .attr x⟩) := by
  unfold importDoc at h
  cases h1 : importTables d.tables with
  | error x => rw [h1] at h; cases h; exact Or.inl ⟨x, rfl, rfl⟩
  | ok reg =>
    rw [h1] at h
    dsimp only at h
    cases h2 : importEncs reg reg [] d.encs with
    | error x => rw [h2] at h; cases h; exact Or.inr (Or.inl ⟨reg, x, rfl, h2, rfl⟩)
    | ok p =>
      rw [h2] at h
      obtain ⟨enums, se⟩ := p
      dsimp only at h
      cases h3 : importNodes d.comments d.nodes with
      | error x => rw [h3] at h; cases h; exact Or.inr (Or.inr (Or.inl ⟨reg, _, x, rfl, h2, rfl, rfl⟩))
      | ok ns =>
        rw [h3] at h
        dsimp only at h
        cases h4 : msgsFold d (ns.map (·.name)) (initSt enums se) [] [] 0 d.msgs with
        | error x =>
          rw [h4] at h
          cases h
          obtain ⟨pre, m, post, st, done, ts, c, hl, hb, ht, hs, he⟩ := msgsFold_error d.msgs h4
          refine Or.inr (Or.inr (Or.inr (Or.inl ⟨reg, enums, se, ns, pre, m, post, st, done, ts, c, rfl, h2, rfl, hl, hb, ht, hs, ?_⟩)))
          rw [he]; simp
        | ok q =>
          rw [h4] at h
          obtain ⟨st, msgs, trees⟩ := q
          dsimp only at h
          cases h5 : Attr.importAttrs (attrView d) with
          | ok a => rw [h5] at h; cases h
          | error x =>
            rw [h5] at h
            cases h
            obtain ⟨hb, ts, hts, hall⟩ := (msgsFold_ok_iff d.msgs).mp h4
            refine Or.inr (Or.inr (Or.inr (Or.inr ⟨IBus.mk (descOf selGeneral d.comments) (finalNodes ns (msgs.any (fun m => m.sender = placeholder))) msgs (st.types.map (·.2)) st.units st.enums, ts, x, ?_, hall, rfl, rfl⟩)))
            unfold busPass
            rw [h1]; dsimp only
            rw [h2]; dsimp only
            rw [h3]; dsimp only
            rw [hb]

section msgOrder
variable (d : DDoc) (nn : List String) (st : St) (done : List IMessage) (m : DMsg)

/-- inside one message, 1: a refusal of the first loop (duplicate name, bounds, byte order) comes
    before everything the bus level checks -/
theorem C10_file_msg_order_first (e : Import.ImpErr)
    (h : Import.firstLoop (8 * (m.size : Int)) (Import.headBE (Import.sortSigs (msgView d m).sigs)) []
      (Import.sortSigs (msgView d m).sigs) = .error e) :
    msgStep d nn st done m = .error (.layout e) := by
  unfold msgStep; dsimp only; rw [h]

/-- 2: then receivers, transmitter, `AddSentMessage` -/
theorem C10_file_msg_order_header (e : ImportBus.ImpErr)
    (h1 : Import.firstLoop (8 * (m.size : Int)) (Import.headBE (Import.sortSigs (msgView d m).sigs)) []
      (Import.sortSigs (msgView d m).sigs) = .ok ())
    (h2 : header nn done (busMsg m) (recvOf m) = some e) :
    msgStep d nn st done m = .error (.bus e) := by
  unfold msgStep; dsimp only; rw [h1]; dsimp only; rw [h2]

/-- 3a: every signal can be created: the placement decides -/
theorem C10_file_msg_order_layout (e : Import.ImpErr) (p : St × List ISignal)
    (h1 : Import.firstLoop (8 * (m.size : Int)) (Import.headBE (Import.sortSigs (msgView d m).sigs)) []
      (Import.sortSigs (msgView d m).sigs) = .ok ())
    (h2 : header nn done (busMsg m) (recvOf m) = none)
    (h3 : busSignals d.comments m.id st ((plainSigs m).map busSig) = .ok p)
    (h4 : importMsg (msgView d m) = .error e) :
    msgStep d nn st done m = .error (.layout e) := by
  obtain ⟨st', isigs⟩ := p
  unfold msgStep; dsimp only; rw [h1]; dsimp only; rw [h2]; dsimp only; rw [h3]; dsimp only; rw [h4]

/-- 3b: signal `name` cannot be created (bus level: size, value table): that refusal surfaces iff
    the placement up to the creation of that signal is accepted, i.e. iff the message in which the
    signal is poisoned is refused AT that signal -/
theorem C10_file_msg_order_signal (name : String) (e : ImportBus.ImpErr)
    (h1 : Import.firstLoop (8 * (m.size : Int)) (Import.headBE (Import.sortSigs (msgView d m).sigs)) []
      (Import.sortSigs (msgView d m).sigs) = .ok ())
    (h2 : header nn done (busMsg m) (recvOf m) = none)
    (h3 : busSignals d.comments m.id st ((plainSigs m).map busSig) = .error (name, e)) :
    (importMsg (poison (msgView d m) name) = .error .sizeZero → msgStep d nn st done m = .error (.bus e)) ∧
    (∀ e', importMsg (poison (msgView d m) name) = .error e' → e' ≠ .sizeZero →
      msgStep d nn st done m = .error (.layout e')) := by
  constructor
  · intro h4
    unfold msgStep; dsimp only; rw [h1]; dsimp only; rw [h2]; dsimp only; rw [h3]; dsimp only; rw [h4]
  · intro e' h4 hne
    unfold msgStep; dsimp only; rw [h1]; dsimp only; rw [h2]; dsimp only; rw [h3]; dsimp only; rw [h4]
    cases e' <;> first | rfl | exact absurd rfl hne

end msgOrder

/-! ## faithfulness -/

theorem any_sender_eq' {d : DDoc} {nn : List String} {cs : List DComment} {st : St} {msgs : List IMessage}
    (hall : All2 (DocMsgOK nn cs st) d.msgs msgs) :
    msgs.any (fun m => m.sender = placeholder) = usesPlaceholder (busView d) := by
  have hmap : d.msgs.map (·.transmitter) = msgs.map (·.sender) :=
    hall.map_eq (fun m im h => h.2.2.2.1.symm)
  have h1 : msgs.any (fun m => m.sender = placeholder)
      = (msgs.map (·.sender)).any (fun s => s = placeholder) := by
    rw [List.any_map]; rfl
  have h2 : usesPlaceholder (busView d) = (d.msgs.map (·.transmitter)).any (fun s => s = placeholder) := by
    unfold usesPlaceholder busView; dsimp only; rw [List.any_map, List.any_map]; rfl
  rw [h1, h2, hmap]

/-- the bus-level pass of an accepted document, with the state-level facts -/
theorem doc_msgs_ok {d : DDoc} {b : IBus} (h : busPass d = .ok b) :
    ∃ reg enums se ns st,
      importEncs reg reg [] (busView d).encs = .ok (enums, se) ∧
      importNodes (busView d).comments (busView d).nodes = .ok ns ∧
      WF st ∧ StLe (initSt enums se) st ∧
      All2 (DocMsgOK (ns.map (·.name)) d.comments st) d.msgs b.msgs ∧ (b.msgs.map (·.id)).Nodup ∧
      b.nodes = finalNodes ns (usesPlaceholder (busView d)) ∧
      b.types = st.types.map (·.2) ∧ b.units = st.units ∧ b.enums = st.enums := by
  obtain ⟨reg, enums, se, ns, st, _, h2, h3, h4, _, h6, h7, h8, h9⟩ := busPass_ok h
  obtain ⟨hw, hle, new, hout, hall, hnd⟩ := busFold_spec d.msgs (wf_init enums se) (by simp) h4
  simp only [List.nil_append] at hout
  subst hout
  refine ⟨reg, enums, se, ns, st, h2, h3, hw, hle, hall, hnd, ?_, h7, h8, h9⟩
  rw [h6, any_sender_eq' hall]

theorem docMsgFaithful {d : DDoc} {b : IBus} {ns : List INode} {st : St} {m : DMsg} {im : IMessage}
    (hnodes : b.nodes = finalNodes ns (usesPlaceholder (busView d)))
    (hid : ∀ n ∈ ns, n.id ≠ placeholderId) (hm : m ∈ d.msgs)
    (hok : DocMsgOK (ns.map (·.name)) d.comments st m im) : MsgFaithful (busView d) b (busMsg m) im := by
  obtain ⟨h1, h2, h3, h4, h5, h6, h7, h8, h9, _, _⟩ := hok
  have hres : ∀ r, r ∈ ns.map (·.name) → ∃ n ∈ b.nodes, n.name = r := by
    intro r hr
    obtain ⟨n, hn, rfl⟩ := List.mem_map.mp hr
    exact ⟨n, by rw [hnodes]; exact mem_finalNodes_of_mem hid hn, rfl⟩
  refine ⟨h1, h2, h3, h5, h4, ?_, ?_, ?_, ?_, h9⟩
  · rcases h8 with hp | hin
    · refine ⟨placeholderNode, ?_, hp.symm⟩
      have hu : usesPlaceholder (busView d) = true := by
        unfold usesPlaceholder busView
        dsimp only
        rw [List.any_eq_true]
        exact ⟨busMsg m, List.mem_map.mpr ⟨m, hm, rfl⟩, by simp [busMsg, hp]⟩
      rw [hnodes, hu]
      exact placeholder_mem_finalNodes ns
    · exact hres _ hin
  · intro r
    rw [h6]
    unfold recvOf
    rw [mem_receiversOf]
    constructor
    · rintro ⟨hne, x, hx, hr⟩
      exact ⟨hne, x, (mem_sortBy' _).mp hx, hr⟩
    · rintro ⟨hne, x, hx, hr⟩
      exact ⟨hne, x, (mem_sortBy' _).mpr hx, hr⟩
  · rw [h6]; exact nodup_receiversOf _
  · intro r hr
    exact hres r (h7 r hr)

/-- the signals of message `m` that exist at the bus level, in the order of their creation -/
def busSigsOf (m : DMsg) : List DSignal := (plainSigs m).map busSig

/-- C10 for a whole document: everything at once -/
theorem C10_file_faithful (d : DDoc) (r : IDoc) (h : importDoc d = .ok r) :
    -- nodes (statement of `C10Bus.nodes_faithful`)
    (r.bus.nodes = (fileNodes (busView d)).filter (fun n => n.id < placeholderId)
        ++ (if usesPlaceholder (busView d) then [placeholderNode] else [])
        ++ (fileNodes (busView d)).filter (fun n => placeholderId < n.id) ∧
      ((fileNodes (busView d)).map (·.name)).Nodup ∧
      (∀ n ∈ fileNodes (busView d), n.name ≠ placeholder ∧ n.id ≠ placeholderId)) ∧
    -- messages (statement of `C10Bus.messages_faithful`): the receivers are those of ALL signals
    (All2 (fun m im => MsgFaithful (busView d) r.bus (busMsg m) im) d.msgs r.bus.msgs ∧
      (r.bus.msgs.map (·.id)).Nodup) ∧
    -- signals (statement of `C10Bus.signals_faithful` for the signals that are no multiplexor)
    All2 (fun m im => All2 (SigFaithful (busView d) r.bus m.id) (busSigsOf m) im.sigs) d.msgs r.bus.msgs ∧
    -- placement: every message's tree is its message-level import, hence well formed and faithful
    All2 (fun m t => importMsg (msgView d m) = .ok t ∧
      (t.sizeByte = (m.size : Int) ∧ m.size ≤ 8 ∧
        Acme.Layout.WF (8 * (m.size : Int)) (Import.topSlots t.top) ∧ (Import.regNames t.top).Nodup) ∧
      (∃ τ : List (Import.DSig × Import.Entry), (τ.map (·.1)).Perm (msgView d m).sigs ∧
        (τ.map (·.2)).Perm (entriesN t) ∧ ∀ p ∈ τ, EntryRel (msgView d m).exts p.1 p.2)) d.msgs r.trees ∧
    -- the multiplexor signals with their comments
    r.muxors = d.msgs.map (muxorDescs d) ∧
    -- attributes
    Attr.importAttrs (attrView d) = .ok r.attrs := by
  obtain ⟨hb, ht, hmx, ha⟩ := importDoc_ok_iff.mp h
  obtain ⟨reg, enums, se, ns, st, henc, hn, _, hle, hall, hnd, hnodes, hty, hu, he⟩ := doc_msgs_ok hb
  obtain ⟨hns, hnd2, hname, hid⟩ := importNodes_spec hn
  refine ⟨?_, ⟨?_, hnd⟩, ?_, ?_, hmx, ha⟩
  · have : ns = fileNodes (busView d) := hns
    subst this
    exact ⟨hnodes, hnd2, fun n hn => ⟨hname n hn, hid n hn⟩⟩
  · exact hall.imp_mem (fun m im hm _ hok => docMsgFaithful hnodes hid hm hok)
  · refine hall.imp (fun m im hok => ?_)
    exact hok.2.2.2.2.2.2.2.2.2.2.imp (fun x s hs => C10Bus.sigFaithful_of_ok henc hle hty hu he hs)
  · refine ht.imp (fun m t hi => ⟨hi, ?_, C10Msg.import_faithful _ _ hi⟩)
    obtain ⟨w1, w2, w3, _, _, w6⟩ := C10Msg.import_wf _ _ hi
    exact ⟨w1, w2, w3, w6⟩

/-! ## what no single model can state -/

theorem all2_map_left {α β γ : Type} {R : β → γ → Prop} {f : α → β} : ∀ {l : List α} {l' : List γ},
    All2 R (l.map f) l' → All2 (fun a c => R (f a) c) l l'
  | [], _, h => by cases h; exact .nil
  | _ :: _, _, h => by
    cases h with
    | cons hr hrest => exact .cons hr (all2_map_left hrest)

theorem mem_plainSigs {m : DMsg} {s : DSig} (h : s ∈ plainSigs m) : s ∈ m.sigs ∧ s.isMultiplexor = false := by
  unfold plainSigs Acme.ImportFile.sortedSigs at h
  obtain ⟨h1, h2⟩ := List.mem_filter.mp h
  exact ⟨(mem_sortBy' _).mp h1, by simpa using h2⟩

/-- per message (position `i` of the file): every bus-level signal is the image of a
    non-multiplexor signal `ds` of the file — same name, and the size of its type / enum object is
    the file's size — and the placement tree has EXACTLY ONE entry of that name: it is the faithful
    image of the same `ds` (size, absolute position, groups; never a multiplexer node) -/
theorem C10_file_cross (d : DDoc) (r : IDoc) (h : importDoc d = .ok r)
    (i : Nat) (m : DMsg) (im : IMessage) (t : Import.ITree)
    (hm : d.msgs[i]? = some m) (him : r.bus.msgs[i]? = some im) (ht : r.trees[i]? = some t) :
    All2 (fun ds s => s.name = ds.name ∧ r.bus.sigSize s = some (ds.size : Int) ∧
        ∃ e ∈ entriesN t, EntryRel (msgView d m).exts (layoutSig ds) e ∧ e.name = s.name ∧
          e.size = (ds.size : Int) ∧ (∀ e' ∈ entriesN t, e'.name = s.name → e' = e))
      (plainSigs m) im.sigs ∧
    t.id = m.id ∧ t.sizeByte = (im.size : Int) := by
  obtain ⟨_, ⟨hmsgs, _⟩, hsigs, htrees, _, _⟩ := C10_file_faithful d r h
  obtain ⟨im', him', hs⟩ := hsigs.getElem? hm
  rw [him] at him'; cases him'
  obtain ⟨t', ht', hi, hwf, _⟩ := htrees.getElem? hm
  rw [ht] at ht'; cases ht'
  refine ⟨?_, (Acme.Import.importMsg_ok _ _ hi).1, ?_⟩
  · refine (all2_map_left hs).imp_mem (fun ds s hds _ hf => ?_)
    obtain ⟨hin, _⟩ := mem_plainSigs hds
    have hl : layoutSig ds ∈ (msgView d m).sigs := List.mem_map.mpr ⟨ds, hin, rfl⟩
    obtain ⟨e, he, hrel, huniq⟩ := C10Msg.import_exactly_once _ _ hi (layoutSig ds) hl
    have hname : s.name = ds.name := hf.1
    refine ⟨hname, hf.2.2.1, e, he, hrel, ?_, hrel.2.1, ?_⟩
    · rw [hrel.1, hname]; rfl
    · intro e' he' hn
      exact huniq e' he' (by rw [hn, hname]; rfl)
  · rw [hwf.1]
    have := (hmsgs.getElem? hm)
    obtain ⟨im2, him2, hf2⟩ := this
    rw [him] at him2; cases him2
    rw [hf2.2.2.1]; rfl

/-! ## sharing (the proofs of `Acme.Props.C10Bus`, from the faithfulness of the two signals) -/

/-- `ds`, a non-multiplexor signal of the message number `i` (id `msgId`) of the document, became `s` -/
def DocOcc (d : DDoc) (b : IBus) (msgId : Nat) (ds : DSignal) (s : ISignal) : Prop :=
  ∃ (i : Nat) (m : DMsg) (im : IMessage), d.msgs[i]? = some m ∧ b.msgs[i]? = some im ∧ m.id = msgId ∧
    (ds, s) ∈ (busSigsOf m).zip im.sigs

theorem C10_file_signal_faithful (d : DDoc) (r : IDoc) (h : importDoc d = .ok r) {id : Nat} {ds : DSignal}
    {s : ISignal} (hocc : DocOcc d r.bus id ds s) : SigFaithful (busView d) r.bus id ds s := by
  obtain ⟨i, m, im, hm, him, rfl, hz⟩ := hocc
  obtain ⟨_, _, hsigs, _⟩ := C10_file_faithful d r h
  obtain ⟨im', him', hrel⟩ := hsigs.getElem? hm
  rw [him] at him'; cases him'
  exact hrel.mem_zip hz

theorem C10_file_type_sharing (d : DDoc) (r : IDoc) (h : importDoc d = .ok r)
    {id₁ id₂ : Nat} {d₁ d₂ : DSignal} {s₁ s₂ : ISignal} {t : Nat} {u₁ u₂ : Option Nat}
    (h₁ : DocOcc d r.bus id₁ d₁ s₁) (h₂ : DocOcc d r.bus id₂ d₂ s₂)
    (k₁ : s₁.kind = .standard t u₁) (k₂ : s₂.kind = .standard t u₂) : typeParams d₁ = typeParams d₂ := by
  obtain ⟨_, _, _, _, hm₁⟩ := C10_file_signal_faithful d r h h₁
  obtain ⟨_, _, _, _, hm₂⟩ := C10_file_signal_faithful d r h h₂
  cases hv₁ : encOf (busView d).encs id₁ d₁.name with
  | some v =>
    rw [hv₁] at hm₁
    obtain ⟨e, _, hk, _⟩ := hm₁
    rw [k₁] at hk; cases hk
  | none =>
    rw [hv₁] at hm₁
    cases hv₂ : encOf (busView d).encs id₂ d₂.name with
    | some v =>
      rw [hv₂] at hm₂
      obtain ⟨e, _, hk, _⟩ := hm₂
      rw [k₂] at hk; cases hk
    | none =>
      rw [hv₂] at hm₂
      obtain ⟨t₁, _, ty₁, hk₁, hg₁, a1, a2, a3, a4, a5, a6, a7, _⟩ := hm₁
      obtain ⟨t₂, _, ty₂, hk₂, hg₂, b1, b2, b3, b4, b5, b6, b7, _⟩ := hm₂
      rw [k₁] at hk₁; cases hk₁
      rw [k₂] at hk₂; cases hk₂
      rw [hg₁] at hg₂
      cases hg₂
      simp only [typeParams, ← a1, ← a2, ← a3, ← a4, ← a5, ← a6, ← a7, ← b1, ← b2, ← b3, ← b4, ← b5, ← b6, ← b7]

theorem C10_file_enum_sharing (d : DDoc) (r : IDoc) (h : importDoc d = .ok r)
    {id₁ id₂ : Nat} {d₁ d₂ : DSignal} {s₁ s₂ : ISignal} {e : Nat}
    (h₁ : DocOcc d r.bus id₁ d₁ s₁) (h₂ : DocOcc d r.bus id₂ d₂ s₂)
    (k₁ : s₁.kind = .enum e) (k₂ : s₂.kind = .enum e) :
    d₁.size = d₂.size ∧ ∃ v₁ v₂, encOf (busView d).encs id₁ d₁.name = some v₁ ∧
      encOf (busView d).encs id₂ d₂.name = some v₂ ∧ sortVals v₁ = sortVals v₂ := by
  obtain ⟨_, _, hz₁, _, hm₁⟩ := C10_file_signal_faithful d r h h₁
  obtain ⟨_, _, hz₂, _, hm₂⟩ := C10_file_signal_faithful d r h h₂
  refine ⟨?_, ?_⟩
  · simp only [IBus.sigSize, k₁] at hz₁
    simp only [IBus.sigSize, k₂] at hz₂
    rw [hz₁] at hz₂
    have := Option.some.inj hz₂
    omega
  · cases hv₁ : encOf (busView d).encs id₁ d₁.name with
    | none =>
      rw [hv₁] at hm₁
      obtain ⟨_, _, _, hk, _⟩ := hm₁
      rw [k₁] at hk; cases hk
    | some v₁ =>
      rw [hv₁] at hm₁
      cases hv₂ : encOf (busView d).encs id₂ d₂.name with
      | none =>
        rw [hv₂] at hm₂
        obtain ⟨_, _, _, hk, _⟩ := hm₂
        rw [k₂] at hk; cases hk
      | some v₂ =>
        rw [hv₂] at hm₂
        obtain ⟨e₁, en₁, hk₁, hg₁, hvals₁⟩ := hm₁
        obtain ⟨e₂, en₂, hk₂, hg₂, hvals₂⟩ := hm₂
        rw [k₁] at hk₁; cases hk₁
        rw [k₂] at hk₂; cases hk₂
        rw [hg₁] at hg₂
        cases hg₂
        exact ⟨v₁, v₂, rfl, rfl, hvals₁.symm.trans hvals₂⟩

/-! ## examples -/

namespace Ex

def errOf : Except DocErr IDoc → Option DocErr
  | .error e => some e
  | .ok _ => none

def sg (name : String) (start size : Nat) (mr md : Bool) (k : Nat) (mx : Rat) (rx : List String) : DSig :=
  { name := name, start := start, size := size, isMultiplexor := mr, isMultiplexed := md, muxSwitch := k,
    max := mx, receivers := rx }

/-- two nodes; a plain message; a multiplexed message with an enum signal (group 1) and a standard
    signal (group 2) that shares its type with `s0` of the first message; a comment on the
    multiplexor; an integer attribute with a value on the multiplexed signal `t` -/
def doc : DDoc :=
  { nodes := ["A", "B"]
    tables := [⟨"Tab", [(0, "off"), (1, "on")]⟩]
    encs := [⟨2, "e", [(1, "on"), (0, "off")]⟩]
    comments := [.sig 2 "mx" "selector"]
    msgs := [⟨1, "msgA", 8, "A", [sg "s0" 0 8 false false 0 255 ["B"], sg "s1" 8 8 false false 0 255 ["B"]]⟩,
             ⟨2, "msgB", 8, "B", [sg "mx" 0 2 true false 0 0 ["A"], sg "e" 2 1 false true 1 0 [placeholder],
                                  sg "t" 2 8 false true 2 255 [placeholder]]⟩]
    defs := [⟨.signal, "Att", .int 0 10⟩]
    defaults := [⟨"Att", .int 1⟩]
    values := [⟨"Att", .sig 2 "t", .int 5⟩] }

theorem ex_accepted : errOf (importDoc doc) = none := by decide

/-- the hypotheses of the theorems are satisfiable: bus level, both messages, attributes -/
theorem ex_parts : (busPass doc).toOption.isSome = true ∧
    (doc.msgs.all fun m => (importMsg (msgView doc m)).toOption.isSome) = true ∧
    (Attr.importAttrs (attrView doc)).toOption.isSome = true := by decide

/-- the shared type: `s0`, `s1` of message 1 and `t` of message 2 refer to ONE type object; `e` is an
    enum signal on the table of the file; the multiplexor has no bus-level signal -/
theorem ex_bus : ((importDoc doc).toOption.map (fun r => r.bus.msgs.map (fun m => m.sigs.map (fun s => (s.name, s.kind))))) =
    some [[("s0", .standard 1 none), ("s1", .standard 1 none)], [("e", .enum 0), ("t", .standard 1 none)]] := by
  decide

theorem ex_tree : ((importDoc doc).toOption.map (fun r => r.trees.map (fun t => (entriesN t).map (fun e => (e.name, e.size, e.abs))))) =
    some [[("s0", 8, 0), ("s1", 8, 8)], [("mx", 2, 0), ("e", 1, 2), ("t", 8, 2)]] := by decide

theorem ex_muxors : (importDoc doc).toOption.map (·.muxors) = some [[], [("mx", "selector")]] := by decide

/-! every refusal class, and the order: the EARLIER pass wins -/

def badTable (d : DDoc) : DDoc := { d with tables := d.tables ++ [⟨"Bad", [(1, "a"), (1, "b")]⟩] }
def badEnc (d : DDoc) : DDoc := { d with encs := d.encs ++ [⟨9, "zz", [(1, "a"), (2, "a")]⟩] }
def badNodes (d : DDoc) : DDoc := { d with nodes := d.nodes ++ ["A"] }
def badAttr (d : DDoc) : DDoc := { d with defaults := [] }
/-- message 1 (index 0): `s1` starts outside the payload (first loop) -/
def badFirst (d : DDoc) : DDoc :=
  { d with msgs := d.msgs.map (fun m => if m.id = 1 then { m with sigs := m.sigs.map (fun s => if s.name = "s1" then { s with start := 70 } else s) } else m) }
/-- message 2 (index 1): unknown transmitter (header) -/
def badHeader (d : DDoc) : DDoc :=
  { d with msgs := d.msgs.map (fun m => if m.id = 2 then { m with transmitter := "Nobody" } else m) }
/-- message 2: a value of `t` does not fit its 8 bits (bus level, `importSignal`) -/
def badSignal (d : DDoc) : DDoc := { d with encs := d.encs ++ [⟨2, "t", [(0, "lo"), (300, "hi")]⟩] }
/-- message 2: the switch value of `e` is beyond the 4 groups (message level) -/
def badLayout (d : DDoc) : DDoc :=
  { d with msgs := d.msgs.map (fun m => if m.id = 2 then { m with sigs := m.sigs.map (fun s => if s.name = "e" then { s with muxSwitch := 9 } else s) } else m) }
/-- message 1: `s1` overlaps `s0` (message level) -/
def badOverlap (d : DDoc) : DDoc :=
  { d with msgs := d.msgs.map (fun m => if m.id = 1 then { m with sigs := m.sigs.map (fun s => if s.name = "s1" then { s with start := 4 } else s) } else m) }

theorem ex_tables : errOf (importDoc (badTable doc)) = some ⟨.tables, .bus .valueIndexDuplicated⟩ := by decide
theorem ex_encs : errOf (importDoc (badEnc doc)) = some ⟨.encs, .bus .valueNameDuplicated⟩ := by decide
theorem ex_nodes : errOf (importDoc (badNodes doc)) = some ⟨.nodes, .bus .nodeNameDuplicated⟩ := by decide
theorem ex_first : errOf (importDoc (badFirst doc)) = some ⟨.msg 0, .layout .startOutOfBounds⟩ := by decide
theorem ex_header : errOf (importDoc (badHeader doc)) = some ⟨.msg 1, .bus .nodeNotFound⟩ := by decide
theorem ex_signal : errOf (importDoc (badSignal doc)) = some ⟨.msg 1, .bus .sizeTooSmall⟩ := by decide
theorem ex_layout : errOf (importDoc (badLayout doc)) = some ⟨.msg 1, .layout .groupIdOutOfBounds⟩ := by decide
theorem ex_overlap : errOf (importDoc (badOverlap doc)) = some ⟨.msg 0, .layout .intersect⟩ := by decide
theorem ex_attrs : errOf (importDoc (badAttr doc)) = some ⟨.attrs, .attr .defaultRequired⟩ := by decide

theorem ex_order_tables_nodes : errOf (importDoc (badNodes (badTable doc))) = some ⟨.tables, .bus .valueIndexDuplicated⟩ := by decide
theorem ex_order_encs_nodes : errOf (importDoc (badNodes (badEnc doc))) = some ⟨.encs, .bus .valueNameDuplicated⟩ := by decide
theorem ex_order_nodes_msg : errOf (importDoc (badFirst (badNodes doc))) = some ⟨.nodes, .bus .nodeNameDuplicated⟩ := by decide
theorem ex_order_msg0_msg1 : errOf (importDoc (badHeader (badOverlap doc))) = some ⟨.msg 0, .layout .intersect⟩ := by decide
theorem ex_order_msg_attrs : errOf (importDoc (badAttr (badLayout doc))) = some ⟨.msg 1, .layout .groupIdOutOfBounds⟩ := by decide
/-- one multiplexor: every signal is created before anything is placed — the bus-level refusal wins -/
theorem ex_order_signal_layout : errOf (importDoc (badLayout (badSignal doc))) = some ⟨.msg 1, .bus .sizeTooSmall⟩ := by decide
/-- first loop before header inside one message -/
theorem ex_order_first_header :
    errOf (importDoc (badFirst { doc with msgs := doc.msgs.map (fun m => { m with transmitter := "Nobody" }) })) =
      some ⟨.msg 0, .layout .startOutOfBounds⟩ := by decide

end Ex

end Acme.Props.C10File
