/-
C01 part 2 / C02 freshness / C03 enum width / C06 (payload mutators) — every history.

The object graph model Acme.Core.Payload mirrors the public mutators of message.go,
signal.go, signal_enum.go, signal_type.go.  The theorems quantify over every world
reachable by any finite sequence of admissible operations (`Reach`, see Acme.Spec.Payload:
admissible = inside the modelled region and outside the known-finding region D74/D25).
-/
import Acme.Core.Payload
import Acme.Spec.Payload
import Acme.Proofs.Payload

namespace Acme.Props.C01World
open Acme.Payload Acme.Layout Acme.Bits Acme.Arith

/-- The invariant is preserved by every admissible operation, whatever its arguments. -/
theorem C01_world_step (w : W) (op : Op) (h : Inv w) (hop : OpOK w op) : Inv (step w op).1 :=
  Acme.Payload.inv_step w op h hop

/-- After every history, every message layout is well-formed: signals in ascending order,
    pairwise disjoint, positive sizes, inside the payload (C01, first sentence). -/
theorem C01_world (w : W) (h : Reach w) (m : Nat) (msg : MsgE) (hm : w.msgs.get m = some msg) :
    WF msg.cap (slotsOf w msg.layout) ∧ msg.cap = msg.sizeByte * 8 :=
  Acme.Payload.reach_wf w h m msg hm

/-- After every history the published filters are the filters of the current layout
    (C02, last clause). -/
theorem C02_world_fresh (w : W) (h : Reach w) (m : Nat) (msg : MsgE) (hm : w.msgs.get m = some msg) :
    msg.filters = genFilters (slotsBe w msg.layout) :=
  Acme.Payload.reach_fresh w h m msg hm

/-- After every history an enum's width is the smallest width ≥ its configured minimum that
    represents its largest value index (C03, last sentence). -/
theorem C03_world_enum_width (w : W) (h : Reach w) (e : Nat) (en : EnumE) (he : w.enums.get e = some en) :
    en.maxIndex = trueMaxIndex w en.values ∧ 0 ≤ en.maxIndex ∧
    enumSizeOf en = enumSize en.minSize (trueMaxIndex w en.values) :=
  Acme.Payload.reach_enum_width w h e en he

/-- Names of the signals of a message, and indexes / names of the values of an enum, stay
    unique after every history (C04 for these containers). -/
theorem C04_world_keys (w : W) (h : Reach w) :
    (∀ m msg, w.msgs.get m = some msg → (msg.layout.map (sigName w)).Nodup) ∧
    (∀ e en, w.enums.get e = some en →
        (en.values.map (valIndex w)).Nodup ∧ (en.values.map (valName w)).Nodup) :=
  Acme.Payload.reach_keys w h

/-- A rejected (or unsupported) operation leaves the whole world unchanged (C06, first
    sentence) — for every world, reachable or not. -/
theorem C06_payload_atomic (w : W) (op : Op) (c : Cause) (h : (step w op).2 = .err c) :
    (step w op).1 = w :=
  Acme.Payload.step_err_unchanged w op c h

/-- No admissible operation on a reachable world panics (C06, last sentence). -/
theorem C06_payload_nopanic (w : W) (h : Reach w) (op : Op) (hop : OpOK w op) :
    (step w op).2 ≠ .panic :=
  Acme.Payload.step_nopanic w h op hop

/-- Insert is accepted exactly when the signal is new to the message by name and the
    requested range is free and inside the payload (C01, second sentence, at API level). -/
theorem C01_world_insert_iff (w : W) (h : Reach w) (m s : Nat) (st : Int) (msg : MsgE) (sg : SigE)
    (hm : w.msgs.get m = some msg) (hs : w.sigs.get s = some sg) (hp : sg.parent = none) :
    ((step w (.msgInsert m s st)).2 = .ok [] ↔
      hasSigName w msg.layout sg.name = false ∧ 0 ≤ st ∧ st + sizeOf w sg ≤ msg.cap ∧
      RangeFree (slotsOf w msg.layout) st (sizeOf w sg)) :=
  Acme.Payload.insert_iff w h m s st msg sg hm hs hp

/-- Replacing the type of an attached standard signal is accepted exactly when the growth
    fits in the free space behind the signal (shrinking always is). -/
theorem C01_world_setType_iff (w : W) (h : Reach w) (s t m : Nat) (sg : SigE) (ty : TypeE) (msg : MsgE)
    (told : Nat) (hs : w.sigs.get s = some sg) (hk : sg.kind = .std told) (ht : w.types.get t = some ty)
    (hp : sg.parent = some m) (hm : w.msgs.get m = some msg) :
    ((step w (.sigSetType s t)).2 = .ok [] ↔
      ty.size - sizeOf w sg ≤ freeBehind msg.cap (slotsOf w msg.layout) s) :=
  Acme.Payload.setType_iff w h s t m sg ty msg told hs hk ht hp hm

/-! Non-vacuity: a reachable world with a shared enum, a grown enum and a pushed follower -/
def sampleOps : List Op :=
  [.typeNew 1 4, .enumNew 2, .valNew 3 "x" 1, .enumAddValue 2 3, .sigNewEnum 10 "a" 2,
   .sigNewStd 11 "b" 1, .msgNew 100 2, .msgAppend 100 10, .msgAppend 100 11,
   .valNew 4 "y" 5, .enumAddValue 2 4, .msgSetByteOrder 100 true]

example : (slotsOf (run {} sampleOps) [10, 11]) = [⟨10, 0, 3⟩, ⟨11, 3, 4⟩] := by decide

end Acme.Props.C01World
