/-
C04 — names and identifiers stay unique and lookups agree with the contents (graph part).

  Within a node interface no two sent messages share a name, no two with a generated
  CAN-ID share a message id and no two share a static CAN-ID; within a bus no two nodes
  share a name or node id and no two messages share a static CAN-ID; within a network no
  two buses share a name.  After any history of additions, removals, renames and id
  changes, a lookup by name returns exactly the entity that currently carries that name,
  a key released by a rename, id change or removal is immediately reusable, and a key
  that is in use is refused.

Model: Acme.Core.Graph.  Spec: Acme.Spec.Graph (`Inv`, `OpOK`, `Reach`).
Proofs: Acme.Proofs.Graph (`Inv_step`, `Inv_reach`).  (Signals inside messages and enum
values: C01/C07 worlds.)
-/
import Acme.Spec.Graph
import Acme.Proofs.Graph
import Acme.Proofs.GraphCause
import Acme.Proofs.GraphAtomic

namespace Acme.Props.C04
open Acme.Graph

/-- "index agrees with contents", one group per container kind (fields: see
`Acme.Spec.Graph`): network `busNames`; bus `nodeNames` / `nodeIDs`; bus
`messageStaticCANIDs`; interface `sentMessageNames` / `sentMessageIDs` /
`sentMessageStaticCANIDs` -/
structure C04 (g : G) : Prop where
  net : NetI g.nets g.buses
  bus : BusI g.buses g.ifaces g.nodes
  static : StaticI g.buses g.ifaces g.msgs
  sent : SentI g.ifaces g.msgs

theorem C04_of_inv {g : G} (h : Inv g) : C04 g := ⟨h.net, h.bus, h.static, h.sent⟩

theorem C04_step {g : G} (h : Inv g) {op : Op} (ok : OpOK g op) : C04 (step g op).1 :=
  C04_of_inv (Inv_step h ok)

theorem C04_reach {g : G} (h : Reach g) : C04 g := C04_of_inv (Inv_reach h)

/-! ### uniqueness, in the property's words -/

/-- within a network no two buses share a name -/
theorem C04_unique_bus_name {g : G} (h : Reach g) {n b b' : Nat} {name : String}
    (p : busParent g.buses b = some n) (p' : busParent g.buses b' = some n)
    (e : busName g.buses b = some name) (e' : busName g.buses b' = some name) : b = b' := by
  have i := (C04_reach h).net
  have a := i.n2 p e
  have c := i.n2 p' e'
  rw [a] at c; exact Option.some.inj c

/-- within a bus no two attached nodes share a name -/
theorem C04_unique_node_name {g : G} (h : Reach g) {b nd nd' i i' : Nat}
    (p : (busNodeInts g.buses b).get nd = some i) (p' : (busNodeInts g.buses b).get nd' = some i')
    (e : nodeNameC g.nodes nd = nodeNameC g.nodes nd') : nd = nd' := by
  have iv := (C04_reach h).bus
  have a := iv.n2 p
  have c := iv.n2 p'
  rw [e, c] at a; exact (Option.some.inj a).symm

/-- within a bus no two attached nodes share a node id -/
theorem C04_unique_node_id {g : G} (h : Reach g) {b nd nd' i i' : Nat}
    (p : (busNodeInts g.buses b).get nd = some i) (p' : (busNodeInts g.buses b).get nd' = some i')
    (e : nodeNidC g.nodes nd = nodeNidC g.nodes nd') : nd = nd' := by
  have iv := (C04_reach h).bus
  have a := iv.d2 p
  have c := iv.d2 p'
  rw [e, c] at a; exact (Option.some.inj a).symm

/-- within a bus no two messages (of attached interfaces) share a static CAN-ID -/
theorem C04_unique_bus_static {g : G} (h : Reach g) {b m m' i i' c : Nat}
    (s : msgSender g.msgs m = some i) (s' : msgSender g.msgs m' = some i')
    (p : ifaceBus g.ifaces i = some b) (p' : ifaceBus g.ifaces i' = some b)
    (e : msgStatic g.msgs m = some c) (e' : msgStatic g.msgs m' = some c) : m = m' := by
  have iv := (C04_reach h).static
  have a := iv.s2 e s p
  have c' := iv.s2 e' s' p'
  rw [a] at c'; exact Option.some.inj c'

/-- within an interface no two sent messages share a name -/
theorem C04_unique_sent_name {g : G} (h : Reach g) {i m m' : Nat} {name : String}
    (s : msgSender g.msgs m = some i) (s' : msgSender g.msgs m' = some i)
    (e : msgName g.msgs m = some name) (e' : msgName g.msgs m' = some name) : m = m' := by
  have iv := (C04_reach h).sent
  have a := iv.n2 s e
  have c := iv.n2 s' e'
  rw [a] at c; exact Option.some.inj c

/-- within an interface no two sent messages with a generated CAN-ID share a message id -/
theorem C04_unique_sent_id {g : G} (h : Reach g) {i m m' mid : Nat}
    (s : msgSender g.msgs m = some i) (s' : msgSender g.msgs m' = some i)
    (e : msgMid g.msgs m = some mid) (e' : msgMid g.msgs m' = some mid)
    (t : msgStatic g.msgs m = none) (t' : msgStatic g.msgs m' = none) : m = m' := by
  have iv := (C04_reach h).sent
  have a := iv.i2 s e t
  have c := iv.i2 s' e' t'
  rw [a] at c; exact Option.some.inj c

/-- within an interface no two sent messages share a static CAN-ID -/
theorem C04_unique_sent_static {g : G} (h : Reach g) {i m m' c : Nat}
    (s : msgSender g.msgs m = some i) (s' : msgSender g.msgs m' = some i)
    (e : msgStatic g.msgs m = some c) (e' : msgStatic g.msgs m' = some c) : m = m' := by
  have iv := (C04_reach h).sent
  have a := iv.t2 s e
  have c' := iv.t2 s' e'
  rw [a] at c'; exact Option.some.inj c'

/-! ### a lookup by name returns exactly the entity that currently carries the name -/

/-- `Bus.GetNodeInterfaceByNodeName`: name index, then contents -/
def lookupNodeInterface (g : G) (b : Nat) (name : String) : Option Nat :=
  match (busNodeNames g.buses b).get name with
  | some nd => (busNodeInts g.buses b).get nd
  | none => none

/-- `NodeInterface.GetSentMessageByName` -/
def lookupSentMessage (g : G) (i : Nat) (name : String) : Option Nat :=
  match (ifaceSentNames g.ifaces i).get name with
  | some m => (ifaceSent g.ifaces i).get m
  | none => none

theorem C04_lookup_returns_carrier {g : G} (h : Reach g) :
    (∀ b name i, lookupNodeInterface g b name = some i ↔
      ifaceBus g.ifaces i = some b ∧ ∃ nd, ifaceNode g.ifaces i = some nd ∧ nodeNameC g.nodes nd = name) ∧
    (∀ i name m, lookupSentMessage g i name = some m ↔
      msgSender g.msgs m = some i ∧ msgName g.msgs m = some name) := by
  have iv := C04_reach h
  constructor
  · intro b name i
    unfold lookupNodeInterface
    constructor
    · intro hl
      cases hn : (busNodeNames g.buses b).get name with
      | none => rw [hn] at hl; cases hl
      | some nd =>
        rw [hn] at hl
        have a := iv.bus.i1 hl
        exact ⟨a.2, nd, a.1, (iv.bus.n1 hn).2⟩
    · rintro ⟨hb, nd, hnd, hname⟩
      have a := iv.bus.i2 hnd hb
      have c := iv.bus.n2 a
      rw [hname] at c
      rw [c]; exact a
  · intro i name m
    unfold lookupSentMessage
    constructor
    · intro hl
      cases hn : (ifaceSentNames g.ifaces i).get name with
      | none => rw [hn] at hl; cases hl
      | some m' =>
        rw [hn] at hl
        have a := iv.sent.n1 hn
        have c := iv.sent.s1 hl
        have : m = m' := c.1
        subst this
        exact a
    · rintro ⟨hs, hname⟩
      rw [iv.sent.n2 hs hname]
      exact iv.sent.s2 hs

/-! ### "the index has the key" = "an entity of the container currently carries the key" -/

theorem C04_bus_name_in_use_iff {g : G} (h : Reach g) (n : Nat) (name : String) :
    (netBusNames g.nets n).get name ≠ none ↔
      ∃ b, busParent g.buses b = some n ∧ busName g.buses b = some name := by
  have iv := (C04_reach h).net
  constructor
  · intro hne
    cases hh : (netBusNames g.nets n).get name with
    | none => exact absurd hh hne
    | some b => exact ⟨b, iv.n1 hh⟩
  · rintro ⟨b, p, e⟩; rw [iv.n2 p e]; simp

theorem C04_node_name_in_use_iff {g : G} (h : Reach g) (b : Nat) (name : String) :
    (busNodeNames g.buses b).get name ≠ none ↔
      ∃ nd i, (busNodeInts g.buses b).get nd = some i ∧ nodeNameC g.nodes nd = name := by
  have iv := (C04_reach h).bus
  constructor
  · intro hne
    cases hh : (busNodeNames g.buses b).get name with
    | none => exact absurd hh hne
    | some nd => obtain ⟨⟨i, hi⟩, e⟩ := iv.n1 hh; exact ⟨nd, i, hi, e⟩
  · rintro ⟨nd, i, hi, e⟩; have := iv.n2 hi; rw [e] at this; rw [this]; simp

theorem C04_node_id_in_use_iff {g : G} (h : Reach g) (b nid : Nat) :
    (busNodeIDs g.buses b).get nid ≠ none ↔
      ∃ nd i, (busNodeInts g.buses b).get nd = some i ∧ nodeNidC g.nodes nd = nid := by
  have iv := (C04_reach h).bus
  constructor
  · intro hne
    cases hh : (busNodeIDs g.buses b).get nid with
    | none => exact absurd hh hne
    | some nd => obtain ⟨⟨i, hi⟩, e⟩ := iv.d1 hh; exact ⟨nd, i, hi, e⟩
  · rintro ⟨nd, i, hi, e⟩; have := iv.d2 hi; rw [e] at this; rw [this]; simp

theorem C04_bus_static_in_use_iff {g : G} (h : Reach g) (b c : Nat) :
    (busStaticIDs g.buses b).get c ≠ none ↔
      ∃ m i, msgStatic g.msgs m = some c ∧ msgSender g.msgs m = some i ∧ ifaceBus g.ifaces i = some b := by
  have iv := (C04_reach h).static
  constructor
  · intro hne
    cases hh : (busStaticIDs g.buses b).get c with
    | none => exact absurd hh hne
    | some m => obtain ⟨e, i, s, p⟩ := iv.s1 hh; exact ⟨m, i, e, s, p⟩
  · rintro ⟨m, i, e, s, p⟩; rw [iv.s2 e s p]; simp

theorem C04_sent_name_in_use_iff {g : G} (h : Reach g) (i : Nat) (name : String) :
    (ifaceSentNames g.ifaces i).get name ≠ none ↔
      ∃ m, msgSender g.msgs m = some i ∧ msgName g.msgs m = some name := by
  have iv := (C04_reach h).sent
  constructor
  · intro hne
    cases hh : (ifaceSentNames g.ifaces i).get name with
    | none => exact absurd hh hne
    | some m => exact ⟨m, iv.n1 hh⟩
  · rintro ⟨m, s, e⟩; rw [iv.n2 s e]; simp

theorem C04_sent_id_in_use_iff {g : G} (h : Reach g) (i mid : Nat) :
    (ifaceSentIDs g.ifaces i).get mid ≠ none ↔
      ∃ m, msgSender g.msgs m = some i ∧ msgMid g.msgs m = some mid ∧ msgStatic g.msgs m = none := by
  have iv := (C04_reach h).sent
  constructor
  · intro hne
    cases hh : (ifaceSentIDs g.ifaces i).get mid with
    | none => exact absurd hh hne
    | some m => exact ⟨m, iv.i1 hh⟩
  · rintro ⟨m, s, e, t⟩; rw [iv.i2 s e t]; simp

theorem C04_sent_static_in_use_iff {g : G} (h : Reach g) (i c : Nat) :
    (ifaceSentStatic g.ifaces i).get c ≠ none ↔
      ∃ m, msgSender g.msgs m = some i ∧ msgStatic g.msgs m = some c := by
  have iv := (C04_reach h).sent
  constructor
  · intro hne
    cases hh : (ifaceSentStatic g.ifaces i).get c with
    | none => exact absurd hh hne
    | some m => exact ⟨m, iv.t1 hh⟩
  · rintro ⟨m, s, e⟩; rw [iv.t2 s e]; simp

/-! ### a key that is in use is refused, and the world is unchanged -/

/-- renaming a sent message to a name carried by another message of the same interface -/
theorem C04_used_key_refused {g : G} (h : Reach g) {m m' i : Nat} {name cur : String}
    (hs : msgSender g.msgs m = some i) (hc : msgName g.msgs m = some cur) (hne : cur ≠ name)
    (hs' : msgSender g.msgs m' = some i) (hn' : msgName g.msgs m' = some name) :
    step g (.msgRename m name) = (g, .err .duplicated) := by
  have hin := (C04_sent_name_in_use_iff h i name).2 ⟨m', hs', hn'⟩
  have he : (step g (.msgRename m name)).2 = .err .duplicated :=
    (cause_msgRename g m name .duplicated).2 ⟨rfl, cur, i, hc, hne, hs, hin⟩
  exact Prod.ext (step_err g _ _ he) he

/-- adding to an interface a message whose name is carried by a message it already sends -/
theorem C04_used_key_refused_addSent {g : G} (h : Reach g) {i m m' : Nat} {ifc : IfaceE} {msg : MsgE}
    (hi : g.ifaces.get i = some ifc) (hm : g.msgs.get m = some msg) (hns : msg.sender = none)
    (hnr : ifc.received.get m = none)
    (hs' : msgSender g.msgs m' = some i) (hn' : msgName g.msgs m' = some msg.name) :
    step g (.ifaceAddSent i m) = (g, .err .duplicated) := by
  have hin := (C04_sent_name_in_use_iff h i msg.name).2 ⟨m', hs', hn'⟩
  rw [ifaceSentNames_of_get hi] at hin
  have he : (step g (.ifaceAddSent i m)).2 = .err .duplicated :=
    (cause_ifaceAddSent g i m .duplicated).2 ⟨ifc, hi, Or.inr ⟨msg, hm, hns, Or.inr (Or.inl ⟨hnr, hin, rfl⟩)⟩⟩
  exact Prod.ext (step_err g _ _ he) he

/-- renaming a bus to a name carried by another bus of its network -/
theorem C04_used_key_refused_busRename {g : G} (h : Reach g) {b b' n : Nat} {name cur : String}
    (hp : busParent g.buses b = some n) (hc : busName g.buses b = some cur) (hne : cur ≠ name)
    (hp' : busParent g.buses b' = some n) (hn' : busName g.buses b' = some name) :
    step g (.busRename b name) = (g, .err .duplicated) := by
  have hin := (C04_bus_name_in_use_iff h n name).2 ⟨b', hp', hn'⟩
  have he : (step g (.busRename b name)).2 = .err .duplicated :=
    (cause_busRename g b name .duplicated).2 ⟨rfl, cur, n, hc, hne, hp, hin⟩
  exact Prod.ext (step_err g _ _ he) he

/-! ### a key released by a rename, id change or removal is immediately reusable -/

/-- the index agrees with the contents in every reachable world, so a key is free as soon
as no entity of the container carries it — in particular right after the rename, id
change or removal that released it (instances below) -/
theorem C04_released_key_reusable {g : G} (h : Reach g) :
    (∀ n name, (¬ ∃ b, busParent g.buses b = some n ∧ busName g.buses b = some name) →
      (netBusNames g.nets n).get name = none) ∧
    (∀ b name, (¬ ∃ nd i, (busNodeInts g.buses b).get nd = some i ∧ nodeNameC g.nodes nd = name) →
      (busNodeNames g.buses b).get name = none) ∧
    (∀ b nid, (¬ ∃ nd i, (busNodeInts g.buses b).get nd = some i ∧ nodeNidC g.nodes nd = nid) →
      (busNodeIDs g.buses b).get nid = none) ∧
    (∀ b c, (¬ ∃ m i, msgStatic g.msgs m = some c ∧ msgSender g.msgs m = some i ∧ ifaceBus g.ifaces i = some b) →
      (busStaticIDs g.buses b).get c = none) ∧
    (∀ i name, (¬ ∃ m, msgSender g.msgs m = some i ∧ msgName g.msgs m = some name) →
      (ifaceSentNames g.ifaces i).get name = none) ∧
    (∀ i mid, (¬ ∃ m, msgSender g.msgs m = some i ∧ msgMid g.msgs m = some mid ∧ msgStatic g.msgs m = none) →
      (ifaceSentIDs g.ifaces i).get mid = none) ∧
    (∀ i c, (¬ ∃ m, msgSender g.msgs m = some i ∧ msgStatic g.msgs m = some c) →
      (ifaceSentStatic g.ifaces i).get c = none) := by
  refine ⟨?_, ?_, ?_, ?_, ?_, ?_, ?_⟩
  · intro n name hn; exact Classical.byContradiction fun hc => hn ((C04_bus_name_in_use_iff h n name).1 hc)
  · intro b name hn; exact Classical.byContradiction fun hc => hn ((C04_node_name_in_use_iff h b name).1 hc)
  · intro b nid hn; exact Classical.byContradiction fun hc => hn ((C04_node_id_in_use_iff h b nid).1 hc)
  · intro b c hn; exact Classical.byContradiction fun hc => hn ((C04_bus_static_in_use_iff h b c).1 hc)
  · intro i name hn; exact Classical.byContradiction fun hc => hn ((C04_sent_name_in_use_iff h i name).1 hc)
  · intro i mid hn; exact Classical.byContradiction fun hc => hn ((C04_sent_id_in_use_iff h i mid).1 hc)
  · intro i c hn; exact Classical.byContradiction fun hc => hn ((C04_sent_static_in_use_iff h i c).1 hc)

/-- instance: after a successful rename of a sent message its old name is free in the
sender interface (so another message may take it at once) -/
theorem C04_released_msgRename {g : G} {m i : Nat} {name : String} {msg : MsgE}
    (hm : g.msgs.get m = some msg) (hs : msg.sender = some i) (hne : msg.name ≠ name)
    (hok : (step g (.msgRename m name)).2 = .ok) :
    (ifaceSentNames (step g (.msgRename m name)).1.ifaces i).get msg.name = none := by
  simp only [step] at hok ⊢
  unfold stepMsgRename at hok ⊢
  simp only [hm, hne, ↓reduceIte, hs] at hok ⊢
  cases hi : g.ifaces.get i with
  | none => simp [hi] at hok
  | some ifc =>
    simp only [hi] at hok ⊢
    split at hok
    · cases hok
    · rename_i hfree
      simp only [hfree, Bool.false_eq_true, ↓reduceIte, ifaceSentNames_set, Reg.get_add, Reg.get_remove, hne]

/-- instance: after a successful removal of a sent message its name is free in the interface -/
theorem C04_released_removeSent {g : G} {i m : Nat} {msg : MsgE}
    (hm : g.msgs.get m = some msg) (hok : (step g (.ifaceRemoveSent i m)).2 = .ok) :
    (ifaceSentNames (step g (.ifaceRemoveSent i m)).1.ifaces i).get msg.name = none := by
  simp only [step] at hok ⊢
  unfold stepIfaceRemoveSent at hok ⊢
  cases hi : g.ifaces.get i with
  | none => simp [hi] at hok
  | some ifc =>
    simp only [hi, hm] at hok ⊢
    split at hok
    · cases hok
    · rename_i hh
      simp only [hh, ↓reduceIte]
      cases msg.static <;> simp only [ifaceSentNames_set, ↓reduceIte, Reg.get_remove]

/-- instance: after a successful id change of a sent message with a generated CAN-ID its
old id is free in the sender interface -/
theorem C04_released_msgSetId {g : G} {m i mid : Nat} {msg : MsgE}
    (hm : g.msgs.get m = some msg) (hs : msg.sender = some i) (hst : msg.static = none) (hne : msg.mid ≠ mid)
    (hok : (step g (.msgSetId m mid)).2 = .ok) :
    (ifaceSentIDs (step g (.msgSetId m mid)).1.ifaces i).get msg.mid = none := by
  simp only [step] at hok ⊢
  unfold stepMsgSetId at hok ⊢
  simp only [hm, hne, false_and, ↓reduceIte, hs, hst] at hok ⊢
  cases hi : g.ifaces.get i with
  | none => simp [hi] at hok
  | some ifc =>
    simp only [hi] at hok ⊢
    split at hok
    · cases hok
    · rename_i hfree
      simp only [hfree, Bool.false_eq_true, ↓reduceIte, ifaceSentIDs_set, Reg.get_add, Reg.get_remove, hne]

/-! ### static vs generated CAN-ID -/

/-- a sent message is indexed by its message id exactly when it has no static CAN-ID, by
its static CAN-ID exactly when it has one — never both —, and it is on the bus index
exactly when it has a static CAN-ID and its sender interface is attached -/
theorem C04_static_vs_generated {g : G} (h : Reach g) {i m : Nat} (hs : msgSender g.msgs m = some i) :
    ((∃ mid, (ifaceSentIDs g.ifaces i).get mid = some m) ↔ msgStatic g.msgs m = none) ∧
    ((∃ c, (ifaceSentStatic g.ifaces i).get c = some m) ↔ msgStatic g.msgs m ≠ none) ∧
    (∀ b c, (busStaticIDs g.buses b).get c = some m ↔ msgStatic g.msgs m = some c ∧ ifaceBus g.ifaces i = some b) := by
  have iv := C04_reach h
  have hex : g.msgs.get m ≠ none := msgSender_some_get hs
  refine ⟨⟨?_, ?_⟩, ⟨?_, ?_⟩, ?_⟩
  · rintro ⟨mid, hmid⟩; exact (iv.sent.i1 hmid).2.2
  · intro hn
    cases hg : g.msgs.get m with
    | none => exact absurd hg hex
    | some msg => exact ⟨msg.mid, iv.sent.i2 hs (msgMid_of_get hg) hn⟩
  · rintro ⟨c, hc⟩; rw [(iv.sent.t1 hc).2]; simp
  · intro hn
    cases hst : msgStatic g.msgs m with
    | none => exact absurd hst hn
    | some c => exact ⟨c, iv.sent.t2 hs hst⟩
  · intro b c
    constructor
    · intro hb
      obtain ⟨e, j, sj, pj⟩ := iv.static.s1 hb
      rw [hs] at sj; cases sj
      exact ⟨e, pj⟩
    · rintro ⟨e, p⟩; exact iv.static.s2 e hs p

end Acme.Props.C04
