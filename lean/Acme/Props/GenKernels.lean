/-
GenKernels — the hand-written model kernels ARE the Go kernels (a proof obligation tied to the
source text, for the functions where that is mechanically possible).

What is generated.  On every run /verif/tools/extract (kernels.go) parses /repo's CURRENT source
(go/packages, go/ast, go/types) and translates a whitelist of pure integer functions to Lean
definitions in `Acme/Gen/Kernels.lean` (namespace `Acme.Gen.K`; the file is not tracked, it is
rewritten before every build):

    helpers.go         calcSizeFromValue            K.calcSizeFromValue
    helpers.go         calcValueFromSize            K.calcValueFromSize
    importer.go        (*importer).getSignalStartBit   K.getSignalStartBit
    exporter.go        (*exporter).getStartBit      K.exporterStartBit
    signal_enum.go     calcEnumSize                 K.calcEnumSize
    canid_builder.go   (*CANIDBuilder).calculateOp  K.calculateOp
    signal_type.go     calcTypeRange                K.calcTypeRange
    signal_layout.go   (*SignalLayout).verifyBeforeInsert   K.verifyBeforeInsert  (+ _loop1, _after1)
    signal_layout.go   (*SignalLayout).verifyBeforeAppend   K.verifyBeforeAppend
    signal_layout.go   (*SignalLayout).verifyBeforeShrink   K.verifyBeforeShrink
    signal_layout.go   (*SignalLayout).verifyBeforeGrow     K.verifyBeforeGrow    (+ _loop1, _after1)
    signal_layout.go   (*SignalLayout).verifyBeforeResize   K.verifyBeforeResize
    signal_enum.go     (*SignalEnum).getMaxIndexWith        K.getMaxIndexWith     (+ _loop1, _after1)
    signal_enum.go     (*SignalEnum).GetSize                K.enumGetSize
    mux_signal.go      (*MultiplexerSignal).GetGroupCountSize   K.getGroupCountSize
    mux_signal.go      (*MultiplexerSignal).GetSize         K.muxGetSize
    signal_layout.go   insert, append, remove, removeAll, compact, modifyStartBitsOnShrink,
                       modifyStartBitsOnGrow, resize, shiftLeft, shiftRight (state-passing)
                       K.layoutInsert, K.layoutAppend, K.layoutRemove, K.layoutRemoveAll, K.layoutCompact,
                       K.modifyStartBitsOnShrink, K.modifyStartBitsOnGrow, K.layoutResize,
                       K.shiftLeft, K.shiftRight  (+ their _loopN / _afterN)
    signal_layout.go   (*SignalLayout).generateFilters      K.generateFilters (+ _loop1, _loop2, _after1)
    signal_layout.go   (*SignalLayout).Decode (the raw-value loop)   K.decodeRaw (+ _loop1, _after1)
    canid_builder.go   newCANIDBuilderOp, Calculate, CalculatePartials, InsertOperation,
                       RemoveOperation, RemoveAllOperations, UseMessagePriority, UseMessageID,
                       UseNodeID, UseCAN2A, UseBitMask
                       K.newCANIDBuilderOp, K.calculate, K.calculatePartials, K.insertOperation,
                       K.removeOperation, K.removeAllOperations, K.useMessagePriority, K.useMessageID,
                       K.useNodeID, K.useCAN2A, K.useBitMask  (+ their _loop1 / _after1)
    message.go         (*Message).GetCANID                  K.getCANID
    signal_type.go     newSignalTypeFromEntity              K.newSignalTypeFromEntity
    attribute.go       newIntegerAttributeFromBase, newFloatAttributeFromBase
                                                            K.newIntegerAttribute, K.newFloatAttribute
    signal_enum.go     (*SignalEnum).verifyValueName, verifyValueIndex
                                                            K.verifyValueName, K.verifyValueIndex
    signal_layout.go   signExtend                           K.signExtend
    signal_layout.go   (*SignalLayout).decodeStandardSignal K.decodeStandard
    signal_layout.go   (*SignalLayout).decodeEnumSignal     K.decodeEnum (+ _loop1, _after1)

The theorems below state that each generated definition equals the hand-written model function
that the properties C10 / C11 / C13 / C14 (and the layout properties through the enum / mux
sizes) are proved about.  They are proved in Acme/Proofs/GenKernels.lean.

What breaks when the Go code changes.  A change of one of these functions changes the generated
Lean text.  If the change is semantic (another comparison, another constant — named constants
are inlined by VALUE through go/types, so renumbering `CANIDBuilderOpKind*`, `maxSize`,
`MessageByteOrder*` or `dbc.Signal*Endian` counts —, another operator, a conversion of another
width, reordered statements with another effect) the equality below is false and the Lean build
fails at the theorem of that function.  If the function is rewritten with constructs outside
the translator's subset (loops, calls of non-whitelisted functions, field reads that are not in
its parameterisation table, multiple assignment, …) the extractor exits non-zero naming the
construct, and the run fails before Lean is started.  A rewrite that keeps the meaning may
still break the PROOF (not the statement); the proofs then have to be redone — that is the
intended direction of failure.  Renaming a local variable or changing a comment keeps them green.

Go semantics assumed by the translator (its trusted base, together with
Acme/Core/GenPrelude.lean):
  * Go `int` is modelled as unbounded `Int` for + - * (the 64-bit two's complement `int` of the
    supported platforms, under the assumption that these operations do not overflow, which
    holds for start bits, sizes and indexes of the library); `<<`, `>>` and the bitwise
    operators on an `int` go through the 64-bit two's complement representation
    (`BitVec.ofInt 64`), so `1 << size` wraps to 0 from size 64 on exactly as in Go;
  * sized integers (`uint32`, `uint64`, `int64`, `uint`, and the named types `CANID`,
    `MessageID`, `NodeID`, `MessagePriority`, `dbc.SignalByteOrder` over them) are `BitVec N`
    with wrap-around arithmetic; conversions are `BitVec.ofInt` / `setWidth` / `signExtend` /
    `toNat` / `toInt` according to the signedness of the source;
  * `/` and `%` on `int` are truncated (`Int.tdiv`, `Int.tmod`); division by zero (a Go panic)
    is outside the model;
  * a shift by a count ≥ the width yields 0 (sign fill for a signed `>>`): `BitVec` shifts by a
    `Nat`; a negative shift count (a Go panic) is outside the model;
  * `bits.Len64` is `Acme.GoSem.len64` (`Nat.log2 x + 1`, 0 for 0);
  * a struct / pointer parameter is replaced by the reads through it that are listed in the
    translator's per-function table (`dbcSig.StartBit`, `dbcSig.ByteOrder ==
    dbc.SignalLittleEndian`, `op.kind`, `op.from`, `op.len`); any other read is an error;
  * `calcTypeRange` only: `float64(x)` of an integer `x` is the exact integer `x` (the float
    rounding of 2^64-1 and of ±2^63 is outside the model, as in Acme.Arith.typeRange).

The layout checks (C01).  The five acceptance checks of the payload layout are translated with
their loops:
  * `sl.signals` ↦ `sigs : List Acme.Layout.Slot` (the signals in slice order; an element is only
    observed through `EntityID()` ↦ `.id`, `GetRelativeStartPos()` ↦ `.start`, `GetSize()` ↦
    `.size`; any other member is an error of the translator), `sl.size` ↦ `cap`, `sig.GetSize()`
    ↦ `sz`, `sig.EntityID()` ↦ `id`; `EntityID` (a string) is an opaque identity ↦ `Nat`, only
    compared with `==` / `!=`;
  * `for _, x := range sl.signals { body }` ↦ a structurally recursive function over the list,
    `K.<f>_loop1`, whose arguments are ALL the variables visible at the loop (assignments in the
    body shadow them, so loop-carried variables are accumulators): `return e` ↦ `e`, `break` ↦
    the continuation `K.<f>_after1` (the code after the loop), `continue` / end of the body ↦
    the recursive call on the tail, `[]` ↦ the continuation;
  * `len(sl.signals)` ↦ `List.length`; `x := sl.signals[i]` ↦ `match GoSem.index? sigs i with
    | none => Res.panic | some x => ..`: a kernel with an index expression returns
    `GoSem.Res _`, and the equalities below (the model never yields `LErr.panic` in these
    checks) prove that the index is in range for every list: `K_verifyBeforeAppend_no_panic`,
    `K_verifyBeforeResize_no_panic`;
  * a Go `error` result ↦ `Option K.Cause`, where `K.Cause` is the GENERATED inductive of the
    sentinels that occur (`ErrIsNegative`, `ErrIsZero`, `ErrOutOfBounds`, `ErrNoSpaceLeft`,
    `ErrIntersect`, `ErrTooSmall`): `nil` ↦ `none`, `ErrX` and `&T{.., Err: ErrX}` ↦
    `some .ErrX`.  The struct type `T` of the error (StartBitError, SignalSizeError) and its
    other fields are ignored: the sentinel is what the model (and the harness, through
    `errors.Is`) compares.  `Acme.GenK.ofCause` / `ofRes` map the results injectively
    (`ofCause_injective`, `ofRes_injective`) to the model's `Except LErr Unit`.
The equalities hold for ALL lists, capacities and arguments — no well-formedness (`WF`)
assumption; like the hand model they are over unbounded `Int` (`startBit > sl.size - sigSize`
is written overflow-free in the source on purpose).  A change of a comparison, of a bound, of
the order of the tests, of a sentinel, a dropped `break` / `continue` breaks the theorem of
that function.

The state-changing half of the layout (C01).  The methods that MUTATE the layout are translated
state-passing (kernels_state.go): `sl.signals` is an input `sigs : List Slot` and the first
component of the result (then the new `sl.size` for `resize`, then the Go result).
  * `sl.generateFilters()` and assignments to `sl.filters` are IGNORED: the filters are derived
    data, a function of the signal list and the size (C02 is about that function).
  * `x.setRelativeStartPos(e)` on the range variable of a loop over `sl.signals` replaces the
    current element; such a loop is `F_loopN vs (pre_) : List Slot → ρ` whose `pre_` is the prefix
    already passed WITH its modifications, so `len(sl.signals)`, `sl.signals[j]` and the list
    returned at a `break` see the elements as modified by the earlier iterations.  A counted
    loop `for i := a; i < len(sl.signals); i++` is the same loop started with the first `a`
    elements as prefix (`sl.signals[i]` is the current element; a negative `a` is `Res.panic`).
  * The slice holds POINTERS.  The argument signal `sig` (insert, append) is the triple
    (`id`, `sigStart`, `sz`); `sig.setRelativeStartPos(e)` assigns `sigStart` and gives the new
    start to every list element with the same entity id (an element that IS `sig`): pointer
    identity ↦ entity id.  Hence the hypothesis `∀ s ∈ l, s.id ≠ id` of `K_layoutInsert` /
    `K_layoutAppend` (the signal is not yet in the layout; `Message.addSignal` refuses a
    duplicate).  After a setter every other element variable is stale for the translator.
  * `var p Signal`, `p = sl.signals[j]`, `p = nil`, `if p != nil` ↦ `Option Slot`; an `if` with a
    branch that indexes / returns / breaks on some paths only has the code that follows it
    emitted in both branches.
  * `if err := sl.verifyBeforeX(..); err != nil { return &E{.., Err: err} }` ↦ the generated
    `K.verifyBeforeX` is called (its parameterised reads resolved in the caller's table) and its
    cause is passed through; the wrapping struct is ignored as before.
The equalities are with the model functions of Acme.Core.Layout that C01 is proved about
(`insert`, `append`, `remove`, `compact`, `shrinkStarts`, `growStarts`, `verifyResize`,
`shiftLeft`, `shiftRight`), for ALL lists and arguments (no `WF`), through `stateExc` / `stateRes`
(new list on success, cause on error, `LErr.panic` for an index panic).

The filters (C02).  `generateFilters` is translated with its nested loops:
  * the signals are `sigs : List (Slot × Bool)` (slot and byte order: `Endianness()` ↦ the Go
    constant value, `MessageByteOrderBigEndian` = 1, `…LittleEndian` = 0, so a renumbering in the
    source breaks the proof); the result `sl.filters` is an OUTPUT only, a `List Acme.Bits.Filter`:
    a literal `&SignalLayoutFilter{signal: sig, byteIdx: .., mask: uint8(m), length: .., leftOffset: ..}`
    is the record with `id := sig.id, be := sig's byte order, mask := (uint8 m).toNat` (every Go
    field must be given in the literal);
  * the inner `for i := firstIdx; i <= lastIdx; i++` is `K.generateFilters_loop2 vs i : Nat → σ`,
    structural recursion on the fuel `(lastIdx - firstIdx + 1).toNat`, returning the variables the
    body assigns (`filters`, `remainingBits`); the body may assign neither `i` nor a variable of
    the bound (checked);
  * `goto appendFilter` (a forward jump to a label at the end of the loop body) is translated by
    emitting the statements from the label on at the goto;
  * the masks are Go `int`s: `1<<n`, `m <<= k`, `m >>= k` go through the 64-bit representation
    (`GoSem.intShl` / `intShr`), `uint8(m)` is `BitVec.ofInt 8 m`.  The model computes in
    unbounded `Nat` and truncates with `u8`; `K_generateFilters` holds for ALL sizes and start
    positions, also those for which the 64-bit shift wraps (only the low 8 bits survive
    `uint8(..)`, and they agree: lemmas `mask0`, `mask1`, `maskShl255`, `maskShr255`).  A negative
    shift count (a Go panic, only for negative sizes / start positions) is `toNat` = 0 on both sides.
  * The known defect D08 (a big-endian signal inside ONE byte gets the little-endian offset and
    mask) is in the source, hence in the generated definition, and the model reproduces it on
    purpose: the equality holds WITH that behaviour (see the third example of
    Acme/Proofs/GenKernelsBits.lean); fixing it in the source breaks `K_generateFilters` until the
    model follows.

The raw-value loop of `Decode` (C02).  `(*SignalLayout).Decode` is translated up to the call of
`decodeSignal` (kernels_decode.go): `K.decodeRaw keep sigs filters data : GoSem.Res (List (Nat × BitVec 64))`
is the list of (entity id, `rawValue`) pairs for which the Go function appends a decoding, in order.
  * `data []byte` ↦ `data : List (BitVec 8)` (a bare slice parameter); `sl.filters` ↦
    `filters : List Acme.Bits.Filter`, read through `byteIdx`, `length`, `leftOffset`, `mask` (↦
    `BitVec.ofNat 8 f.mask`: the model stores the `Nat` of the `uint8`), `signal.EntityID()` ↦
    `some f.id`, `signal.Endianness()` ↦ the Go constant value as in `generateFilters`, `signal` ↦
    `some f.id`; `sl.signals` ↦ `sigs`, only measured (`len(sl.signals) == 0` ↦ no decodings).
  * `data[filter.byteIdx]` is an index expression NESTED in `uint64((data[..] & mask) >> off)`: it
    is hoisted into a `match GoSem.index? data byteIdx with | none => Res.panic | some at1_ => ..`
    in front of the statement (only out of the unconditionally evaluated part of an assignment;
    anywhere else the translator stops).  `Res.panic` is the model's `none`.
  * The id sentinel: `EntityID` ↦ `Option Nat` in this kernel, `prevEntID := EntityID("")` ↦ `none`,
    the id of a signal ↦ `some n`.  CHOICE (instead of `"" ↦ 0` plus a hypothesis "no filter has id
    0"): the model starts from `cur = none` and allows every `Nat` id, so `K_decodeRaw` needs NO
    hypothesis about ids; what is assumed — in the projection table, i.e. in the trusted base, not
    in the theorem — is that no signal has the EMPTY entity id (ids are 21-character nanoids,
    entity.go `newEntityID`).  `var currSig Signal` / `currSig = filter.signal` / `currSig != nil`
    ↦ an `Option Nat` (the id of the current signal); the proof's invariant is
    `prevEntID = currSig = the model's cur`.
  * `if dec := sl.decodeSignal(currSig, rawValue); dec != nil { decodings = append(decodings, dec) }`:
    `decodeSignal` (scaling, sign extension, enum lookup) is NOT translated; the opaque-call table
    replaces the call by `if keep id then some (id, rawValue) else none` with the extra parameter
    `keep : Nat → Bool` ("decodeSignal does not return nil for this signal"; it returns nil for
    multiplexer signals).  `Acme.Bits.decodeRaw` keeps EVERY signal and the driver filters the
    multiplexer signals out afterwards, so the equality is with `List.filter keep` of the model's
    result, for every predicate `keep` (`keep := fun _ => true`: a layout without multiplexer
    signals).  `make([]*SignalDecoding, 0, n)` ↦ `[]`, `return nil` ↦ `[]`.
  * `rawValue` is a `uint64` (`BitVec 64`), the model accumulates in `Nat`: the result carries
    `BitVec.ofNat 64 raw` (`toNat` = `raw % 2^64`); the loop invariant is
    `rawValue = BitVec.ofNat 64 raw`.  No size hypothesis (≤ 64 bits) is needed for the equality.
  * Hypotheses of `K_decodeRaw`, each needed: `hsig : sigs = [] → filters = []` (the Go function
    returns nil for a layout without signals whatever `sl.filters` holds; the filters are derived
    from the signals, `K_generateFilters`); `hlen`: for BIG-endian filters `0 ≤ length < 2^64`
    (`rawValue <<= uint64(filter.length)`: the conversion wraps a negative or ≥ 2^64 `int`, the
    model shifts by `length.toNat`).  Nothing about the payload (a `BitVec 8` is a byte; over the
    model's `List Nat` payload: `∀ b ∈ data, b < 256`, `K_decodeRaw_nat`), the masks, the offsets,
    little-endian lengths, the order or grouping of the filters.  As everywhere, a negative shift
    count (`leftOffset`, `consumedBits` < 0: a Go panic) is `toNat` = 0 on both sides.
  * `K_decode_le` / `K_decode_be_partial` compose `K.decodeRaw` with `K.generateFilters` and C02:
    the two generated functions together extract exactly the payload bits of every kept signal
    and never index past a payload of at least the layout's size.
A mutation of the loop (`<<=` ↔ `>>=`, the little-endian shift dropped, `consumedBits` not reset,
the mask applied after the shift, `!=` ↔ `==` in the new-signal test, …) changes the generated
text and breaks `K_decodeRaw` (self-test in the report of this kernel).

The post-processing of a raw value (C03).  `signExtend`, `decodeStandardSignal` and
`decodeEnumSignal` — the callees of the `decodeSignal` that `K.decodeRaw` leaves opaque — are
translated (kernels_value.go) and proved equal to `Acme.Arith.signExtend` / `decodeStd` /
`decodeEnum`, the functions C03 is proved about.
  * `K_signExtend` holds for EVERY raw value and EVERY size (`Int`): no hypothesis.  `1<<(size-1)`
    and `(1<<64 - 1) << size` are `uint64` shifts (`BitVec 64`; the constant `1<<64 - 1` is inlined
    by value, = `BitVec.allOnes 64`).  C03's domain (1 ≤ size ≤ 64, raw < 2^size) is only needed
    for the two's-complement reading (`K_signExtend_twos`).
  * `decodeStandardSignal`: `sigType := stdSig.typ` is an alias (checked, dropped); the type is the
    five reads `sigType.kind` (the Go constant VALUE: custom 0, flag 1, integer 2, decimal 3 —
    `Acme.GenK.stdKindCode`), `.size`, `.signed`, `.scale`, `.offset`.  `scale` / `offset` are
    `float64` in Go: by the translator's `exactFloat` convention they are the exact `Int` they hold,
    and `int64(x)` / `uint64(x)` is `BitVec.ofInt 64 x`.  ASSUMPTION of that convention (a
    hypothesis about the Go value, in the trusted base, not in the Lean theorem — the model makes the
    same one: its `scaleI`, `offI` are "the int64 / uint64 conversions of the float fields"):
    `scale` and `offset` are INTEGRAL floats with −2^63 ≤ x < 2^63 in the signed branch and
    0 ≤ x < 2^64 in the unsigned branch (outside that range Go's float→integer conversion is
    implementation-defined).  Go's wrap-around of the `int64` / `uint64` multiplication and
    addition is kept (`BitVec 64` on both sides): `K_decodeStandard` needs no range hypothesis;
    C03's `hrep` only enters the composed `K_decode_int_signed` / `_unsigned`.
  * the result `&SignalDecoding{..}` is the record `GoSem.Decoded` (`rawValue`, `valueType` = the
    string VALUE of the `SignalValueType` constant, `value`); `Signal` and `Unit` (with the locals
    `unit`, `sigUnit`) are NOT translated.  `var value any` is `GoSem.Any`: the stored value tagged
    with its dynamic type (`bool` / `int64` / `uint64` / `string`, hand-written in GenPrelude rather
    than generated: the set of supported dynamic types is fixed by the translator).
  * the decimal / custom branches are genuine float arithmetic and stay OUT: a `float64` stored in
    `value` is the opaque marker `Any.float64` (its expression is not translated at all), which
    `K_decodeStandard` relates to the model's `.float _` without comparing the value.
  * `K_decodeStandard` is ONE equality for all four kinds through `Acme.GenK.decodedOf` (model value
    ↦ the decoding that stands for it); `K_decodeStandard_int` reads the model's value back for the
    flag / integer kinds through `Acme.GenK.valueOf` (tag and dynamic type must agree;
    `valueOf_injective`).
  * `decodeEnumSignal`: `sigEnum := enumSig.enum` is an alias; the MAP `sigEnum.values.entries()` is
    `vals : List (String × Int)` (name, index) in an arbitrary order; `int(rawValue)` is
    `raw.toInt` (reinterpreted, as in Go); `res.Value = enumVal.name; break` ↦ the first match.
    `K_decodeEnum` holds for every list, i.e. every iteration order (with C04's unique indexes the
    order is irrelevant: `K_decodeEnum_hit`).  No match ↦ `""`.

The CAN-ID builder and `GetCANID` (C14).  All of canid_builder.go that computes or mutates (the
stringers and name / reference bookkeeping aside) and `(*Message).GetCANID` are translated
(kernels_canid.go) against Acme.Core.CanId.
  * `b.operations` ↦ `ops : List GoSem.KOp`: an operation as the Go code STORES it — the kind as
    the value of the `CANIDBuilderOpKind` constant, `from`, `len`.  The model's `BOp` has the kind
    as an inductive; `Acme.GenK.opView` (`kindCode`: priority 0, message id 1, node id 2, mask 3;
    injective, `opView_injective`) maps a model operation to the stored one, and the equalities
    are stated on `ops.map opView`.  `newCANIDBuilderOp` is itself a kernel (the struct literal ↦
    the record).
  * `Calculate` / `CalculatePartials`: the range loop calls the earlier kernel `K.calculateOp`; its
    parameterised reads `op.kind` / `op.from` / `op.len` are resolved as projections of the range
    variable.  `K_calculate`: = `Acme.CanId.calculate` (the left fold of `calcOp` from 0, in order).
  * `InsertOperation` / `RemoveOperation` are state-passing (`ops` in, `(ops', error)` out) and
    return `GoSem.Res`: `slices.Insert` / `slices.Delete` are `GoSem.sliceInsert` / `sliceDelete`,
    which are `Res.panic` exactly where the Go functions panic (Insert unless `0 ≤ i ≤ len`,
    Delete unless `0 ≤ i ≤ j ≤ len`); `K_insertOperation_no_panic` / `K_removeOperation_no_panic`:
    the argument checks cover these bounds.  An error is `some (Cause, argument name)`:
    `&ArgumentError{Name: "from", Err: ErrOutOfBounds}` ↦ `some (.ErrOutOfBounds, "from")` (the model's
    `Err.outOfBounds "from"`), so exchanging two names or two checks breaks the equality.
    `Acme.GenK.opsRes` reads the model's result: the new list, or the UNCHANGED list with cause and
    name; `K_insertOperation_err` / `K_removeOperation_err` state "a rejected call changes nothing"
    directly on the generated definitions, for every stored list.  The bounds are literals in the
    source (`31`, `32`); were they named constants their VALUE would be inlined, so `from > 31` →
    `from > 32` breaks `K_insertOperation` either way.
  * `Use*` return their receiver (`return b`: no result besides the state): each appends the
    documented operation; `K_defaultOps` chains `UseNodeID(0,4).UseMessageID(4,7).UseCAN2A()` (the chain
    of `newDefaultCANIDBuilder` itself is transcribed by hand: `NewCANIDBuilder` creates an entity).
  * `GetCANID`: parameters exactly as the code reads them — `m.hasStaticCANID`, `m.staticCANID`, `m.id`,
    `m.priority`, `m.hasSenderNodeInt()` and `nodeInt.hasParentBus()` (the two one-line predicates
    `!= nil` are parameters, not translated), `nodeInt.node.id`, and
    `nodeInt.parentBus.canIDBuilder.operations` (it only occurs through the call of `Calculate`:
    the callee's read `b.operations` resolved on the actual receiver); `nodeInt := m.senderNodeInt`
    is an alias.  `K_getCANID`: = `Acme.CanId.getCANID` with `static := if hasStatic then some .. `
    and `attached := if hasSender && hasBus then some (ops, node id)`.

Validation kernels (kernels_valid.go): argument checks that several hand models re-implement.
  * results `(*T, error)` ↦ `Option record × Option error`; an error keeps the argument name, and a
    cause that is a STRUCT keeps its target: `&ArgumentError{Name: "min", Err: &ErrGreaterThen{Target:
    "max"}}` ↦ `some (.ErrGreaterThen, "min", "max")`.  The parameters `ent` / `base` (entity,
    attribute base: name, ids) and the fields they fill are not translated.
  * the causes of these kernels are the SEPARATE generated inductive `K.VCause`; `K.Cause` stays the
    set of sentinels of the layout kernels, whose match in `Acme.GenK.ofCause` is deliberately
    exhaustive (a new sentinel in a layout function must break it).
  * NEW CONVENTION, order-only floats (`floatOrder`): in these kernels a Go `float64` is the exact
    `Rat` it denotes — as in Acme.Core.Attr — and ONLY parameters, constants, copies and the six
    comparisons are translated; arithmetic and conversions on it are rejected by the translator.
    NaN (every comparison false) and ±Inf are outside the model.  Used for the bounds of the float
    attribute and for min / max / scale / offset of a signal type (which are only stored).
  * `newSignalTypeFromEntity`: size < 0 ↦ ("size", ErrIsNegative), size = 0 ↦ ("size", ErrIsZero),
    else the type with exactly the given fields; `K_newSignalType_step`: that is the model's
    `typeNew` step (Acme.Core.Payload).  NO upper bound on the size is checked by the code (sizes
    above 64 are accepted; the model agrees).
  * `se.valueNames.verifyKeyUnique(name)` / `se.valueIndexes.verifyKeyUnique(index)` are OPAQUE: the
    keys of the set are a list parameter and the call is "some ErrIsDuplicated iff the key is in the
    list" (`set.verifyKeyUnique`, a generic method of helpers.go, is trusted); `se.verifySize(n)` is
    the opaque parameter `verifySize : Int → Option VCause` (hypothesis `hvs` of
    `K_verifyValueIndex`: it is the model's `enumVerifySize`).  `calcEnumSize` and `getMaxIndexWith`
    inside `verifyValueIndex` are the generated kernels.

Where a hypothesis appears (`v < 2 ^ 64`) it says that the argument is a Go `int`: the model
functions are defined on all of `Int`, the Go function only on 64-bit values (for `v ≥ 2^64` the
conversion `uint64(val)` of the source has no counterpart in the model).
-/
import Acme.Proofs.GenKernels
import Acme.Proofs.GenKernelsLayout
import Acme.Proofs.GenKernelsEnum
import Acme.Proofs.GenKernelsState
import Acme.Proofs.GenKernelsBits
import Acme.Proofs.GenKernelsDecode
import Acme.Proofs.GenKernelsValue
import Acme.Proofs.GenKernelsCanId
import Acme.Proofs.GenKernelsValid
import Acme.Proofs.Arith

namespace Acme.Props.GenKernels

open Acme.Gen

/-- helpers.go `calcSizeFromValue` = `Acme.Arith.calcSize`, for every Go `int`. -/
theorem K_calcSizeFromValue (v : Int) (h : v < 2 ^ 64) :
    K.calcSizeFromValue v = Acme.Arith.calcSize v :=
  Acme.GenK.calcSizeFromValue_eq v h

/-- helpers.go `calcValueFromSize` = `Acme.Arith.calcValue` (including the wrap to 0 at 64). -/
theorem K_calcValueFromSize (size : Int) :
    K.calcValueFromSize size = Acme.Arith.calcValue size :=
  Acme.GenK.calcValueFromSize_eq size

/-- importer.go `getSignalStartBit`: the DBC start bit (a `uint32`) itself for a little-endian
    signal, `Acme.Conv.convStart` of it for a big-endian one. -/
theorem K_getSignalStartBit (sb : BitVec 32) (littleEndian : Bool) :
    K.getSignalStartBit sb littleEndian =
      if littleEndian then (sb.toNat : Int) else Acme.Conv.convStart (sb.toNat : Int) :=
  Acme.GenK.getSignalStartBit_eq sb littleEndian

/-- the same, stated over the model's `Int` start bit (0 ≤ s < 2^32) -/
theorem K_getSignalStartBit_int (s : Int) (h0 : 0 ≤ s) (h : s < 2 ^ 32) (littleEndian : Bool) :
    K.getSignalStartBit (BitVec.ofInt 32 s) littleEndian =
      if littleEndian then s else Acme.Conv.convStart s :=
  Acme.GenK.getSignalStartBit_int s h0 h littleEndian

/-- exporter.go `getStartBit`: for `MessageByteOrderLittleEndian` (= 0) the start bit and
    `dbc.SignalLittleEndian` (= 0), otherwise `Acme.Conv.convStart` of the start bit and
    `dbc.SignalBigEndian` (= 1); the start bit is written as a `uint32`. -/
theorem K_exporterStartBit (s byteOrder : Int) :
    K.exporterStartBit s byteOrder =
      if byteOrder = 0 then (BitVec.ofInt 32 s, 0#64)
      else (BitVec.ofInt 32 (Acme.Conv.convStart s), 1#64) :=
  Acme.GenK.exporterStartBit_eq s byteOrder

/-- signal_enum.go `calcEnumSize` = `Acme.Arith.enumSize`, for every Go `int` index. -/
theorem K_calcEnumSize (minSize maxIndex : Int) (h : maxIndex < 2 ^ 64) :
    K.calcEnumSize minSize maxIndex = Acme.Arith.enumSize minSize maxIndex :=
  Acme.GenK.calcEnumSize_eq minSize maxIndex h

/-- canid_builder.go `calculateOp` = `Acme.CanId.calcOp`, where the operation kind is passed by
    its Go constant value (`Acme.GenK.kindCode`: priority 0, message id 1, node id 2, mask 3). -/
theorem K_calculateOp (op : Acme.CanId.BOp) (prev prio mid nid : BitVec 32) :
    K.calculateOp (Acme.GenK.kindCode op.kind) op.from_ op.len prev prio mid nid =
      Acme.CanId.calcOp op prev prio mid nid :=
  Acme.GenK.calculateOp_eq op prev prio mid nid

/-- signal_type.go `calcTypeRange` (the integers handed to `float64(..)`) =
    `Acme.Arith.typeRange`. -/
theorem K_calcTypeRange (size : Int) (signed : Bool) :
    K.calcTypeRange size signed = Acme.Arith.typeRange size signed :=
  Acme.GenK.calcTypeRange_eq size signed

/-! ### the acceptance checks of the payload layout (signal_layout.go, property C01) -/

open Acme.Layout in
/-- signal_layout.go `verifyBeforeInsert` = `Acme.Layout.verifyInsert`, for all layouts. -/
theorem K_verifyBeforeInsert (cap : Int) (l : List Slot) (sz st : Int) :
    Acme.GenK.ofCause (K.verifyBeforeInsert cap l sz st) = verifyInsert cap l sz st :=
  Acme.GenK.verifyBeforeInsert_eq cap l sz st

open Acme.Layout in
/-- signal_layout.go `verifyBeforeAppend` = `Acme.Layout.verifyAppend`, for all layouts. -/
theorem K_verifyBeforeAppend (cap : Int) (l : List Slot) (sz : Int) :
    Acme.GenK.ofRes (K.verifyBeforeAppend cap l sz) = verifyAppend cap l sz :=
  Acme.GenK.verifyBeforeAppend_eq cap l sz

open Acme.Layout in
/-- `sl.signals[sigCount-1]` in `verifyBeforeAppend` is never out of range. -/
theorem K_verifyBeforeAppend_no_panic (cap : Int) (l : List Slot) (sz : Int) :
    K.verifyBeforeAppend cap l sz ≠ .panic :=
  Acme.GenK.verifyBeforeAppend_no_panic cap l sz

/-- signal_layout.go `verifyBeforeShrink` = `Acme.Layout.verifyShrink`. -/
theorem K_verifyBeforeShrink (sz amount : Int) :
    Acme.GenK.ofCause (K.verifyBeforeShrink sz amount) = Acme.Layout.verifyShrink sz amount :=
  Acme.GenK.verifyBeforeShrink_eq sz amount

open Acme.Layout in
/-- signal_layout.go `verifyBeforeGrow` = `Acme.Layout.verifyGrow`, for all layouts and ids. -/
theorem K_verifyBeforeGrow (cap : Int) (l : List Slot) (id : Nat) (amount : Int) :
    Acme.GenK.ofCause (K.verifyBeforeGrow cap l id amount) = verifyGrow cap l id amount :=
  Acme.GenK.verifyBeforeGrow_eq cap l id amount

open Acme.Layout in
/-- signal_layout.go `verifyBeforeResize` = `Acme.Layout.verifyResize`, for all layouts. -/
theorem K_verifyBeforeResize (cap : Int) (l : List Slot) (newCap : Int) :
    Acme.GenK.ofRes (K.verifyBeforeResize cap l newCap) = verifyResize cap l newCap :=
  Acme.GenK.verifyBeforeResize_eq cap l newCap

open Acme.Layout in
/-- `sl.signals[len(sl.signals)-1]` in `verifyBeforeResize` is never out of range. -/
theorem K_verifyBeforeResize_no_panic (cap : Int) (l : List Slot) (newCap : Int) :
    K.verifyBeforeResize cap l newCap ≠ .panic :=
  Acme.GenK.verifyBeforeResize_no_panic cap l newCap

/-! ### the state-changing functions of the payload layout (signal_layout.go, property C01) -/

section State
open Acme.Layout Acme.GenK

/-- `insert` = `Acme.Layout.insert`, for every layout that does not already contain the signal;
    `sg` is the relative start the argument signal has before the call (irrelevant). -/
theorem K_layoutInsert (l : List Slot) (id : Nat) (sg sz st : Int) (h : ∀ s ∈ l, s.id ≠ id) :
    K.layoutInsert l id sg sz st = Acme.Layout.insert l id sz st :=
  layoutInsert_eq l id sg sz st h

/-- `append` (verification included) = `Acme.Layout.append`. -/
theorem K_layoutAppend (cap : Int) (l : List Slot) (id : Nat) (sg sz : Int) (h : ∀ s ∈ l, s.id ≠ id) :
    stateRes (K.layoutAppend l cap id sg sz) = Acme.Layout.append cap l id sz :=
  layoutAppend_eq cap l id sg sz h

/-- a refused `append` leaves the list unchanged -/
theorem K_layoutAppend_err (cap : Int) (l l' : List Slot) (id : Nat) (sg sz : Int) (c : K.Cause)
    (h : K.layoutAppend l cap id sg sz = .val (l', some c)) : l' = l :=
  layoutAppend_err cap l l' id sg sz c h

/-- `remove` = `Acme.Layout.remove`, for all layouts. -/
theorem K_layoutRemove (l : List Slot) (id : Nat) : K.layoutRemove l id = remove l id :=
  layoutRemove_eq l id

/-- `removeAll` empties the layout. -/
theorem K_layoutRemoveAll (l : List Slot) : K.layoutRemoveAll l = [] :=
  layoutRemoveAll_eq l

/-- `compact` = `Acme.Layout.compact`, for all layouts. -/
theorem K_layoutCompact (l : List Slot) : K.layoutCompact l = compact l :=
  layoutCompact_eq l

/-- `modifyStartBitsOnShrink` = `Acme.Layout.shrinkStarts` (`sz` = current size of the signal). -/
theorem K_modifyStartBitsOnShrink (l : List Slot) (id : Nat) (sz amount : Int) :
    stateExc (K.modifyStartBitsOnShrink l id sz amount) = shrinkStarts l id sz amount :=
  modifyStartBitsOnShrink_eq l id sz amount

theorem K_modifyStartBitsOnShrink_err (l l' : List Slot) (id : Nat) (sz amount : Int) (c : K.Cause)
    (h : K.modifyStartBitsOnShrink l id sz amount = (l', some c)) : l' = l :=
  modifyStartBitsOnShrink_err l l' id sz amount c h

/-- `modifyStartBitsOnGrow` = `Acme.Layout.growStarts`, for all layouts: the two loops (gaps
    behind the signal; pushing each follower by what is still missing) with their index
    expressions; an index panic of the Go code is `LErr.panic` of the model. -/
theorem K_modifyStartBitsOnGrow (cap : Int) (l : List Slot) (id : Nat) (amount : Int) :
    stateRes (K.modifyStartBitsOnGrow cap l id amount) = growStarts cap l id amount :=
  modifyStartBitsOnGrow_eq cap l id amount

/-- `resize`: the list is unchanged; the size becomes `newCap` exactly when
    `Acme.Layout.verifyResize` accepts, and the cause is the model's. -/
theorem K_layoutResize (cap : Int) (l : List Slot) (newCap : Int) :
    ∃ c, K.layoutResize cap l newCap = .val (l, (if c = none then newCap else cap), c) ∧
      ofCause c = verifyResize cap l newCap :=
  layoutResize_eq cap l newCap

/-- `shiftLeft` = `Acme.Layout.shiftLeft` (new layout and distance moved), for all layouts; in
    particular `sl.signals[idx-1]` never panics. -/
theorem K_shiftLeft (l : List Slot) (id : Nat) (amount : Int) :
    K.shiftLeft l id amount = .val (Acme.Layout.shiftLeft l id amount) :=
  shiftLeft_eq l id amount

/-- `shiftRight` = `Acme.Layout.shiftRight`, for all layouts; `sl.signals[idx+1]` never panics. -/
theorem K_shiftRight (cap : Int) (l : List Slot) (id : Nat) (amount : Int) :
    K.shiftRight cap l id amount = .val (Acme.Layout.shiftRight cap l id amount) :=
  shiftRight_eq cap l id amount

end State

/-! ### the filters of the payload layout (signal_layout.go, property C02) -/

/-- signal_layout.go `generateFilters` = `Acme.Bits.genFilters`, for all layouts (any sizes,
    start positions and byte orders; no well-formedness assumption). -/
theorem K_generateFilters (l : List (Acme.Layout.Slot × Bool)) :
    K.generateFilters l = Acme.Bits.genFilters l :=
  Acme.GenK.generateFilters_eq l

/-! ### the raw-value loop of `Decode` (signal_layout.go, property C02) -/

section Decode
open Acme.Layout Acme.Bits

/-- signal_layout.go `Decode`, up to `decodeSignal` = `Acme.Bits.decodeRaw`: for every filter list
    and every payload the Go loop appends exactly the model's (id, raw) pairs of the signals that
    `decodeSignal` keeps, the raw value as a `uint64` (the model's `Nat` modulo 2^64), and it
    panics (`data[filter.byteIdx]`) exactly when the model returns `none`. -/
theorem K_decodeRaw (keep : Nat → Bool) (sigs : List (Slot × Bool)) (filters : List Filter)
    (data : List (BitVec 8)) (hsig : sigs = [] → filters = [])
    (hlen : ∀ f ∈ filters, f.be = true → 0 ≤ f.length ∧ f.length < 2 ^ 64) :
    K.decodeRaw keep sigs filters data =
      match Acme.Bits.decodeRaw filters (data.map BitVec.toNat) with
      | none => .panic
      | some out => .val ((out.filter (fun p => keep p.1)).map (fun p => (p.1, BitVec.ofNat 64 p.2))) := by
  rw [Acme.GenK.decodeRaw_eq keep sigs filters data hsig hlen]
  cases Acme.Bits.decodeRaw filters (data.map BitVec.toNat) <;> rfl

/-- the same over the model's payload, a list of `Nat` bytes -/
theorem K_decodeRaw_nat (keep : Nat → Bool) (sigs : List (Slot × Bool)) (filters : List Filter)
    (data : List Nat) (hd : ∀ b ∈ data, b < 256) (hsig : sigs = [] → filters = [])
    (hlen : ∀ f ∈ filters, f.be = true → 0 ≤ f.length ∧ f.length < 2 ^ 64) :
    K.decodeRaw keep sigs filters (data.map (BitVec.ofNat 8)) =
      match Acme.Bits.decodeRaw filters data with
      | none => .panic
      | some out => .val ((out.filter (fun p => keep p.1)).map (fun p => (p.1, BitVec.ofNat 64 p.2))) := by
  rw [Acme.GenK.decodeRaw_eq_nat keep sigs filters data hd hsig hlen]
  cases Acme.Bits.decodeRaw filters data <;> rfl

/-- `data[filter.byteIdx]` panics exactly when the model returns `none` -/
theorem K_decodeRaw_panic_iff (keep : Nat → Bool) (sigs : List (Slot × Bool)) (filters : List Filter)
    (data : List (BitVec 8)) (hsig : sigs = [] → filters = [])
    (hlen : ∀ f ∈ filters, f.be = true → 0 ≤ f.length ∧ f.length < 2 ^ 64) :
    K.decodeRaw keep sigs filters data = .panic ↔
      Acme.Bits.decodeRaw filters (data.map BitVec.toNat) = none :=
  Acme.GenK.decodeRaw_panic_iff keep sigs filters data hsig hlen

/-- `data[filter.byteIdx]` never panics when every filter's byte index is inside the payload -/
theorem K_decodeRaw_no_panic (keep : Nat → Bool) (sigs : List (Slot × Bool)) (filters : List Filter)
    (data : List (BitVec 8)) (hsig : sigs = [] → filters = [])
    (hlen : ∀ f ∈ filters, f.be = true → 0 ≤ f.length ∧ f.length < 2 ^ 64)
    (hidx : ∀ f ∈ filters, 0 ≤ f.byteIdx ∧ f.byteIdx < data.length) :
    K.decodeRaw keep sigs filters data ≠ .panic :=
  Acme.GenK.decodeRaw_no_panic keep sigs filters data hsig hlen hidx

/-- C02 end to end on the generated code, little endian: `Decode` over `generateFilters` returns
    the payload bits `start .. start+size-1` of every kept signal, in layout order, for every
    well-formed layout and every payload of at least `n` bytes (and does not panic). -/
theorem K_decode_le (keep : Nat → Bool) (n : Nat) (l : List Slot) (hwf : WF (8 * n) l) (hn : IdsNodup l)
    (h64 : ∀ s ∈ l, s.size ≤ 64) (data : List (BitVec 8)) (hd : n ≤ data.length) :
    K.decodeRaw keep (l.map (fun s => (s, false))) (K.generateFilters (l.map (fun s => (s, false)))) data =
      .val (((l.map (fun s => (s.id, rawLE (data.map BitVec.toNat) s.start.toNat s.size.toNat))).filter
        (fun p => keep p.1)).map (fun p => (p.1, BitVec.ofNat 64 p.2))) :=
  Acme.GenK.decode_le_gen keep n l hwf hn h64 data hd

/-- the same, big endian, outside the known defect D08 (`BeOK`, see C02) -/
theorem K_decode_be_partial (keep : Nat → Bool) (n : Nat) (l : List Slot) (hwf : WF (8 * n) l)
    (hn : IdsNodup l) (h64 : ∀ s ∈ l, s.size ≤ 64) (hok : ∀ s ∈ l, BeOK s) (data : List (BitVec 8))
    (hd : n ≤ data.length) :
    K.decodeRaw keep (l.map (fun s => (s, true))) (K.generateFilters (l.map (fun s => (s, true)))) data =
      .val (((l.map (fun s => (s.id, rawBE (data.map BitVec.toNat) s.start.toNat s.size.toNat))).filter
        (fun p => keep p.1)).map (fun p => (p.1, BitVec.ofNat 64 p.2))) :=
  Acme.GenK.decode_be_gen keep n l hwf hn h64 hok data hd

/-! Non-vacuity: two signals (little endian 12 bits at 0, 4 bits at 28), the second one dropped by
    `keep`; a payload that is too short panics. -/
example : K.decodeRaw (fun i => i != 2) [(⟨1, 0, 12⟩, false), (⟨2, 28, 4⟩, false)]
    (K.generateFilters [(⟨1, 0, 12⟩, false), (⟨2, 28, 4⟩, false)]) [0x01#8, 0x08#8, 0#8, 0x90#8] =
    .val [(1, 0x801#64)] := by decide
example : K.decodeRaw (fun _ => true) [(⟨1, 0, 12⟩, false), (⟨2, 28, 4⟩, false)]
    (K.generateFilters [(⟨1, 0, 12⟩, false), (⟨2, 28, 4⟩, false)]) [0x01#8, 0x08#8, 0#8] = .panic := by decide

end Decode

/-! ### the post-processing of a raw value (signal_layout.go, property C03) -/

section Value
open Acme.Arith Acme.GenK Acme.GoSem

/-- signal_layout.go `signExtend` = `Acme.Arith.signExtend`, for every raw value and every size. -/
theorem K_signExtend (raw : BitVec 64) (size : Int) :
    K.signExtend raw size = Acme.Arith.signExtend raw size :=
  signExtend_eq raw size

/-- hence (C03_signExtend) the generated `signExtend` is two's complement on C03's domain -/
theorem K_signExtend_twos (n : Nat) (h1 : 1 ≤ n) (h2 : n ≤ 64) (raw : BitVec 64)
    (hr : raw.toNat < 2 ^ n) : (K.signExtend raw n).toInt = twos n raw.toNat := by
  rw [signExtend_eq]
  exact Acme.Arith.signExtend_twos n h1 h2 raw hr

/-- signal_layout.go `decodeStandardSignal` = `Acme.Arith.decodeStd`, all four kinds, every size,
    scale, offset and raw value (wrap-around included): the translated decoding is the one the
    model's value stands for (`decodedOf`: `.flag b` ↦ ("flag", bool b), `.int v` ↦ ("int", int64 v),
    `.uint v` ↦ ("uint", uint64 v), `.float _` ↦ ("float", the float64 MARKER — the float
    arithmetic of the decimal / custom kinds is not translated)). -/
theorem K_decodeStandard (k : Kind) (size : Int) (signed : Bool) (scale offset : Int) (sq oq : Rat)
    (raw : BitVec 64) :
    K.decodeStandard (stdKindCode k) size signed scale offset raw =
      decodedOf raw (decodeStd k size signed scale offset sq oq raw) :=
  decodeStandard_eq k size signed scale offset sq oq raw

/-- flag and integer kinds: the model's value is read back from the translated decoding
    (`valueOf`: the `ValueType` tag and the dynamic type of `Value` agree), `RawValue` is the raw. -/
theorem K_decodeStandard_int (k : Kind) (hk : k = .flag ∨ k = .integer) (size : Int) (signed : Bool)
    (scale offset : Int) (sq oq : Rat) (raw : BitVec 64) :
    valueOf (K.decodeStandard (stdKindCode k) size signed scale offset raw) =
      some (decodeStd k size signed scale offset sq oq raw) ∧
    (K.decodeStandard (stdKindCode k) size signed scale offset raw).rawValue = raw :=
  decodeStandard_int k hk size signed scale offset sq oq raw

/-- C03 on the generated code, signed integer kind: twos(raw)·scale + offset when that is an int64 -/
theorem K_decode_int_signed (n : Nat) (h1 : 1 ≤ n) (h2 : n ≤ 64) (raw : BitVec 64)
    (hr : raw.toNat < 2 ^ n) (scale off : Int)
    (hrep : -(2 ^ 63 : Int) ≤ twos n raw.toNat * scale + off ∧ twos n raw.toNat * scale + off < 2 ^ 63) :
    valueOf (K.decodeStandard 2 n true scale off raw) = some (.int (twos n raw.toNat * scale + off)) := by
  have h := (decodeStandard_int .integer (Or.inr rfl) n true scale off 0 0 raw).1
  rw [Acme.Arith.int_signed n h1 h2 raw hr scale off 0 0 hrep] at h
  exact h

/-- unsigned integer kind: raw·scale + offset when that is a uint64 -/
theorem K_decode_int_unsigned (n : Int) (raw : BitVec 64) (scale off : Int) (hs : 0 ≤ scale)
    (ho : 0 ≤ off) (hrep : (raw.toNat : Int) * scale + off < 2 ^ 64) :
    valueOf (K.decodeStandard 2 n false scale off raw) =
      some (.uint ((raw.toNat : Int) * scale + off).toNat) := by
  have h := (decodeStandard_int .integer (Or.inr rfl) n false scale off 0 0 raw).1
  rw [Acme.Arith.int_unsigned n raw scale off 0 0 hs ho hrep] at h
  exact h

/-- flags decode to raw ≠ 0 -/
theorem K_decode_flag (n : Int) (s : Bool) (scale off : Int) (raw : BitVec 64) :
    valueOf (K.decodeStandard 1 n s scale off raw) = some (.flag (decide (raw.toNat ≠ 0))) := by
  have h := (decodeStandard_int .flag (Or.inl rfl) n s scale off 0 0 raw).1
  rw [Acme.Arith.flag_spec n s scale off 0 0 raw] at h
  exact h

/-- signal_layout.go `decodeEnumSignal` = `Acme.Arith.decodeEnum`: `Value` is the name of the first
    listed value whose index equals `int(rawValue)`, `""` when there is none; for every list of
    (name, index) pairs, i.e. for every iteration order of the Go map. -/
theorem K_decodeEnum (vals : List (String × Int)) (raw : BitVec 64) :
    K.decodeEnum vals raw = ⟨raw, "enum", .str (Acme.Arith.decodeEnum vals raw)⟩ :=
  decodeEnum_eq vals raw

/-- C03 on the generated code: with unique indexes the value with index = raw is found, in every
    iteration order -/
theorem K_decodeEnum_hit (values : List (String × Int)) (hu : (values.map (·.2)).Nodup)
    (raw : BitVec 64) (hr : raw.toNat < 2 ^ 63) (name : String)
    (hm : (name, (raw.toNat : Int)) ∈ values) :
    K.decodeEnum values raw = ⟨raw, "enum", .str name⟩ := by
  rw [decodeEnum_eq, Acme.Arith.enum_hit values hu raw hr name hm]

theorem K_decodeEnum_miss (values : List (String × Int)) (raw : BitVec 64) (hr : raw.toNat < 2 ^ 63)
    (hm : ∀ v ∈ values, v.2 ≠ (raw.toNat : Int)) :
    K.decodeEnum values raw = ⟨raw, "enum", .str ""⟩ := by
  rw [decodeEnum_eq, Acme.Arith.enum_miss values raw hr hm]

/-! Non-vacuity -/
example : (K.signExtend 0x9#64 4).toInt = -7 := by decide
example : K.decodeStandard 2 4 true 2 1 0x9#64 = ⟨0x9#64, "int", .int64 (BitVec.ofInt 64 (-13))⟩ := by decide
example : K.decodeStandard 2 4 false 2 1 0x9#64 = ⟨0x9#64, "uint", .uint64 19#64⟩ := by decide
example : K.decodeStandard 3 4 false 2 1 0x9#64 = ⟨0x9#64, "float", .float64⟩ := by decide
example : K.decodeEnum [("a", 1), ("b", 9)] 0x9#64 = ⟨0x9#64, "enum", .str "b"⟩ := by decide
example : K.decodeEnum [("a", 1), ("b", 9)] 0x7#64 = ⟨0x7#64, "enum", .str ""⟩ := by decide

end Value

/-! ### the CAN-ID builder and `GetCANID` (canid_builder.go, message.go, property C14) -/

section CanId
open Acme.CanId Acme.GenK Acme.GoSem

/-- `newCANIDBuilderOp(kind, from, len)` is the stored operation -/
theorem K_newCANIDBuilderOp (k : Kind) (f l : Int) :
    K.newCANIDBuilderOp (kindCode k) f l = opView ⟨k, f, l⟩ :=
  newOp_eq k f l

/-- canid_builder.go `Calculate` = `Acme.CanId.calculate`: the operations applied in order from 0 -/
theorem K_calculate (ops : List BOp) (prio mid nid : BitVec 32) :
    K.calculate (ops.map opView) prio mid nid = calculate ops prio mid nid :=
  calculate_eq ops prio mid nid

/-- canid_builder.go `CalculatePartials` = `Acme.CanId.partials` -/
theorem K_calculatePartials (ops : List BOp) (prio mid nid : BitVec 32) :
    K.calculatePartials (ops.map opView) prio mid nid = partials ops prio mid nid :=
  calculatePartials_eq ops prio mid nid

/-- canid_builder.go `InsertOperation` = `Acme.CanId.insertOp`: the three argument checks in order,
    each with its argument name, then the positional insert; on an error the list is unchanged
    (`opsRes`). -/
theorem K_insertOperation (ops : List BOp) (k : Kind) (f l idx : Int) :
    K.insertOperation (ops.map opView) (kindCode k) f l idx = opsRes ops (insertOp ops k f l idx) :=
  insertOperation_eq ops k f l idx

/-- a rejected `InsertOperation` changes nothing (every stored list, every kind value) -/
theorem K_insertOperation_err (ops ops' : List KOp) (kind f l idx : Int) (c : K.Cause × String)
    (h : K.insertOperation ops kind f l idx = .val (ops', some c)) : ops' = ops :=
  insertOperation_err ops ops' kind f l idx c h

/-- `slices.Insert` never panics in `InsertOperation` -/
theorem K_insertOperation_no_panic (ops : List BOp) (k : Kind) (f l idx : Int) :
    K.insertOperation (ops.map opView) (kindCode k) f l idx ≠ .panic :=
  insertOperation_no_panic ops k f l idx

/-- canid_builder.go `RemoveOperation` = `Acme.CanId.removeOp` -/
theorem K_removeOperation (ops : List BOp) (idx : Int) :
    K.removeOperation (ops.map opView) idx = opsRes ops (removeOp ops idx) :=
  removeOperation_eq ops idx

theorem K_removeOperation_err (ops ops' : List KOp) (idx : Int) (c : K.Cause × String)
    (h : K.removeOperation ops idx = .val (ops', some c)) : ops' = ops :=
  removeOperation_err ops ops' idx c h

/-- `slices.Delete` never panics in `RemoveOperation` -/
theorem K_removeOperation_no_panic (ops : List BOp) (idx : Int) :
    K.removeOperation (ops.map opView) idx ≠ .panic :=
  removeOperation_no_panic ops idx

theorem K_removeAllOperations (ops : List KOp) : K.removeAllOperations ops = [] :=
  removeAllOperations_eq ops

/-- the `Use*` helpers append the documented operation -/
theorem K_useMessagePriority (ops : List BOp) (f : Int) :
    K.useMessagePriority (ops.map opView) f = (ops ++ [(⟨.prio, f, 2⟩ : BOp)]).map opView :=
  useMessagePriority_eq ops f
theorem K_useMessageID (ops : List BOp) (f l : Int) :
    K.useMessageID (ops.map opView) f l = (ops ++ [(⟨.msgId, f, l⟩ : BOp)]).map opView :=
  useMessageID_eq ops f l
theorem K_useNodeID (ops : List BOp) (f l : Int) :
    K.useNodeID (ops.map opView) f l = (ops ++ [(⟨.nodeId, f, l⟩ : BOp)]).map opView :=
  useNodeID_eq ops f l
theorem K_useBitMask (ops : List BOp) (f l : Int) :
    K.useBitMask (ops.map opView) f l = (ops ++ [(⟨.mask, f, l⟩ : BOp)]).map opView :=
  useBitMask_eq ops f l
theorem K_useCAN2A (ops : List BOp) :
    K.useCAN2A (ops.map opView) = (ops ++ [(⟨.mask, 0, 11⟩ : BOp)]).map opView :=
  useCAN2A_eq ops

/-- the default builder's chain `UseNodeID(0, 4).UseMessageID(4, 7).UseCAN2A()` is `defaultOps` -/
theorem K_defaultOps : K.useCAN2A (K.useMessageID (K.useNodeID [] 0 4) 4 7) = defaultOps.map opView :=
  defaultOps_eq

/-- message.go `GetCANID` = `Acme.CanId.getCANID`: the static CAN-ID when set; the message id when
    there is no sender node interface or it is not attached to a bus; otherwise `Calculate` of the
    bus's builder on (priority, message id, node id). -/
theorem K_getCANID (hasStatic : Bool) (static mid prio : BitVec 32) (hasSender hasBus : Bool)
    (nid : BitVec 32) (ops : List BOp) :
    K.getCANID hasStatic static mid prio hasSender hasBus nid (ops.map opView) =
      getCANID (if hasStatic then some static else none)
        (if hasSender && hasBus then some (ops, nid) else none) prio mid :=
  getCANID_eq hasStatic static mid prio hasSender hasBus nid ops

/-! Non-vacuity -/
example : K.calculate (defaultOps.map opView) 0#32 0x7F#32 0xF#32 = 0x7FF#32 := by decide
example : K.insertOperation [] 1 32 0 0 = .val ([], some (.ErrOutOfBounds, "from")) := by decide
example : K.insertOperation [] 1 31 2 0 = .val ([], some (.ErrOutOfBounds, "length")) := by decide
example : K.insertOperation [] 1 31 1 1 = .val ([], some (.ErrOutOfBounds, "opIndex")) := by decide
example : K.insertOperation [⟨3, 0, 11⟩] 1 4 7 0 = .val ([⟨1, 4, 7⟩, ⟨3, 0, 11⟩], none) := by decide
example : K.removeOperation [⟨1, 4, 7⟩, ⟨3, 0, 11⟩] 1 = .val ([⟨1, 4, 7⟩], none) := by decide
example : K.getCANID false 0#32 0x7F#32 0#32 true true 0xF#32 (defaultOps.map opView) = 0x7FF#32 := by decide
example : K.getCANID false 0#32 0x7F#32 0#32 true false 0xF#32 (defaultOps.map opView) = 0x7F#32 := by decide

end CanId

/-! ### validation: constructors of signal types and attributes, enum value checks -/

section Valid
open Acme.GenK Acme.GoSem

/-- signal_type.go `newSignalTypeFromEntity` as a function of its arguments -/
theorem K_newSignalType (kind size : Int) (signed : Bool) (mn mx sc off : Rat) :
    K.newSignalTypeFromEntity kind size signed mn mx sc off =
      if size < 0 then (none, some (.ErrIsNegative, "size"))
      else if size = 0 then (none, some (.ErrIsZero, "size"))
      else (some ⟨kind, size, signed, mn, mx, sc, off⟩, none) :=
  newSignalType_eq kind size signed mn mx sc off

/-- it accepts exactly when the model's `typeNew` step (Acme.Core.Payload) does, with the same
    cause, and the created type has the given size -/
theorem K_newSignalType_step (w : Acme.Payload.W) (t : Nat) (ht : (w.types.get t).isSome = false)
    (kind size : Int) (signed : Bool) (mn mx sc off : Rat) :
    (Acme.Payload.step w (.typeNew t size)).2 =
      typeOut (K.newSignalTypeFromEntity kind size signed mn mx sc off) ∧
    ∀ ty, (K.newSignalTypeFromEntity kind size signed mn mx sc off).1 = some ty →
      (Acme.Payload.step w (.typeNew t size)).1.types.get t = some ⟨ty.size⟩ :=
  newSignalType_step w t ht kind size signed mn mx sc off

open Acme.Attr in
/-- attribute.go `newIntegerAttributeFromBase` = `Acme.Attr.newInt`: min > max, default > max,
    default < min in this order, each with its argument name, cause and target (`attrErr`) -/
theorem K_newIntegerAttribute (name : String) (d mn mx : Int) :
    K.newIntegerAttribute d mn mx =
      match newInt name d mn mx false with
      | .ok _ => (some ⟨d, mn, mx, false⟩, none)
      | .error e => (none, attrErr e) :=
  newIntegerAttribute_eq name d mn mx

open Acme.Attr in
/-- attribute.go `newFloatAttributeFromBase` = `Acme.Attr.newFloat` (floats: exact rationals,
    comparisons only) -/
theorem K_newFloatAttribute (name : String) (d mn mx : Rat) :
    K.newFloatAttribute d mn mx =
      match newFloat name d mn mx with
      | .ok _ => (some ⟨d, mn, mx⟩, none)
      | .error e => (none, attrErr e) :=
  newFloatAttribute_eq name d mn mx

open Acme.Payload in
/-- signal_enum.go `verifyValueName` refuses exactly the names the model's `hasValName` finds
    (`names` = the keys of `se.valueNames` = the names of the enum's values) -/
theorem K_verifyValueName (w : W) (values : List Nat) (name : String) :
    K.verifyValueName (values.map (valName w)) name =
      if hasValName w values name then some .ErrIsDuplicated else none :=
  verifyValueName_model w values name

open Acme.Payload in
/-- signal_enum.go `verifyValueIndex` = `Acme.Payload.verifyValueIndex` (`vexc`: the causes as the
    model's; `hvs`: the opaque `se.verifySize` is the model's `enumVerifySize`; `hmax`: indexes are
    Go `int`s) -/
theorem K_verifyValueIndex (w : W) (en : EnumE) (v : Nat) (index : Int) (vs : Int → Option K.VCause)
    (hvs : ∀ n, vexc (vs n) = lexc (enumVerifySize w en n))
    (hmax : maxIndexWith w en.values v index < 2 ^ 64) :
    vexc (K.verifyValueIndex (en.values.map (valIndex w)) vs en.minSize (viewVals w en.values) v index) =
      verifyValueIndex w en v index :=
  verifyValueIndex_eq w en v index vs hvs hmax

/-! Non-vacuity -/
example : K.newSignalTypeFromEntity 2 0 false 0 0 1 0 = (none, some (.ErrIsZero, "size")) := by decide
example : K.newIntegerAttribute 5 0 4 = (none, some (.ErrGreaterThen, "defValue", "max")) := by decide
example : K.newIntegerAttribute 4 0 4 = (some ⟨4, 0, 4, false⟩, none) := by decide
example : K.newFloatAttribute 0 1 2 = (none, some (.ErrLowerThen, "defValue", "min")) := by decide
example : K.verifyValueName ["a", "b"] "b" = some .ErrIsDuplicated := by decide
example : K.verifyValueIndex [1, 2] (fun _ => none) 1 [⟨7, 1⟩, ⟨8, 2⟩] 9 2 = some .ErrIsDuplicated := by decide
example : K.verifyValueIndex [1, 2] (fun _ => none) 1 [⟨7, 1⟩, ⟨8, 2⟩] 9 3 = none := by decide

end Valid

/-! ### enum and multiplexer sizes -/

/-- signal_enum.go `getMaxIndexWith` = `Acme.Payload.maxIndexWith`.  The Go function ranges
    over the MAP of the enum's values; the translation takes its values as a list in an
    arbitrary order (`viewVals w values` = the (id, index) pairs of the model's value ids), and
    the equality holds for every list, i.e. for every iteration order. -/
theorem K_getMaxIndexWith (w : Acme.Payload.W) (values : List Nat) (v : Nat) (index : Int) :
    K.getMaxIndexWith (Acme.GenK.viewVals w values) v index =
      Acme.Payload.maxIndexWith w values v index :=
  Acme.GenK.getMaxIndexWith_eq w values v index

/-- signal_enum.go `SignalEnum.GetSize` = `Acme.Arith.enumSize` of its two fields. -/
theorem K_enumGetSize (minSize maxIndex : Int) (h : maxIndex < 2 ^ 64) :
    K.enumGetSize minSize maxIndex = Acme.Arith.enumSize minSize maxIndex :=
  Acme.GenK.enumGetSize_eq minSize maxIndex h

/-- mux_signal.go `GetGroupCountSize` = `Acme.Arith.muxSelWidth`, for every Go `int`. -/
theorem K_getGroupCountSize (groupCount : Int) (h : groupCount ≤ 2 ^ 64) :
    K.getGroupCountSize groupCount = Acme.Arith.muxSelWidth groupCount :=
  Acme.GenK.getGroupCountSize_eq groupCount h

/-- mux_signal.go `MultiplexerSignal.GetSize` (with its call of `GetGroupCountSize` composed in
    the statement) = the multiplexer case of `Acme.Mux.sigSize`. -/
theorem K_muxGetSize (e : Acme.Mux.SigE) (gc gs : Int) (hk : e.kind = .mux gc gs) (h : gc ≤ 2 ^ 64) :
    K.muxGetSize gs (K.getGroupCountSize gc) = Acme.Mux.sigSize e :=
  Acme.GenK.muxGetSize_eq e gc gs hk h

end Acme.Props.GenKernels
