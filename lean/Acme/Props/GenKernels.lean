/-
GenKernels — the hand-written model kernels ARE the Go kernels (a proof obligation tied to the
source text, for the functions where that is mechanically possible).

What is generated.  On every run /verif/tools/extract (kernels.go) parses /repo's CURRENT source
(go/packages, go/ast, go/types) and translates a whitelist of pure integer functions to Lean
definitions in `Acme/Gen/Kernels.lean` (namespace `Acme.Gen.K`; the file is not tracked, it is
rewritten before every build):

    helpers.go         calcSizeFromValue            K.calcSizeFromValue
    helpers.go         calcValueFromSize            K.calcValueFromSize
    importer.go        (*importer).getSignalStartBit   K.getSignalStartBit
    exporter.go        (*exporter).getStartBit      K.exporterStartBit
    signal_enum.go     calcEnumSize                 K.calcEnumSize
    canid_builder.go   (*CANIDBuilder).calculateOp  K.calculateOp
    signal_type.go     calcTypeRange                K.calcTypeRange

The theorems below state that each generated definition equals the hand-written model function
that the properties C10 / C11 / C13 / C14 (and the layout properties through the enum / mux
sizes) are proved about.  They are proved in Acme/Proofs/GenKernels.lean.

What breaks when the Go code changes.  A change of one of these functions changes the generated
Lean text.  If the change is semantic (another comparison, another constant — named constants
are inlined by VALUE through go/types, so renumbering `CANIDBuilderOpKind*`, `maxSize`,
`MessageByteOrder*` or `dbc.Signal*Endian` counts —, another operator, a conversion of another
width, reordered statements with another effect) the equality below is false and the Lean build
fails at the theorem of that function.  If the function is rewritten with constructs outside
the translator's subset (loops, calls of non-whitelisted functions, field reads that are not in
its parameterisation table, multiple assignment, …) the extractor exits non-zero naming the
construct, and the run fails before Lean is started.  A rewrite that keeps the meaning may
still break the PROOF (not the statement); the proofs then have to be redone — that is the
intended direction of failure.  Renaming a local variable or changing a comment keeps them green.

Go semantics assumed by the translator (its trusted base, together with
Acme/Core/GenPrelude.lean):
  * Go `int` is modelled as unbounded `Int` for + - * (the 64-bit two's complement `int` of the
    supported platforms, under the assumption that these operations do not overflow, which
    holds for start bits, sizes and indexes of the library); `<<`, `>>` and the bitwise
    operators on an `int` go through the 64-bit two's complement representation
    (`BitVec.ofInt 64`), so `1 << size` wraps to 0 from size 64 on exactly as in Go;
  * sized integers (`uint32`, `uint64`, `int64`, `uint`, and the named types `CANID`,
    `MessageID`, `NodeID`, `MessagePriority`, `dbc.SignalByteOrder` over them) are `BitVec N`
    with wrap-around arithmetic; conversions are `BitVec.ofInt` / `setWidth` / `signExtend` /
    `toNat` / `toInt` according to the signedness of the source;
  * `/` and `%` on `int` are truncated (`Int.tdiv`, `Int.tmod`); division by zero (a Go panic)
    is outside the model;
  * a shift by a count ≥ the width yields 0 (sign fill for a signed `>>`): `BitVec` shifts by a
    `Nat`; a negative shift count (a Go panic) is outside the model;
  * `bits.Len64` is `Acme.GoSem.len64` (`Nat.log2 x + 1`, 0 for 0);
  * a struct / pointer parameter is replaced by the reads through it that are listed in the
    translator's per-function table (`dbcSig.StartBit`, `dbcSig.ByteOrder ==
    dbc.SignalLittleEndian`, `op.kind`, `op.from`, `op.len`); any other read is an error;
  * `calcTypeRange` only: `float64(x)` of an integer `x` is the exact integer `x` (the float
    rounding of 2^64-1 and of ±2^63 is outside the model, as in Acme.Arith.typeRange).

Where a hypothesis appears (`v < 2 ^ 64`) it says that the argument is a Go `int`: the model
functions are defined on all of `Int`, the Go function only on 64-bit values (for `v ≥ 2^64` the
conversion `uint64(val)` of the source has no counterpart in the model).
-/
import Acme.Proofs.GenKernels

namespace Acme.Props.GenKernels

open Acme.Gen

/-- helpers.go `calcSizeFromValue` = `Acme.Arith.calcSize`, for every Go `int`. -/
theorem K_calcSizeFromValue (v : Int) (h : v < 2 ^ 64) :
    K.calcSizeFromValue v = Acme.Arith.calcSize v :=
  Acme.GenK.calcSizeFromValue_eq v h

/-- helpers.go `calcValueFromSize` = `Acme.Arith.calcValue` (including the wrap to 0 at 64). -/
theorem K_calcValueFromSize (size : Int) :
    K.calcValueFromSize size = Acme.Arith.calcValue size :=
  Acme.GenK.calcValueFromSize_eq size

/-- importer.go `getSignalStartBit`: the DBC start bit (a `uint32`) itself for a little-endian
    signal, `Acme.Conv.convStart` of it for a big-endian one. -/
theorem K_getSignalStartBit (sb : BitVec 32) (littleEndian : Bool) :
    K.getSignalStartBit sb littleEndian =
      if littleEndian then (sb.toNat : Int) else Acme.Conv.convStart (sb.toNat : Int) :=
  Acme.GenK.getSignalStartBit_eq sb littleEndian

/-- the same, stated over the model's `Int` start bit (0 ≤ s < 2^32) -/
theorem K_getSignalStartBit_int (s : Int) (h0 : 0 ≤ s) (h : s < 2 ^ 32) (littleEndian : Bool) :
    K.getSignalStartBit (BitVec.ofInt 32 s) littleEndian =
      if littleEndian then s else Acme.Conv.convStart s :=
  Acme.GenK.getSignalStartBit_int s h0 h littleEndian

/-- exporter.go `getStartBit`: for `MessageByteOrderLittleEndian` (= 0) the start bit and
    `dbc.SignalLittleEndian` (= 0), otherwise `Acme.Conv.convStart` of the start bit and
    `dbc.SignalBigEndian` (= 1); the start bit is written as a `uint32`. -/
theorem K_exporterStartBit (s byteOrder : Int) :
    K.exporterStartBit s byteOrder =
      if byteOrder = 0 then (BitVec.ofInt 32 s, 0#64)
      else (BitVec.ofInt 32 (Acme.Conv.convStart s), 1#64) :=
  Acme.GenK.exporterStartBit_eq s byteOrder

/-- signal_enum.go `calcEnumSize` = `Acme.Arith.enumSize`, for every Go `int` index. -/
theorem K_calcEnumSize (minSize maxIndex : Int) (h : maxIndex < 2 ^ 64) :
    K.calcEnumSize minSize maxIndex = Acme.Arith.enumSize minSize maxIndex :=
  Acme.GenK.calcEnumSize_eq minSize maxIndex h

/-- canid_builder.go `calculateOp` = `Acme.CanId.calcOp`, where the operation kind is passed by
    its Go constant value (`Acme.GenK.kindCode`: priority 0, message id 1, node id 2, mask 3). -/
theorem K_calculateOp (op : Acme.CanId.BOp) (prev prio mid nid : BitVec 32) :
    K.calculateOp (Acme.GenK.kindCode op.kind) op.from_ op.len prev prio mid nid =
      Acme.CanId.calcOp op prev prio mid nid :=
  Acme.GenK.calculateOp_eq op prev prio mid nid

/-- signal_type.go `calcTypeRange` (the integers handed to `float64(..)`) =
    `Acme.Arith.typeRange`. -/
theorem K_calcTypeRange (size : Int) (signed : Bool) :
    K.calcTypeRange size signed = Acme.Arith.typeRange size signed :=
  Acme.GenK.calcTypeRange_eq size signed

end Acme.Props.GenKernels
