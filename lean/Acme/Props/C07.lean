/-
C07 — Multiplexer groups are valid layouts with consistent membership.

  Every group of a multiplexer signal is a well-formed layout (disjoint, in bounds, ordered)
  within the group size; a signal inserted without group ids is present in every group at one
  position, a signal inserted with group ids is present in exactly those groups, and group
  ids outside 0..count-1 or already holding the signal are refused.  A multiplexer's size is
  its group size plus the selector width for its group count, and the absolute start bit of a
  multiplexed signal is its parent's start plus the selector width plus its relative position,
  at every nesting depth.  Inserting, removing, shifting, resizing or clearing at any depth
  keeps every group and the owning message's view of its signals in step.

The model is `Acme.Mux.step` (Acme/Core/Mux.lean), tied to mux_signal.go / message.go /
signal.go by the `mux` correspondence stream.  The theorems quantify over every world
reachable by any finite sequence of admissible operations (`Reach`, Acme/Spec/Mux.lean:
admissible = inside the modelled region — no re-attachment D25 — and outside the two
known-defect regions D35 and D73, whose witnesses are at the end of this file).
-/
import Acme.Core.Mux
import Acme.Spec.Mux
import Acme.Proofs.MuxRefuse

namespace Acme.Props.C07
open Acme.Mux Acme.Layout Acme.Arith

/-- The invariant is preserved by every admissible operation, whatever its arguments. -/
theorem C07_step (w : MW) (op : Op) (h : Inv w) (hop : OpOK w op) : Inv (step w op).1 :=
  Acme.Mux.inv_step w op h hop

/-- After every admissible history the invariant holds. -/
theorem C07_reach (w : MW) (h : Reach w) : Inv w :=
  Acme.Mux.reach_inv w h

/-- After every history, every group of every multiplexer is a well-formed layout within the
    group size, without repeated members; there are exactly `groupCount` groups. -/
theorem C07_groups (w : MW) (h : Reach w) (x : Nat) (xe : SigE) (gc gs : Int)
    (hx : w.sigs.get x = some xe) (hk : xe.kind = .mux gc gs) :
    xe.mx.groups.length = gc.toNat ∧ 0 < gc ∧ 0 < gs ∧
    ∀ g ∈ xe.mx.groups, WF gs (slotsOf w g) ∧ g.Nodup :=
  (C07_reach w h).groupsWF x xe gc gs hx hk

/-- After every history: a signal inserted without ids is in every group; a signal inserted
    with ids is in exactly the groups of its (sorted, duplicate-free, in-range) id list; a signal
    that is neither is in no group. One relative position per signal is built into the model. -/
theorem C07_membership (w : MW) (h : Reach w) (x : Nat) (xe : SigE) (gc gs : Int)
    (hx : w.sigs.get x = some xe) (hk : xe.kind = .mux gc gs) :
    (∀ s ∈ xe.mx.fixed, ∀ g ∈ xe.mx.groups, s ∈ g) ∧
    (∀ s gids, xe.mx.groupIds.get s = some gids →
        gids ≠ [] ∧ gids.Pairwise (· < ·) ∧ (∀ k ∈ gids, 0 ≤ k ∧ k < gc) ∧
        ∀ k : Nat, k < gc.toNat → (s ∈ xe.mx.groups.getD k [] ↔ (k : Int) ∈ gids)) ∧
    (∀ s, s ∉ xe.mx.fixed → xe.mx.groupIds.get s = none → ∀ g ∈ xe.mx.groups, s ∉ g) :=
  ⟨(C07_reach w h).fixedEverywhere x xe gc gs hx hk,
   ((C07_reach w h).listedExactly x xe gc gs hx hk).1, ((C07_reach w h).listedExactly x xe gc gs hx hk).2⟩

/-- After every history the owning message's view is in step: the registry is the top-level
    layout plus everything nested in it at any depth, the parent links agree, and the names are
    pairwise different (C04 at every depth). -/
theorem C07_message_view (w : MW) (h : Reach w) (m : Nat) (msg : MsgE) (hm : w.msgs.get m = some msg) :
    (∀ s, s ∈ msg.signals ↔ s ∈ msg.layout ∨ ∃ t ∈ msg.layout, s ∈ descendants w (fuelOf w) t) ∧
    (∀ s e, w.sigs.get s = some e → (e.parentMsg = some m ↔ s ∈ msg.signals)) ∧
    (∀ n i, nmGet msg.signalNames n = some i ↔ i ∈ msg.signals ∧ nameOf w i = n) ∧
    (∀ i j, i ∈ msg.signals → j ∈ msg.signals → nameOf w i = nameOf w j → i = j) :=
  (C07_reach w h).msgView m msg hm

/-- The size of a multiplexer is its group size plus the selector width for its group count
    (the selector width is the smallest sufficient width: C03, `muxSelWidth`). -/
theorem C07_mux_size (e : SigE) (gc gs : Int) (hk : e.kind = .mux gc gs) :
    sigSize e = gs + muxSelWidth gc := by
  simp [sigSize, hk]

/-- The absolute start bit of a multiplexed signal is its parent's start plus the selector
    width plus its relative position — at every nesting depth. -/
theorem C07_abs_start (w : MW) (h : Reach w) (s x : Nat) (e : SigE) (hs : w.sigs.get s = some e)
    (hp : e.parentMux = some x) :
    ∃ xe, w.sigs.get x = some xe ∧
      absStart w (fuelOf w) s = absStart w (fuelOf w) x + selWidthOf xe + e.rel :=
  Acme.Mux.absStart_eq w (reach_invCore w h) s x e hs hp

/-- A signal without parent multiplexer starts at its relative position. -/
theorem C07_abs_start_top (w : MW) (h : Reach w) (s : Nat) (e : SigE) (hs : w.sigs.get s = some e)
    (hp : e.parentMux = none) : absStart w (fuelOf w) s = e.rel := by
  have h0 := Acme.Mux.anc_lt_fuel w (reach_invCore w h).treeOK 0 s s e hs rfl
  obtain ⟨f, hf⟩ : ∃ f, fuelOf w = f + 1 := ⟨fuelOf w - 1, by omega⟩
  rw [hf, absStart]
  simp only [hs, hp]

/-- `InsertSignal` with group ids, once the names are accepted: an id that is negative, not
    below the group count, or among the ids the signal is already listed for refuses the
    insertion, and nothing changes; a negative id is reported as such (the ids are checked in
    ascending order).  For a signal of the multiplexer listed for group `g`, "already listed"
    is "already holding the signal". -/
theorem C07_insert_refuses (w : MW) (h : Reach w) (x s : Nat) (st : Int) (gids : List Int) (xe se : SigE) (gc gs : Int)
    (hx : w.sigs.get x = some xe) (hk : xe.kind = .mux gc gs) (hs : w.sigs.get s = some se)
    (hsup : (insForeign x se || selfOrAncestor w s (fuelOf w + 1) x) = false)
    (hvn : verifyMuxName w xe s se.name = true) (hnest : insNestedOk w xe s = true)
    (g : Int) (hg : g ∈ gids)
    (hbad : g < 0 ∨ g ≥ gc ∨ (s ∉ xe.mx.fixed ∧ s ∈ xe.mx.groups.getD g.toNat [])) :
    (step w (.muxIns x s st gids)).1 = w ∧ (∀ v, (step w (.muxIns x s st gids)).2 ≠ .ok v) ∧
    (g < 0 → (step w (.muxIns x s st gids)).2 = .err .negative) := by
  have hbad' : g < 0 ∨ g ≥ gc ∨ g ∈ prevIds xe s := by
    rcases hbad with hh | hh | ⟨hnf, hmem⟩
    · exact Or.inl hh
    · exact Or.inr (Or.inl hh)
    · by_cases h1 : g < 0
      · exact Or.inl h1
      · by_cases h2 : g ≥ gc
        · exact Or.inr (Or.inl h2)
        · right; right
          have hxo := (reach_invCore w h).muxOK hx hk
          have hlt : g.toNat < xe.mx.groups.length := by rw [hxo.shape.1]; omega
          have hgm := getD_mem xe.mx.groups g.toNat [] hlt
          cases hl : xe.mx.groupIds.get s with
          | none => exact absurd hmem (hxo.neither s hnf hl _ hgm)
          | some ids =>
            have := ((hxo.listed s ids hl).2.2.2 g.toNat (by omega)).mp hmem
            have e : ((g.toNat : Nat) : Int) = g := by omega
            simp only [prevIds, hl]
            rwa [e] at this
  exact Acme.Mux.insert_refuses w x s st gids xe se gc gs hx hk hs hsup hvn hnest g hg hbad'

/-- the exact causes for a single group id -/
theorem C07_insert_refuses_single (w : MW) (x s : Nat) (st : Int) (g : Int) (xe se : SigE) (gc gs : Int)
    (hx : w.sigs.get x = some xe) (hk : xe.kind = .mux gc gs) (hs : w.sigs.get s = some se)
    (hsup : (insForeign x se || selfOrAncestor w s (fuelOf w + 1) x) = false)
    (hvn : verifyMuxName w xe s se.name = true) (hnest : insNestedOk w xe s = true) :
    (g < 0 → step w (.muxIns x s st [g]) = (w, .err .negative)) ∧
    (0 ≤ g → g ≥ gc → step w (.muxIns x s st [g]) = (w, .err .outOfBounds)) ∧
    (0 ≤ g → g < gc → g ∈ prevIds xe s → step w (.muxIns x s st [g]) = (w, .err .duplicated)) :=
  Acme.Mux.insert_refuses_single w x s st g xe se gc gs hx hk hs hsup hvn hnest

/-- No admissible operation on a reachable world panics. -/
theorem C07_nopanic (w : MW) (h : Reach w) (op : Op) (hop : OpOK w op) : (step w op).2 ≠ .panic :=
  Acme.Mux.step_nopanic w h op hop

/-- A rejected admissible operation leaves a reachable world unchanged.  For every operation
    except `leaf.size` this holds in every world (`C07_err_unchanged_any`); `leaf.size` verifies
    all groups first and modifies them afterwards, and the modification of a later group can
    fail outside the admissible region (D73). -/
theorem C07_err_unchanged (w : MW) (h : Reach w) (op : Op) (hop : OpOK w op) (c : Cause)
    (he : (step w op).2 = .err c) : (step w op).1 = w :=
  Acme.Mux.step_err_unchanged w h op hop c he

theorem C07_err_unchanged_any (w : MW) (op : Op) (hop : ∀ s n, op ≠ .leafSize s n) (c : Cause)
    (he : (step w op).2 = .err c) : (step w op).1 = w := by
  rcases Acme.Mux.step_atomic w op hop with h1 | h1
  · exact h1
  · exact absurd he (h1 c)

/-! ### witnesses of the two known defects, and non-vacuity -/

/-- every operation of the list is admissible when it is executed -/
def allOK : MW → List Op → Bool
  | _, [] => true
  | w, op :: rest => decide (OpOK w op) && allOK (step w op).1 rest

theorem reach_run (w : MW) (ops : List Op) (h : Reach w) (hok : allOK w ops = true) : Reach (run w ops) := by
  induction ops generalizing w with
  | nil => exact h
  | cons op rest ih =>
    simp only [allOK, Bool.and_eq_true, decide_eq_true_eq] at hok
    exact ih _ (Reach.step w op h hok.1) hok.2

/-- D35: `a@0` and `b@8` in group 0 of a 2 × 16 multiplexer -/
def opsD35 : List Op :=
  [.sigMux 1 "m" 2 16, .sigLeaf 2 "a" 8, .sigLeaf 3 "b" 8, .muxIns 1 2 0 [0], .muxIns 1 3 8 [0]]

/-- D35: inserting `a` again for group 1 at start 8 is accepted by the code; `a` then starts at
    8 in group 0 as well and overlaps `b`.  The operation is outside `OpOK`. -/
theorem C07_D35_witness :
    Reach (run {} opsD35) ∧ ¬ OpOK (run {} opsD35) (.muxIns 1 2 8 [1]) ∧
    (step (run {} opsD35) (.muxIns 1 2 8 [1])).2 = .ok [] ∧
    ¬ WF 16 (slotsOf (step (run {} opsD35) (.muxIns 1 2 8 [1])).1 [2, 3]) :=
  ⟨reach_run {} opsD35 Reach.init (by decide), by decide, by decide, by decide⟩

/-- D73: `a` in group 0, `b` in groups 0 and 1, `c` behind `b` in group 1 -/
def opsD73 : List Op :=
  [.sigMux 1 "m" 2 16, .sigLeaf 2 "a" 4, .sigLeaf 3 "b" 4, .sigLeaf 4 "c" 4,
   .muxIns 1 2 0 [0], .muxIns 1 3 4 [0, 1], .muxIns 1 4 8 [1]]

/-- D73: `a` grows by 4; the growth is verified in group 0 only, `b` is pushed to 8 and now
    overlaps `c` in group 1.  The operation is outside `OpOK`. -/
theorem C07_D73_witness :
    Reach (run {} opsD73) ∧ ¬ OpOK (run {} opsD73) (.leafSize 2 8) ∧
    (step (run {} opsD73) (.leafSize 2 8)).2 = .ok [] ∧
    ¬ WF 16 (slotsOf (step (run {} opsD73) (.leafSize 2 8)).1 [3, 4]) :=
  ⟨reach_run {} opsD73 Reach.init (by decide), by decide, by decide, by decide⟩

/-- Non-vacuity: three multiplexers nested in a message, populated before and after the
    attachment. -/
def opsNested : List Op :=
  [.msgNew 1 8, .sigMux 2 "a" 2 40, .sigMux 3 "b" 4 20, .sigMux 4 "c" 3 6, .sigLeaf 5 "d" 3,
   .muxIns 4 5 1 [0, 2], .muxIns 3 4 5 [1], .msgIns 1 2 8, .muxIns 2 3 10 [], .sigLeaf 6 "e" 2,
   .muxIns 4 6 4 [1], .leafSize 5 2, .muxShr 4 6 5]

theorem C07_nested_reachable : Reach (run {} opsNested) :=
  reach_run {} opsNested Reach.init (by decide)

example : absStart (run {} opsNested) (fuelOf (run {} opsNested)) 5 = 29 := by decide
example : ((run {} opsNested).msgs.get 1).map (fun m => m.signals.length) = some 5 := by decide

end Acme.Props.C07
