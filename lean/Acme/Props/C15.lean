/-
C15 — Exports are deterministic functions of the model.

  Exporting the same unchanged model repeatedly to DBC, to Markdown or to the wire encoding
  yields byte-identical output every time, independent of map iteration order, of the order
  in which an equal model was built, and of the number of CPUs.

What a theorem can carry here is the logic: the output does not depend on the order in
which Go maps yield their entries.  (a) Tie B: the complete inventory of map-iteration sites
of package acmelib, regenerated from the source on every run, equals the classified table
Acme.Expect.iterSites: every site on an export path is sorted by a comparator that ends in
the entity id, or is order-irrelevant.  (b) For such comparators, the sorted list is the
same for every permutation of the collected entities, and any correct sort yields it.
The physical causes (map seeds, scheduler, CPU count) are exercised by the `det` stream.
-/
import Acme.Core.Det
import Acme.Proofs.Det
import Acme.Proofs.SitesIter

namespace Acme.Props.C15
open Acme.Det

/-- Tie B obligation: the map-iteration sites of the source are exactly the classified ones. -/
theorem C15_sites : Acme.Gen.iterSites = Acme.Expect.iterSites.map (·.1) :=
  Acme.Sites.iterSites_expected

/-- Integer primary key + entity id: the export does not depend on the order in which the
    map yielded the entities, provided entity ids are pairwise different (they are unique). -/
theorem C15_perm_int (render : List (Ent Int) → α) (l₁ l₂ : List (Ent Int)) (hp : l₁.Perm l₂)
    (hid : (l₁.map (·.id)).Nodup) :
    exportInt render l₁ = exportInt render l₂ :=
  Acme.Det.exportInt_perm render l₁ l₂ hp hid

/-- String primary key (a name) + entity id. -/
theorem C15_perm_str (render : List (Ent String) → α) (l₁ l₂ : List (Ent String)) (hp : l₁.Perm l₂)
    (hid : (l₁.map (·.id)).Nodup) :
    exportStr render l₁ = exportStr render l₂ :=
  Acme.Det.exportStr_perm render l₁ l₂ hp hid

/-- Any correct sort gives the same result as the model's merge sort: a permutation of the
    input that is ordered by the comparator is the merge-sorted list (so Go's pdqsort and
    the model agree). -/
theorem C15_any_sort (l s : List (Ent Int)) (hid : (l.map (·.id)).Nodup) (hp : s.Perm l)
    (hs : s.Pairwise (fun a b => leInt a b = true)) :
    s = l.mergeSort leInt :=
  Acme.Det.any_sort_int l s hid hp hs

/-- Without the entity-id tie-break the claim is false: two entities with equal primary keys
    come out in collection order (this is what D61–D64 were). -/
theorem C15_tiebreak_needed :
    ∃ l₁ l₂ : List (Ent Int), l₁.Perm l₂ ∧
      l₁.mergeSort (fun a b => decide (a.key ≤ b.key)) ≠ l₂.mergeSort (fun a b => decide (a.key ≤ b.key)) :=
  Acme.Det.tiebreak_needed

/-! Non-vacuity -/
example : exportInt id [⟨2, "b", 0⟩, ⟨1, "z", 1⟩, ⟨2, "a", 2⟩] = [⟨1, "z", 1⟩, ⟨2, "a", 2⟩, ⟨2, "b", 0⟩] := by
  -- proof script only (statement unchanged): `decide` cannot unfold the well-founded `List.mergeSort`
  simp [exportInt, List.mergeSort, List.MergeSort.Internal.splitInTwo, leInt]

end Acme.Props.C15
