/-
C12, the SCALAR half: "save then load reproduces the network" for every scalar field of the
statement.  Model: `Acme.SaveScalar` (Core/SaveScalar.lean); the field table is DERIVED from the
inventory that tools/extract/scalars.go regenerates from saver.go / loader.go on every run.

1. `C12_scalar_roundtrip_iff` — for every conversion kind and every value:
   load (save v) = v  ↔  `Fits c v` (0 ≤ x < 2^32 for `uint32(x)`, −2^31 ≤ x < 2^31 for
   `int32(x)`, everything for the copied kinds, the domain of the inverted table for enums, the
   valid Timestamp range for creation times); `C12_scalar_back_*` say what comes back otherwise.
2. `C12_scalar_roundtrip_entity` — the same for a whole entity record over the field table.
3. `C12_scalar_inventory`, `_classified`, `_loaded_are_saved`, `_not_loaded` — the regenerated
   table equals the hand-validated `Acme.Expect.scalarFields`; no transfer is unclassified; the
   only scalar fields written and never read are the two of `C12_fields`.
4. `C12_scalar_enum_fits` — every constant of every saver table comes back (all ten enum fields,
   incl. `Signal.Kind`, `Attribute.Type`, `Bus.Type`, which `C12_enum_tables` does not cover).
5. Witnesses D57 / D58 on the real field table, and what the public API guarantees
   (`C12_scalar_api_*`, from the constructor checks TRANSLATED in `Acme.Gen.K`).
-/
import Acme.Core.SaveScalar
import Acme.Expect.Scalars
import Acme.Gen.Kernels

namespace Acme.Props.C12Scalar
open Acme.SaveScalar

/-! ### Go's conversions are what the model says -/

/-- `uint32(x)` = the low 32 bits of the 64-bit two's-complement `int` -/
theorem C12_scalar_uint32_is_truncation (x : Int) :
    BitVec.ofInt 32 x = (BitVec.ofInt 64 x).setWidth 32 := by
  apply BitVec.eq_of_toNat_eq
  rw [BitVec.toNat_setWidth, BitVec.toNat_ofInt, BitVec.toNat_ofInt]
  have h1 : (2:Int)^32 = 4294967296 := by decide
  have h2 : (2:Int)^64 = 18446744073709551616 := by decide
  have h3 : (2:Nat)^32 = 4294967296 := by decide
  omega

theorem u32_back (x : Int) : ((BitVec.ofInt 32 x).toNat : Int) = goUint32 x := by
  unfold goUint32
  rw [BitVec.toNat_ofInt]
  have : (2:Int)^32 = 4294967296 := by decide
  omega

theorem i32_back (x : Int) : (BitVec.ofInt 32 x).toInt = goInt32 x := by
  unfold goInt32
  rw [BitVec.toInt_ofInt]

theorem goInt32_eq (x : Int) : goInt32 x = x ↔ -2147483648 ≤ x ∧ x < 2147483648 := by
  unfold goInt32
  rw [Int.bmod_def]
  split <;> omega

/-- `int32(x)` is the wrap into [−2^31, 2^31): the value congruent to x mod 2^32 in that range -/
theorem C12_scalar_int32_is_wrap (x : Int) :
    -2147483648 ≤ goInt32 x ∧ goInt32 x < 2147483648 ∧ (goInt32 x - x) % 4294967296 = 0 := by
  unfold goInt32
  rw [Int.bmod_def]
  split <;> omega

/-- `uint32(x)` is the residue in [0, 2^32) -/
theorem C12_scalar_uint32_is_residue (x : Int) :
    0 ≤ goUint32 x ∧ goUint32 x < 4294967296 ∧ (goUint32 x - x) % 4294967296 = 0 := by
  unfold goUint32
  omega

/-! ### one scalar -/

theorem u32z_iff (d x : Int) : roundTrip (.u32z d) (.int x) = some (.int x) ↔ Fits (.u32z d) (.int x) := by
  simp only [roundTrip, saveScalar, loadScalar, Fits, Option.bind_some]
  have hb := u32_back x
  unfold goUint32 at hb
  by_cases h : (BitVec.ofInt 32 x).toNat = 0
  · have h0 : x % 4294967296 = 0 := by omega
    simp only [h, h0, if_true, Option.some.injEq, Scalar.int.injEq]
    exact eq_comm
  · have h0 : ¬ x % 4294967296 = 0 := by omega
    simp only [h, h0, if_false, Option.some.injEq, Scalar.int.injEq]
    omega

/-- THE per-conversion statement: a scalar survives save → load exactly when it fits -/
theorem C12_scalar_roundtrip_iff (c : Conv) (v : Scalar) : roundTrip c v = some v ↔ Fits c v := by
  cases c <;> cases v
  case u32z.int d x => exact u32z_iff d x
  all_goals simp [roundTrip, saveScalar, loadScalar, Fits]
  · omega
  · exact goInt32_eq _
  · rename_i t x
    by_cases h : 0 ≤ x ∧ x < 4294967296
    · simp [h, loadScalar]; omega
    · simp [h]

theorem C12_scalar_u32_iff (x : Int) :
    roundTrip .u32 (.int x) = some (.int x) ↔ 0 ≤ x ∧ x < 4294967296 :=
  C12_scalar_roundtrip_iff .u32 (.int x)

theorem C12_scalar_i32_iff (x : Int) :
    roundTrip .i32 (.int x) = some (.int x) ↔ -2147483648 ≤ x ∧ x < 2147483648 :=
  C12_scalar_roundtrip_iff .i32 (.int x)

/-- floats, strings, booleans and entity ids are copied: every value comes back -/
theorem C12_scalar_copied (b : Nat) (s : String) (f : Bool) :
    roundTrip .f64 (.float b) = some (.float b) ∧ roundTrip .str (.str s) = some (.str s) ∧
    roundTrip .id (.str s) = some (.str s) ∧ roundTrip .bool (.bool f) = some (.bool f) := by
  simp [roundTrip, saveScalar, loadScalar]

/-- what comes back through a `uint32` field: x mod 2^32 -/
theorem C12_scalar_back_u32 (x : Int) : roundTrip .u32 (.int x) = some (.int (goUint32 x)) := by
  simp [roundTrip, saveScalar, loadScalar, ← u32_back]

/-- what comes back through an `int32` field: x wrapped into [−2^31, 2^31) -/
theorem C12_scalar_back_i32 (x : Int) : roundTrip .i32 (.int x) = some (.int (goInt32 x)) := by
  simp [roundTrip, saveScalar, loadScalar, ← i32_back]

/-- the load side alone (a hand-edited or foreign save): every uint32 / int32 wire value widens
    to the number it denotes — `int(w)` loses nothing -/
theorem C12_scalar_widen (b : BitVec 32) :
    loadScalar .u32 (.u32 b) = some (.int b.toNat) ∧ loadScalar .i32 (.i32 b) = some (.int b.toInt) ∧
    (0 ≤ (b.toNat : Int) ∧ (b.toNat : Int) < 4294967296) ∧ (-2147483648 ≤ b.toInt ∧ b.toInt < 2147483648) := by
  refine ⟨rfl, rfl, ⟨by omega, by have := b.isLt; omega⟩, ?_⟩
  have h1 := @BitVec.toInt_lt 32 b
  have h2 := @BitVec.le_toInt 32 b
  omega

/-- a model constant outside the saver's table is written as the default (UNSPECIFIED) constant,
    which the loader's table does not list: the loaded object keeps what its constructor chose -/
theorem C12_scalar_enum_outside (d : String) (sv ld : Table) (c : String)
    (h1 : lookup sv c = none) (h2 : lookup ld d = none) : roundTrip (.enum d sv ld) (.tag c) = none := by
  simp [roundTrip, saveScalar, loadScalar, h1, h2]

/-! ### one entity -/

theorem roundTripEnt_nil (k : String) : roundTripEnt k [] = some [] := rfl

theorem roundTripEnt_cons (k : String) (p : String × Scalar) (e : Ent) :
    roundTripEnt k (p :: e) =
      match roundTrip (convOf k p.1) p.2, roundTripEnt k e with
      | some v, some e' => some ((p.1, v) :: e')
      | _, _ => none := by
  unfold roundTripEnt saveEnt loadEnt roundTrip
  simp only [mapOpt, saveField]
  cases hs : saveScalar (convOf k p.1) p.2 with
  | none => simp
  | some w =>
    cases hm : mapOpt (saveField k) e with
    | none => simp
    | some ws =>
      simp only [Option.map_some, Option.bind_some, mapOpt, loadField]
      cases loadScalar (convOf k p.1) w <;> cases mapOpt (loadField k) ws <;> simp

/-- an entity record survives save → load exactly when every scalar fits the conversion of its
    field in the (regenerated) field table -/
theorem C12_scalar_roundtrip_entity (k : String) (e : Ent) :
    roundTripEnt k e = some e ↔ ∀ p ∈ e, Fits (convOf k p.1) p.2 := by
  induction e with
  | nil => simp [roundTripEnt_nil]
  | cons p e ih =>
    rw [roundTripEnt_cons]
    constructor
    · intro h
      cases h1 : roundTrip (convOf k p.1) p.2 with
      | none => simp [h1] at h
      | some v =>
        cases h2 : roundTripEnt k e with
        | none => simp [h1, h2] at h
        | some e' =>
          simp only [h1, h2, Option.some.injEq, List.cons.injEq] at h
          obtain ⟨hv, he⟩ := h
          have hv' : v = p.2 := by
            have := congrArg Prod.snd hv
            simpa using this
          subst he
          intro q hq
          rcases List.mem_cons.1 hq with rfl | hq
          · exact (C12_scalar_roundtrip_iff _ _).1 (by rw [h1, hv'])
          · exact (ih.1 h2) q hq
    · intro h
      have h1 := (C12_scalar_roundtrip_iff _ _).2 (h p (List.mem_cons_self ..))
      have h2 := ih.2 (fun q hq => h q (List.mem_cons_of_mem _ hq))
      simp [h1, h2]

/-- the direction the property needs -/
theorem C12_scalar_roundtrip_entity_of_fits (k : String) (e : Ent)
    (h : ∀ p ∈ e, Fits (convOf k p.1) p.2) : roundTripEnt k e = some e :=
  (C12_scalar_roundtrip_entity k e).2 h

/-- one unfit scalar spoils the record: the result is refused or differs -/
theorem C12_scalar_unfit_entity (k : String) (e : Ent) (p : String × Scalar) (hp : p ∈ e)
    (h : ¬ Fits (convOf k p.1) p.2) : roundTripEnt k e ≠ some e :=
  fun hr => h ((C12_scalar_roundtrip_entity k e).1 hr p hp)

/-! ### the field table is the source's -/

set_option synthInstance.maxSize 2000 in
/-- the table derived from the regenerated inventory is the hand-validated one: a dropped
    transfer, two swapped fields, a changed conversion, a new condition breaks this -/
theorem C12_scalar_inventory : summaries = Acme.Expect.scalarFields := by decide

def isUnknown : Conv → Bool
  | .unknown _ => true
  | _ => false

/-- every transfer of the inventory is classified -/
theorem C12_scalar_classified : fieldTable.all (fun f => !isUnknown f.conv) = true := by decide

/-- the loader reads no scalar field the saver does not write -/
theorem C12_scalar_loaded_are_saved : loadedNotSaved = [] := by decide

/-- written and never read back: exactly the two fields classified in `C12_fields` -/
theorem C12_scalar_not_loaded :
    (fieldTable.filter (fun f => f.conv == .notLoaded)).map (fun f => (f.msg, f.field)) =
      [("AttributeAssignment", "EntityId"), ("Entity", "EntityKind")] := by decide

def enumInverted : Conv → Bool
  | .enum d sv ld => sv.all (fun p => decide (Fits (.enum d sv ld) (.tag p.1)))
  | _ => true

theorem enumInverted_all : fieldTable.all (fun f => enumInverted f.conv) = true := by decide

/-- every constant of every saver table comes back as itself — all enum fields of the table -/
theorem C12_scalar_enum_fits (f : Field) (hf : f ∈ fieldTable) (d : String) (sv ld : Table)
    (hc : f.conv = .enum d sv ld) (p : String × String) (hp : p ∈ sv) :
    roundTrip f.conv (.tag p.1) = some (.tag p.1) := by
  have h := List.all_eq_true.1 enumInverted_all f hf
  rw [hc] at h ⊢
  have := List.all_eq_true.1 h p hp
  exact (C12_scalar_roundtrip_iff _ _).2 (of_decide_eq_true this)

/-- the enum fields of the table -/
theorem C12_scalar_enum_fields :
    (fieldTable.filter (fun f => f.conv.name.1 == "enum")).map (fun f => (f.msg, f.field)) =
      [("Attribute", "Type"), ("Bus", "Type"), ("CANIDBuilderOp", "Kind"), ("Message", "ByteOrder"),
       ("Message", "Priority"), ("Message", "SendType"), ("Signal", "Kind"), ("Signal", "SendType"),
       ("SignalType", "Kind"), ("SignalUnit", "Kind")] := by decide

/-- the narrowing fields of the table: where information can be lost -/
theorem C12_scalar_narrowing_fields :
    (fieldTable.filter (fun f => f.conv.name.1 == "u32" || f.conv.name.1 == "u32z")).map (fun f => (f.msg, f.field)) =
      [("Bus", "Baudrate"), ("CANIDBuilderOp", "From"), ("CANIDBuilderOp", "Len"), ("Message", "CycleTime"),
       ("Message", "DelayTime"), ("Message", "SizeByte"), ("Message", "StartDelayTime"),
       ("MessageReceiver", "NodeInterfaceNumber"), ("MultiplexerSignal", "GroupCount"),
       ("MultiplexerSignal", "GroupSize"), ("Node", "InterfaceCount"), ("SignalEnum", "MinSize"),
       ("SignalEnumValue", "Index"), ("SignalPayloadRef", "RelStartBit"), ("SignalType", "Size")] ∧
    (fieldTable.filter (fun f => f.conv.name.1 == "u32z")).map (fun f => (f.msg, f.field, f.conv.name.2)) =
      [("Message", "CycleTime", "0"), ("Message", "DelayTime", "0"), ("Message", "StartDelayTime", "0"),
       ("SignalEnum", "MinSize", "1")] ∧
    (fieldTable.filter (fun f => f.conv == .i32)).map (fun f => (f.msg, f.field)) =
      [("AttributeAssignment_ValueInt", "ValueInt"), ("IntegerAttribute", "DefValue"),
       ("IntegerAttribute", "Max"), ("IntegerAttribute", "Min"), ("NodeInterface", "Number")] := by decide

/-! ### D57 / D58 on the real table, and what the public API guarantees -/

/-- D58: `SetCycleTime(-1)` is accepted by the API (no check); the message comes back with
    cycle time 4294967295 -/
theorem C12_scalar_D58 :
    convOf "Message" "CycleTime" = .u32z 0 ∧
    roundTripEnt "Message" [("CycleTime", .int (-1)), ("DelayTime", .int 4294967296)] =
      some [("CycleTime", .int 4294967295), ("DelayTime", .int 0)] := by decide

/-- NEW (found by stream `svs`): the minimum size of a signal enum is assigned by the loader only
    `if MinSize != 0`, and `newSignalEnumFromEntity` starts at 1: `SetMinSize(0)` is accepted by the
    API and comes back as 1.  (The size of the enum is unaffected: `calcSizeFromValue ≥ 1`.) -/
theorem C12_scalar_minSize_zero :
    convOf "SignalEnum" "MinSize" = .u32z 1 ∧ roundTrip (.u32z 1) (.int 0) = some (.int 1) ∧
    ¬ Fits (convOf "SignalEnum" "MinSize") (.int 0) := by decide

/-- the zero guard of the three message times is harmless: their constructor starts at 0 -/
theorem C12_scalar_u32z_zero (x : Int) : Fits (.u32z 0) (.int x) ↔ Fits .u32 (.int x) := by
  simp only [Fits]
  split <;> omega

/-- D57: `NewIntegerAttribute(0, 0, 2^31)` is accepted (translated constructor check
    `K.newIntegerAttribute`); the scalars come back as (0, 0, −2^31), and the SAME check, which
    the loader runs through `newIntegerAttributeFromBase`, refuses them: the whole load fails -/
theorem C12_scalar_D57 :
    convOf "IntegerAttribute" "Max" = .i32 ∧
    (Acme.Gen.K.newIntegerAttribute 0 0 2147483648).2 = none ∧
    roundTripEnt "IntegerAttribute" [("DefValue", .int 0), ("Min", .int 0), ("Max", .int 2147483648)] =
      some [("DefValue", .int 0), ("Min", .int 0), ("Max", .int (-2147483648))] ∧
    (Acme.Gen.K.newIntegerAttribute 0 0 (-2147483648)).2 =
      some (Acme.Gen.K.VCause.ErrGreaterThen, "min", "max") := by decide

/-- D57, the silent variant: an attribute (−2^31−1 … 0, default 0) comes back as (2^31−1 … 0):
    refused as well (min > max); with min = max + 2^32 … the order can never be kept, so an unfit
    BOUND always ends in a refusal or in a different attribute -/
theorem C12_scalar_D57_min :
    (Acme.Gen.K.newIntegerAttribute 0 (-2147483649) 0).2 = none ∧
    roundTrip .i32 (.int (-2147483649)) = some (.int 2147483647) := by decide

/-- API guarantee (translated check of `CANIDBuilder.InsertOperation`): an operation it accepts has
    0 ≤ from ≤ 31 and 0 ≤ len ≤ 32, so both fit.  (`UseMessageID / UseNodeID / UseBitMask /
    UseMessagePriority` append WITHOUT a check: through them any `int` reaches the saver.) -/
theorem C12_scalar_api_insertOperation (ops ops' : List Acme.GoSem.KOp) (kind from_ len idx : Int)
    (h : Acme.Gen.K.insertOperation ops kind from_ len idx = .val (ops', none)) :
    Fits .u32 (.int from_) ∧ Fits .u32 (.int len) := by
  unfold Acme.Gen.K.insertOperation at h
  simp only [Fits]
  split at h
  · simp at h
  · split at h
    · simp at h
    · omega

/-- API guarantee (translated check of `NewIntegerAttribute`): min ≤ default ≤ max, so the default
    fits whenever both bounds do; the bounds themselves are unconstrained -/
theorem C12_scalar_api_intAttr_default (d mn mx : Int) (a : Acme.GoSem.KIntAttr)
    (h : Acme.Gen.K.newIntegerAttribute d mn mx = (some a, none))
    (hmn : Fits .i32 (.int mn)) (hmx : Fits .i32 (.int mx)) : Fits .i32 (.int d) := by
  unfold Acme.Gen.K.newIntegerAttribute at h
  simp only [Fits] at *
  split at h
  · simp at h
  · split at h
    · simp at h
    · split at h
      · simp at h
      · omega

/-- API guarantee (translated check of the signal type constructors): an accepted size is > 0;
    nothing bounds it from above -/
theorem C12_scalar_api_typeSize (kind size : Int) (signed : Bool) (mn mx sc off : Rat) (t : Acme.GoSem.KSigType)
    (h : Acme.Gen.K.newSignalTypeFromEntity kind size signed mn mx sc off = (some t, none)) :
    0 < size ∧ (Fits .u32 (.int size) ↔ size < 4294967296) := by
  unfold Acme.Gen.K.newSignalTypeFromEntity at h
  simp only [Fits]
  split at h
  · simp at h
  · split at h
    · simp at h
    · omega

/-- API guarantee (translated check of `SignalEnum.AddValue`): an accepted index is ≥ 0 -/
theorem C12_scalar_api_enumIndex (indexes : List Int) (vs : Int → Option Acme.Gen.K.VCause) (minSize : Int)
    (vals : List Acme.GoSem.IdIndex) (id : Nat) (index : Int)
    (h : Acme.Gen.K.verifyValueIndex indexes vs minSize vals id index = none) :
    Fits .u32 (.int index) ↔ index < 4294967296 := by
  unfold Acme.Gen.K.verifyValueIndex at h
  simp only [Fits]
  split at h
  · simp at h
  · omega

end Acme.Props.C12Scalar
