/-
C11 at MESSAGE level — "export then import reproduces the DBC-expressible model".

`Acme.Import.exportMsg` (Acme/Core/Import.lean) is a model of `exporter.exportMessage` with
`exportSignal`, `exportMultiplexerSignal` and `getStartBit` for the STRUCTURE of one message
(an `ITree`: top-level signals and multiplexers with their children, relative positions and
group ids); `Acme.Import.importMsg` is the model of `importer.importMessage` (see C10Msg).  Both
are tied to the real code by stream `imp` (harness/s_imp.go; `imp export` builds the message
through the public API, writes it with `ExportBus` and parses the text back; 0 mismatches, and the
output of each side is fed to the model of the other side).

  export_import      (c)  importMsg (exportMsg t) = .ok (norm t)   for every `Expressible t`
  norm_entries, norm_top, norm_groups     `norm` only reorders the registry of children
  export_import_entries                   every signal comes back at its position, in its groups
  examples                                the fragment is inhabited; what happens outside it

`Expressible` (Acme/Spec/ExportImport.lean, decidable): at most 8 bytes, well-formed top-level
layout, pairwise different names, NO multiplexer or EXACTLY ONE (several multiplexers: known
finding D54), not nested (the `ITree` of this model has no nested multiplexers at all), not empty
(D76), whose group count is the power of two of its selector width, whose groups are well-formed,
in which no child is listed for every group and some child ends at the last bit of the group.
The last three conditions are not defects of the code but limits of the DBC format (a file states
neither the group count nor the group size); what happens without them is shown by the examples
at the end and is reported by the oracle of stream `imp` (`c11-msg:group-count`, `:group-size`,
`:fixed`).

`norm` (same file): the children registry of the multiplexer — a Go map, its order is not
observable — is listed in the order in which the importer meets the children (by written start
bit, ties in file order).  Nothing else changes.
-/
import Acme.Spec.ExportImport
import Acme.Proofs.ExportRound2
import Acme.Proofs.ImportExtra
import Acme.Props.C10Msg
import Acme.Core.ImportNested

namespace Acme.Props.C11Msg
open Acme.Layout Acme.Conv Acme.Arith Acme.Import

/-- (c) Export then import is the identity up to `norm` on the DBC-expressible fragment. -/
theorem export_import (t : ITree) (h : Expressible t) : importMsg (exportMsg t) = .ok (norm t) := by
  have c := ctx_of t h
  match hm : muxesOf t.top with
  | [] => exact round_plain t c hm
  | [n] => exact round_one t c n hm
  | _ :: _ :: _ =>
    have := c.one
    rw [hm] at this
    simp at this

/-- `norm` keeps id, size, byte order; item by item it keeps the signals and, for a multiplexer,
    everything but the order of the children registry -/
theorem norm_top (t : ITree) (h : Expressible t) :
    (norm t).id = t.id ∧ (norm t).sizeByte = t.sizeByte ∧ (norm t).bigEndian = t.bigEndian ∧
    List.Forall₂ (fun x y => match x, y with
      | .sig l, .sig l' => l = l'
      | .mux n, .mux n' => n'.name = n.name ∧ n'.start = n.start ∧ n'.selW = n.selW ∧
          n'.groupCount = n.groupCount ∧ n'.groupSize = n.groupSize ∧ n'.children.Perm n.children
      | _, _ => False) t.top (norm t).top := by
  refine ⟨rfl, rfl, rfl, ?_⟩
  have c := ctx_of t h
  simp only [norm]
  have : ∀ l : List Item, (∀ n, Item.mux n ∈ l → MuxOK n) →
      List.Forall₂ (fun x y => match x, y with
        | .sig l, .sig l' => l = l'
        | .mux n, .mux n' => n'.name = n.name ∧ n'.start = n.start ∧ n'.selW = n.selW ∧
            n'.groupCount = n.groupCount ∧ n'.groupSize = n.groupSize ∧ n'.children.Perm n.children
        | _, _ => False) l (l.map (normItem t.bigEndian)) := by
    intro l
    induction l with
    | nil => intro _; exact List.Forall₂.nil
    | cons x r ih =>
      intro hm
      rw [List.map_cons]
      refine List.Forall₂.cons ?_ (ih (fun n hn => hm n (List.mem_cons_of_mem _ hn)))
      cases x with
      | sig l => rfl
      | mux n =>
        exact ⟨rfl, rfl, rfl, rfl, rfl, normMux_children_perm t.bigEndian n (hm n (List.mem_cons_self ..))⟩
  exact this t.top c.muxOK

/-- `norm` preserves membership and positions: the flat views (name, size, absolute start bit,
    place with parent, group count and group ids) are permutations of each other -/
theorem norm_entries (t : ITree) (h : Expressible t) : (entries (norm t)).Perm (entries t) := by
  have c := ctx_of t h
  simp only [entries, norm]
  have : ∀ l : List Item, (∀ n, Item.mux n ∈ l → MuxOK n) →
      ((l.map (normItem t.bigEndian)).flatMap itemEntries).Perm (l.flatMap itemEntries) := by
    intro l
    induction l with
    | nil => intro _; exact List.Perm.refl _
    | cons x r ih =>
      intro hm
      rw [List.map_cons, List.flatMap_cons, List.flatMap_cons]
      refine List.Perm.append ?_ (ih (fun n hn => hm n (List.mem_cons_of_mem _ hn)))
      cases x with
      | sig l => exact List.Perm.refl _
      | mux n =>
        simp only [normItem, itemEntries]
        refine List.Perm.cons _ ?_
        have hp := normMux_children_perm t.bigEndian n (hm n (List.mem_cons_self ..))
        exact hp.map _
  exact this t.top c.muxOK

theorem wf_sorted_children (gs : Int) (l : List Child) (h : WF gs (childSlots l)) :
    l.Pairwise (fun a b => a.rel < b.rel) := by
  have : ∀ (l : List Child) (lo : Int), WFfrom lo gs (childSlots l) → l.Pairwise (fun a b => a.rel < b.rel) := by
    intro l
    induction l with
    | nil => intro _ _; exact List.Pairwise.nil
    | cons s rest ih =>
      intro lo h
      simp only [childSlots, List.map_cons] at h
      rw [Acme.Layout.WFfrom_cons] at h
      refine List.Pairwise.cons ?_ (ih _ h.2.2)
      intro x hx
      have hm : x.slot ∈ childSlots rest := List.mem_map.2 ⟨x, hx, rfl⟩
      have := Acme.Layout.WFfrom_mem h.2.2 x.slot hm
      have e1 : s.slot.start = s.rel := rfl
      have e2 : x.slot.start = x.rel := rfl
      have e3 : s.slot.size = s.size := rfl
      omega
  exact this l 0 h

/-- `norm` does not change any group of the multiplexer (the groups are what the code keeps in
    `groups[k].signals`; only the registry order — a Go map — is normalised) -/
theorem norm_groups (t : ITree) (h : Expressible t) (n : MuxNode) (hn : Item.mux n ∈ t.top)
    (k : Nat) (hk : (k : Int) < n.groupCount) :
    groupOf (normMux t.bigEndian n).children (k : Int) = groupOf n.children (k : Int) := by
  have c := ctx_of t h
  have hok := c.muxOK n hn
  have himp := export_import t h
  have hmem : Item.mux (normMux t.bigEndian n) ∈ (norm t).top := by
    simp only [norm]
    exact List.mem_map.2 ⟨.mux n, hn, rfl⟩
  have hwf := ((Acme.Props.C10Msg.import_wf _ _ himp).2.2.2.1 _ hmem).1
  have hp : (groupOf (normMux t.bigEndian n).children (k : Int)).Perm (groupOf n.children (k : Int)) :=
    (groupOf_perm _ _).trans (((normMux_children_perm t.bigEndian n hok).filter _).trans (groupOf_perm _ _).symm)
  exact perm_sorted_eq Child.rel _ _ hp (wf_sorted_children _ _ (hwf.groups k hk))
    (wf_sorted_children _ _ (hok.wf k hk))

/-- (c), read through the flat view: after export → import every signal of the model is back
    with its name, size, absolute start bit, parent, and group ids -/
theorem export_import_entries (t : ITree) (h : Expressible t) :
    ∃ t', importMsg (exportMsg t) = .ok t' ∧ (entries t').Perm (entries t) ∧
      t'.id = t.id ∧ t'.sizeByte = t.sizeByte ∧ t'.bigEndian = t.bigEndian :=
  ⟨norm t, export_import t h, norm_entries t h, rfl, rfl, rfl⟩

/-- every expressible tree can be built through the modelled API calls (`Import.build`, the
    function the driver of stream `imp` runs before `exportMsg`), and is its own build: the
    statement (c) is about exactly what the stream ties to `ExportBus` -/
theorem expressible_build (t : ITree) (h : Expressible t) : build t = .ok t :=
  build_expressible t h

/-! ### examples -/

open Acme.Props.C10Msg (exTree exMsg)

/-- the tree of the C10Msg example (big endian, fixed + single-group + multi-group child) is
    expressible … -/
theorem ex_expressible : Expressible exTree := by decide

/-- … its normal form lists the children by written start bit (`b`, `a` at start bit 1 in file order, then `f` at 5) … -/
theorem ex_norm : norm exTree =
    ⟨7, 8, true, [.mux ⟨"mx", 0, 2, 4, 12, [⟨"b", 4, 8, [0, 2, 3], false⟩, ⟨"a", 4, 8, [1], false⟩, ⟨"f", 0, 4, [], false⟩]⟩,
                  .sig ⟨"p", 16, 8⟩], []⟩ := by decide

/-- … what the exporter writes for it: `M`, `m0` / `m1` indicators, Motorola start bits, and the
    SG_MUL_VAL_ ranges `0-0, 2-3` and `0-3` … -/
theorem ex_export : exportMsg exTree =
    { id := 7, size := 8,
      sigs := [
        { name := "mx", start := 7, size := 2, bigEndian := true, isMultiplexor := true },
        { name := "f", start := 5, size := 4, bigEndian := true, isMultiplexed := true, muxSwitch := 0 },
        { name := "b", start := 1, size := 8, bigEndian := true, isMultiplexed := true, muxSwitch := 0 },
        { name := "a", start := 1, size := 8, bigEndian := true, isMultiplexed := true, muxSwitch := 1 },
        { name := "p", start := 23, size := 8, bigEndian := true } ],
      exts := [⟨"mx", "f", [(0, 3)]⟩, ⟨"mx", "b", [(0, 0), (2, 3)]⟩] } := by decide

/-- … and the instance of (c) -/
theorem ex_round : importMsg (exportMsg exTree) = .ok (norm exTree) := export_import exTree ex_expressible

/-! What happens outside the fragment (each is also an observation of stream `imp` on the real code). -/

/-- unused bits at the end of the groups are lost: group size 16 comes back as 8 -/
theorem ex_slack :
    importMsg (exportMsg ⟨1, 8, false, [.mux ⟨"mx", 0, 1, 2, 16, [⟨"a", 0, 8, [0], false⟩]⟩], []⟩) =
      .ok ⟨1, 8, false, [.mux ⟨"mx", 0, 1, 2, 8, [⟨"a", 0, 8, [0], false⟩]⟩], []⟩ := by decide

/-- a group count that is not a power of two is rounded up: 3 groups come back as 4 -/
theorem ex_group_count :
    importMsg (exportMsg ⟨1, 8, false, [.mux ⟨"mx", 0, 2, 3, 8, [⟨"a", 0, 8, [2], false⟩]⟩], []⟩) =
      .ok ⟨1, 8, false, [.mux ⟨"mx", 0, 2, 4, 8, [⟨"a", 0, 8, [2], false⟩]⟩], []⟩ := by decide

/-- a child listed for every group comes back as a fixed child -/
theorem ex_all_groups :
    importMsg (exportMsg ⟨1, 8, false, [.mux ⟨"mx", 0, 1, 2, 8, [⟨"a", 0, 8, [0, 1], false⟩]⟩], []⟩) =
      .ok ⟨1, 8, false, [.mux ⟨"mx", 0, 1, 2, 8, [⟨"a", 0, 8, [], false⟩]⟩], []⟩ := by decide

/-- KNOWN FINDING D54: two multiplexers in one message are exported without SG_MUL_VAL_ entries
    for single-group children; the importer then demands extended multiplexing -/
theorem ex_D54 :
    importMsg (exportMsg ⟨1, 8, false,
      [.mux ⟨"m1", 0, 1, 2, 8, [⟨"a", 0, 8, [0], false⟩]⟩, .mux ⟨"m2", 16, 1, 2, 8, [⟨"b", 0, 8, [1], false⟩]⟩], []⟩) =
      .error .extMuxRequired := by decide

/-- KNOWN FINDING D76: an empty multiplexer is exported as a lone multiplexor signal; the importer
    derives group size 0 and refuses it -/
theorem ex_D76 :
    importMsg (exportMsg ⟨1, 8, false, [.mux ⟨"mx", 0, 1, 2, 8, []⟩], []⟩) = .error .groupSizeZero := by decide

/-! ### nested multiplexers (model `exportMsgN` / `buildN` of Acme/Core/ImportNested.lean, tied by
stream `imp`; no general theorem — see the header of this section)

What the code does, as the stream observes it and these examples pin it:
  * a nested multiplexer is written `m<k>M`, every child at every depth gets an SG_MUL_VAL_ entry,
    the entries of the inner multiplexer come first;
  * the statement `Signals[len-1].MuxSwitchValue = id` after the recursive call patches the LAST
    signal written, so the nested multiplexor keeps switch value 0 and its last descendant gets the
    parent's group id (visible in the fixture: `nested_mux_sig_1 m0M` with entry `1-1`);
  * the text IS re-importable when the nested multiplexor's written start bit is greater than its
    parent's — always in little endian — and is refused (`should precede`, D54 family, oracle
    signature `c11-msg:reimport-refused:precede`) when it is smaller, which happens in big endian. -/

open Acme.Props.C10Msg (fxMsg fxTree)

/-- the export of the imported fixture message is the fixture message, quirk included -/
theorem fx_export : exportAny fxTree = fxMsg := by decide

theorem fx_round : importMsg (exportAny fxTree) = .ok fxTree := by decide

/-- the API calls reproduce the tree (`buildN`: the nested node gets its absolute start 2) -/
theorem fx_build : buildAny fxTree = .ok fxTree := by decide

/-- big endian, parent selector at position 0 (written start bit 7), nested multiplexor at
    position 1 (written start bit 6 < 7): after the sort by written start bit the nested
    multiplexor comes first, so the parent is built BEFORE the nested multiplexor is handed to it -/
def nestedBE : ITree :=
  { id := 1, sizeByte := 8, bigEndian := true,
    top := [.mux ⟨"p", 0, 1, 2, 6, [⟨"n", 0, 6, [0], true⟩, ⟨"a", 0, 6, [1], false⟩]⟩],
    nested := [⟨"n", 1, 1, 2, 5, [⟨"k", 0, 5, [1], false⟩]⟩] }

/-- … the importer then meets the nested multiplexor, whose parent does not precede it -/
theorem ex_nested_BE_refused : importMsg (exportAny nestedBE) = .error .precede := by decide

/-- … and when the nested multiplexer is the parent's only child the parent is found empty first -/
def nestedBE1 : ITree :=
  { id := 1, sizeByte := 8, bigEndian := true,
    top := [.mux ⟨"p", 0, 1, 2, 6, [⟨"n", 0, 6, [0], true⟩]⟩],
    nested := [⟨"n", 1, 1, 2, 5, [⟨"k", 0, 5, [1], false⟩]⟩] }

theorem ex_nested_BE_refused_empty : importMsg (exportAny nestedBE1) = .error .groupSizeZero := by decide

/-- the same tree in little endian comes back (children in the importer's order) -/
def nestedLE : ITree :=
  { id := 1, sizeByte := 8, bigEndian := false,
    top := [.mux ⟨"p", 0, 1, 2, 6, [⟨"a", 0, 6, [1], false⟩, ⟨"n", 0, 6, [0], true⟩]⟩],
    nested := [⟨"n", 1, 1, 2, 5, [⟨"k", 0, 5, [1], false⟩]⟩] }

theorem ex_nested_LE_round : importMsg (exportAny nestedLE) = .ok nestedLE := by decide

end Acme.Props.C11Msg
