/-
GenBusLoad — C17 hangs on the SOURCE TEXT of /repo/utils.go (translator, tenth stage).

What is generated.  On every run /verif/tools/extract (kernels_busload.go) parses the CURRENT
`CalculateBusLoad` (go/ast + go/types) and translates it to Lean in `Acme/Gen/BusLoadK.lean`
(namespace `Acme.Gen.BusLoadK`; not tracked, rewritten before every build):

    calculateBusLoad sortFunc typ baudrate msgs defCycleTime :
        Rat × List MessageLoad × Option (K.Cause × String)       (load, entries, error)
    calculateBusLoad_loop1   the two nested iterations, flattened        (structural recursion)
    calculateBusLoad_cmp1    the comparator handed to slices.SortFunc
    MessageLoad              the Go struct (message ↦ index, bitsPerSec, percentage)
    busTypes                 every declared constant of type BusType

Idiom: Go `int` ↦ `Int` (`/` ↦ `Int.tdiv`), `float64` ↦ `Rat` under the exact-rational convention
(Acme/Core/GenBusLoadPrelude.lean: rounding, ±Inf and NaN are outside the model — the trusted-base
item of C17), `bus.typ` / `bus.baudrate` ↦ parameters, the `switch bus.typ` ↦ a comparison of `typ`
with the VALUE of the case constant, the two nested iterations over `bus.nodeInts.getValues()` /
`x.sentMessages.getValues()` ↦ ONE list `msgs` of (sizeByte, cycleTime) pairs in iteration order
(a projection-table entry: `Acme.GenBusLoad.pairs`), `append(l, &MessageLoad{..})` ↦ a list of
records, the loop that assigns `Percentage` ↦ a `map`, `slices.SortFunc(l, cmp)` ↦ the PARAMETER
`sortFunc` applied to the translated comparator, `&ArgumentError{Name, Err}` ↦ `some (cause, name)`.

What is proved (Acme/Proofs/GenKernelsBusLoad.lean).  For ALL sort routines, bus types, baud rates,
message lists and default cycle times the generated function equals `specK`, the hand model
`Acme.BusLoad` written in the generated function's result shape (K_calculateBusLoad_anyType); read
through `view` (index ↦ message, sentinel ↦ the model's cause) the generated function with merge sort
IS `Acme.BusLoad.busLoad` for every declared bus type (K_calculateBusLoad).  The C17 clauses are then
restated about the GENERATED function, for every sort routine with the guarantee of
`slices.SortFunc` (`SortFuncSpec`: a rearrangement in which no later element is strictly before an
earlier one; merge sort with the generated comparator is one: K_sortFunc_inhabited).

What breaks when the Go code changes.  A semantic change of CalculateBusLoad changes the generated
text and falsifies `K_calculateBusLoad_anyType` (and what follows); a second bus type changes
`busTypes` (K_busTypes) and, when it gets its own `case`, the generated `if`; a rewrite outside the
translator's subset makes the extractor exit non-zero with file:line.
-/
import Acme.Props.C17
import Acme.Proofs.GenKernelsBusLoad

namespace Acme.Props.GenBusLoad
open Acme.BusLoad
open Acme.GenBusLoad
open Acme.Gen.BusLoadK
open Acme.GoSem (SortFuncSpec mergeSortFunc)

/-- `typ` is the value of a declared `BusType` constant of the current source -/
def IsBusType (typ : Int) : Prop := ∃ n, (n, typ) ∈ busTypes

/-- the declared bus types of the current source: a new one must be looked at -/
theorem K_busTypes : busTypes = [("BusTypeCAN2A", 0)] := rfl

theorem isBusType_iff (typ : Int) : IsBusType typ ↔ typ = 0 := by
  unfold IsBusType
  rw [K_busTypes]
  constructor
  · rintro ⟨n, h⟩
    simp only [List.mem_singleton, Prod.mk.injEq] at h
    exact h.2
  · rintro rfl
    exact ⟨_, List.mem_singleton.mpr rfl⟩

/-! ### the generated function = the hand model -/

/-- `CalculateBusLoad`, for EVERY sort routine, bus-type value, baud rate, message list and default
    cycle time: the hand model written in the generated function's result shape, with the frame
    constants the code selects (`hdrOf`: CAN 2.0A for the value 0, all zero for any other value). -/
theorem K_calculateBusLoad_anyType (sf : SortFn) (typ baud : Int) (msgs : List Msg) (d : Int) :
    calculateBusLoad sf typ baud (pairs msgs) d = specK (hdrOf typ) sf baud msgs d :=
  calculateBusLoad_eq_spec sf typ baud msgs d

/-- Read as a result of the hand model (message index ↦ message, Go sentinel ↦ cause), the generated
    function with merge sort IS `Acme.BusLoad.busLoad`, for every declared bus type, every baud
    rate, message list and default cycle time.  No hypothesis on the messages. -/
theorem K_calculateBusLoad (typ : Int) (ht : IsBusType typ) (baud : Int) (msgs : List Msg) (d : Int) :
    view msgs (calculateBusLoad mergeSortFunc typ baud (pairs msgs) d) = some (busLoad baud msgs d) := by
  rw [(isBusType_iff typ).mp ht]
  exact view_calculateBusLoad baud msgs d

/-- The refusals agree in both directions and carry the documented shape: zero load, no entries,
    an ArgumentError on `defCycleTime` with the cause of the model — whatever the sort routine, the
    bus type, the baud rate and the messages. -/
theorem K_calculateBusLoad_err (sf : SortFn) (typ baud : Int) (msgs : List Msg) (d : Int) (e : Err) :
    busLoad baud msgs d = .error e ↔
      calculateBusLoad sf typ baud (pairs msgs) d = (0, [], some (causeOf e, "defCycleTime")) :=
  calculateBusLoad_err_iff sf typ baud msgs d e

/-- with a positive default cycle time the generated function reports no error -/
theorem K_calculateBusLoad_no_err (sf : SortFn) (typ baud : Int) (msgs : List Msg) (d : Int)
    (hd : 0 < d) : (calculateBusLoad sf typ baud (pairs msgs) d).2.2 = none :=
  calculateBusLoad_no_err sf typ baud msgs d hd

/-- One iteration of the generated loop (CAN 2.0A constants): the message at index `i` gets the
    rate `frameBits size / effective cycle time · 1000` — the hand model's frame length — and the
    rate is added to the running total. -/
theorem K_busLoad_frameBits (d s c : Int) (rest : List (Int × Int)) (i : Nat)
    (acc : List MessageLoad) (tot : Rat) :
    calculateBusLoad_loop1 d 19 25 34 ((s, c) :: rest) i acc tot =
      calculateBusLoad_loop1 d 19 25 34 rest (i + 1)
        (acc ++ [{ message := i,
                   bitsPerSec := (frameBits s : Rat) / ((if c = 0 then d else c : Int) : Rat) * 1000,
                   percentage := 0 }])
        (tot + (frameBits s : Rat) / ((if c = 0 then d else c : Int) : Rat) * 1000) :=
  loop_step d s c rest i acc tot

/-- the hypothesis on the sort routine is satisfiable: merge sort by the generated comparator -/
theorem K_sortFunc_inhabited : SortFuncSpec (mergeSortFunc (α := MessageLoad)) calculateBusLoad_cmp1 :=
  mergeSortFunc_spec

/-- the generated comparator orders by rate, descending -/
theorem K_busLoad_cmp (a b : MessageLoad) :
    calculateBusLoad_cmp1 a b ≤ 0 ↔ b.bitsPerSec ≤ a.bitsPerSec :=
  cmp1_le_iff a b

/-! ### the C17 clauses about the GENERATED function

`sf` is any routine with the guarantee of `slices.SortFunc` for the generated comparator. -/

/-- load = Σ (frame bits / cycle time · 1000) / baud · 100; every message exactly once (the indexes
    of the entries are a rearrangement of 0 … n−1); every entry carries the rate of ITS message and
    its share of the total; entries ordered by non-increasing rate; no error. -/
theorem C17_load (sf : SortFn) (hs : SortFuncSpec sf calculateBusLoad_cmp1) (typ : Int)
    (ht : IsBusType typ) (baud : Int) (hb : baud ≠ 0) (msgs : List Msg) (d : Int) (hd : 0 < d) :
    ∃ ls, calculateBusLoad sf typ baud (pairs msgs) d =
        ((msgs.map (fun m => bpsOf m d)).sum / (baud : Rat) * 100, ls, none) ∧
      (ls.map (·.message)).Perm (List.range msgs.length) ∧
      (∀ e ∈ ls, ∃ hi : e.message < msgs.length,
          e.bitsPerSec = bpsOf msgs[e.message] d ∧
          e.percentage = e.bitsPerSec / (msgs.map (fun m => bpsOf m d)).sum * 100) ∧
      ls.Pairwise (fun a b => b.bitsPerSec ≤ a.bitsPerSec) := by
  rw [(isBusType_iff typ).mp ht]
  obtain ⟨ls, h1, h2, h3⟩ := calculateBusLoad_spec_any sf hs baud hb msgs d hd
  refine ⟨ls, h1, ?_, ?_, h3⟩
  · rw [← kEntries_message can2a msgs d]
    exact h2.map _
  · intro e he
    obtain ⟨hi, hb, hp⟩ := mem_kEntries (h2.mem_iff.mp he)
    rw [sum_bpsOfH_can2a] at hp
    exact ⟨hi, hb, hp⟩

/-- shares sum to 100 when there is a message -/
theorem C17_shares (sf : SortFn) (hs : SortFuncSpec sf calculateBusLoad_cmp1) (typ : Int)
    (ht : IsBusType typ) (baud : Int) (hb : baud ≠ 0) (msgs : List Msg) (d : Int) (hd : 0 < d)
    (hne : msgs ≠ []) (hok : ∀ m ∈ msgs, MsgOK m) (l : Rat) (ls : List MessageLoad)
    (err : Option (Acme.Gen.K.Cause × String))
    (h : calculateBusLoad sf typ baud (pairs msgs) d = (l, ls, err)) :
    (ls.map (·.percentage)).sum = 100 := by
  rw [(isBusType_iff typ).mp ht] at h
  obtain ⟨ls', h1, h2, _⟩ := calculateBusLoad_spec_any sf hs baud hb msgs d hd
  rw [h1] at h
  injection h with _ h
  injection h with h _
  subst h
  exact shares_any ls' msgs d hd hne hok h2

/-- zero baud rate ⇒ zero load, no entries, no error — for any message list, bus type and sort -/
theorem C17_zero_baud (sf : SortFn) (typ : Int) (ps : List (Int × Int)) (d : Int) (hd : 0 < d) :
    calculateBusLoad sf typ 0 ps d = (0, [], none) :=
  calculateBusLoad_zero_baud sf typ ps d hd

/-- a non-positive default cycle time is refused with the documented cause, whatever the bus -/
theorem C17_refused (sf : SortFn) (typ baud : Int) (ps : List (Int × Int)) (d : Int) :
    (d < 0 → calculateBusLoad sf typ baud ps d =
        (0, [], some (Acme.Gen.K.Cause.ErrIsNegative, "defCycleTime"))) ∧
    (d = 0 → calculateBusLoad sf typ baud ps d =
        (0, [], some (Acme.Gen.K.Cause.ErrIsZero, "defCycleTime"))) := by
  constructor
  · exact calculateBusLoad_neg sf typ baud ps d
  · rintro rfl
    exact calculateBusLoad_zero sf typ baud ps

/-- The worst-case frame length, stated independently, through the COMPLETE generated function: a
    bus with one message of `s ≥ 0` bytes and cycle time `c` has the load
    (8s + 19 + 25 + ⌊(34 + 8s − 1)/4⌋) / (c, or the default when c = 0) · 1000 / baud · 100. -/
theorem C17_frameBits (sf : SortFn) (typ : Int) (ht : IsBusType typ) (baud : Int) (hb : baud ≠ 0)
    (d : Int) (hd : 0 < d) (s c : Int) (hs : 0 ≤ s) :
    (calculateBusLoad sf typ baud [(s, c)] d).1 =
      ((8 * s + 19 + 25 + (34 + 8 * s - 1) / 4 : Int) : Rat) /
        ((if c = 0 then d else c : Int) : Rat) * 1000 / (baud : Rat) * 100 := by
  rw [(isBusType_iff typ).mp ht, calculateBusLoad_single sf baud hb d hd s c,
    Acme.Props.C17.C17_frameBits s hs]

/-! Non-vacuity -/
example : IsBusType 0 := (isBusType_iff 0).mpr rfl
example : pairs [⟨7, 8, 100⟩, ⟨9, 2, 0⟩] = [(8, 100), (2, 0)] := rfl
example : (calculateBusLoad mergeSortFunc 0 500000 (pairs [⟨7, 8, 100⟩]) (-1)).2.2 =
    some (.ErrIsNegative, "defCycleTime") := rfl

end Acme.Props.GenBusLoad
