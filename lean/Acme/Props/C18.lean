/-
C18 — Read-only use and network export are free of data races.

  Exporting a network, which writes one DBC file per bus concurrently, and calling any mix
  of non-mutating operations from several goroutines on one shared model performs no
  unsynchronised conflicting memory access, and the concurrent results equal the
  sequential ones.

PARTIAL by nature: a theorem cannot exhibit the Go scheduler or memory model.  What is
proved: (a) Tie B — the stores to shared model objects in all code reachable (CHA call
graph over SSA, regenerated from the source on every run) from the read-only API are exactly
the two classified, guarded resets (Node.intErrNum, SignalEnum.parErrID); (b) the logic —
if no thread writes a shared location, no interleaving has a race, memory never changes and
every read returns what it returns when the threads run one after the other.
-/
import Acme.Core.Conc
import Acme.Proofs.Conc
import Acme.Proofs.SitesStore

namespace Acme.Props.C18
open Acme.Conc

/-- Tie B obligation: the shared-memory stores reachable from the read-only API. -/
theorem C18_stores : Acme.Gen.storeSites = Acme.Expect.storeSites.map (·.1) :=
  Acme.Sites.storeSites_expected

/-- No shared writes ⇒ no race, for every interleaving. -/
theorem C18_no_race (σ : Trace) (h : ∀ a ∈ σ, a.kind = .read) : ¬ Race σ :=
  Acme.Conc.no_writes_no_race σ h

/-- Writes confined to thread-private locations (fresh exporter / saver / file objects)
    do not race either. -/
theorem C18_private_writes (σ : Trace)
    (hex : ∀ a ∈ σ, ∀ b ∈ σ, a.kind = .write → b.thread ≠ a.thread → b.loc ≠ a.loc) :
    ¬ Race σ :=
  Acme.Conc.private_writes_no_race σ hex

/-- Read-only traces leave memory unchanged and every read returns the initial value,
    whatever the interleaving: concurrent results = sequential results. -/
theorem C18_results_sequential (m : Nat → Nat) (σ : Trace) (h : ∀ a ∈ σ, a.kind = .read) :
    runTrace m σ = m ∧ reads m σ = σ.map (fun a => (a.thread, a.loc, m a.loc)) :=
  Acme.Conc.reads_sequential m σ h

/-- and therefore two interleavings of the same read-only accesses read the same values -/
theorem C18_interleaving_independent (m : Nat → Nat) (σ₁ σ₂ : Trace) (hp : σ₁.Perm σ₂)
    (h : ∀ a ∈ σ₁, a.kind = .read) :
    (reads m σ₁).Perm (reads m σ₂) :=
  Acme.Conc.reads_perm m σ₁ σ₂ hp h

/-! Non-vacuity -/
example : ¬ Race [⟨0, 5, .read⟩, ⟨1, 5, .read⟩, ⟨0, 6, .read⟩] :=
  C18_no_race _ (by decide)
example : Race [⟨0, 5, .read⟩, ⟨1, 5, .write⟩] :=
  ⟨⟨0, 5, .read⟩, by simp, ⟨1, 5, .write⟩, by simp, by decide, rfl, Or.inr rfl⟩

end Acme.Props.C18
