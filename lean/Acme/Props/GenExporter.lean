/-
The GENERATED exporter (Acme/Gen/Exporter.lean, namespace Acme.Gen.X: the translation of exporter.go
that tools/extract regenerates on every run) against the hand model of the exporter `exportAny`
(Acme.Core.Import / ImportNested), for every tree that is a tree (`TreeOK`, Acme.Proofs.GenExporterDefs)
and EVERY payload (`Pay`: descriptions, signal types, units, enums, receivers, names of message and sender):

  X_getStartBit              `getStartBit` is `wpos` through `uint32`, with the byte order
  X_exportMessage_signals    `exportMessage` on the Go objects of the tree never panics and writes exactly
                             the signals and SG_MUL_VAL_ entries of `exportAny t`
  X_exportMessage_no_panic   … in particular no index is out of range
  X_export_import_nested     C11Nested.export_import_nested about the generated exporter
  fx_* / depth3_*            instances on the fixtures

Proofs: Acme/Proofs/GenExporter1 … 5, GenExporterRanges, GenExporterFlat.
-/
import Acme.Proofs.GenExporter5
import Acme.Props.C11Nested

namespace Acme.Props.GenExporter
open Acme.Import Acme.XSem Acme.GenX Acme.Gen
open Acme.Props.C10Msg (fxTree)
open Acme.Props.C11Nested (depth3 fx_expressibleN depth3_expressibleN)

theorem X_getStartBit (s : Int) (be : Bool) :
    X.getStartBit s (bo be) = (u32 (wpos be s), if be then .bigEndian else .littleEndian) :=
  Acme.GenX.X_getStartBit s be

/-- the generated exportMessage, on the Go objects of ANY tree that is a tree, writes exactly the
    signals and SG_MUL_VAL_ entries of the hand model `exportAny` (and never panics) -/
theorem X_exportMessage_signals (P : Pay) (t : ITree) (h : TreeOK t) (st0 : St) :
    ∃ sigs exts st, X.exportMessage id (viewMsg P t) st0 = .val st ∧
      st.messages = st0.messages ++ [{ id := t.id, name := P.msgName, size := t.sizeByte.toNat,
                                        transmitter := P.sender, signals := sigs }] ∧
      st.extendedMuxes = st0.extendedMuxes ++ exts ∧
      (∀ e ∈ exts, e.messageID = t.id) ∧
      dmsgOf { id := t.id, size := t.sizeByte.toNat, signals := sigs } exts = exportAny t :=
  Acme.GenX.X_exportMessage_signals P t h st0

theorem X_exportMessage_no_panic (P : Pay) (t : ITree) (h : TreeOK t) (st0 : St) :
    X.exportMessage id (viewMsg P t) st0 ≠ .panic := by
  obtain ⟨_, _, st, e, _⟩ := X_exportMessage_signals P t h st0
  rw [e]
  intro hc
  cases hc

/-- the corollary that matters: C11Nested.export_import_nested about the GENERATED exporter -/
theorem X_export_import_nested (P : Pay) (t : ITree) (h : ExpressibleN t) (hok : TreeOK t) :
    ∃ m st, X.exportMessage id (viewMsg P t) {} = .val st ∧ st.messages = [m] ∧
      importMsg (dmsgOf m st.extendedMuxes) = .ok (normN t) := by
  obtain ⟨sigs, exts, st, e1, e2, e3, _, e5⟩ := X_exportMessage_signals P t hok {}
  refine ⟨_, st, e1, e2, ?_⟩
  have hx : st.extendedMuxes = exts := by rw [e3]; rfl
  rw [hx]
  have : dmsgOf { id := t.id, name := P.msgName, size := t.sizeByte.toNat, transmitter := P.sender, signals := sigs } exts
      = exportAny t := e5
  rw [this]
  exact Acme.Props.C11Nested.export_import_nested t h

/-! ### instances -/

theorem fx_treeOK : TreeOK fxTree := by decide

theorem depth3_treeOK : TreeOK depth3 := by decide

theorem fx_X_export_import (P : Pay) :
    ∃ m st, X.exportMessage id (viewMsg P fxTree) {} = .val st ∧ st.messages = [m] ∧
      importMsg (dmsgOf m st.extendedMuxes) = .ok (normN fxTree) :=
  X_export_import_nested P fxTree fx_expressibleN fx_treeOK

theorem depth3_X_export_import (P : Pay) :
    ∃ m st, X.exportMessage id (viewMsg P depth3) {} = .val st ∧ st.messages = [m] ∧
      importMsg (dmsgOf m st.extendedMuxes) = .ok (normN depth3) :=
  X_export_import_nested P depth3 depth3_expressibleN depth3_treeOK

end Acme.Props.GenExporter
