/-
C01 — Message payload layout stays well-formed under every edit history.

  After any sequence of payload edits the signals of a message occupy pairwise-disjoint
  bit ranges that lie inside the payload and are listed in ascending start-bit order.
  An edit is accepted exactly when the arrangement it asks for fits (the range is free,
  or enough free space exists behind a growing signal); shift and compact move signals
  only into free space and report the distance actually moved.  Signals that an edit does
  not name keep their relative order and their size, and are moved only by compaction or
  as the consequence of a preceding signal's size change.

Part 1 (this section): the layout algebra of signal_layout.go, for every layout, size and
argument.  Part 2 (below, `World`): every history of public operations.
-/
import Acme.Core.Layout
import Acme.Spec.Layout
import Acme.Proofs.Layout

namespace Acme.Props.C01
open Acme.Layout

/-! ### insert / append -/

/-- Insert is accepted exactly when the requested range is non-negative, inside the payload
    and free; otherwise it fails with the documented cause. -/
theorem C01_insert_accept_iff (cap : Int) (l : List Slot) (h : WF cap l) (sz st : Int) (hsz : 0 < sz) :
    (verifyInsert cap l sz st = .ok () ↔ 0 ≤ st ∧ st + sz ≤ cap ∧ RangeFree l st sz) ∧
    (st < 0 → verifyInsert cap l sz st = .error .negative) ∧
    (0 ≤ st → cap < sz → verifyInsert cap l sz st = .error .outOfBounds) ∧
    (0 ≤ st → sz ≤ cap → cap < st + sz → verifyInsert cap l sz st = .error .noSpaceLeft) ∧
    (0 ≤ st → st + sz ≤ cap → ¬ RangeFree l st sz → verifyInsert cap l sz st = .error .intersect) :=
  Acme.Layout.verifyInsert_spec cap l h sz st hsz

/-- An accepted insert keeps the layout well-formed, places the signal where asked and
    leaves every other signal (order, position, size) untouched. -/
theorem C01_insert_wf (cap : Int) (l : List Slot) (h : WF cap l) (id : Nat) (sz st : Int)
    (hsz : 0 < sz) (l' : List Slot) (hok : verifyAndInsert cap l id sz st = .ok l') :
    WF cap l' ∧ (⟨id, st, sz⟩ : Slot) ∈ l' ∧ l'.length = l.length + 1 ∧
    l'.filter (fun s => s ≠ (⟨id, st, sz⟩ : Slot)) = l.filter (fun s => s ≠ (⟨id, st, sz⟩ : Slot)) :=
  Acme.Layout.insert_wf cap l h id sz st hsz l' hok

/-- Append is accepted exactly when the signal fits in the trailing space. -/
theorem C01_append_accept_iff (cap : Int) (l : List Slot) (h : WF cap l) (sz : Int) :
    (verifyAppend cap l sz = .ok () ↔ sz ≤ cap - lastEnd l) :=
  Acme.Layout.verifyAppend_spec cap l h sz

theorem C01_append_wf (cap : Int) (l : List Slot) (h : WF cap l) (id : Nat) (sz : Int)
    (hsz : 0 < sz) (l' : List Slot) (hok : append cap l id sz = .ok l') :
    WF cap l' ∧ l' = l ++ [⟨id, lastEnd l, sz⟩] :=
  Acme.Layout.append_wf cap l h id sz hsz l' hok

/-! ### remove / compact / resize -/

theorem C01_remove_wf (cap : Int) (l : List Slot) (h : WF cap l) (id : Nat) :
    WF cap (remove l id) ∧ remove l id = l.filter (fun s => s.id ≠ id) :=
  Acme.Layout.remove_wf cap l h id

/-- Compaction keeps order, ids and sizes, never moves a signal to the right, yields a
    packed well-formed layout and is idempotent. -/
theorem C01_compact (cap : Int) (l : List Slot) (h : WF cap l) :
    WF cap (compact l) ∧ PackedFrom 0 (compact l) ∧
    (compact l).map (fun s => (s.id, s.size)) = l.map (fun s => (s.id, s.size)) ∧
    List.Forall₂ (fun a b => a.start ≤ b.start) (compact l) l ∧
    compact (compact l) = compact l :=
  Acme.Layout.compact_spec cap l h

/-- Resize is refused exactly when the new size would cut the last signal. -/
-- statement corrected: hypothesis `0 ≤ newCap` added.  Without it the first and third
-- conjuncts are false for the empty layout and a negative new size
-- (cap = 0, l = [], newCap = -1: `verifyResize 0 [] (-1) = .ok ()` but `lastEnd [] = 0 > -1`).
theorem C01_resize (cap : Int) (l : List Slot) (h : WF cap l) (newCap : Int) (hnc : 0 ≤ newCap) :
    (verifyResize cap l newCap = .ok () ↔ lastEnd l ≤ newCap) ∧
    (lastEnd l ≤ newCap → WF newCap l) ∧
    (newCap < lastEnd l → verifyResize cap l newCap = .error .tooSmall) :=
  Acme.Layout.resize_spec cap l h newCap hnc

/-! ### size changes of a signal -/

/-- Growing is accepted exactly when the amount fits in the free space behind the signal. -/
theorem C01_grow_accept_iff (cap : Int) (l : List Slot) (h : WF cap l) (hn : IdsNodup l)
    (id : Nat) (hid : (find id l).isSome) (amount : Int) :
    (verifyGrow cap l id amount = .ok () ↔ 0 ≤ amount ∧ amount ≤ freeBehind cap l id) ∧
    (amount < 0 → verifyGrow cap l id amount = .error .negative) ∧
    (freeBehind cap l id < amount → 0 ≤ amount → verifyGrow cap l id amount = .error .noSpaceLeft) :=
  Acme.Layout.verifyGrow_spec cap l h hn id hid amount

/-- An accepted grow never panics; once the signal has its new size the layout is
    well-formed; order, ids and sizes of all signals are kept, predecessors and the signal
    itself do not move and followers move only to the right. -/
theorem C01_grow_wf (cap : Int) (l : List Slot) (h : WF cap l) (hn : IdsNodup l)
    (id : Nat) (s : Slot) (hs : find id l = some s) (amount : Int) (l' : List Slot)
    (hok : growStarts cap l id amount = .ok l') :
    WF cap (setSize l' id (s.size + amount)) ∧
    l'.map (fun x => (x.id, x.size)) = l.map (fun x => (x.id, x.size)) ∧
    List.Forall₂ (fun a b => a.start ≤ b.start) l l' ∧
    find id l' = some s ∧
    (∀ x ∈ l, x.start < s.start → x ∈ l') :=
  Acme.Layout.grow_wf cap l h hn id s hs amount l' hok

theorem C01_grow_total (cap : Int) (l : List Slot) (h : WF cap l) (hn : IdsNodup l)
    (id : Nat) (hid : (find id l).isSome) (amount : Int) :
    growStarts cap l id amount ≠ .error .panic :=
  Acme.Layout.grow_nopanic cap l h hn id hid amount

/-- Shrinking is accepted exactly when the signal keeps a positive size; followers are
    pulled left by the amount and the layout with the new size is well-formed. -/
theorem C01_shrink (cap : Int) (l : List Slot) (h : WF cap l) (hn : IdsNodup l)
    (id : Nat) (s : Slot) (hs : find id l = some s) (amount : Int) (hne : amount ≠ 0) :
    -- statement corrected: `∃ l', (… ↔ …)` (true for trivial reasons, it says nothing about
    -- acceptance) re-scoped to the intended `(∃ l', …) ↔ …`; this is a strengthening.
    ((∃ l', shrinkStarts l id s.size amount = .ok l') ↔ 0 ≤ amount ∧ amount < s.size) ∧
    (∀ l', shrinkStarts l id s.size amount = .ok l' →
        WF cap (setSize l' id (s.size - amount)) ∧
        l'.map (fun x => (x.id, x.size)) = l.map (fun x => (x.id, x.size)) ∧
        find id l' = some s) :=
  Acme.Layout.shrink_spec cap l h hn id s hs amount hne

/-! ### shifts -/

/-- Shift left moves only the named signal, only into the free space before it, and
    reports the distance moved: min(amount, gap to the predecessor). -/
theorem C01_shiftLeft (cap : Int) (l : List Slot) (h : WF cap l) (hn : IdsNodup l)
    (id : Nat) (amount : Int) :
    WF cap (shiftLeft l id amount).1 ∧
    (match find id l with
     | none => shiftLeft l id amount = (l, 0)
     | some s =>
        let d := if amount ≤ 0 then 0 else min amount (s.start - prevEndOf id 0 l)
        (shiftLeft l id amount).2 = d ∧
        (shiftLeft l id amount).1 = l.map (fun x => if x.id = id then { x with start := x.start - d } else x)) :=
  Acme.Layout.shiftLeft_spec cap l h hn id amount

/-- Shift right symmetric: min(amount, gap to the successor or to the end of the payload). -/
theorem C01_shiftRight (cap : Int) (l : List Slot) (h : WF cap l) (hn : IdsNodup l)
    (id : Nat) (amount : Int) :
    WF cap (shiftRight cap l id amount).1 ∧
    (match find id l with
     | none => shiftRight cap l id amount = (l, 0)
     | some s =>
        let d := if amount ≤ 0 then 0 else min amount (nextStartOf cap id l - (s.start + s.size))
        (shiftRight cap l id amount).2 = d ∧
        (shiftRight cap l id amount).1 = l.map (fun x => if x.id = id then { x with start := x.start + d } else x)) :=
  Acme.Layout.shiftRight_spec cap l h hn id amount

/-! Non-vacuity: a concrete layout with gaps -/
def sample : List Slot := [⟨1, 0, 4⟩, ⟨2, 6, 4⟩, ⟨3, 12, 8⟩]
example : WF 24 sample ∧ IdsNodup sample := by decide
example : verifyInsert 24 sample 2 4 = .ok () := by decide
example : verifyInsert 24 sample 3 4 = .error .intersect := by decide
example : growStarts 24 sample 1 5 = .ok [⟨1, 0, 4⟩, ⟨2, 9, 4⟩, ⟨3, 13, 8⟩] := by decide
example : freeBehind 24 sample 1 = 8 := by decide
example : shiftLeft sample 2 10 = ([⟨1, 0, 4⟩, ⟨2, 4, 4⟩, ⟨3, 12, 8⟩], 2) := by decide

end Acme.Props.C01
