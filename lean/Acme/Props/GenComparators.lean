/-
GenComparators — the comparators of the SOURCE are total orders up to the entity id (C15).

C15 ("exports are deterministic functions of the model, independent of map iteration order")
rests on one fact about the code: whatever is taken out of a Go map on an export path is sorted
with `slices.SortFunc` under a comparator that is a total order on the values that can occur.
`Acme.Gen.iterSites` / `Acme.Expect.iterSites` (C15_sites) tie the SITES to the source as text;
this module ties the COMPARATORS themselves.

What is generated.  On every run /verif/tools/extract (comparators.go) finds every
`slices.SortFunc` / `slices.SortStableFunc` call of package acmelib (non-test files), and
translates the comparator function literal and the helpers it calls (`orCompare`,
`compareEntityIDs`, from their declarations in helpers.go) to Lean, in
`Acme/Gen/Comparators.lean` (namespace `Acme.Gen.Cmp`, not tracked, rewritten before every build):
for each comparator a record `<name>_Keys` of exactly the keys it reads (field / getter
projections of its two parameters: integers ↦ `Int`, strings and entity ids ↦ `String`, a
`float64` ↦ its rank under `cmp.Compare`), the definition `<name> : Keys → Keys → Int`, the table
`Cmp.comparators` (name, file, function, sorted expression, keys read, ends in the entity id) and
the list `Cmp.all` of the comparators themselves.  `strings.Compare` / `cmp.Compare` are the
hand-written `Acme.CmpLib.stringsCompare` / `cmpCompareStr` / `cmpCompareInt` (trusted; Go compares
strings bytewise, Lean by code point: the same order on valid UTF-8, as in Acme.Core.Det); an
integer subtraction `a.x - b.x` is over unbounded `Int` (the keys are sizes, indexes and 32-bit ids,
so the Go subtraction does not overflow).  sort.Slice, a comparator that is not a function
literal, or a body outside if / return chains over these functions make the extractor fail.

What is proved (Acme/Proofs/GenComparators.lean, GenComparatorsSort.lean).
  * `total_<name>`: every comparator is a `TotalCmp` — sign-antisymmetric and transitive, i.e. the
    strict weak ordering that `slices.SortFunc` requires (`TotalCmp.lt_trans`, `tie_trans`).
  * `ties_<name>`: a tie implies equal entity ids, for every comparator whose generated row says
    that it ends in the entity id (15 of 20); for the 5 single-key comparators a tie implies an
    equal key.  `nonId_listed` pins those 5 to the hand-written list `nonIdComparators`, which
    gives the reason why each is harmless — a new comparator without an id tie-break changes
    the generated table and breaks `nonId_listed`.
  * `C15_comparators_total`: the aggregated statement over `Cmp.all`; a comparator added to the
    source adds an element for which no proof exists, and the theorem fails.
  * `C15_any_sort_generated` / `C15_sort_perm_generated`: the statements of `C15_any_sort` /
    `C15_perm_*` for any entity type, any key view and every generated comparator that ends in the
    entity id; `C15_leInt_is_generated` / `C15_leStr_is_generated`: the two comparators of the
    hand-written model ARE the generated comparators of `NodeInterface.SentMessages` (message id,
    entity id) and `Network.Buses` (name, entity id).

What breaks when the Go code changes.  Dropping the entity-id tie-break: the row's last flag and
`idKey` change (`nonId_listed`, `C15_comparators_total` fail) and `ties_<name>` fails.  Comparing
different keys (`a.x` with `b.y`), a non-antisymmetric body, an operator other than the listed
ones: `total_<name>` fails (the definition is no longer a lexicographic chain of same-key
comparisons).  Swapping two keys of a chain changes the generated text but keeps the comparator
total and id-terminated: `total_*` / `ties_*` stay true — and green — as they should; what changes
is the ORDER of the output: `keys_expected` fails (and the `md` / `dbc` / `det` streams compare
the output).  A new / removed
comparator: `C15_comparators_total` and `covered` fail; `keys_expected` pins the order of the
keys of every chain.
-/
import Acme.Proofs.GenComparators
import Acme.Proofs.GenComparatorsSort

namespace Acme.Props.GenComparators

open Acme.CmpLib Acme.Gen

/-- bus.go, Bus.NodeInterfaces: `slices.SortFunc(nodeSlice, ..)` over the keys `node.id` -/
theorem total_bus_Bus_NodeInterfaces_1 : TotalCmp Cmp.bus_Bus_NodeInterfaces_1 :=
  Acme.GenCmp.total_bus_Bus_NodeInterfaces_1
theorem ties_bus_Bus_NodeInterfaces_1 : TiesId (fun k => k.node_id) Cmp.bus_Bus_NodeInterfaces_1 :=
  Acme.GenCmp.ties_bus_Bus_NodeInterfaces_1

/-- entity.go, withAttributes.AttributeAssignments: `slices.SortFunc(attSlice, ..)` over the keys `attribute.Name()`, `attribute.EntityID()` -/
theorem total_entity_withAttributes_AttributeAssignments_1 : TotalCmp Cmp.entity_withAttributes_AttributeAssignments_1 :=
  Acme.GenCmp.total_entity_withAttributes_AttributeAssignments_1
theorem ties_entity_withAttributes_AttributeAssignments_1 : TiesId (fun k => k.attribute_entityID) Cmp.entity_withAttributes_AttributeAssignments_1 :=
  Acme.GenCmp.ties_entity_withAttributes_AttributeAssignments_1

/-- exporter.go, exporter.exportBus: `slices.SortFunc(sigEnums, ..)` over the keys `name`, `entityID` -/
theorem total_exporter_exporter_exportBus_1 : TotalCmp Cmp.exporter_exporter_exportBus_1 :=
  Acme.GenCmp.total_exporter_exporter_exportBus_1
theorem ties_exporter_exporter_exportBus_1 : TiesId (fun k => k.entityID) Cmp.exporter_exporter_exportBus_1 :=
  Acme.GenCmp.ties_exporter_exporter_exportBus_1

/-- importer.go, importer.importValueEncoding: `slices.SortFunc(values, ..)` over the keys `ID` -/
theorem total_importer_importer_importValueEncoding_1 : TotalCmp Cmp.importer_importer_importValueEncoding_1 :=
  Acme.GenCmp.total_importer_importer_importValueEncoding_1
theorem ties_importer_importer_importValueEncoding_1 : TiesId (fun k => k.ID) Cmp.importer_importer_importValueEncoding_1 :=
  Acme.GenCmp.ties_importer_importer_importValueEncoding_1

/-- importer.go, importer.importMessage: `slices.SortFunc(dbcMsg.Signals, ..)` over the keys `StartBit` -/
theorem total_importer_importer_importMessage_1 : TotalCmp Cmp.importer_importer_importMessage_1 :=
  Acme.GenCmp.total_importer_importer_importMessage_1
theorem ties_importer_importer_importMessage_1 : TiesId (fun k => k.StartBit) Cmp.importer_importer_importMessage_1 :=
  Acme.GenCmp.ties_importer_importer_importMessage_1

/-- md_exporter.go, mdExporter.exportNetwork: `slices.SortFunc(sigTypes, ..)` over the keys `size`, `name`, `entityID` -/
theorem total_md_exporter_mdExporter_exportNetwork_1 : TotalCmp Cmp.md_exporter_mdExporter_exportNetwork_1 :=
  Acme.GenCmp.total_md_exporter_mdExporter_exportNetwork_1
theorem ties_md_exporter_mdExporter_exportNetwork_1 : TiesId (fun k => k.entityID) Cmp.md_exporter_mdExporter_exportNetwork_1 :=
  Acme.GenCmp.ties_md_exporter_mdExporter_exportNetwork_1

/-- md_exporter.go, mdExporter.exportNetwork: `slices.SortFunc(sigUnits, ..)` over the keys `name`, `entityID` -/
theorem total_md_exporter_mdExporter_exportNetwork_2 : TotalCmp Cmp.md_exporter_mdExporter_exportNetwork_2 :=
  Acme.GenCmp.total_md_exporter_mdExporter_exportNetwork_2
theorem ties_md_exporter_mdExporter_exportNetwork_2 : TiesId (fun k => k.entityID) Cmp.md_exporter_mdExporter_exportNetwork_2 :=
  Acme.GenCmp.ties_md_exporter_mdExporter_exportNetwork_2

/-- md_exporter.go, mdExporter.exportNetwork: `slices.SortFunc(sigEnums, ..)` over the keys `name`, `entityID` -/
theorem total_md_exporter_mdExporter_exportNetwork_3 : TotalCmp Cmp.md_exporter_mdExporter_exportNetwork_3 :=
  Acme.GenCmp.total_md_exporter_mdExporter_exportNetwork_3
theorem ties_md_exporter_mdExporter_exportNetwork_3 : TiesId (fun k => k.entityID) Cmp.md_exporter_mdExporter_exportNetwork_3 :=
  Acme.GenCmp.ties_md_exporter_mdExporter_exportNetwork_3

/-- message.go, Message.Receivers: `slices.SortFunc(recSlice, ..)` over the keys `node.name`, `node.entityID` -/
theorem total_message_Message_Receivers_1 : TotalCmp Cmp.message_Message_Receivers_1 :=
  Acme.GenCmp.total_message_Message_Receivers_1
theorem ties_message_Message_Receivers_1 : TiesId (fun k => k.node_entityID) Cmp.message_Message_Receivers_1 :=
  Acme.GenCmp.ties_message_Message_Receivers_1

/-- network.go, Network.Buses: `slices.SortFunc(busSlice, ..)` over the keys `name`, `entityID` -/
theorem total_network_Network_Buses_1 : TotalCmp Cmp.network_Network_Buses_1 :=
  Acme.GenCmp.total_network_Network_Buses_1
theorem ties_network_Network_Buses_1 : TiesId (fun k => k.entityID) Cmp.network_Network_Buses_1 :=
  Acme.GenCmp.ties_network_Network_Buses_1

/-- node_iterface.go, NodeInterface.SentMessages: `slices.SortFunc(msgSlice, ..)` over the keys `id`, `entityID` -/
theorem total_node_iterface_NodeInterface_SentMessages_1 : TotalCmp Cmp.node_iterface_NodeInterface_SentMessages_1 :=
  Acme.GenCmp.total_node_iterface_NodeInterface_SentMessages_1
theorem ties_node_iterface_NodeInterface_SentMessages_1 : TiesId (fun k => k.entityID) Cmp.node_iterface_NodeInterface_SentMessages_1 :=
  Acme.GenCmp.ties_node_iterface_NodeInterface_SentMessages_1

/-- node_iterface.go, NodeInterface.ReceivedMessages: `slices.SortFunc(msgSlice, ..)` over the keys `id`, `entityID` -/
theorem total_node_iterface_NodeInterface_ReceivedMessages_1 : TotalCmp Cmp.node_iterface_NodeInterface_ReceivedMessages_1 :=
  Acme.GenCmp.total_node_iterface_NodeInterface_ReceivedMessages_1
theorem ties_node_iterface_NodeInterface_ReceivedMessages_1 : TiesId (fun k => k.entityID) Cmp.node_iterface_NodeInterface_ReceivedMessages_1 :=
  Acme.GenCmp.ties_node_iterface_NodeInterface_ReceivedMessages_1

/-- saver.go, saver.saveNetwork: `slices.SortFunc(canIDBuilders, ..)` over the keys `name`, `entityID` -/
theorem total_saver_saver_saveNetwork_1 : TotalCmp Cmp.saver_saver_saveNetwork_1 :=
  Acme.GenCmp.total_saver_saver_saveNetwork_1
theorem ties_saver_saver_saveNetwork_1 : TiesId (fun k => k.entityID) Cmp.saver_saver_saveNetwork_1 :=
  Acme.GenCmp.ties_saver_saver_saveNetwork_1

/-- saver.go, saver.saveNetwork: `slices.SortFunc(nodes, ..)` over the keys `id`, `entityID` -/
theorem total_saver_saver_saveNetwork_2 : TotalCmp Cmp.saver_saver_saveNetwork_2 :=
  Acme.GenCmp.total_saver_saver_saveNetwork_2
theorem ties_saver_saver_saveNetwork_2 : TiesId (fun k => k.entityID) Cmp.saver_saver_saveNetwork_2 :=
  Acme.GenCmp.ties_saver_saver_saveNetwork_2

/-- saver.go, saver.saveNetwork: `slices.SortFunc(sigTypes, ..)` over the keys `name`, `entityID` -/
theorem total_saver_saver_saveNetwork_3 : TotalCmp Cmp.saver_saver_saveNetwork_3 :=
  Acme.GenCmp.total_saver_saver_saveNetwork_3
theorem ties_saver_saver_saveNetwork_3 : TiesId (fun k => k.entityID) Cmp.saver_saver_saveNetwork_3 :=
  Acme.GenCmp.ties_saver_saver_saveNetwork_3

/-- saver.go, saver.saveNetwork: `slices.SortFunc(sigUnits, ..)` over the keys `name`, `entityID` -/
theorem total_saver_saver_saveNetwork_4 : TotalCmp Cmp.saver_saver_saveNetwork_4 :=
  Acme.GenCmp.total_saver_saver_saveNetwork_4
theorem ties_saver_saver_saveNetwork_4 : TiesId (fun k => k.entityID) Cmp.saver_saver_saveNetwork_4 :=
  Acme.GenCmp.ties_saver_saver_saveNetwork_4

/-- saver.go, saver.saveNetwork: `slices.SortFunc(sigEnums, ..)` over the keys `name`, `entityID` -/
theorem total_saver_saver_saveNetwork_5 : TotalCmp Cmp.saver_saver_saveNetwork_5 :=
  Acme.GenCmp.total_saver_saver_saveNetwork_5
theorem ties_saver_saver_saveNetwork_5 : TiesId (fun k => k.entityID) Cmp.saver_saver_saveNetwork_5 :=
  Acme.GenCmp.ties_saver_saver_saveNetwork_5

/-- saver.go, saver.saveNetwork: `slices.SortFunc(attributes, ..)` over the keys `Name()`, `EntityID()` -/
theorem total_saver_saver_saveNetwork_6 : TotalCmp Cmp.saver_saver_saveNetwork_6 :=
  Acme.GenCmp.total_saver_saver_saveNetwork_6
theorem ties_saver_saver_saveNetwork_6 : TiesId (fun k => k.entityID) Cmp.saver_saver_saveNetwork_6 :=
  Acme.GenCmp.ties_saver_saver_saveNetwork_6

/-- signal_enum.go, SignalEnum.Values: `slices.SortFunc(valueSlice, ..)` over the keys `index` -/
theorem total_signal_enum_SignalEnum_Values_1 : TotalCmp Cmp.signal_enum_SignalEnum_Values_1 :=
  Acme.GenCmp.total_signal_enum_SignalEnum_Values_1
theorem ties_signal_enum_SignalEnum_Values_1 : TiesId (fun k => k.index) Cmp.signal_enum_SignalEnum_Values_1 :=
  Acme.GenCmp.ties_signal_enum_SignalEnum_Values_1

/-- utils.go, CalculateBusLoad: `slices.SortFunc(msgLoads, ..)` over the keys `BitsPerSec` -/
theorem total_utils_CalculateBusLoad_1 : TotalCmp Cmp.utils_CalculateBusLoad_1 :=
  Acme.GenCmp.total_utils_CalculateBusLoad_1
theorem ties_utils_CalculateBusLoad_1 : TiesId (fun k => k.BitsPerSec) Cmp.utils_CalculateBusLoad_1 :=
  Acme.GenCmp.ties_utils_CalculateBusLoad_1

/-- the comparators for which the theorems above exist are exactly the comparators of the source -/
theorem covered : Cmp.comparators.map (·.1) = [
  "bus_Bus_NodeInterfaces_1",
  "entity_withAttributes_AttributeAssignments_1",
  "exporter_exporter_exportBus_1",
  "importer_importer_importValueEncoding_1",
  "importer_importer_importMessage_1",
  "md_exporter_mdExporter_exportNetwork_1",
  "md_exporter_mdExporter_exportNetwork_2",
  "md_exporter_mdExporter_exportNetwork_3",
  "message_Message_Receivers_1",
  "network_Network_Buses_1",
  "node_iterface_NodeInterface_SentMessages_1",
  "node_iterface_NodeInterface_ReceivedMessages_1",
  "saver_saver_saveNetwork_1",
  "saver_saver_saveNetwork_2",
  "saver_saver_saveNetwork_3",
  "saver_saver_saveNetwork_4",
  "saver_saver_saveNetwork_5",
  "saver_saver_saveNetwork_6",
  "signal_enum_SignalEnum_Values_1",
  "utils_CalculateBusLoad_1"] := by decide

/-- The keys each comparator reads, in the order of the chain (a hand-written expectation, like
    Acme.Expect.iterSites): swapping two keys of a chain keeps the comparator total and
    id-terminated — the theorems above stay true — but changes the ORDER of every export; this
    equality pins the order of the keys. -/
theorem keys_expected : Cmp.comparators.map (fun r => (r.1, r.2.2.2.2.1)) = [
  ("bus_Bus_NodeInterfaces_1", ["node.id"]),
  ("entity_withAttributes_AttributeAssignments_1", ["attribute.Name()", "attribute.EntityID()"]),
  ("exporter_exporter_exportBus_1", ["name", "entityID"]),
  ("importer_importer_importValueEncoding_1", ["ID"]),
  ("importer_importer_importMessage_1", ["StartBit"]),
  ("md_exporter_mdExporter_exportNetwork_1", ["size", "name", "entityID"]),
  ("md_exporter_mdExporter_exportNetwork_2", ["name", "entityID"]),
  ("md_exporter_mdExporter_exportNetwork_3", ["name", "entityID"]),
  ("message_Message_Receivers_1", ["node.name", "node.entityID"]),
  ("network_Network_Buses_1", ["name", "entityID"]),
  ("node_iterface_NodeInterface_SentMessages_1", ["id", "entityID"]),
  ("node_iterface_NodeInterface_ReceivedMessages_1", ["id", "entityID"]),
  ("saver_saver_saveNetwork_1", ["name", "entityID"]),
  ("saver_saver_saveNetwork_2", ["id", "entityID"]),
  ("saver_saver_saveNetwork_3", ["name", "entityID"]),
  ("saver_saver_saveNetwork_4", ["name", "entityID"]),
  ("saver_saver_saveNetwork_5", ["name", "entityID"]),
  ("saver_saver_saveNetwork_6", ["Name()", "EntityID()"]),
  ("signal_enum_SignalEnum_Values_1", ["index"]),
  ("utils_CalculateBusLoad_1", ["BitsPerSec"])] := by decide

/-- The comparators that do NOT end in the entity id, each with the reason why it is harmless. -/
def nonIdComparators : List (String × String) := [
  ("bus_Bus_NodeInterfaces_1", "on export paths (Bus.NodeInterfaces); sorted by the node id alone, which is unique among the interfaces of one bus (C04: AddNodeInterface refuses a duplicate node id), so ties do not occur; ties_bus_Bus_NodeInterfaces_1: a tie implies equal node ids"),
  ("importer_importer_importValueEncoding_1", "not on an export path: the importer sorts the value descriptions of one parsed VAL_ line, a slice in file order (not taken from a map), with a deterministic algorithm"),
  ("importer_importer_importMessage_1", "not on an export path: the importer sorts the signals of one parsed BO_ block, a slice in file order (not taken from a map), with a deterministic algorithm"),
  ("signal_enum_SignalEnum_Values_1", "on export paths (SignalEnum.Values); sorted by the index alone, which is unique among the values of one enum (C03/C04: verifyValueIndex refuses a duplicate index), so ties do not occur; ties_signal_enum_SignalEnum_Values_1: a tie implies equal indexes"),
  ("utils_CalculateBusLoad_1", "not on an export path (C15 covers the DBC, Markdown and wire exports): the bus-load report is sorted by descending bits per second only; messages with exactly equal load come out in collection order")
]

/-- the generated rows whose last flag is `false` are exactly the listed ones -/
theorem nonId_listed :
    (Cmp.comparators.filter (fun r => !r.2.2.2.2.2)).map (·.1) = nonIdComparators.map (·.1) := by
  decide

/-- the flag of the table and the `idKey` of `Cmp.all` agree, row by row -/
theorem flags_agree :
    Cmp.comparators.map (fun r => (r.1, r.2.2.2.2.2)) = Cmp.all.map (fun c => (c.name, c.idKey.isSome)) := by
  decide

/-- Aggregated obligation: every comparator of the source is a total preorder, and — when its
    chain ends in the entity id — a tie implies equal entity ids. -/
theorem C15_comparators_total : ∀ c ∈ Cmp.all, c.Good :=
  Acme.GenCmp.all_good

/-- `C15_any_sort` for every generated comparator that ends in the entity id, any entity type and
    any view of the entities as the comparator's keys: a sorted permutation of the collected
    entities (pairwise different entity ids) is the merge-sorted list — so the result of Go's
    `slices.SortFunc` does not depend on the algorithm or on the collection order. -/
theorem C15_any_sort_generated (g : AnyCmp) (hg : g ∈ Cmp.all) (idk : g.Keys → String)
    (hk : g.idKey = some idk) {α : Type} (view : α → g.Keys) (l s : List α)
    (hid : (l.map (fun x => idk (view x))).Nodup) (hp : s.Perm l)
    (hs : s.Pairwise (fun a b => Acme.GenCmp.leOf view g.cmp a b = true)) :
    s = l.mergeSort (Acme.GenCmp.leOf view g.cmp) :=
  Acme.GenCmp.any_sort_generated g hg idk hk view l s hid hp hs

/-- `C15_perm_*` likewise: the sorted list is the same for every permutation of the collection. -/
theorem C15_sort_perm_generated (g : AnyCmp) (hg : g ∈ Cmp.all) (idk : g.Keys → String)
    (hk : g.idKey = some idk) {α : Type} (view : α → g.Keys) (l₁ l₂ : List α) (hp : l₁.Perm l₂)
    (hid : (l₁.map (fun x => idk (view x))).Nodup) :
    l₁.mergeSort (Acme.GenCmp.leOf view g.cmp) = l₂.mergeSort (Acme.GenCmp.leOf view g.cmp) :=
  Acme.GenCmp.sort_perm_generated g hg idk hk view l₁ l₂ hp hid

/-- the same for a single-key comparator under the hypothesis that the key is unique in the
    collection (node ids within a bus, indexes within an enum) -/
theorem C15_any_sort_unique_key {α K ι : Type} (view : α → K) (c : K → K → Int) (key : K → ι)
    (ht : TotalCmp c) (hi : TiesId key c) (l s : List α)
    (hid : (l.map (fun x => key (view x))).Nodup) (hp : s.Perm l)
    (hs : s.Pairwise (fun a b => Acme.GenCmp.leOf view c a b = true)) :
    s = l.mergeSort (Acme.GenCmp.leOf view c) :=
  Acme.GenCmp.any_sort view c key ht hi l s hid hp hs

/-- The comparator `Acme.Det.leInt` of the hand-written model (C15_any_sort, C15_perm_int) is the
    generated comparator of node_iterface.go `SentMessages` on the keys (message id, entity id). -/
theorem C15_leInt_is_generated (a b : Acme.Det.Ent Int) :
    Acme.Det.leInt a b =
      Acme.GenCmp.leOf Acme.GenCmp.viewInt Cmp.node_iterface_NodeInterface_SentMessages_1 a b :=
  Acme.GenCmp.leInt_eq_generated a b

/-- `Acme.Det.leStr` (C15_perm_str) is the generated comparator of network.go `Buses` on the
    keys (name, entity id). -/
theorem C15_leStr_is_generated (a b : Acme.Det.Ent String) :
    Acme.Det.leStr a b = Acme.GenCmp.leOf Acme.GenCmp.viewStr Cmp.network_Network_Buses_1 a b :=
  Acme.GenCmp.leStr_eq_generated a b

/-- `C15_any_sort` restated on the comparator of the source. -/
theorem C15_any_sort_source (l s : List (Acme.Det.Ent Int)) (hid : (l.map (·.id)).Nodup)
    (hp : s.Perm l)
    (hs : s.Pairwise (fun a b =>
      Acme.GenCmp.leOf Acme.GenCmp.viewInt Cmp.node_iterface_NodeInterface_SentMessages_1 a b = true)) :
    s = l.mergeSort Acme.Det.leInt :=
  Acme.GenCmp.any_sort_int_generated l s hid hp hs

theorem C15_any_sort_source_str (l s : List (Acme.Det.Ent String)) (hid : (l.map (·.id)).Nodup)
    (hp : s.Perm l)
    (hs : s.Pairwise (fun a b =>
      Acme.GenCmp.leOf Acme.GenCmp.viewStr Cmp.network_Network_Buses_1 a b = true)) :
    s = l.mergeSort Acme.Det.leStr :=
  Acme.GenCmp.any_sort_str_generated l s hid hp hs

/-! Non-vacuity: the generated comparators compute -/
example : Cmp.network_Network_Buses_1 { name := "a", entityID := "x" } { name := "b", entityID := "x" } = -1 := by decide
example : Cmp.network_Network_Buses_1 { name := "a", entityID := "y" } { name := "a", entityID := "x" } = 1 := by decide
example : Cmp.md_exporter_mdExporter_exportNetwork_1 { size := 8, name := "t", entityID := "i1" }
    { size := 8, name := "t", entityID := "i1" } = 0 := by decide
example : Cmp.md_exporter_mdExporter_exportNetwork_1 { size := 8, name := "t", entityID := "i1" }
    { size := 16, name := "a", entityID := "i0" } = -8 := by decide
example : Cmp.utils_CalculateBusLoad_1 { BitsPerSec := 3 } { BitsPerSec := 5 } = 1 := by decide

end Acme.Props.GenComparators
