/-
C10 at MESSAGE level — "a successful DBC import is a faithful, valid model of the file".

`Acme.Import.importMsg` (Acme/Core/Import.lean) is a model of `importer.importMessage` with
`importMuxSignal`, `importSignal` (structural checks), `getSignalStartBit`, the look-up of the
extended-multiplexing entries, and of the `InsertSignal` calls it makes, for ONE message of
the file (`DMsg`: id, size, signals with start / size / byte order / multiplexor / multiplexed /
switch value, `SG_MUL_VAL_` entries).  It is tied to the real code by stream `imp`
(harness/s_imp.go: `imp import`, the text is written by the real DBC writer and read by
`ImportDBCFile`; 0 mismatches).  Its answer is the STRUCTURE of the imported message (`ITree`).

Fragment: every message the code accepts, in all three cases of `importMessage` (no
multiplexor; exactly one; several multiplexors with extended multiplexing), NESTED multiplexors
included: a multiplexor that has an extended entry of its own is built first and handed to the
multiplexor the entry names (which must precede it, /repo 3f90da4).  The tree stays first
order: a nested multiplexer is a `Child` with `isMux` in its parent and a `MuxNode` of the same
name in `ITree.nested`, whose `start` is ABSOLUTE.

  import_wf        (a)  validity of the imported structure (top level and its multiplexers)
  import_wf_nested (a)  … of the nested multiplexers, and the absolute-start chain (`LinkOK`)
  import_faithful  (b)  faithfulness: a one-to-one matching signals of the file ↔ entries of the
                        tree at every depth (`entriesN`); `import_faithful_flat` is the first
                        statement (flat view `entries`) for imports without nested multiplexers
  import_exactly_once, import_nothing_else, import_names_nodup, import_counts   (b) read by name
  import_D75            the known finding D75, stated as what the code does
  examples         (d)

(b) has no hypothesis besides acceptance.  Two behaviours of the code that used to need
hypotheses (`SelectorsOK`: a multiplexor of 0 bits was accepted and shifted every multiplexed
signal by one bit; `MuxNamesOK`: a signal carrying the name of a multiplexor was skipped
silently) were found by the oracle of stream `imp` and repaired in /repo 6b610c4; they are now
consequences of acceptance (`import_selectorsOK`, `import_muxNamesOK`, `import_file_names_nodup`)
and the oracle signatures `c10-msg:zero-selector`, `c10-msg:dropped:*` must never fire.
-/
import Acme.Spec.Import
import Acme.Proofs.ImportD75
import Acme.Proofs.ImportExtra
import Acme.Proofs.ImportNested2
import Acme.Props.C10

namespace Acme.Props.C10Msg
open Acme.Layout Acme.Conv Acme.Arith Acme.Import

/-- the position used in `EntryRel` is the one of C10 -/
theorem filePos_eq_importPos (s : DSig) :
    filePos s = Acme.Props.C10.importPos s.bigEndian (s.start : Int) := rfl

/-- the size of a multiplexer is its selector plus one group -/
theorem mux_size (n : MuxNode) : (Item.mux n).size = n.groupSize + n.selW := rfl

/-- the absolute start of a child is parent start + selector width + relative start (C07) -/
theorem child_abs (n : MuxNode) (c : Child) : (childEntry n c).abs = n.start + n.selW + c.rel := rfl

/-- (a) An accepted import is a valid structure: the top-level placement is a well-formed layout
    of `8 * size` bits; every multiplexer has positive group count and group size, selector width
    `calcSize (groupCount - 1)`, size = selector + group size, every group is a well-formed layout
    within the group size, every group id is in `[0, groupCount)`; sizes are positive and the
    names registered in the message are pairwise different. -/
theorem import_wf (m : DMsg) (t : ITree) (h : importMsg m = .ok t) :
    t.sizeByte = (m.size : Int) ∧ m.size ≤ 8 ∧
    WF (8 * (m.size : Int)) (topSlots t.top) ∧
    (∀ n, Item.mux n ∈ t.top → MuxWF n ∧ (Item.mux n).size = n.groupSize + n.selW) ∧
    (∀ x ∈ t.top, 0 < x.size) ∧ (regNames t.top).Nodup := by
  obtain ⟨_, h2, h3, _, hinv, _⟩ := importMsg_ok m t h
  exact ⟨h2, h3, hinv.wf, fun n hn => ⟨hinv.mux n hn, rfl⟩, hinv.pos, hinv.names⟩

/-- (a), nested multiplexers: every multiplexer that is a child of another multiplexer
    (`t.nested`, any depth) is a well-formed multiplexer node, and every child marked `isMux` —
    of a top-level or of a nested multiplexer — has its node: same name, the child's size is the
    node's total size (selector + one group), and the node's ABSOLUTE start bit is the parent's
    absolute start + the parent's selector width + the child's relative start (C07_abs_start,
    applied along the whole ancestor chain). -/
theorem import_wf_nested (m : DMsg) (t : ITree) (h : importMsg m = .ok t) :
    (∀ n ∈ t.nested, MuxWF n) ∧ (∀ n ∈ t.nested, LinkOK t.nested n) ∧
    (∀ n, Item.mux n ∈ t.top → LinkOK t.nested n) := by
  obtain ⟨_, _, _, _, _, _, _, h1, h2, h3, _⟩ := importMsg_ok m t h
  exact ⟨h1, h2, h3⟩

/-- (b) An accepted import is faithful: there is a one-to-one matching `τ` between the signals
    of the file and the entries of the tree (each signal once, each entry once, nothing else)
    along which `EntryRel` holds: same name, same size, ABSOLUTE start bit = `importPos` of the
    file's start bit, and
      * a multiplexor of the file is a multiplexer node of the tree,
      * a top-level entry is not a multiplexor,
      * a child of a multiplexer with `gc` groups is in the groups the file asks for
        (`GroupsAsFile`): switch value `k` without extended entry ⇒ exactly `[k]`; with an
        extended entry ⇒ exactly the groups of `Acme.Conv.expand` (fixed when these are all
        groups); not multiplexed ⇒ fixed (D75, see `import_D75`);
      * a multiplexor of the file that is nested is a `subMux` entry of its parent: its size is
        the selector width of the nested node, its absolute start (parent's absolute start +
        parent's selector width + relative start, down the whole ancestor chain, `LinkOK`) is
        the `importPos` of the file's start bit, and it is in the groups of its extended entry.
    Holds for EVERY accepted import, nested multiplexors included. -/
theorem import_faithful (m : DMsg) (t : ITree) (h : importMsg m = .ok t) :
    ∃ τ : List (DSig × Entry), (τ.map (·.1)).Perm m.sigs ∧ (τ.map (·.2)).Perm (entriesN t) ∧
      ∀ p ∈ τ, EntryRel m.exts p.1 p.2 :=
  importMsg_matchN m t h

/-- the flat view used by (b): without nested multiplexers `entriesN` is the flat view `entries`
    of the first version of this file (every child has the place `.child`) -/
theorem entriesN_eq_entries (m : DMsg) (t : ITree) (h : importMsg m = .ok t) (hflat : t.nested = []) :
    entriesN t = entries t := by
  apply entriesN_flat t hflat
  intro n hnt c hc
  cases hm : c.isMux
  · rfl
  · obtain ⟨n', hn', _⟩ := (importMsg_ok m t h).2.2.2.2.2.2.2.2.2.1 n hnt c hc hm
    rw [hflat] at hn'
    cases hn'

/-- (b) as first stated, for the accepted imports WITHOUT nested multiplexers -/
theorem import_faithful_flat (m : DMsg) (t : ITree) (h : importMsg m = .ok t) (hflat : t.nested = []) :
    ∃ τ : List (DSig × Entry), (τ.map (·.1)).Perm m.sigs ∧ (τ.map (·.2)).Perm (entries t) ∧
      ∀ p ∈ τ, EntryRel m.exts p.1 p.2 :=
  (importMsg_ok m t h).2.2.2.2.2.2.2.2.2.2 hflat

/-- an accepted file has pairwise different signal names in the message -/
theorem import_file_names_nodup (m : DMsg) (t : ITree) (h : importMsg m = .ok t) :
    (m.sigs.map (·.name)).Nodup := (importMsg_ok m t h).2.2.2.2.2.1

/-- an accepted file has no multiplexor without bits -/
theorem import_selectorsOK (m : DMsg) (t : ITree) (h : importMsg m = .ok t) : SelectorsOK m :=
  importMsg_selectors m t h

/-- in an accepted file no other signal carries the name of a multiplexor -/
theorem import_muxNamesOK (m : DMsg) (t : ITree) (h : importMsg m = .ok t) : MuxNamesOK m :=
  importMsg_muxNames m t h

/-- the names of the entries of an imported tree are pairwise different, at every depth -/
theorem import_names_nodup (m : DMsg) (t : ITree) (h : importMsg m = .ok t) :
    ((entriesN t).map (·.name)).Nodup := by
  obtain ⟨τ, h1, h2, h3⟩ := import_faithful m t h
  have hnd := import_file_names_nodup m t h
  have e1 : ((τ.map (·.1)).map (·.name)).Nodup := ((h1.map _).nodup_iff).2 hnd
  have e2 : (τ.map (·.2)).map (·.name) = (τ.map (·.1)).map (·.name) := by
    rw [List.map_map, List.map_map]
    apply List.map_congr_left
    intro p hp
    exact (h3 p hp).1
  rw [← e2] at e1
  exact ((h2.map _).nodup_iff).1 e1

/-- (b) by name: every signal of the file occurs exactly once in the tree — there is an entry
    that is its faithful image, and every entry with its name is that entry -/
theorem import_exactly_once (m : DMsg) (t : ITree) (h : importMsg m = .ok t)
    (s : DSig) (hs : s ∈ m.sigs) :
    ∃ e ∈ entriesN t, EntryRel m.exts s e ∧ ∀ e' ∈ entriesN t, e'.name = s.name → e' = e := by
  obtain ⟨τ, h1, h2, h3⟩ := import_faithful m t h
  have hs' : s ∈ τ.map (·.1) := h1.mem_iff.2 hs
  obtain ⟨p, hp, rfl⟩ := List.mem_map.1 hs'
  have he : p.2 ∈ entriesN t := h2.mem_iff.1 (List.mem_map.2 ⟨p, hp, rfl⟩)
  refine ⟨p.2, he, h3 p hp, ?_⟩
  intro e' he' hn
  have hnd := import_names_nodup m t h
  have hrel := h3 p hp
  have : e'.name = p.2.name := by rw [hn, hrel.1]
  exact List.inj_on_of_nodup_map hnd he' he this

/-- (b) nothing else is in the tree: every entry is the faithful image of a signal of the file -/
theorem import_nothing_else (m : DMsg) (t : ITree) (h : importMsg m = .ok t)
    (e : Entry) (he : e ∈ entriesN t) :
    ∃ s ∈ m.sigs, EntryRel m.exts s e := by
  obtain ⟨τ, h1, h2, h3⟩ := import_faithful m t h
  have he' : e ∈ τ.map (·.2) := h2.mem_iff.2 he
  obtain ⟨p, hp, rfl⟩ := List.mem_map.1 he'
  exact ⟨p.1, h1.mem_iff.1 (List.mem_map.2 ⟨p, hp, rfl⟩), h3 p hp⟩

/-- the file has as many signals as the tree has entries -/
theorem import_counts (m : DMsg) (t : ITree) (h : importMsg m = .ok t) :
    m.sigs.length = (entriesN t).length ∧ (m.sigs.map (·.name)).Nodup := by
  obtain ⟨τ, h1, h2, _⟩ := import_faithful m t h
  exact ⟨by rw [← h1.length_eq, ← h2.length_eq, List.length_map, List.length_map],
    import_file_names_nodup m t h⟩

/-- what `GroupsAsFile` says in the two cases without an extended entry -/
theorem groups_switch (exts : List DExt) (gc : Int) (s : DSig) (gids : List Int)
    (h : GroupsAsFile exts gc s gids) (hext : findExt exts s.name = none) :
    (s.isMultiplexed = true → gids = [(s.muxSwitch : Int)]) ∧ (s.isMultiplexed = false → gids = []) := by
  unfold GroupsAsFile at h
  rw [hext] at h
  dsimp only at h
  constructor
  · intro hm; rw [if_pos hm] at h; exact h
  · intro hm; rw [if_neg (by simp [hm])] at h; exact h

/-- … and with an extended entry: the signal is in group `g` iff `g` is among the groups of
    `Acme.Conv.expand` (every group when it is fixed because the ranges cover all groups) -/
theorem groups_extended (exts : List DExt) (gc : Int) (s : DSig) (gids : List Int) (e : DExt)
    (h : GroupsAsFile exts gc s gids) (hext : findExt exts s.name = some e) :
    ∃ xs, expand gc (natRanges e.ranges) = some xs ∧
      (gids ≠ [] → ∀ g, inGroups gids g ↔ g ∈ xs) ∧
      (gids = [] → xs = [] ∨ ((Acme.Mux.compactAdj (Acme.Mux.sortInts xs)).length : Int) = gc) := by
  unfold GroupsAsFile at h
  rw [hext] at h
  obtain ⟨xs, hx, hcase⟩ := h
  refine ⟨xs, hx, ?_, ?_⟩
  · intro hne g
    rcases hcase with ⟨h0, _⟩ | ⟨_, _, hmem⟩
    · exact absurd h0 hne
    · unfold inGroups
      constructor
      · rintro (h0 | h0)
        · exact absurd h0 hne
        · exact (hmem g).1 h0
      · intro h0; exact Or.inr ((hmem g).2 h0)
  · intro h0
    rcases hcase with ⟨_, hz⟩ | ⟨hne, _⟩
    · exact hz
    · exact absurd h0 hne

/-- a signal that is fixed because its (non-empty) extended entry passes the importer's length
    test is named by the ranges for EVERY group: the test means what it should -/
theorem groups_extended_all (exts : List DExt) (gc : Int) (s : DSig) (e : DExt)
    (h : GroupsAsFile exts gc s []) (hext : findExt exts s.name = some e) :
    ∃ xs, expand gc (natRanges e.ranges) = some xs ∧ (xs = [] ∨ ∀ g, 0 ≤ g → g < gc → g ∈ xs) := by
  obtain ⟨xs, hx, _, h2⟩ := groups_extended exts gc s [] e h hext
  refine ⟨xs, hx, ?_⟩
  rcases h2 rfl with h0 | h0
  · exact Or.inl h0
  · exact Or.inr (expand_all_groups gc e.ranges xs hx h0)

/-- KNOWN FINDING D75, stated as what the code does.  In a message with exactly one multiplexor
    `mx`, a signal `s` that is NOT multiplexed (a plain signal of the file) but starts behind the
    start of the multiplexor and before the start of some multiplexed signal `u` is imported
    INTO the multiplexer: it is a child of the multiplexer node, at the relative position that
    keeps its absolute start bit, and — having no extended entry — a FIXED child (member of every
    group), although the file declares it as an ordinary signal of the message. -/
theorem import_D75 (m : DMsg) (t : ITree) (h : importMsg m = .ok t) (mx s u : DSig)
    (hone : m.sigs.filter (·.isMultiplexor) = [mx])
    (hs : s ∈ m.sigs) (hsn : s.name ≠ mx.name) (hsm : s.isMultiplexed = false)
    (hu : u ∈ m.sigs) (hun : u.name ≠ mx.name) (hum : u.isMultiplexed = true)
    (h1 : filePos mx < filePos s) (h2 : filePos s < filePos u) :
    ∃ n c, Item.mux n ∈ t.top ∧ n.name = mx.name ∧ c ∈ n.children ∧ c.name = s.name ∧
      c.size = (s.size : Int) ∧ c.rel = filePos s - (filePos mx + (mx.size : Int)) ∧
      (findExt m.exts s.name = none → c.gids = []) := by
  have hsort := sortSigs_perm m.sigs
  have hmux : (sortSigs m.sigs).filter (·.isMultiplexor) = [mx] := by
    have := hsort.filter (·.isMultiplexor)
    rw [hone] at this
    exact List.perm_singleton.1 this
  have hone' := importMsg_one m t mx h hmux
  have hsize := (import_wf m t h).2.1
  obtain ⟨n, c, hn, hname, hc, hrel⟩ := importOne_D75 _ m.exts mx _ t.top hone' (by omega) s u
    (hsort.mem_iff.2 hs) (by simpa using hsn) hsm (hsort.mem_iff.2 hu) (by simpa using hun) hum h1 h2
  obtain ⟨r1, r2, r3, r4, _⟩ := hrel
  refine ⟨n, c, hn, hname, hc, r1, r3, r2, ?_⟩
  intro hext
  exact (groups_switch m.exts _ s c.gids r4 hext).2 hsm

/-! ### (d) examples: the hypotheses are satisfiable and the statements have content -/

/-- big endian, one multiplexor of 2 bits at position 0 (file start bit 7), a fixed child `f`
    (entry `0-3`), a single-group child `a` (`m1`), a multi-group child `b` (`0-0, 2-3`) sharing
    the bits of `a`, and a plain signal `p` behind the multiplexer -/
def exMsg : DMsg :=
  { id := 7, size := 8,
    sigs := [
      { name := "p", start := 23, size := 8, bigEndian := true },
      { name := "b", start := 1, size := 8, bigEndian := true, isMultiplexed := true, muxSwitch := 0 },
      { name := "mx", start := 7, size := 2, bigEndian := true, isMultiplexor := true },
      { name := "a", start := 1, size := 8, bigEndian := true, isMultiplexed := true, muxSwitch := 1 },
      { name := "f", start := 5, size := 4, bigEndian := true, isMultiplexed := true, muxSwitch := 0 } ],
    exts := [⟨"mx", "b", [(0, 0), (2, 3)]⟩, ⟨"mx", "f", [(0, 3)]⟩] }

def exTree : ITree :=
  ⟨7, 8, true, [.mux ⟨"mx", 0, 2, 4, 12, [⟨"b", 4, 8, [0, 2, 3], false⟩, ⟨"a", 4, 8, [1], false⟩, ⟨"f", 0, 4, [], false⟩]⟩,
                .sig ⟨"p", 16, 8⟩], []⟩

theorem ex_import : importMsg exMsg = .ok exTree := by decide

/-- the flat view of the example: absolute start bits 0, 6, 6, 2, 16 = importPos of 7, 1, 1, 5, 23 -/
theorem ex_entries : entries exTree =
    [⟨"mx", 2, 0, .muxor⟩, ⟨"b", 8, 6, .child "mx" 4 [0, 2, 3]⟩, ⟨"a", 8, 6, .child "mx" 4 [1]⟩,
     ⟨"f", 4, 2, .child "mx" 4 []⟩, ⟨"p", 8, 16, .top⟩] := by decide

theorem ex_positions : exMsg.sigs.map filePos = [16, 6, 0, 6, 2] := by decide

/-- the groups of the example multiplexer: `f` everywhere, `b` in 0, 2, 3, `a` in 1 -/
theorem ex_groups :
    (List.range 4).map (fun (k : Nat) => (groupOf [⟨"b", 4, 8, [0, 2, 3], false⟩, ⟨"a", 4, 8, [1], false⟩, ⟨"f", 0, 4, [], false⟩] (k : Int)).map (·.name)) =
      [["f", "b"], ["f", "a"], ["f", "b"], ["f", "b"]] := by decide

/-- (a) and (b) instantiated -/
theorem ex_wf :
    exTree.sizeByte = (exMsg.size : Int) ∧ exMsg.size ≤ 8 ∧
    WF (8 * (exMsg.size : Int)) (topSlots exTree.top) ∧
    (∀ n, Item.mux n ∈ exTree.top → MuxWF n ∧ (Item.mux n).size = n.groupSize + n.selW) ∧
    (∀ x ∈ exTree.top, 0 < x.size) ∧ (regNames exTree.top).Nodup :=
  import_wf exMsg exTree ex_import

theorem ex_faithful :
    ∃ τ : List (DSig × Entry), (τ.map (·.1)).Perm exMsg.sigs ∧ (τ.map (·.2)).Perm (entriesN exTree) ∧
      ∀ p ∈ τ, EntryRel exMsg.exts p.1 p.2 :=
  import_faithful exMsg exTree ex_import

/-- D75 in the small: the plain signal `d` at position 4 lies behind the multiplexor (position 0)
    and before the multiplexed signal `c` (position 8): it becomes the fixed child `d`. -/
def exD75 : DMsg :=
  { id := 1, size := 2,
    sigs := [
      { name := "mx", start := 0, size := 1, bigEndian := false, isMultiplexor := true },
      { name := "d", start := 4, size := 2, bigEndian := false },
      { name := "c", start := 8, size := 4, bigEndian := false, isMultiplexed := true, muxSwitch := 1 } ] }

theorem ex_D75 : importMsg exD75 =
    .ok ⟨1, 2, false, [.mux ⟨"mx", 0, 1, 2, 11, [⟨"c", 7, 4, [1], false⟩, ⟨"d", 3, 2, [], false⟩]⟩], []⟩ := by decide

/-- the two behaviours that (b) used to exclude by hypotheses are refusals now -/
def exZeroSel : DMsg :=
  { id := 1, size := 1,
    sigs := [{ name := "mx", start := 0, size := 0, bigEndian := false, isMultiplexor := true },
             { name := "c", start := 2, size := 2, bigEndian := false, isMultiplexed := true, muxSwitch := 0 }] }

/-- a 0-bit multiplexor is refused (before /repo 6b610c4: accepted with a 1-bit selector, `c` one
    bit behind its position) -/
theorem ex_zero_selector : importMsg exZeroSel = .error .sizeZero := by decide

def exSameName : DMsg :=
  { id := 1, size := 1,
    sigs := [{ name := "mx", start := 0, size := 1, bigEndian := false, isMultiplexor := true },
             { name := "mx", start := 6, size := 2, bigEndian := false },
             { name := "c", start := 1, size := 2, bigEndian := false, isMultiplexed := true, muxSwitch := 0 }] }

/-- a second signal with the name of the multiplexor is refused (before: dropped silently) -/
theorem ex_same_name : importMsg exSameName = .error .nameDuplicated := by decide

/-! ### nested multiplexors: message `msg_1` (id 32) of the fixture /repo/testdata/expected.dbc -/

/-- `mux_sig_1 M`, `one_group_sig_1 m0`, `nested_mux_sig_1 m0M` (1 bit at 2, extended entry
    `1-1`), its children `one_group_sig_2` (`0-0`) and `multi_group_sig_1` (`0-1`) -/
def fxMsg : DMsg :=
  { id := 32, size := 8,
    sigs := [
      { name := "mux_sig_1", start := 0, size := 2, bigEndian := false, isMultiplexor := true },
      { name := "one_group_sig_1", start := 2, size := 4, bigEndian := false, isMultiplexed := true, muxSwitch := 0 },
      { name := "nested_mux_sig_1", start := 2, size := 1, bigEndian := false, isMultiplexor := true,
        isMultiplexed := true, muxSwitch := 0 },
      { name := "one_group_sig_2", start := 3, size := 4, bigEndian := false, isMultiplexed := true, muxSwitch := 0 },
      { name := "multi_group_sig_1", start := 7, size := 4, bigEndian := false, isMultiplexed := true, muxSwitch := 1 } ],
    exts := [⟨"nested_mux_sig_1", "one_group_sig_2", [(0, 0)]⟩, ⟨"nested_mux_sig_1", "multi_group_sig_1", [(0, 1)]⟩,
             ⟨"mux_sig_1", "one_group_sig_1", [(0, 0)]⟩, ⟨"mux_sig_1", "nested_mux_sig_1", [(1, 1)]⟩] }

/-- the nested multiplexer (1-bit selector, two groups of 8 bits) is a child of 9 bits in group 1
    of `mux_sig_1`; its node has the absolute start 2 = 0 + 2 + 0 -/
def fxTree : ITree :=
  { id := 32, sizeByte := 8, bigEndian := false,
    top := [.mux ⟨"mux_sig_1", 0, 2, 4, 9,
      [⟨"one_group_sig_1", 0, 4, [0], false⟩, ⟨"nested_mux_sig_1", 0, 9, [1], true⟩]⟩],
    nested := [⟨"nested_mux_sig_1", 2, 1, 2, 8,
      [⟨"one_group_sig_2", 0, 4, [0], false⟩, ⟨"multi_group_sig_1", 4, 4, [], false⟩]⟩] }

theorem fx_import : importMsg fxMsg = .ok fxTree := by decide

/-- the flat view: absolute start bits 0, 2, 2, 3, 7 — the start bits of the file, through two
    levels (3 = 2 + 1 + 0, 7 = 2 + 1 + 4) -/
theorem fx_entries : entriesN fxTree =
    [⟨"mux_sig_1", 2, 0, .muxor⟩, ⟨"one_group_sig_1", 4, 2, .child "mux_sig_1" 4 [0]⟩,
     ⟨"nested_mux_sig_1", 1, 2, .subMux "mux_sig_1" 4 [1]⟩,
     ⟨"one_group_sig_2", 4, 3, .child "nested_mux_sig_1" 2 [0]⟩,
     ⟨"multi_group_sig_1", 4, 7, .child "nested_mux_sig_1" 2 []⟩] := by decide

theorem fx_wf_nested :
    (∀ n ∈ fxTree.nested, MuxWF n) ∧ (∀ n ∈ fxTree.nested, LinkOK fxTree.nested n) ∧
    (∀ n, Item.mux n ∈ fxTree.top → LinkOK fxTree.nested n) :=
  import_wf_nested fxMsg fxTree fx_import

theorem fx_faithful :
    ∃ τ : List (DSig × Entry), (τ.map (·.1)).Perm fxMsg.sigs ∧ (τ.map (·.2)).Perm (entriesN fxTree) ∧
      ∀ p ∈ τ, EntryRel fxMsg.exts p.1 p.2 :=
  import_faithful fxMsg fxTree fx_import

/-- the check repaired in /repo 3f90da4: a nested multiplexor whose parent does not precede it
    (here: it names itself) is refused -/
theorem ex_precede :
    importMsg { fxMsg with exts := fxMsg.exts ++ [⟨"nested_mux_sig_1", "nested_mux_sig_1", [(0, 0)]⟩] } =
      .error .precede := by decide

end Acme.Props.C10Msg
