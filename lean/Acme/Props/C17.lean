/-
C17 — Bus load figures are arithmetically consistent.

  For every bus with a non-zero baud rate and every positive default cycle time the
  reported load equals the sum over all sent messages of the worst-case frame bits
  (payload, header, trailer and stuffing bits) per cycle time, divided by the baud rate;
  each message appears exactly once with a percentage equal to its share of the total
  (shares sum to 100 when there is a message) and entries are ordered by non-increasing
  bits per second.  A zero baud rate yields zero load and a non-positive default cycle
  time is refused.  Enlarging a message or shortening its cycle time never decreases
  the load.

Model: Acme.Core.BusLoad (over ℚ; IEEE rounding is trusted, see DESIGN §4).
-/
import Acme.Core.BusLoad
import Acme.Spec.BusLoad
import Acme.Proofs.BusLoad
import Acme.Proofs.SitesConsts

namespace Acme.Props.C17
open Acme.BusLoad

/-- Independent statement of the worst-case frame length: 8s payload + 19 header +
    25 trailer + ⌊(34 + 8s − 1)/4⌋ stuffing bits. -/
theorem C17_frameBits (s : Int) (h : 0 ≤ s) :
    frameBits s = 8 * s + 19 + 25 + (34 + 8 * s - 1) / 4 :=
  Acme.BusLoad.frameBits_eq s h

/-- load = Σ (frame bits / cycle time · 1000) / baud · 100, each message exactly once,
    percentage = share of the total, entries ordered by non-increasing rate. -/
theorem C17_load (baud : Int) (hb : baud ≠ 0) (msgs : List Msg) (d : Int) (hd : 0 < d) :
    ∃ es, busLoad baud msgs d =
        .ok ((msgs.map (fun m => bpsOf m d)).sum / (baud : Rat) * 100, es) ∧
      (es.map (·.msg)).Perm msgs ∧
      (∀ e ∈ es, e.bps = bpsOf e.msg d ∧
          e.pct = e.bps / (msgs.map (fun m => bpsOf m d)).sum * 100) ∧
      es.Pairwise (fun a b => b.bps ≤ a.bps) :=
  Acme.BusLoad.busLoad_spec baud hb msgs d hd

/-- shares sum to 100 when there is a message -/
theorem C17_shares (baud : Int) (hb : baud ≠ 0) (msgs : List Msg) (d : Int) (hd : 0 < d)
    (hne : msgs ≠ []) (hok : ∀ m ∈ msgs, MsgOK m) (l : Rat) (es : List Entry)
    (h : busLoad baud msgs d = .ok (l, es)) :
    (es.map (·.pct)).sum = 100 :=
  Acme.BusLoad.shares_sum baud hb msgs d hd hne hok l es h

/-- zero baud rate ⇒ zero load -/
theorem C17_zero_baud (msgs : List Msg) (d : Int) (hd : 0 < d) :
    busLoad 0 msgs d = .ok (0, []) :=
  Acme.BusLoad.zero_baud msgs d hd

/-- a non-positive default cycle time is refused (negative / zero), whatever the bus -/
theorem C17_refused (baud : Int) (msgs : List Msg) (d : Int) :
    (d < 0 → busLoad baud msgs d = .error .negative) ∧
    (d = 0 → busLoad baud msgs d = .error .zero) :=
  Acme.BusLoad.refused baud msgs d

/-- Enlarging one message never decreases the load. -/
theorem C17_mono_size (baud : Int) (hb : 0 < baud) (pre post : List Msg) (m : Msg) (s' : Int)
    (d : Int) (hd : 0 < d) (hm : MsgOK m) (hs : m.size ≤ s') :
    loadOf baud (pre ++ m :: post) d ≤ loadOf baud (pre ++ { m with size := s' } :: post) d :=
  Acme.BusLoad.mono_size baud hb pre post m s' d hd hm hs

/-- Shortening one message's (effective, positive) cycle time never decreases the load. -/
theorem C17_mono_cycle (baud : Int) (hb : 0 < baud) (pre post : List Msg) (m : Msg) (c' : Int)
    (d : Int) (hd : 0 < d) (hm : MsgOK m) (hc0 : 0 < c') (hc : c' ≤ cycleOf m d) :
    loadOf baud (pre ++ m :: post) d ≤ loadOf baud (pre ++ { m with cycle := c' } :: post) d :=
  Acme.BusLoad.mono_cycle baud hb pre post m c' d hd hm hc0 hc

/-- Tie B: the numeric constants in the current source (regenerated on every run) are the
    ones of the model. -/
theorem C17_consts :
    Acme.Gen.maxSize = Acme.Arith.maxSize ∧ Acme.Gen.headerBits = Acme.BusLoad.headerBits ∧
    Acme.Gen.trailerBits = Acme.BusLoad.trailerBits ∧
    Acme.Gen.headerStuffingBits = Acme.BusLoad.headerStuffingBits :=
  Acme.Sites.consts_expected

/-! Non-vacuity -/
example : MsgOK ⟨1, 8, 100⟩ := by decide
example : frameBits 8 = 132 := by decide
example : frameBits 0 = 52 := by decide

end Acme.Props.C17
