/-
C11 / C10 for ATTRIBUTES, on the model `Acme.Attr` (tied to exporter.go / importer.go /
special_attributes.go / attribute.go by stream `attr`, at the level of the DBC document).

(a) `attrs_roundtrip_partial` — export then import reproduces attribute definitions of all four
    types, the assignments of bus / nodes / messages / signals and the six dedicated fields, up
    to `normA`, which does exactly two things: every assignment list is sorted by attribute name
    (the order `AttributeAssignments()` returns anyway) and the hex format flag of an integer
    attribute becomes `hex ∧ 0 ≤ min ∧ max ≤ 2^32-1` (since /repo 6272efd an attribute whose range
    does not fit unsigned 32 bit is written as a plain INT attribute: bounds, default and values
    survive, the flag does not — `ex_hex_unfit`, `ex_hex_unfit_negative`).  Zero times / start
    value and unset send types come back as they are, NO normalisation there.  When every hex
    attribute fits (`AllHexFit`) `normA` is only the sort: `attrs_roundtrip_flag`.
    Hypotheses: `AttrWF` (what the public API guarantees + one attribute per name) and `Lossless`
    (decidable) which excludes the sub-case in which the REAL exporter loses information:
      * an attribute of the user named like a well-known one   — `ex_reserved_lossy` (finding D83)
    `ex_same_name_lossy` shows why `AttrWF` asks for one attribute per name (finding D84).
(b) `import_value_forms` — the typing table value form × attribute type on one-line files.
(c) examples by `decide` for every row of the table and for the well-known attributes.
-/
import Acme.Proofs.AttrRound
import Acme.Proofs.AttrForms

namespace Acme.Props.C11Attr
open Acme.Attr Acme.Conv

/-! ## (a) the round trip -/

theorem attrs_roundtrip_partial (A : ModelAttrs) (wf : AttrWF A) (ll : Lossless A) :
    importAttrs (exportAttrs A) = .ok (normA A) :=
  roundtrip A wf ll

/-- what `normA` does: entities, their order and their dedicated fields are untouched … -/
theorem normA_entities (A : ModelAttrs) :
    (normA A).ents.map Ent.key = A.ents.map Ent.key ∧
    (normA A).ents.length = A.ents.length ∧
    ∀ (i : Nat) (e : Ent), A.ents[i]? = some e → (normA A).ents[i]? = some e.norm := by
  refine ⟨?_, by simp [normA], ?_⟩
  · simp only [normA, List.map_map]
    apply List.map_congr_left
    intro e _
    cases e <;> rfl
  · intro i e h
    simp [normA, h]

/-- … an entity keeps its key and its dedicated fields, its assignments are sorted by attribute
    name and only the hex flag of their attributes is normalised … -/
theorem norm_entity (e : Ent) :
    e.norm.key = e.key ∧ e.norm.asgs = (sortAsgs e.asgs).map normAsg ∧ (sortAsgs e.asgs).Perm e.asgs ∧
    (match e, e.norm with
     | .node _ _, .node _ _ => True
     | .msg _ f _, .msg _ f' _ => f' = f
     | .sig _ _ f _, .sig _ _ f' _ => f' = f
     | _, _ => False) := by
  cases e <;> exact ⟨rfl, rfl, sortAsgs_perm _, by simp [Ent.norm]⟩

/-- … what the normalisation of one assignment is: name and value are untouched; string, float
    and enum attributes are untouched; of an integer attribute default and bounds are untouched
    and the hex flag becomes `hex ∧ 0 ≤ min ∧ max ≤ 4294967295` … -/
theorem normAsg_spec (a : Asg) :
    (normAsg a).val = a.val ∧ (normAsg a).att.name = a.att.name ∧
    (match a.att.ty with
     | .int d mn mx hex =>
       (normAsg a).att.ty = .int d mn mx (hex && decide (0 ≤ mn) && decide (mx ≤ 4294967295))
     | t => (normAsg a).att.ty = t) := by
  refine ⟨rfl, rfl, ?_⟩
  cases h : a.att.ty <;> simp [normAsg, normAtt, normTy, exportsAsHex, h]

/-- … an attribute whose hex flag is clear, or whose range fits, is left as it is … -/
theorem normTy_of_fits (t : AttrType) (h : HexFits t) : normTy t = t := by
  cases t with
  | int d mn mx hex =>
    cases hex with
    | false => rfl
    | true =>
      simp only [HexFits] at h
      have h1 : decide (0 ≤ mn) = true := decide_eq_true h.1
      have h2 : decide (mx ≤ 4294967295) = true := decide_eq_true (by omega)
      simp [normTy, exportsAsHex, h1, h2]
  | _ => rfl

/-- … and applying it twice changes nothing more -/
theorem normA_idem (A : ModelAttrs) : normA (normA A) = normA A := by
  simp only [normA, normAsgs_idem, List.map_map, ModelAttrs.mk.injEq, true_and]
  apply List.map_congr_left
  intro e _
  cases e <;> simp [Ent.norm, normAsgs_idem]

theorem normA_bus (A : ModelAttrs) :
    (normA A).bus = (sortAsgs A.bus).map normAsg ∧ (sortAsgs A.bus).Perm A.bus :=
  ⟨rfl, sortAsgs_perm _⟩

/-- when every hex attribute fits 32 bits `normA` is only the sort -/
theorem normA_of_allHexFit (A : ModelAttrs) (h : AllHexFit A) : normA A = sortA A := by
  have hl : ∀ l : List Asg, (∀ a ∈ l, a ∈ allAsgs A) → normAsgs l = sortAsgs l := by
    intro l hl
    unfold normAsgs
    conv => rhs; rw [← List.map_id (sortAsgs l)]
    apply List.map_congr_left
    intro a ha
    have := normTy_of_fits _ (h a (hl a (mem_sortAsgs.1 ha)))
    simp [normAsg, normAtt, this]
  simp only [normA, sortA, ModelAttrs.mk.injEq]
  refine ⟨hl _ (fun a ha => List.mem_append_left _ ha), ?_⟩
  apply List.map_congr_left
  intro e he
  have := hl e.asgs (fun a ha => List.mem_append_right _ (List.mem_flatMap.2 ⟨e, he, ha⟩))
  cases e <;> simpa [Ent.norm, Ent.sorted, Ent.asgs] using this

/-- the round trip with the hex flags preserved: every hex attribute fits 32 bits -/
theorem attrs_roundtrip_flag (A : ModelAttrs) (wf : AttrWF A) (ll : Lossless A) (hf : AllHexFit A) :
    importAttrs (exportAttrs A) = .ok (sortA A) := by
  rw [attrs_roundtrip_partial A wf ll, normA_of_allHexFit A hf]

/-- in particular the six dedicated fields survive with any value, zero / unset included -/
theorem fields_roundtrip (A : ModelAttrs) (wf : AttrWF A) (ll : Lossless A) (M : ModelAttrs)
    (h : importAttrs (exportAttrs A) = .ok M) :
    (∀ id f a, Ent.msg id f a ∈ A.ents → Ent.msg id f (normAsgs a) ∈ M.ents) ∧
    (∀ id n f a, Ent.sig id n f a ∈ A.ents → Ent.sig id n f (normAsgs a) ∈ M.ents) := by
  rw [attrs_roundtrip_partial A wf ll] at h
  cases h
  constructor
  · intro id f a hm
    exact List.mem_map.2 ⟨_, hm, rfl⟩
  · intro id n f a hm
    exact List.mem_map.2 ⟨_, hm, rfl⟩

/-- `AttrWF` asks of an attribute what the constructors of the public API guarantee (the driver of
    stream `attr` builds every attribute of an `at export` line through these three functions,
    as the harness does through NewIntegerAttribute / NewFloatAttribute / NewEnumAttribute) -/
theorem constructors_guarantee :
    (∀ n d mn mx hex a, newInt n d mn mx hex = .ok a → DefOK a.ty) ∧
    (∀ n d mn mx a, newFloat n d mn mx = .ok a → DefOK a.ty) ∧
    (∀ n vs a, newEnum n vs = .ok a → DefOK a.ty) ∧
    (∀ n d, DefOK (AttrDef.mk n (.str d)).ty) :=
  ⟨fun _ _ _ _ _ _ h => (newInt_defOK h).1, fun _ _ _ _ _ h => (newFloat_defOK h).1,
   fun _ _ _ h => newEnum_defOK h, fun _ _ => trivial⟩

/-! ### hex attributes that do not fit unsigned 32 bit (repaired in /repo 6272efd; oracle class
`c11-attr:hex-range` of stream `attr` must not fire any more) -/

/-- NewIntegerAttribute("H", 0, -1, 10) + SetFormatHex, assigned to the bus with value 3 -/
def exHex : ModelAttrs := { bus := [⟨⟨"H", .int 0 (-1) 10 true⟩, .int 3⟩], ents := [] }

/-- written as a plain INT attribute; bounds, default and value come back, the flag is cleared -/
theorem ex_hex_unfit : AttrWF exHex ∧ Lossless exHex ∧ ¬ AllHexFit exHex ∧
    (exportAttrs exHex).defs = [⟨.general, "H", .int (-1) 10⟩] ∧
    (exportAttrs exHex).defaults = [⟨"H", .int 0⟩] ∧
    (exportAttrs exHex).values = [⟨"H", .general, .int 3⟩] ∧
    importAttrs (exportAttrs exHex) = .ok { bus := [⟨⟨"H", .int 0 (-1) 10 false⟩, .int 3⟩], ents := [] } ∧
    normA exHex = { bus := [⟨⟨"H", .int 0 (-1) 10 false⟩, .int 3⟩], ents := [] } := by decide

/-- a hex attribute whose bounds are all negative -/
def exHex2 : ModelAttrs := { bus := [⟨⟨"H", .int (-9) (-10) (-9) true⟩, .int (-10)⟩], ents := [] }

theorem ex_hex_unfit_negative : AttrWF exHex2 ∧ Lossless exHex2 ∧ ¬ AllHexFit exHex2 ∧
    importAttrs (exportAttrs exHex2) =
      .ok { bus := [⟨⟨"H", .int (-9) (-10) (-9) false⟩, .int (-10)⟩], ents := [] } := by
  decide

/-- a maximum of 2^32 does not fit, 2^32-1 does -/
def exHex3 : ModelAttrs :=
  { bus := [⟨⟨"G", .int 0 0 4294967296 true⟩, .int 4294967296⟩, ⟨⟨"H", .int 0 0 4294967295 true⟩, .int 4294967295⟩],
    ents := [] }

theorem ex_hex_boundary :
    (exportAttrs exHex3).defs = [⟨.general, "G", .int 0 4294967296⟩, ⟨.general, "H", .hex 0 4294967295⟩] ∧
    (exportAttrs exHex3).values = [⟨"G", .general, .int 4294967296⟩, ⟨"H", .general, .hex 4294967295⟩] ∧
    importAttrs (exportAttrs exHex3) =
      .ok { bus := [⟨⟨"G", .int 0 0 4294967296 false⟩, .int 4294967296⟩,
                    ⟨⟨"H", .int 0 0 4294967295 true⟩, .int 4294967295⟩], ents := [] } := by decide

/-! ### the excluded sub-cases are really lossy (findings of the real code, stream `attr` oracle
`c11-attr:reserved-name` = D83, `c11-attr:same-name` = D84) -/

/-- a string attribute of the user named GenMsgCycleTime, assigned to a message and to a signal -/
def exReserved : ModelAttrs :=
  { bus := [],
    ents := [.msg 7 {} [⟨⟨"GenMsgCycleTime", .str "d"⟩, .str "x"⟩],
             .sig 7 "s0" {} [⟨⟨"GenMsgCycleTime", .str "d"⟩, .str "y"⟩]] }

theorem ex_reserved_lossy : AttrWF exReserved ∧ ¬ Lossless exReserved ∧
    importAttrs (exportAttrs exReserved) = .error .invalidType := by decide

/-- on a signal alone the assignment disappears without a word -/
def exReserved2 : ModelAttrs :=
  { bus := [], ents := [.sig 7 "s0" {} [⟨⟨"GenMsgCycleTime", .str "d"⟩, .str "y"⟩]] }

theorem ex_reserved_lossy_silent : AttrWF exReserved2 ∧ ¬ Lossless exReserved2 ∧
    importAttrs (exportAttrs exReserved2) = .ok { bus := [], ents := [.sig 7 "s0" {} []] } := by decide

/-- two attributes named C (a string on the bus, a float on a node): the importer keeps the last
    definition of the name -/
def exSameName : ModelAttrs :=
  { bus := [⟨⟨"C", .str "x"⟩, .str "v"⟩],
    ents := [.node "n0" [⟨⟨"C", .float (-8) (-8) 1⟩, .float (-8)⟩]] }

theorem ex_same_name_lossy : ¬ AttrWF exSameName ∧ Lossless exSameName ∧
    importAttrs (exportAttrs exSameName) = .error .invalidType := by decide

/-! ## (b) the typing table on import -/

/-- INT attribute: integer, hex and INTEGRAL decimal forms give that integer (inside the bounds);
    a decimal with a fraction or outside the int range, and a string, are refused -/
theorem import_value_forms_int (k : Kind) (n : String) (mn mx d : Int) (hd : mn ≤ d ∧ d ≤ mx) (v : DVal) :
    importAttrs (single ⟨k, n, .int mn mx⟩ (.int d) v) =
      match v with
      | .int i =>
        if mn ≤ i ∧ i ≤ mx then .ok (busOnly ⟨n, .int d mn mx false⟩ (.int i)) else .error .outOfBounds
      | .hex h =>
        if mn ≤ (h : Int) ∧ (h : Int) ≤ mx then .ok (busOnly ⟨n, .int d mn mx false⟩ (.int h))
        else .error .outOfBounds
      | .float q =>
        if q.den = 1 ∧ inInt64 q.num then
          if mn ≤ q.num ∧ q.num ≤ mx then .ok (busOnly ⟨n, .int d mn mx false⟩ (.int q.num))
          else .error .outOfBounds
        else .error .invalidType
      | .str _ => .error .invalidType := by
  have c1 : ¬ mn > mx := by omega
  have c2 : ¬ d > mx := by omega
  have c3 : ¬ d < mn := by omega
  have he : importDef [⟨n, .int d⟩] ⟨k, n, .int mn mx⟩ = .ok ⟨⟨n, .int d mn mx false⟩, []⟩ := by
    simp only [importDef, lookupDefault_single, defaultInt, newInt, c1, c2, c3, if_false, Except.map]
  rw [import_single _ _ _ _ he rfl]
  cases v with
  | int i =>
    simp only [resolveVal, checkAssign]
    by_cases h : mn ≤ i ∧ i ≤ mx
    · have : ¬ (i < mn ∨ i > mx) := by omega
      simp only [h, this, and_self, if_true, if_false]
    · have : i < mn ∨ i > mx := by omega
      simp only [h, this, if_true, if_false]
  | hex h =>
    simp only [resolveVal, checkAssign]
    by_cases hb : mn ≤ (h : Int) ∧ (h : Int) ≤ mx
    · have : ¬ ((h : Int) < mn ∨ (h : Int) > mx) := by omega
      simp only [hb, this, and_self, if_true, if_false]
    · have : (h : Int) < mn ∨ (h : Int) > mx := by omega
      simp only [hb, this, if_true, if_false]
  | float q =>
    simp only [resolveVal, floatToInt_eq]
    by_cases hq : q.den = 1 ∧ inInt64 q.num
    · simp only [hq, and_self, if_true, checkAssign]
      by_cases hb : mn ≤ q.num ∧ q.num ≤ mx
      · have : ¬ (q.num < mn ∨ q.num > mx) := by omega
        simp only [hb, this, and_self, if_true, if_false]
      · have : q.num < mn ∨ q.num > mx := by omega
        simp only [hb, this, if_true, if_false]
    · simp only [hq, if_false]
  | str s => simp only [resolveVal, checkAssign]

/-- HEX attribute: the same table, the attribute carries the hex flag -/
theorem import_value_forms_hex (k : Kind) (n : String) (mn mx d : Nat) (hd : mn ≤ d ∧ d ≤ mx) (v : DVal) :
    importAttrs (single ⟨k, n, .hex mn mx⟩ (.hex d) v) =
      match v with
      | .int i =>
        if (mn : Int) ≤ i ∧ i ≤ mx then .ok (busOnly ⟨n, .int d mn mx true⟩ (.int i)) else .error .outOfBounds
      | .hex h =>
        if mn ≤ h ∧ h ≤ mx then .ok (busOnly ⟨n, .int d mn mx true⟩ (.int h)) else .error .outOfBounds
      | .float q =>
        if q.den = 1 ∧ inInt64 q.num then
          if (mn : Int) ≤ q.num ∧ q.num ≤ mx then .ok (busOnly ⟨n, .int d mn mx true⟩ (.int q.num))
          else .error .outOfBounds
        else .error .invalidType
      | .str _ => .error .invalidType := by
  have c1 : ¬ (mn : Int) > mx := by omega
  have c2 : ¬ (d : Int) > mx := by omega
  have c3 : ¬ (d : Int) < mn := by omega
  have he : importDef [⟨n, .hex d⟩] ⟨k, n, .hex mn mx⟩ = .ok ⟨⟨n, .int d mn mx true⟩, []⟩ := by
    simp only [importDef, lookupDefault_single, defaultInt, newInt, c1, c2, c3, if_false, Except.map]
  rw [import_single _ _ _ _ he rfl]
  cases v with
  | int i =>
    simp only [resolveVal, checkAssign]
    by_cases h : (mn : Int) ≤ i ∧ i ≤ mx
    · have : ¬ (i < mn ∨ i > mx) := by omega
      simp only [h, this, and_self, if_true, if_false]
    · have : i < mn ∨ i > mx := by omega
      simp only [h, this, if_true, if_false]
  | hex h =>
    simp only [resolveVal, checkAssign]
    by_cases hb : mn ≤ h ∧ h ≤ mx
    · have : ¬ ((h : Int) < mn ∨ (h : Int) > mx) := by omega
      simp only [hb, this, and_self, if_true, if_false]
    · have : (h : Int) < mn ∨ (h : Int) > mx := by omega
      simp only [hb, this, if_true, if_false]
  | float q =>
    simp only [resolveVal, floatToInt_eq]
    by_cases hq : q.den = 1 ∧ inInt64 q.num
    · simp only [hq, and_self, if_true, checkAssign]
      by_cases hb : (mn : Int) ≤ q.num ∧ q.num ≤ mx
      · have : ¬ (q.num < mn ∨ q.num > mx) := by omega
        simp only [hb, this, and_self, if_true, if_false]
      · have : q.num < mn ∨ q.num > mx := by omega
        simp only [hb, this, if_true, if_false]
    · simp only [hq, if_false]
  | str s => simp only [resolveVal, checkAssign]

/-- FLOAT attribute: integer (rounded to binary64 as Go's `float64(int)` does), hex and decimal
    forms are accepted inside the bounds, a string is refused -/
theorem import_value_forms_float (k : Kind) (n : String) (mn mx d : Rat) (hd : mn ≤ d ∧ d ≤ mx) (v : DVal) :
    importAttrs (single ⟨k, n, .float mn mx⟩ (.float d) v) =
      match v with
      | .int i =>
        if roundF64 i < mn ∨ roundF64 i > mx then .error .outOfBounds
        else .ok (busOnly ⟨n, .float d mn mx⟩ (.float (roundF64 i)))
      | .hex h =>
        if (h : Rat) < mn ∨ (h : Rat) > mx then .error .outOfBounds
        else .ok (busOnly ⟨n, .float d mn mx⟩ (.float h))
      | .float q =>
        if q < mn ∨ q > mx then .error .outOfBounds else .ok (busOnly ⟨n, .float d mn mx⟩ (.float q))
      | .str _ => .error .invalidType := by
  have c1 : ¬ mn > mx := Rat.not_lt.2 (Rat.le_trans hd.1 hd.2)
  have c2 : ¬ d > mx := Rat.not_lt.2 hd.2
  have c3 : ¬ d < mn := Rat.not_lt.2 hd.1
  have he : importDef [⟨n, .float d⟩] ⟨k, n, .float mn mx⟩ = .ok ⟨⟨n, .float d mn mx⟩, []⟩ := by
    simp only [importDef, lookupDefault_single, defaultFloat, newFloat, c1, c2, c3, if_false, Except.map]
  rw [import_single _ _ _ _ he rfl]
  cases v with
  | int i =>
    simp only [resolveVal, checkAssign]
    by_cases hb : roundF64 i < mn ∨ roundF64 i > mx <;> simp only [hb, if_true, if_false]
  | hex h =>
    simp only [resolveVal, checkAssign]
    by_cases hb : (h : Rat) < mn ∨ (h : Rat) > mx <;> simp only [hb, if_true, if_false]
  | float q =>
    simp only [resolveVal, checkAssign]
    by_cases hb : q < mn ∨ q > mx <;> simp only [hb, if_true, if_false]
  | str s => simp only [resolveVal, checkAssign]

/-- small integers are exact: below 2^53 `float64(i)` is `i` -/
theorem roundF64_exact (i : Int) (h : i.natAbs < 9007199254740992) : roundF64 i = (i : Rat) := by
  have hr : roundNat53 i.natAbs = i.natAbs := by
    unfold roundNat53
    by_cases h0 : i.natAbs = 0
    · simp [h0]
    · have hl : Nat.log2 i.natAbs < 53 := (Nat.log2_lt h0).2 (by simpa using h)
      have : Nat.log2 i.natAbs + 1 ≤ 53 := by omega
      simp [h0, this]
  unfold roundF64
  rw [hr]
  by_cases hn : i < 0
  · simp only [hn, if_true]
    have : (i.natAbs : Int) = -i := by omega
    rw [show ((i.natAbs : Nat) : Rat) = (((i.natAbs : Nat) : Int) : Rat) from rfl, this]
    simp
  · simp only [hn, if_false]
    have : (i.natAbs : Int) = i := by omega
    rw [show ((i.natAbs : Nat) : Rat) = (((i.natAbs : Nat) : Int) : Rat) from rfl, this]

/-- ENUM attribute (values `v0 :: rest` as the FILE lists them, repetitions allowed): an index
    means the entry of the file's list; a string must be one of the values; hex and decimal forms
    are refused.  The default written in the file plays no part (the first value is the default). -/
theorem import_value_forms_enum (k : Kind) (n : String) (v0 : String) (rest : List String)
    (dflt : DVal) (v : DVal) :
    importAttrs (single ⟨k, n, .enum (v0 :: rest)⟩ dflt v) =
      match v with
      | .int i =>
        match enumValueAt (v0 :: rest) i with
        | some s => .ok (busOnly ⟨n, .enum (dedup (v0 :: rest)) v0⟩ (.str s))
        | none => if i < 0 then .error .indexNegative else .error .indexOutOfBounds
      | .str s =>
        if s ∈ v0 :: rest then .ok (busOnly ⟨n, .enum (dedup (v0 :: rest)) v0⟩ (.str s))
        else .error .notFound
      | .hex _ => .error .invalidType
      | .float _ => .error .invalidType := by
  have he : importDef [⟨n, dflt⟩] ⟨k, n, .enum (v0 :: rest)⟩ =
      .ok ⟨⟨n, .enum (dedup (v0 :: rest)) v0⟩, v0 :: rest⟩ := by
    simp only [importDef, lookupDefault_single, newEnum, Except.map]
  rw [import_single _ _ _ _ he rfl]
  cases v with
  | int i =>
    simp only [resolveVal]
    cases hv : enumValueAt (v0 :: rest) i with
    | none => by_cases hi : i < 0 <;> simp only [hi, if_true, if_false]
    | some s =>
      have hm : s ∈ v0 :: rest := by
        unfold enumValueAt at hv
        split at hv
        · cases hv
        · exact List.mem_of_getElem? hv
      have hc : (dedup (v0 :: rest)).contains s = true := List.contains_iff_mem.2 (mem_dedup.2 hm)
      simp only [checkAssign, hc, if_true]
  | str s =>
    simp only [resolveVal, checkAssign]
    by_cases hm : s ∈ v0 :: rest
    · have hc : (dedup (v0 :: rest)).contains s = true := List.contains_iff_mem.2 (mem_dedup.2 hm)
      simp only [hc, hm, if_true]
    · have hc : (dedup (v0 :: rest)).contains s = false := by
        cases h : (dedup (v0 :: rest)).contains s with
        | false => rfl
        | true => exact absurd (mem_dedup.1 (List.contains_iff_mem.1 h)) hm
      simp only [hc, hm, if_false, Bool.false_eq_true]
  | hex h => simp only [resolveVal, checkAssign]
  | float q => simp only [resolveVal, checkAssign]

/-- STRING attribute: only a string -/
theorem import_value_forms_string (k : Kind) (n d : String) (v : DVal) :
    importAttrs (single ⟨k, n, .string⟩ (.str d) v) =
      match v with
      | .str s => .ok (busOnly ⟨n, .str d⟩ (.str s))
      | _ => .error .invalidType := by
  have he : importDef [⟨n, .str d⟩] ⟨k, n, .string⟩ = .ok ⟨⟨n, .str d⟩, []⟩ := by
    simp only [importDef, lookupDefault_single, defaultString]
  rw [import_single _ _ _ _ he rfl]
  cases v <;> simp only [resolveVal, checkAssign]

/-- numeric defaults are accepted whether written as integer, hex or integral decimal (the three
    files import alike: `floatToInt q = some d` holds exactly for `q = d` integral and inside the
    int range, `floatToInt_int`); a default with a fraction or outside the int range is refused -/
theorem import_default_forms_int (k : Kind) (n : String) (mn mx d : Int) (q : Rat)
    (hq : floatToInt q = some d) (v : DVal) :
    importAttrs (single ⟨k, n, .int mn mx⟩ (.float q) v) =
      importAttrs (single ⟨k, n, .int mn mx⟩ (.int d) v) := by
  have e1 : importDef [⟨n, .float q⟩] ⟨k, n, .int mn mx⟩ = importDef [⟨n, .int d⟩] ⟨k, n, .int mn mx⟩ := by
    simp only [importDef, lookupDefault_single, defaultInt, hq]
  unfold importAttrs
  simp only [single, mapE, e1]

theorem import_default_forms_hex (k : Kind) (n : String) (mn mx : Int) (h : Nat) (v : DVal) :
    importAttrs (single ⟨k, n, .int mn mx⟩ (.hex h) v) =
      importAttrs (single ⟨k, n, .int mn mx⟩ (.int h) v) := by
  have e2 : importDef [⟨n, .hex h⟩] ⟨k, n, .int mn mx⟩ = importDef [⟨n, .int h⟩] ⟨k, n, .int mn mx⟩ := by
    simp only [importDef, lookupDefault_single, defaultInt]
  unfold importAttrs
  simp only [single, mapE, e2]

theorem floatToInt_int (i : Int) (h : inInt64 i) : floatToInt (i : Rat) = some i :=
  floatToInt_intCast i h

theorem import_default_fraction_refused (k : Kind) (n : String) (mn mx : Int) (q : Rat)
    (hq : ¬ (q.den = 1 ∧ inInt64 q.num)) (v : DVal) :
    importAttrs (single ⟨k, n, .int mn mx⟩ (.float q) v) = .error .invalidType := by
  apply import_single_refused
  simp only [importDef, lookupDefault_single, defaultInt, floatToInt_eq, hq, if_false]

/-- a definition without default is refused -/
theorem import_missing_default (D : DbcAttrs) (a : DAttr) (rest : List DAttr)
    (hd : D.defs = a :: rest) (hm : ∀ dd ∈ D.defaults, dd.name ≠ a.name) :
    importAttrs D = .error .defaultRequired := by
  have hl : lookupDefault D.defaults a.name = none := by
    unfold lookupDefault
    apply List.find?_eq_none.2
    intro x hx
    simpa using hm x (List.mem_reverse.1 hx)
  unfold importAttrs
  simp only [hd, mapE, importDef, hl]

/-- (b) in one statement -/
theorem import_value_forms :
    (∀ k n mn mx d, mn ≤ d ∧ d ≤ mx → ∀ i : Int, mn ≤ i ∧ i ≤ mx →
      importAttrs (single ⟨k, n, .int mn mx⟩ (.int d) (.int i)) = .ok (busOnly ⟨n, .int d mn mx false⟩ (.int i)) ∧
      (0 ≤ i → importAttrs (single ⟨k, n, .int mn mx⟩ (.int d) (.hex i.toNat)) =
        .ok (busOnly ⟨n, .int d mn mx false⟩ (.int i))) ∧
      (inInt64 i → importAttrs (single ⟨k, n, .int mn mx⟩ (.int d) (.float (i : Rat))) =
        .ok (busOnly ⟨n, .int d mn mx false⟩ (.int i)))) ∧
    (∀ k n mn mx d, mn ≤ d ∧ d ≤ mx → ∀ q : Rat,
      (∃ M, importAttrs (single ⟨k, n, .int mn mx⟩ (.int d) (.float q)) = .ok M) ↔
        q.den = 1 ∧ inInt64 q.num ∧ mn ≤ q.num ∧ q.num ≤ mx) ∧
    (∀ k n (mn mx d : Rat), mn ≤ d ∧ d ≤ mx → ∀ i : Int, i.natAbs < 9007199254740992 →
      ¬ ((i : Rat) < mn ∨ (i : Rat) > mx) →
      importAttrs (single ⟨k, n, .float mn mx⟩ (.float d) (.int i)) =
        .ok (busOnly ⟨n, .float d mn mx⟩ (.float (i : Rat))) ∧
      importAttrs (single ⟨k, n, .float mn mx⟩ (.float d) (.float (i : Rat))) =
        .ok (busOnly ⟨n, .float d mn mx⟩ (.float (i : Rat)))) ∧
    (∀ k n v0 rest dflt (i : Nat) s, (v0 :: rest)[i]? = some s →
      importAttrs (single ⟨k, n, .enum (v0 :: rest)⟩ dflt (.int i)) =
        .ok (busOnly ⟨n, .enum (dedup (v0 :: rest)) v0⟩ (.str s)) ∧
      importAttrs (single ⟨k, n, .enum (v0 :: rest)⟩ dflt (.str s)) =
        .ok (busOnly ⟨n, .enum (dedup (v0 :: rest)) v0⟩ (.str s))) ∧
    (∀ k n v0 rest dflt (i : Int), (i < 0 ∨ (v0 :: rest).length ≤ i) →
      ∃ e, importAttrs (single ⟨k, n, .enum (v0 :: rest)⟩ dflt (.int i)) = .error e) := by
  refine ⟨?_, ?_, ?_, ?_, ?_⟩
  · intro k n mn mx d hd i hi
    refine ⟨?_, ?_, ?_⟩
    · rw [import_value_forms_int k n mn mx d hd]; simp only [hi, and_self, if_true]
    · intro h0
      have e : ((i.toNat : Nat) : Int) = i := by omega
      rw [import_value_forms_int k n mn mx d hd]; simp only [e, hi, and_self, if_true]
    · intro h64
      rw [import_value_forms_int k n mn mx d hd]
      simp [h64, hi]
  · intro k n mn mx d hd q
    rw [import_value_forms_int k n mn mx d hd]
    simp only []
    constructor
    · rintro ⟨M, hM⟩
      split at hM
      · rename_i h1
        split at hM
        · rename_i h2; exact ⟨h1.1, h1.2, h2.1, h2.2⟩
        · cases hM
      · cases hM
    · rintro ⟨h1, h2, h3, h4⟩
      refine ⟨busOnly ⟨n, .int d mn mx false⟩ (.int q.num), ?_⟩
      simp only [h1, h2, h3, h4, and_self, if_true]
  · intro k n mn mx d hd i hsmall hin
    constructor
    · rw [import_value_forms_float k n mn mx d hd]
      simp only [roundF64_exact i hsmall, hin, if_false]
    · rw [import_value_forms_float k n mn mx d hd]
      simp only [hin, if_false]
  · intro k n v0 rest dflt i s hs
    have hm : s ∈ v0 :: rest := List.mem_of_getElem? hs
    constructor
    · rw [import_value_forms_enum]
      have : enumValueAt (v0 :: rest) (i : Int) = some s := by
        unfold enumValueAt
        have : ¬ ((i : Int) < 0) := by omega
        simp only [this, if_false, Int.toNat_natCast, hs]
      simp only [this]
    · rw [import_value_forms_enum]
      simp only [hm, if_true]
  · intro k n v0 rest dflt i hi
    rw [import_value_forms_enum]
    have : enumValueAt (v0 :: rest) i = none := by
      unfold enumValueAt
      rcases hi with h | h
      · simp only [h, if_true]
      · have hn : ¬ (i < 0) := by omega
        simp only [hn, if_false]
        apply List.getElem?_eq_none
        omega
    simp only [this]
    split
    · exact ⟨_, rfl⟩
    · exact ⟨_, rfl⟩

/-! ## (c) every row of the typing table, by `decide` -/

namespace Ex

def intA : DAttr := ⟨.message, "A", .int 0 10⟩
def hexA : DAttr := ⟨.general, "H", .hex 0 255⟩
def floatA : DAttr := ⟨.signal, "F", .float (mkRat (-5) 2) (10 ^ 19)⟩
def strA : DAttr := ⟨.node, "S", .string⟩
/-- the file repeats a value: index 2 is "a" again, index 3 is "c" -/
def enumA : DAttr := ⟨.envVar, "E", .enum ["a", "b", "a", "c"]⟩

def intAtt : AttrDef := ⟨"A", .int 5 0 10 false⟩
def hexAtt : AttrDef := ⟨"H", .int 5 0 255 true⟩
def floatAtt : AttrDef := ⟨"F", .float 1 (mkRat (-5) 2) (10 ^ 19)⟩
def strAtt : AttrDef := ⟨"S", .str "d"⟩
def enumAtt : AttrDef := ⟨"E", .enum ["a", "b", "c"] "a"⟩

/-! ### INT attribute × value form -/
theorem int_int : importAttrs (single intA (.int 5) (.int 7)) = .ok (busOnly intAtt (.int 7)) := by decide
theorem int_hex : importAttrs (single intA (.int 5) (.hex 7)) = .ok (busOnly intAtt (.int 7)) := by decide
theorem int_float_integral : importAttrs (single intA (.int 5) (.float 7)) = .ok (busOnly intAtt (.int 7)) := by
  decide
theorem int_float_fraction : importAttrs (single intA (.int 5) (.float (mkRat 11 2))) = .error .invalidType := by
  decide
theorem int_float_1e3 : importAttrs (single intA (.int 5) (.float 1000)) = .error .outOfBounds := by decide
theorem int_float_2p63 :
    importAttrs (single ⟨.message, "A", .int 0 9223372036854775807⟩ (.int 5) (.float 9223372036854775808)) =
      .error .invalidType := by decide
theorem int_float_neg : importAttrs (single ⟨.message, "A", .int (-10) 10⟩ (.int 5) (.float (-3))) =
    .ok (busOnly ⟨"A", .int 5 (-10) 10 false⟩ (.int (-3))) := by decide
theorem int_int_out : importAttrs (single intA (.int 5) (.int 11)) = .error .outOfBounds := by decide
theorem int_str : importAttrs (single intA (.int 5) (.str "7")) = .error .invalidType := by decide

/-! ### HEX attribute × value form -/
theorem hex_int : importAttrs (single hexA (.hex 5) (.int 31)) = .ok (busOnly hexAtt (.int 31)) := by decide
theorem hex_hex : importAttrs (single hexA (.hex 5) (.hex 31)) = .ok (busOnly hexAtt (.int 31)) := by decide
theorem hex_float_integral : importAttrs (single hexA (.hex 5) (.float 31)) = .ok (busOnly hexAtt (.int 31)) := by
  decide
theorem hex_float_fraction : importAttrs (single hexA (.hex 5) (.float (mkRat 1 2))) = .error .invalidType := by
  decide
theorem hex_hex_out : importAttrs (single hexA (.hex 5) (.hex 256)) = .error .outOfBounds := by decide
theorem hex_str : importAttrs (single hexA (.hex 5) (.str "x")) = .error .invalidType := by decide

/-! ### FLOAT attribute × value form -/
theorem float_int : importAttrs (single floatA (.float 1) (.int 7)) = .ok (busOnly floatAtt (.float 7)) := by decide
theorem float_int_rounded : importAttrs (single floatA (.float 1) (.int 9007199254740993)) =
    .ok (busOnly floatAtt (.float 9007199254740992)) := by decide
theorem float_hex : importAttrs (single floatA (.float 1) (.hex 31)) = .ok (busOnly floatAtt (.float 31)) := by decide
theorem float_float : importAttrs (single floatA (.float 1) (.float (mkRat 11 2))) =
    .ok (busOnly floatAtt (.float (mkRat 11 2))) := by decide
theorem float_float_out : importAttrs (single floatA (.float 1) (.float (-3))) = .error .outOfBounds := by decide
theorem float_str : importAttrs (single floatA (.float 1) (.str "1.5")) = .error .invalidType := by decide

/-! ### STRING attribute × value form -/
theorem str_str : importAttrs (single strA (.str "d") (.str "x")) = .ok (busOnly strAtt (.str "x")) := by decide
theorem str_int : importAttrs (single strA (.str "d") (.int 1)) = .error .invalidType := by decide
theorem str_hex : importAttrs (single strA (.str "d") (.hex 1)) = .error .invalidType := by decide
theorem str_float : importAttrs (single strA (.str "d") (.float 1)) = .error .invalidType := by decide

/-! ### ENUM attribute × value form (the default written in the file is not read) -/
theorem enum_index : importAttrs (single enumA (.str "c") (.int 1)) = .ok (busOnly enumAtt (.str "b")) := by decide
theorem enum_index_repeated : importAttrs (single enumA (.str "c") (.int 2)) = .ok (busOnly enumAtt (.str "a")) := by
  decide
theorem enum_index_after_repeated : importAttrs (single enumA (.str "c") (.int 3)) =
    .ok (busOnly enumAtt (.str "c")) := by decide
theorem enum_index_out : importAttrs (single enumA (.str "c") (.int 4)) = .error .indexOutOfBounds := by decide
theorem enum_index_negative : importAttrs (single enumA (.str "c") (.int (-1))) = .error .indexNegative := by decide
theorem enum_str : importAttrs (single enumA (.str "c") (.str "c")) = .ok (busOnly enumAtt (.str "c")) := by decide
theorem enum_str_unlisted : importAttrs (single enumA (.str "c") (.str "z")) = .error .notFound := by decide
theorem enum_hex : importAttrs (single enumA (.str "c") (.hex 1)) = .error .invalidType := by decide
theorem enum_float : importAttrs (single enumA (.str "c") (.float 1)) = .error .invalidType := by decide
theorem enum_no_values : importAttrs (single ⟨.general, "E", .enum []⟩ (.str "c") (.int 0)) = .error .valuesNil := by
  decide

/-! ### defaults -/
theorem default_missing :
    importAttrs { keys := [], defs := [intA], defaults := [], values := [] } = .error .defaultRequired := by decide
theorem default_decimal : importAttrs (single intA (.float 5) (.int 7)) = .ok (busOnly intAtt (.int 7)) := by decide
theorem default_hex : importAttrs (single intA (.hex 5) (.int 7)) = .ok (busOnly intAtt (.int 7)) := by decide
theorem default_fraction : importAttrs (single intA (.float (mkRat 11 2)) (.int 7)) = .error .invalidType := by
  decide
theorem default_above : importAttrs (single intA (.int 11) (.int 7)) = .error .defGreaterThanMax := by decide
theorem default_below : importAttrs (single intA (.int (-1)) (.int 7)) = .error .defLowerThanMin := by decide
theorem bounds_crossed : importAttrs (single ⟨.general, "A", .int 10 0⟩ (.int 5) (.int 7)) =
    .error .minGreaterThanMax := by decide
theorem float_default_int : importAttrs (single floatA (.int 1) (.float 2)) = .ok (busOnly floatAtt (.float 2)) := by
  decide
/-- the last default and the last definition of a name count -/
theorem duplicates_last_wins :
    importAttrs { keys := [], defs := [⟨.general, "A", .string⟩, intA], defaults := [⟨"A", .int 1⟩, ⟨"A", .int 5⟩],
                  values := [⟨"A", .general, .int 7⟩] } = .ok (busOnly intAtt (.int 7)) := by decide
/-- a second value for the same attribute replaces the first -/
theorem second_value_replaces :
    importAttrs { keys := [], defs := [intA], defaults := [⟨"A", .int 5⟩],
                  values := [⟨"A", .general, .int 7⟩, ⟨"A", .general, .int 8⟩] } =
      .ok (busOnly intAtt (.int 8)) := by decide

/-! ### what is skipped -/
def keys1 : List Key := [.node "n0", .msg 7, .sig 7 "s0"]
def empty1 : ModelAttrs := { bus := [], ents := [.node "n0" [], .msg 7 {} [], .sig 7 "s0" {} []] }

theorem unknown_attribute_skipped :
    importAttrs { keys := keys1, defs := [intA], defaults := [⟨"A", .int 5⟩],
                  values := [⟨"B", .general, .str "x"⟩] } = .ok empty1 := by decide
theorem missing_entities_skipped :
    importAttrs { keys := keys1, defs := [intA], defaults := [⟨"A", .int 5⟩],
                  values := [⟨"A", .node "nx", .int 7⟩, ⟨"A", .msg 8, .int 7⟩, ⟨"A", .sig 7 "sx", .int 7⟩,
                             ⟨"A", .envVar "ev", .int 7⟩] } = .ok empty1 := by decide
/-- … but the value is typed before the entity is looked up -/
theorem missing_entity_value_still_typed :
    importAttrs { keys := keys1, defs := [intA], defaults := [⟨"A", .int 5⟩],
                  values := [⟨"A", .node "nx", .float (mkRat 1 2)⟩] } = .error .invalidType := by decide
/-- the object kind of a `BA_DEF_` is never read: a message-kind attribute lands on a node -/
theorem definition_kind_ignored :
    importAttrs { keys := keys1, defs := [intA], defaults := [⟨"A", .int 5⟩],
                  values := [⟨"A", .node "n0", .int 7⟩] } =
      .ok { bus := [], ents := [.node "n0" [⟨intAtt, .int 7⟩], .msg 7 {} [], .sig 7 "s0" {} []] } := by decide

/-! ### the well-known attributes -/
def cycleD : DAttr := ⟨.message, "GenMsgCycleTime", .int 0 3600000⟩
def sendD : DAttr := ⟨.message, "GenMsgSendType", .enum msgSendValues⟩
def startD : DAttr := ⟨.signal, "GenSigStartValue", .float 0 10000⟩
def sigSendD : DAttr := ⟨.signal, "GenSigSendType", .enum sigSendValues⟩

def wk (d : DAttr) (dflt : DVal) (t : Target) (v : DVal) : DbcAttrs :=
  { keys := keys1, defs := [d], defaults := [⟨d.name, dflt⟩], values := [⟨d.name, t, v⟩] }

theorem cycle_int : importAttrs (wk cycleD (.int 0) (.msg 7) (.int 100)) =
    .ok { bus := [], ents := [.node "n0" [], .msg 7 { cycle := 100 } [], .sig 7 "s0" {} []] } := by decide
theorem cycle_hex : importAttrs (wk cycleD (.int 0) (.msg 7) (.hex 100)) =
    .ok { bus := [], ents := [.node "n0" [], .msg 7 { cycle := 100 } [], .sig 7 "s0" {} []] } := by decide
theorem cycle_decimal_integral : importAttrs (wk cycleD (.int 0) (.msg 7) (.float 100)) =
    .ok { bus := [], ents := [.node "n0" [], .msg 7 { cycle := 100 } [], .sig 7 "s0" {} []] } := by decide
theorem cycle_decimal_fraction : importAttrs (wk cycleD (.int 0) (.msg 7) (.float (mkRat 201 2))) =
    .error .invalidType := by decide
theorem cycle_string : importAttrs (wk cycleD (.int 0) (.msg 7) (.str "100")) = .error .invalidType := by decide
/-- the bounds of the definition are not applied to the dedicated field -/
theorem cycle_out_of_bounds_accepted : importAttrs (wk cycleD (.int 0) (.msg 7) (.int 4000000)) =
    .ok { bus := [], ents := [.node "n0" [], .msg 7 { cycle := 4000000 } [], .sig 7 "s0" {} []] } := by decide
theorem cycle_defined_float : importAttrs (wk ⟨.message, "GenMsgCycleTime", .float 0 10⟩ (.int 0) (.msg 7) (.int 5)) =
    .error .invalidType := by decide
theorem delay_int : importAttrs (wk ⟨.message, "GenMsgDelayTime", .int 0 1000⟩ (.int 0) (.msg 7) (.int 3)) =
    .ok { bus := [], ents := [.node "n0" [], .msg 7 { delay := 3 } [], .sig 7 "s0" {} []] } := by decide
theorem start_delay_int :
    importAttrs (wk ⟨.message, "GenMsgStartDelayTime", .int 0 100000⟩ (.int 0) (.msg 7) (.int 4)) =
      .ok { bus := [], ents := [.node "n0" [], .msg 7 { startDelay := 4 } [], .sig 7 "s0" {} []] } := by decide
theorem send_index : importAttrs (wk sendD (.str "NoMsgSendType") (.msg 7) (.int 2)) =
    .ok { bus := [], ents := [.node "n0" [], .msg 7 { send := .cyclicIfActive } [], .sig 7 "s0" {} []] } := by decide
theorem send_string : importAttrs (wk sendD (.str "NoMsgSendType") (.msg 7) (.str "Cyclic")) =
    .ok { bus := [], ents := [.node "n0" [], .msg 7 { send := .cyclic } [], .sig 7 "s0" {} []] } := by decide
theorem send_unknown_string_is_unset : importAttrs (wk sendD (.str "NoMsgSendType") (.msg 7) (.str "spontaneous")) =
    .ok empty1 := by decide
theorem send_index_out : importAttrs (wk sendD (.str "NoMsgSendType") (.msg 7) (.int 5)) =
    .error .indexOutOfBounds := by decide
theorem send_hex : importAttrs (wk sendD (.str "NoMsgSendType") (.msg 7) (.hex 1)) = .error .invalidType := by decide
theorem start_float : importAttrs (wk startD (.float 0) (.sig 7 "s0") (.float (mkRat 11 2))) =
    .ok { bus := [], ents := [.node "n0" [], .msg 7 {} [], .sig 7 "s0" { start := mkRat 11 2 } []] } := by decide
theorem start_int : importAttrs (wk startD (.float 0) (.sig 7 "s0") (.int 3)) =
    .ok { bus := [], ents := [.node "n0" [], .msg 7 {} [], .sig 7 "s0" { start := 3 } []] } := by decide
theorem start_defined_int : importAttrs (wk ⟨.signal, "GenSigStartValue", .int 0 10⟩ (.int 0) (.sig 7 "s0") (.int 3)) =
    .ok { bus := [], ents := [.node "n0" [], .msg 7 {} [], .sig 7 "s0" { start := 3 } []] } := by decide
theorem start_string : importAttrs (wk startD (.float 0) (.sig 7 "s0") (.str "3")) = .error .invalidType := by
  decide
theorem sig_send_index : importAttrs (wk sigSendD (.str "NoSigSendType") (.sig 7 "s0") (.int 4)) =
    .ok { bus := [], ents := [.node "n0" [], .msg 7 {} [], .sig 7 "s0" { send := .onChange } []] } := by decide
theorem sig_send_float : importAttrs (wk sigSendD (.str "NoSigSendType") (.sig 7 "s0") (.float 4)) =
    .error .invalidType := by decide
/-- a message-level name on a signal (and the reverse) is dropped without a word; on the bus or a
    node it is an ordinary attribute -/
theorem cycle_on_signal_dropped : importAttrs (wk cycleD (.int 0) (.sig 7 "s0") (.int 100)) = .ok empty1 := by decide
theorem start_on_message_dropped : importAttrs (wk startD (.float 0) (.msg 7) (.float 1)) = .ok empty1 := by decide
theorem cycle_on_node_ordinary : importAttrs (wk cycleD (.int 0) (.node "n0") (.int 100)) =
    .ok { bus := [], ents := [.node "n0" [⟨⟨"GenMsgCycleTime", .int 0 0 3600000 false⟩, .int 100⟩], .msg 7 {} [],
                              .sig 7 "s0" {} []] } := by decide

/-! ### export, and the round trip on a model with all four types, hex, and the six fields -/
def full : ModelAttrs :=
  { bus := [⟨⟨"S", .str "d"⟩, .str "y"⟩, ⟨⟨"H", .int 1 0 255 true⟩, .int 31⟩],
    ents := [.node "n0" [⟨⟨"E", .enum ["a", "b"] "a"⟩, .str "b"⟩, ⟨⟨"A", .int 5 (-10) 10 false⟩, .int (-3)⟩],
             .msg 7 { cycle := 100, delay := 2, startDelay := 3, send := .cyclicAndTriggered }
               [⟨⟨"F", .float (mkRat 1 2) 0 1⟩, .float (mkRat 3 4)⟩, ⟨⟨"E", .enum ["a", "b"] "a"⟩, .str "a"⟩],
             .sig 7 "s0" { start := mkRat 11 2, send := .onWrite } [⟨⟨"S", .str "d"⟩, .str ""⟩],
             .msg 9 {} [], .sig 9 "s0" {} [⟨⟨"H", .int 1 0 255 true⟩, .int 0⟩]] }

theorem full_wf : AttrWF full ∧ Lossless full ∧ AllHexFit full := by decide

/-- definitions are emitted per object kind at the first use of the name, in walking order -/
theorem full_export_defs : (exportAttrs full).defs =
    [⟨.general, "H", .hex 0 255⟩, ⟨.general, "S", .string⟩, ⟨.node, "A", .int (-10) 10⟩,
     ⟨.node, "E", .enum ["a", "b"]⟩, ⟨.message, "E", .enum ["a", "b"]⟩, ⟨.message, "F", .float 0 1⟩,
     ⟨.message, "GenMsgCycleTime", .int 0 3600000⟩, ⟨.message, "GenMsgDelayTime", .int 0 1000⟩,
     ⟨.message, "GenMsgStartDelayTime", .int 0 100000⟩, ⟨.message, "GenMsgSendType", .enum msgSendValues⟩,
     ⟨.signal, "S", .string⟩, ⟨.signal, "GenSigStartValue", .float 0 10000⟩,
     ⟨.signal, "GenSigSendType", .enum sigSendValues⟩, ⟨.signal, "H", .hex 0 255⟩] := by decide

theorem full_export_values : (exportAttrs full).values =
    [⟨"H", .general, .hex 31⟩, ⟨"S", .general, .str "y"⟩, ⟨"A", .node "n0", .int (-3)⟩, ⟨"E", .node "n0", .int 1⟩,
     ⟨"E", .msg 7, .int 0⟩, ⟨"F", .msg 7, .float (mkRat 3 4)⟩, ⟨"GenMsgCycleTime", .msg 7, .int 100⟩,
     ⟨"GenMsgDelayTime", .msg 7, .int 2⟩, ⟨"GenMsgStartDelayTime", .msg 7, .int 3⟩,
     ⟨"GenMsgSendType", .msg 7, .int 3⟩, ⟨"S", .sig 7 "s0", .str ""⟩,
     ⟨"GenSigStartValue", .sig 7 "s0", .float (mkRat 11 2)⟩, ⟨"GenSigSendType", .sig 7 "s0", .int 2⟩,
     ⟨"H", .sig 9 "s0", .hex 0⟩] := by decide

theorem full_roundtrip : importAttrs (exportAttrs full) = .ok (normA full) ∧ normA full = sortA full := by decide

/-- zero times, zero start value and unset send types write nothing and come back as they are -/
theorem zero_fields_write_nothing :
    exportAttrs { bus := [], ents := [.msg 9 {} [], .sig 9 "s0" {} []] } =
      { keys := [.msg 9, .sig 9 "s0"], defs := [], defaults := [], values := [] } := by decide

end Ex

end Acme.Props.C11Attr
