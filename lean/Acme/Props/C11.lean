/-
C11 — Export then import reproduces the DBC-expressible model  (kernel level: PARTIAL).

The exporter and importer as wholes are not modelled; what is proved here are the kernels
whose composition decides what survives the round trip — each tied to the real exporter /
importer by the `conv` stream, which drives them through `ExportBus` / `ImportDBCFile` on
one-signal buses — and the text level (the exported document re-parses to itself) is C08.
The composed statement is explored by the Go-side oracle of stream `expimp`.
-/
import Acme.Core.Conv
import Acme.Proofs.Conv
import Acme.Gen.DbcFields

namespace Acme.Props.C11
open Acme.Conv

/-- The big-endian start-bit conversion used by the exporter is undone by the one used by
    the importer (they are the same involution), so absolute start bits survive. -/
theorem C11_start_roundtrip (s : Int) (h : 0 ≤ s) : convStart (convStart s) = s ∧ 0 ≤ convStart s :=
  Acme.Conv.convStart_invol s h

/-- Group membership survives: expanding the compressed ranges of a non-empty, strictly
    ascending list of group ids below the group count gives the list back. -/
theorem C11_ranges_roundtrip (gc : Int) (gs : List Int) (hne : gs ≠ [])
    (hs : gs.Pairwise (· < ·)) (hb : ∀ g ∈ gs, 0 ≤ g ∧ g < gc) :
    ∃ rs, compress gs = some rs ∧ expand gc rs = some gs :=
  Acme.Conv.ranges_roundtrip gc gs hne hs hb

/-- every compressed range is well-formed (from ≤ to) and the ranges are ascending and
    non-adjacent — what the DBC SG_MUL_VAL_ section expects -/
theorem C11_ranges_wellformed (gs : List Int) (hs : gs.Pairwise (· < ·)) (rs : List (Int × Int))
    (h : compress gs = some rs) :
    (∀ r ∈ rs, r.1 ≤ r.2) ∧ rs.Pairwise (fun a b => a.2 + 1 < b.1) :=
  Acme.Conv.ranges_wellformed gs hs rs h

/-- send types survive (both tables, every constructor) -/
theorem C11_msg_sendtype (k : MsgSend) : msgSendFromDBC (msgSendToDBC k) = k := by
  cases k <;> decide
theorem C11_sig_sendtype (k : SigSend) : sigSendFromDBC (sigSendToDBC k) = k := by
  cases k <;> decide

/-- enum attribute values survive: index written by the exporter, value read by the importer -/
theorem C11_enum_attr_value (values : List String) (hn : values.Nodup) (v : String) (hv : v ∈ values) :
    enumValueAt values (enumIndex values v) = some v :=
  Acme.Conv.enum_attr_roundtrip values hn v hv

/-- the selector width survives: exporting a multiplexer whose group count the importer
    derived from a w-bit selector writes w bits again (1 ≤ w ≤ 62) -/
theorem C11_selector_width (w : Int) (h1 : 1 ≤ w) (h2 : w ≤ 62) :
    exportSelWidth (importGroupCount w) = w :=
  Acme.Conv.selector_roundtrip w h1 h2

/-! Non-vacuity -/
example : compress [0, 1, 2, 5, 7, 8] = some [(0, 2), (5, 5), (7, 8)] := by decide
example : expand 9 [(0, 2), (5, 5), (7, 8)] = some [0, 1, 2, 5, 7, 8] := by decide
example : convStart 28 = 27 ∧ convStart 27 = 28 := by decide

/-! ### the exporter and the importer speak about the same part of the DBC document

`Acme.Gen.exportedFields / importedFields` are REGENERATED from exporter.go and importer.go on
every run: the (AST type, field) pairs the exporter writes and the importer reads.  Whatever
the exporter puts into the document and the importer does not look at cannot come back. -/

/-- written by the exporter, deliberately not read by the importer -/
def exportedNotImported : List ((String × String) × String) := [
  (("Attribute", "Kind"), "object kind of an attribute definition: the importer assigns an attribute to whatever object a BA_ line names; the kind of the definition does not restrict it")
]

/-- read by the importer only -/
def importedNotExported : List ((String × String) × String) := [
  (("Location", "Filename"), "source position of a parsed node, used in import errors; the exporter builds the document, it has no positions")
]

theorem C11_fields :
    Acme.Gen.exportedFields.filter (fun p => !(exportedNotImported.map (·.1)).contains p) =
    Acme.Gen.importedFields.filter (fun p => !(importedNotExported.map (·.1)).contains p) := by
  decide

example : ("Signal", "StartBit") ∈ Acme.Gen.exportedFields ∧ ("ExtendedMux", "Ranges") ∈ Acme.Gen.importedFields := by
  decide

end Acme.Props.C11
