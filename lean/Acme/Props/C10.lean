/-
C10 — what an import MEANS, at kernel level (the translation of a whole file is observed by
stream `expimp`, oracle `c10`; see DESIGN.md for what is modelled and what is sampled).

  * the importer places a signal of the file (start bit b, byte order) at
        b                 (Intel)            importer.getSignalStartBit
        convStart b       (Motorola)
    and inserts it through Message.InsertSignal, which accepts exactly the well-formed
    layouts (C01);
  * decoding an imported message therefore yields, for every signal, the raw value the DBC
    bit-numbering rules prescribe for the FILE's start bit, size and byte order:
    Intel: raw bit i = payload bit b+i; Motorola: b is the most significant bit, the
    following bits are reached along the saw-tooth (b-1 … inside a byte, then bit 7 of the
    next byte);
  * groups of an extended-multiplexing entry, group count of a selector, well-known
    send-type strings, enum-attribute indexes: the importer kernels of Acme.Core.Conv.

The Motorola statement carries `BeOK` (known finding D08, see C02).
-/
import Acme.Core.Conv
import Acme.Props.C02
import Acme.Proofs.Conv

namespace Acme.Props.C10
open Acme.Layout Acme.Bits Acme.Conv

/-- the two start-bit conversions are one function: `Bits.conv` on naturals is `convStart` -/
theorem conv_eq_convStart (p : Nat) : ((conv p : Nat) : Int) = convStart (p : Int) := by
  unfold conv convStart
  rw [Int.tmod_eq_emod_of_nonneg (by omega)]
  omega

theorem wffrom_start_le (lo cap : Int) (l : List Slot) (h : WFfrom lo cap l) (s : Slot) (hs : s ∈ l) :
    lo ≤ s.start := by
  induction l generalizing lo with
  | nil => cases hs
  | cons a rest ih =>
    obtain ⟨h1, h2, h3⟩ := h
    rcases List.mem_cons.1 hs with rfl | hs
    · exact h1
    · have := ih _ h3 hs
      omega

theorem hwf_start_nonneg {cap : Int} {l : List Slot} (hwf : WF cap l) (s : Slot) (hs : s ∈ l) :
    0 ≤ s.start := wffrom_start_le 0 cap l hwf s hs

/-- the raw value the DBC rules prescribe for a signal of the file -/
def dbcRaw (data : List Nat) (be : Bool) (fileStart size : Nat) : Nat :=
  if be then motorola data fileStart size else rawLE data fileStart size

/-- where the importer puts a signal of the file -/
def importPos (be : Bool) (fileStart : Int) : Int := if be then convStart fileStart else fileStart

/-- the file's start bit of a signal the importer placed at `pos` (the conversion is an involution) -/
theorem C10_filestart (be : Bool) (b : Int) (h : 0 ≤ b) :
    importPos be (importPos be b) = b ∧ 0 ≤ importPos be b := by
  cases be
  · exact ⟨rfl, h⟩
  · exact Acme.Conv.convStart_invol b h

/-- Intel: decoding an imported message yields, per signal and in layout order, the DBC raw
    value for the file's start bit (= the position) -/
theorem C10_decode_intel (n : Nat) (l : List Slot) (hwf : WF (8 * n) l) (hn : IdsNodup l)
    (h64 : ∀ s ∈ l, s.size ≤ 64) (data : List Nat) (hd : DataOK n data) :
    decodeRaw (genFilters (l.map (fun s => (s, false)))) data =
      some (l.map (fun s => (s.id, dbcRaw data false (importPos false s.start).toNat s.size.toNat))) := by
  simpa [dbcRaw, importPos] using Acme.Props.C02.C02_decode_le n l hwf hn h64 data hd

/-- Motorola (outside D08): decoding yields the DBC Motorola value for the file's start bit
    `convStart position`, most significant bit first along the saw-tooth -/
theorem C10_decode_motorola_partial (n : Nat) (l : List Slot) (hwf : WF (8 * n) l) (hn : IdsNodup l)
    (h64 : ∀ s ∈ l, s.size ≤ 64) (hok : ∀ s ∈ l, BeOK s) (data : List Nat) (hd : DataOK n data) :
    decodeRaw (genFilters (l.map (fun s => (s, true)))) data =
      some (l.map (fun s => (s.id, dbcRaw data true (importPos true s.start).toNat s.size.toNat))) := by
  rw [Acme.Props.C02.C02_decode_be_partial n l hwf hn h64 hok data hd]
  congr 1
  apply List.map_congr_left
  intro s hs
  have h0 : 0 ≤ s.start := (hwf_start_nonneg hwf s hs)
  obtain ⟨p, hp⟩ := Int.eq_ofNat_of_zero_le h0
  have hsaw := (Acme.Props.C02.C02_sawtooth data p s.size.toNat).2.2.2
  simp only [dbcRaw, importPos, if_true, hp, Int.toNat_natCast]
  rw [hsaw, ← conv_eq_convStart, Int.toNat_natCast]

/-- groups named by an extended-multiplexing entry: exactly the ids inside the ranges, each
    range inside the group count; a descending or out-of-range entry is refused -/
theorem C10_groups_of_ranges (gc : Int) (rs : List (Int × Int)) (gs : List Int)
    (h : expand gc rs = some gs) :
    (∀ r ∈ rs, r.1 ≤ r.2 ∧ r.2 < gc) ∧ ∀ g, g ∈ gs ↔ ∃ r ∈ rs, r.1 ≤ g ∧ g ≤ r.2 := by
  induction rs generalizing gs with
  | nil =>
    simp only [expand, Option.some.injEq] at h
    subst h
    simp
  | cons r rest ih =>
    obtain ⟨f, t⟩ := r
    unfold expand at h
    split at h
    · cases h
    · rename_i hc
      split at h
      · cases h
      · rename_i xs hx
        simp only [Option.some.injEq] at h
        subst h
        obtain ⟨h1, h2⟩ := ih xs hx
        constructor
        · intro r hr
          rcases List.mem_cons.1 hr with rfl | hr
          · simp only; omega
          · exact h1 r hr
        · intro g
          rw [List.mem_append, Acme.Conv.mem_expandRange, h2 g]
          constructor
          · rintro (hg | ⟨r, hr, hg⟩)
            · exact ⟨(f, t), List.mem_cons_self .., hg⟩
            · exact ⟨r, List.mem_cons_of_mem _ hr, hg⟩
          · rintro ⟨r, hr, hg⟩
            rcases List.mem_cons.1 hr with rfl | hr
            · exact Or.inl hg
            · exact Or.inr ⟨r, hr, hg⟩

/-- an unknown send-type string lands on the unset send type, a known one on its constant -/
theorem C10_sendtype_total (s : String) :
    (msgSendFromDBC s = .unset ∨ msgSendToDBC (msgSendFromDBC s) = s) ∧
    (sigSendFromDBC s = .unset ∨ sigSendToDBC (sigSendFromDBC s) = s) := by
  constructor
  · unfold msgSendFromDBC
    split
    · right; simp [msgSendToDBC, *]
    · split
      · right; simp [msgSendToDBC, *]
      · split
        · right; simp [msgSendToDBC, *]
        · split
          · right; simp [msgSendToDBC, *]
          · left; rfl
  · unfold sigSendFromDBC
    repeat' split
    all_goals first | (left; rfl) | (right; simp [sigSendToDBC, *])

/-- premises satisfiable: a Motorola signal of the file at start bit 7, 12 bits, lands at
    position 0 and decodes the bits 7..0 of byte 0 and 7..4 of byte 1 -/
example : importPos true 7 = 0 ∧ dbcRaw [0xAB, 0xCD] true 7 12 = 0xABC := by decide
example : expand 8 [(0, 2), (5, 5)] = some [0, 1, 2, 5] := by decide

end Acme.Props.C10
