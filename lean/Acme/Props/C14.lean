/-
C14 — CAN-IDs are the documented function of static id, builder, priority and ids.

  A message's CAN-ID is its static CAN-ID when one is set, its message id when it is not
  attached to a bus through a node interface, and otherwise the result of applying the
  bus's builder operations in order, starting from zero: an id or priority operation ORs
  the low len bits of its source value shifted left by from, a mask operation keeps only
  bits from..from+len-1.  The final value equals the last partial result; the default
  builder and the CAN 2.0A mask yield 11-bit values; inserting and removing operations
  validates bounds (from 0..31, len 0..32-from, index in range) and otherwise behaves
  like positional insert and delete.

Model: Acme.Core.CanId.  Lemmas: Acme.Proofs.CanId.
-/
import Acme.Core.CanId
import Acme.Spec.CanId
import Acme.Proofs.CanId
import Acme.Proofs.CanIdFast

namespace Acme.Props.C14
open Acme.CanId

/-- id / priority operation, bit by bit: bit i of the result is bit i of the previous value
    OR (from ≤ i < from+len AND bit i-from of the source). -/
theorem C14_id_op (op : BOp) (hv : ValidOp op) (hk : op.kind ≠ .mask)
    (prev prio mid nid : BitVec 32) (i : Nat) (hi : i < 32) :
    (calcOp op prev prio mid nid).getLsbD i =
      (prev.getLsbD i ||
        (decide (op.from_ ≤ i ∧ (i : Int) < op.from_ + op.len) &&
          (src op.kind prio mid nid).getLsbD (i - op.from_.toNat))) :=
  Acme.CanId.calcOp_id_bit op hv hk prev prio mid nid i hi

/-- mask operation, bit by bit: keeps exactly bits from..from+len-1. -/
theorem C14_mask_op (op : BOp) (hv : ValidOp op) (hk : op.kind = .mask)
    (prev prio mid nid : BitVec 32) (i : Nat) (hi : i < 32) :
    (calcOp op prev prio mid nid).getLsbD i =
      (prev.getLsbD i && decide (op.from_ ≤ i ∧ (i : Int) < op.from_ + op.len)) :=
  Acme.CanId.calcOp_mask_bit op hv hk prev prio mid nid i hi

/-- The three cases of `GetCANID`. -/
theorem C14_static (c : BitVec 32) (att) (prio mid : BitVec 32) :
    getCANID (some c) att prio mid = c := rfl
theorem C14_unattached (prio mid : BitVec 32) : getCANID none none prio mid = mid := rfl
theorem C14_attached (ops : List BOp) (nid prio mid : BitVec 32) :
    getCANID none (some (ops, nid)) prio mid
      = ops.foldl (fun acc op => calcOp op acc prio mid nid) 0#32 := rfl

/-- The final value equals the last partial result (and there is one partial per operation). -/
theorem C14_last_partial (ops : List BOp) (h : ops ≠ []) (prio mid nid : BitVec 32) :
    (partials ops prio mid nid).getLast? = some (calculate ops prio mid nid) ∧
    (partials ops prio mid nid).length = ops.length :=
  Acme.CanId.partials_last ops h prio mid nid

/-- The default builder yields 11-bit values. -/
theorem C14_default_11bit (prio mid nid : BitVec 32) :
    (calculate defaultOps prio mid nid).toNat < 2048 :=
  Acme.CanId.default_lt_2048 prio mid nid

/-- Any builder whose last operation is the CAN 2.0A mask yields 11-bit values. -/
theorem C14_can2a_11bit (ops : List BOp) (prio mid nid : BitVec 32) :
    (calculate (ops ++ [⟨.mask, 0, 11⟩]) prio mid nid).toNat < 2048 :=
  Acme.CanId.can2a_lt_2048 ops prio mid nid

/-- `InsertOperation` is accepted exactly on the documented bounds, and then is a
    positional insert; otherwise it fails with out-of-bounds. -/
theorem C14_insert (ops : List BOp) (k : Kind) (f l idx : Int) :
    (0 ≤ f ∧ f ≤ 31 ∧ 0 ≤ l ∧ l ≤ 32 - f ∧ 0 ≤ idx ∧ idx ≤ ops.length →
        insertOp ops k f l idx = .ok (ops.insertIdx idx.toNat ⟨k, f, l⟩)) ∧
    (¬ (0 ≤ f ∧ f ≤ 31 ∧ 0 ≤ l ∧ l ≤ 32 - f ∧ 0 ≤ idx ∧ idx ≤ ops.length) →
        ∃ a, insertOp ops k f l idx = .error (.outOfBounds a)) :=
  Acme.CanId.insertOp_spec ops k f l idx

/-- `RemoveOperation` likewise. -/
theorem C14_remove (ops : List BOp) (idx : Int) :
    (0 ≤ idx ∧ idx < ops.length → removeOp ops idx = .ok (ops.eraseIdx idx.toNat)) ∧
    (¬ (0 ≤ idx ∧ idx < ops.length) → ∃ a, removeOp ops idx = .error (.outOfBounds a)) :=
  Acme.CanId.removeOp_spec ops idx

/-- Every operation a builder can hold after `InsertOperation` is valid. -/
theorem C14_insert_valid (ops : List BOp) (k : Kind) (f l idx : Int) (ops' : List BOp)
    (hall : ∀ o ∈ ops, ValidOp o) (h : insertOp ops k f l idx = .ok ops') :
    ∀ o ∈ ops', ValidOp o :=
  Acme.CanId.insertOp_valid ops k f l idx ops' hall h

/-- The evaluator the correspondence driver runs is the function the theorems above are about. -/
theorem C14_driver_eq (ops : List BOp) (prio mid nid : BitVec 32) :
    calculateFast ops prio mid nid = calculate ops prio mid nid ∧
    partialsFromFast 0#32 prio mid nid ops = partials ops prio mid nid :=
  ⟨Acme.CanId.calculateFast_eq ops prio mid nid, Acme.CanId.partialsFromFast_eq ops 0#32 prio mid nid⟩

/-! Non-vacuity -/
example : ValidOp ⟨.msgId, 4, 7⟩ := by decide
example : calculate defaultOps 0#32 0x7F#32 0xF#32 = 0x7FF#32 := by decide
example : calcOp ⟨.mask, 31, 1⟩ 0xFFFFFFFF#32 0 0 0 = 0x80000000#32 := by decide
example : calcOp ⟨.msgId, 0, 32⟩ 0#32 0 0xDEADBEEF#32 0 = 0xDEADBEEF#32 := by decide
example : calcOp ⟨.msgId, 3, 0⟩ 5#32 0 0xDEADBEEF#32 0 = 5#32 := by decide

end Acme.Props.C14
