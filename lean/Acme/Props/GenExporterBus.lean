/-
The GENERATED bus-level exporter (Acme.Gen.X.exportBus and what it calls: exportNodeInterfaces,
exportMessage, exportSignal on top-level standard / enum signals, exportStandardSignal,
exportEnumSignal, exportSignalEnum — the translation of exporter.go) against the hand model
Acme.ExportBus.exportBus (tied to the code by stream `impbus`), and C11Bus.bus_roundtrip restated
about the generated code.  Vocabulary (the view of a model bus as Go objects, `dfileOf`, `BusOK`,
`SortSpec`): Acme/Proofs/GenExporterBusDefs.lean; proofs: Acme/Proofs/GenExporterBus1-5.lean.
-/
import Acme.Proofs.GenExporterBus5
import Acme.Props.C11Bus

namespace Acme.Props.GenExporterBus
open Acme.ImportBus Acme.ExportBus Acme.XSem Acme.GenX Acme.Gen

/-- the generated exportBus, on the Go objects of ANY model bus, with ANY sort routine that sorts by
    name, never panics and writes exactly the file of the hand model -/
theorem X_exportBus (b : MBus) (h : BusOK b) (sortEnums : List SigEnum → List SigEnum) (hs : SortSpec sortEnums) :
    ∃ st : Acme.XSem.St, X.exportBus id sortEnums (viewBus b) {} = .val st ∧
      dfileOf st = Acme.ExportBus.exportBus b ∧
      st.extendedMuxes = [] ∧ (∀ m ∈ st.messages, ∀ s ∈ m.signals, PlainSig s) :=
  X_exportBus_view b h sortEnums hs

/-- no panic -/
theorem X_exportBus_no_panic (b : MBus) (h : BusOK b) (sortEnums : List SigEnum → List SigEnum)
    (hs : SortSpec sortEnums) : X.exportBus id sortEnums (viewBus b) {} ≠ .panic := by
  obtain ⟨st, hst, _⟩ := X_exportBus b h sortEnums hs
  rw [hst]; intro hc; cases hc

/-- C11Bus.bus_roundtrip about the GENERATED exporter -/
theorem X_bus_roundtrip (b : IBus) (h : BusWF b) (hok : BusOK b) (sortEnums : List SigEnum → List SigEnum)
    (hs : SortSpec sortEnums) :
    ∃ st ib, X.exportBus id sortEnums (viewBus b) {} = .val st ∧
      importBus (dfileOf st) = .ok ib ∧ Acme.ExportBus.view ib = normB b := by
  obtain ⟨st, hst, hf, _⟩ := X_exportBus b hok sortEnums hs
  obtain ⟨ib, h1, h2⟩ := Acme.Props.C11Bus.bus_roundtrip h
  exact ⟨st, ib, hst, hf ▸ h1, h2⟩

/-- the specification of the abstract sort is satisfiable: insertion sort by name -/
theorem X_sortSpec_sortStr : SortSpec (sortStr (·.name)) :=
  fun l => ⟨sortStr_perm _ l, sortStr_sorted _ l⟩

/-! ## which part of `BusOK` the class `BusWF` of C11 gives -/

/-- a message of at most 8 bytes: the size goes through `uint32` unchanged -/
theorem X_busOK_of_wf_size {b : IBus} (h : BusWF b) {m : IMessage} (hm : m ∈ b.msgs) : lt32 m.size := by
  have : m.size ≤ 8 := (h.2.2.2.2 m hm).2.2.2.2.1
  unfold lt32; omega

/-- inside the class of C11 the positions and sizes are below 2^32 (the signals lie inside a payload
    of at most 64 bits); what `BusWF` does NOT give: the values of an enum below 2^32 (a 40-bit enum
    signal may have the value 2^39) and enum objects of pairwise different names -/
theorem X_busOK_of_wf_sig {b : IBus} (h : BusWF b) {m : IMessage} (hm : m ∈ b.msgs) {s : ISignal} (hs : s ∈ m.sigs)
    (hv : ∀ e, s.kind = .enum e → ∀ v ∈ (b.enums.getD e default).values, lt32 v.1) : SigOK32 b s := by
  have hw := h.2.2.2.2 m hm
  have hz : m.size ≤ 8 := hw.2.2.2.2.1
  have hl := ((layout_facts b (m.size * 8) [] m.sigs 0 hw.2.2.2.2.2.2.1).1 s hs).2
  unfold sigSizeOf exportSig at hl
  unfold SigOK32 lt32
  refine ⟨by omega, ?_⟩
  split
  · rename_i t u hk
    simp only [hk] at hl
    omega
  · rename_i e hk
    simp only [hk] at hl
    have := enum_size_toNat (b.enums.getD e default)
    exact ⟨by omega, by omega, hv e hk⟩

theorem X_busOK_of_wf {b : IBus} (h : BusWF b)
    (hv : ∀ m ∈ b.msgs, ∀ s ∈ m.sigs, ∀ e, s.kind = .enum e → ∀ v ∈ (b.enums.getD e default).values, lt32 v.1)
    (hn : ((usedEnums b).map (fun e => (b.enums.getD e default).name)).Nodup) : BusOK b :=
  ⟨fun m hm => ⟨X_busOK_of_wf_size h hm, fun s hs => X_busOK_of_wf_sig h hm hs (hv m hm s hs)⟩, hn⟩
/-! ## examples -/

open Acme.Props.C11Bus.Ex

example : BusOK bus1 := by decide
example : BusOK bus2 := by decide

example : ∃ st ib, X.exportBus id (sortStr (·.name)) (viewBus bus1) {} = .val st ∧
    importBus (dfileOf st) = .ok ib ∧ Acme.ExportBus.view ib = normB bus1 :=
  X_bus_roundtrip bus1 (by decide) (by decide) _ X_sortSpec_sortStr

example : ∃ st ib, X.exportBus id (sortStr (·.name)) (viewBus bus2) {} = .val st ∧
    importBus (dfileOf st) = .ok ib ∧ Acme.ExportBus.view ib = normB bus2 :=
  X_bus_roundtrip bus2 (by decide) (by decide) _ X_sortSpec_sortStr

end Acme.Props.GenExporterBus
