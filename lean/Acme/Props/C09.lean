/-
C09 (parser part) — parsing arbitrary input terminates with a result or an error.

  For every byte sequence, the DBC parser and the DBC importer terminate and return either a
  result or an error - never a panic or a hang.

Model: `Acme.Core.DbcParse` (token level; `parseToks`).  Every function of the model is total by
construction (structural recursion); the two loops of `parser.go` whose termination is not
structural — the top-level section loop and the `SG_` loop of `parseMessage` — carry an explicit
fuel `length + 1`.  The statement below is that this fuel never runs out: on EVERY token list
(no well-formedness assumption) `parseToks` returns a document or a syntax error, i.e. each
iteration of the real loops consumes at least one token.  Lemmas: `Acme.Proofs.DbcTotal`
(`GoodR`: every parser function returns a suffix of its input or a non-fuel error).
-/
import Acme.Core.Dbc
import Acme.Core.DbcParse
import Acme.Proofs.DbcTotal

namespace Acme.Props.C09
open Acme.Dbc

/-- the structural fuel of the model never runs out -/
theorem C09_parse_no_fuel (h : Bool) (ts : List Token) : parseToks h ts ≠ .error .fuel :=
  parseToks_ne_fuel h ts

/-- the parser terminates with a document or a syntax error on every input -/
theorem C09_parse_total (h : Bool) (ts : List Token) :
    (∃ f, parseToks h ts = .ok f) ∨ (∃ msg, parseToks h ts = .error (.syntax msg)) := by
  have hnf := parseToks_ne_fuel h ts
  cases hp : parseToks h ts with
  | ok f => exact .inl ⟨f, rfl⟩
  | error e =>
    match e, hp with
    | .syntax msg, _ => exact .inr ⟨msg, rfl⟩
    | .fuel, hp => exact absurd hp hnf

/-- the same for the `SG_` loop inside a message: started as `parseMessage` starts it, it never
runs out of fuel -/
theorem C09_signals_no_fuel (ts : List Token) :
    parseSignals (ts.length + 1) ts ≠ .error .fuel := by
  have := parseSignals_good' ts
  intro h
  rw [h] at this
  exact this rfl

/-- every section parser consumes input: the remaining tokens are a suffix of the input
(the reason why the fuel suffices) -/
theorem C09_section_suffix (h : Bool) (k : KeywordKind) (fl : PFlags) (ast : File)
    (ts ts' : List Token) (r : File × PFlags)
    (hp : parseSection h k fl ast ts = .ok (r, ts')) : ts' <:+ ts := by
  have := parseSection_good h k fl ast ts
  rw [hp] at this
  exact this

end Acme.Props.C09
