/-
GenRegistry — the registry bookkeeping of the bus / node-interface / node layer (C04, C05, C06)
hangs on the SOURCE TEXT of /repo/helpers.go, bus.go, node_iterface.go, node.go.

What is generated.  On every run /verif/tools/extract (kernels_registry*.go) translates, from
go/ast + go/types, into `Acme/Gen/Registry.lean` (namespace `Acme.Gen.R`, not tracked):

    set.verifyKeyUnique / add / remove / hasKey / modifyKey / getValue / size / clear
    Bus.verifyNodeName / verifyNodeID / verifyStaticCANID / verifyMessageSize,
    Bus.AddNodeInterface / RemoveNodeInterface / RemoveAllNodeInterfaces / UpdateName
    NodeInterface.verifyMessageName / verifyMessageID / verifyStaticCANID / verifyMessageSize,
    NodeInterface.addReceivedMessage / removeReceivedMessage / AddSentMessage / RemoveSentMessage /
    RemoveAllSentMessages / AddReceivedMessage / RemoveReceivedMessage
    Node.UpdateName / UpdateID

Idiom (Core/GenRegistryPrelude.lean): the objects form a heap `H` of five `AMap`s keyed by
entity id; a pointer is the key of its target (`Option Nat` while it may be nil), `x.entityID` is
the key of `x`; a `*set[K,V]` is an association list with the Go map built-ins; every field write
and mutating set call re-reads the record from the CURRENT heap and binds a new heap; a
dereference of a possibly-nil pointer is `Res.panic`, a key outside the heap `Res.dangling`; an
error is its sentinel cause (+ the Name of an ArgumentError); a loop over a map snapshot WITH an
early return iterates over the list parameter `ord1` (theorems: for every order), every other map
loop over the association list.

What is proved.  Through the explicit projection `view : Graph.G → H` EVERY translated writer equals
its `stepX` of the hand model `Acme.Graph` (state compared look-up by look-up, `Heq`; outcome with
the cause on refusal; `dangling` ↔ `unsupported`), the checks equal the model's tests, the set
methods the model's `Reg` operations; `R_no_panic_*` for each.  `R_err_unchanged_*` is C06's atomicity for the GENERATED
code of every translated writer, with no model and no hypothesis.

Hypotheses.  `Inv g`, through `R_closed_of_inv : Inv g → Closed g` (no dangling id in the world:
the heap of a Go program always is closed; the model totalises look-ups of missing entities
instead), and — RemoveSentMessage / RemoveReceivedMessage — `SentI.sent_get` / `RecvI.recv_val`: the
model stores a message under its own id, the code reads the VALUE of the registry where the model
reads the key.  AddSentMessage / AddReceivedMessage: the argument exists (nil: `_nil`), and for
AddSentMessage the message has no sender yet (D25 boundary).  `Bus.UpdateName`,
`AddReceivedMessage`, the checks and the set methods need nothing.  `AddNodeInterface`: the interface is
not attached yet (the model's D25 boundary: the code has no such check), and — only for
`R_Bus_AddNodeInterface_statics_order` — no two sent messages of the interface share a static
CAN-ID (`SentI.static_get` of `Inv`): with two equal ids the bus index would depend on the map
iteration order.  Nothing else.
-/
import Acme.Proofs.GenRegistryBus
import Acme.Proofs.GenRegistryAddNI
import Acme.Proofs.GenRegistryAtomic
import Acme.Proofs.GenRegistryIface
import Acme.Proofs.GenRegistryNode
import Acme.Proofs.GenRegistrySentAll
import Acme.Proofs.GraphAtomic

namespace Acme.Props.GenRegistry
open Acme Acme.Graph Acme.RegSem Acme.Gen Acme.GenR

/-! ### helpers.go: `set[K,V]` (Go map semantics: add overwrites, remove of an absent key is a no-op) -/

theorem R_set_add {κ : Type} [DecidableEq κ] (r : Reg κ) (k : κ) (v : Nat) :
    R.set_add r k v = Reg.add r k v := set_add_eq r k v

theorem R_set_remove {κ : Type} [DecidableEq κ] (r : Reg κ) (k : κ) :
    R.set_remove r k = Reg.remove r k := set_remove_eq r k

theorem R_set_hasKey {κ : Type} [DecidableEq κ] (r : Reg κ) (k : κ) :
    R.set_hasKey r k = Reg.has r k := set_hasKey_eq r k

theorem R_set_getValue {κ : Type} [DecidableEq κ] (r : Reg κ) (k : κ) :
    R.set_getValue r k = match Reg.get r k with
      | some v => (some v, none)
      | none => (none, some ⟨.ErrNotFound, ""⟩) := set_getValue_eq r k

theorem R_set_verifyKeyUnique {κ : Type} [DecidableEq κ] (r : Reg κ) (k : κ) :
    R.set_verifyKeyUnique r k = if Reg.has r k then some ⟨.ErrIsDuplicated, ""⟩ else none :=
  set_verifyKeyUnique_eq r k

theorem R_set_modifyKey {κ : Type} [DecidableEq κ] (r : Reg κ) (a b : κ) (v : Nat) :
    R.set_modifyKey r a b v = Reg.add (Reg.remove r a) b v := set_modifyKey_eq r a b v

theorem R_set_clear {κ ν : Type} [DecidableEq κ] (s : GoMap κ ν) : R.set_clear s = [] := set_clear_eq s

theorem R_set_size {κ : Type} [DecidableEq κ] (r : Reg κ) : R.set_size r = (r.length : Int) := set_size_eq r

/-- the same operations on an `AMap` (keys = entity ids) -/
theorem R_set_amap {α : Type} (m : AMap α) (k : Nat) (v : α) :
    (⟨R.set_add m.l k v⟩ : AMap α) = m.set k v ∧ (⟨R.set_remove m.l k⟩ : AMap α) = m.erase k ∧
    (R.set_getValue m.l k).1 = m.get k := by
  refine ⟨rfl, rfl, ?_⟩
  unfold R.set_getValue AMap.get GoMap.lookup
  cases m.l.find? (fun p => decide (p.1 = k)) <;> rfl

/-! ### bus.go: the four checks -/

theorem R_Bus_verifyNodeName (g : G) (b : Nat) (name : String) :
    R.Bus_verifyNodeName (view g) b name = match g.buses.get b with
      | none => .dangling
      | some bus => .val (if bus.nodeNames.has name then some dupErr else none) :=
  Bus_verifyNodeName_eq g b name

theorem R_Bus_verifyNodeID (g : G) (b : Nat) (nid : Nat) :
    R.Bus_verifyNodeID (view g) b nid = match g.buses.get b with
      | none => .dangling
      | some bus => .val (if bus.nodeIDs.has nid then some dupErr else none) :=
  Bus_verifyNodeID_eq g b nid

theorem R_Bus_verifyStaticCANID (g : G) (b : Nat) (c : Nat) :
    R.Bus_verifyStaticCANID (view g) b c = match g.buses.get b with
      | none => .dangling
      | some bus => .val (if bus.staticIDs.has c then some dupErr else none) :=
  Bus_verifyStaticCANID_eq g b c

theorem R_Bus_verifyMessageSize (g : G) (b : Nat) (size : Int) :
    R.Bus_verifyMessageSize (view g) b size = match g.buses.get b with
      | none => .dangling
      | some _ => .val (if busSizeOK size then none else some bigErr) :=
  Bus_verifyMessageSize_eq g b size

/-! ### bus.go: RemoveNodeInterface -/

/-- the generated `Bus.RemoveNodeInterface` IS the model's `busRemoveIface` step: same final
state (look-up by look-up), same outcome (`ok` / `err notFound`), outside the model together -/
theorem R_Bus_RemoveNodeInterface (g : G) (b nodeId : Nat) (hc : Closed g) :
    ObsEq (obs (R.Bus_RemoveNodeInterface (view g) b nodeId)) (obsG (stepBusRemoveIface g b nodeId)) :=
  R_Bus_RemoveNodeInterface_raw g b nodeId hc

/-! ### bus.go: AddNodeInterface, for EVERY order in which the loop visits the sent messages -/

theorem R_Bus_AddNodeInterface_nil (h : H) (b : Nat) (ord : List Nat) :
    R.Bus_AddNodeInterface h b none ord = .val (h, some ⟨.ErrIsNil, "nodeInterface"⟩) := rfl

/-- accepted together with the model, with the model's final state up to the ORDER in which the
static CAN-IDs were entered into the bus index (see `_statics_order`); refused together with the
model, heap untouched, with the model's cause — except that when a too-big message AND a clashing
static CAN-ID are both present the code reports whichever the map iteration meets first -/
theorem R_Bus_AddNodeInterface (g : G) (b i : Nat) (ord : List Nat) (bus : BusE) (ifc : IfaceE) (hc : Closed g)
    (hb : g.buses.get b = some bus) (hi : g.ifaces.get i = some ifc) (hperm : ord.Perm ifc.sent.vals)
    (hpb : ifc.parentBus = none) :
    match (stepBusAddIface g b i).2 with
    | .ok => ∃ h', R.Bus_AddNodeInterface (view g) b (some i) ord = .val (h', none) ∧
        Heq h' (view (withStatics (stepBusAddIface g b i).1 b (addAll bus.staticIDs (addAll [] (staticOf g ord)))))
    | .err c => ∃ e, R.Bus_AddNodeInterface (view g) b (some i) ord = .val (view g, some e) ∧
        (ofCause e.cause = c ∨ (c = .tooBig ∧ e.cause = .ErrIsDuplicated ∧
          ifc.sent.vals.any (tooBigB g) = true ∧ ifc.sent.vals.any (clashB g bus) = true))
    | _ => False :=
  addNI_main g b i ord bus ifc hc hb hi hperm hpb

theorem R_Bus_AddNodeInterface_statics_order (g : G) (r : Reg Nat) (ord vals : List Nat) (hperm : ord.Perm vals)
    (hf : ∀ k v v', (k, v) ∈ staticOf g vals → (k, v') ∈ staticOf g vals → v = v') (c : Nat) :
    Reg.get (addAll r (addAll [] (staticOf g ord))) c = Reg.get (addAll r (staticOf g vals)) c :=
  statics_order g r ord vals hperm hf c

/-! ### no panic (where the equalities exist) -/

theorem R_no_panic_Bus_RemoveNodeInterface (g : G) (b nodeId : Nat) (hc : Closed g) :
    R.Bus_RemoveNodeInterface (view g) b nodeId ≠ .panic := by
  intro hp
  have h := R_Bus_RemoveNodeInterface_raw g b nodeId hc
  rw [hp] at h
  unfold stepBusRemoveIface busRemoveIfaceCore at h
  (repeat' split at h) <;> simp_all [obs, obsG, ObsEq]

theorem R_no_panic_Bus_AddNodeInterface (g : G) (b i : Nat) (ord : List Nat) (bus : BusE) (ifc : IfaceE) (hc : Closed g)
    (hb : g.buses.get b = some bus) (hi : g.ifaces.get i = some ifc) (hperm : ord.Perm ifc.sent.vals)
    (hpb : ifc.parentBus = none) :
    R.Bus_AddNodeInterface (view g) b (some i) ord ≠ .panic := by
  intro hp
  have h := addNI_main g b i ord bus ifc hc hb hi hperm hpb
  rw [hp] at h
  split at h <;> simp_all

/-! ### under the model's own invariant -/

/-- the closure hypothesis is a consequence of `Inv` -/
theorem R_closed_of_inv {g : G} (inv : Inv g) : Closed g := closed_of_inv inv

theorem R_Bus_RemoveNodeInterface_inv (g : G) (b nodeId : Nat) (inv : Inv g) :
    ObsEq (obs (R.Bus_RemoveNodeInterface (view g) b nodeId)) (obsG (stepBusRemoveIface g b nodeId)) :=
  R_Bus_RemoveNodeInterface_raw g b nodeId (closed_of_inv inv)

theorem R_Bus_AddNodeInterface_inv (g : G) (b i : Nat) (ord : List Nat) (bus : BusE) (ifc : IfaceE) (inv : Inv g)
    (hb : g.buses.get b = some bus) (hi : g.ifaces.get i = some ifc) (hperm : ord.Perm ifc.sent.vals)
    (hpb : ifc.parentBus = none) :
    match (stepBusAddIface g b i).2 with
    | .ok => ∃ h', R.Bus_AddNodeInterface (view g) b (some i) ord = .val (h', none) ∧
        Heq h' (view (withStatics (stepBusAddIface g b i).1 b (addAll bus.staticIDs (addAll [] (staticOf g ord)))))
    | .err c => ∃ e, R.Bus_AddNodeInterface (view g) b (some i) ord = .val (view g, some e) ∧
        (ofCause e.cause = c ∨ (c = .tooBig ∧ e.cause = .ErrIsDuplicated ∧
          ifc.sent.vals.any (tooBigB g) = true ∧ ifc.sent.vals.any (clashB g bus) = true))
    | _ => False :=
  addNI_main g b i ord bus ifc (closed_of_inv inv) hb hi hperm hpb

/-- under `Inv` the static index the generated loops build, in ANY visiting order, answers every
look-up as the model's does (`SentI.static_get`: no two sent messages share a static CAN-ID) -/
theorem R_Bus_AddNodeInterface_statics_inv (g : G) (i : Nat) (ifc : IfaceE) (inv : Inv g)
    (hi : g.ifaces.get i = some ifc) (r : Reg Nat) (ord : List Nat) (hperm : ord.Perm ifc.sent.vals) (c : Nat) :
    Reg.get (addAll r (addAll [] (staticOf g ord))) c = Reg.get (addAll r (staticOf g ifc.sent.vals)) c :=
  statics_order g r ord ifc.sent.vals hperm (statics_fun_of_inv inv i ifc hi) c

/-! ### node_iterface.go -/

theorem R_NodeInterface_RemoveAllSentMessages (g : G) (i : Nat) (inv : Inv g) :
    ObsEq (obsV (R.NodeInterface_RemoveAllSentMessages (view g) i)) (obsG (stepIfaceRemoveAllSent g i)) :=
  RemoveAllSent_main g i (closed_of_inv inv)

theorem R_NodeInterface_AddSentMessage_nil (g : G) (i m : Nat) (ifc : IfaceE) (hi : g.ifaces.get i = some ifc)
    (hm : g.msgs.get m = none) :
    ObsEq (obs (R.NodeInterface_AddSentMessage (view g) i none)) (obsG (stepIfaceAddSent g i m)) :=
  AddSent_nil g i m ifc hi hm

/-- the generated `AddSentMessage` IS the model's `ifaceAddSent` step (state, outcome, cause:
receiverIsSender / duplicated name / tooBig / duplicated static id on the interface or the bus /
duplicated message id), for an existing interface and a message that has no sender yet (D25) -/
theorem R_NodeInterface_AddSentMessage (g : G) (i m : Nat) (ifc : IfaceE) (msg : MsgE) (inv : Inv g)
    (hi : g.ifaces.get i = some ifc) (hm : g.msgs.get m = some msg) (hs : msg.sender = none) :
    ObsEq (obs (R.NodeInterface_AddSentMessage (view g) i (some m))) (obsG (stepIfaceAddSent g i m)) :=
  AddSent_main g i m ifc msg (closed_of_inv inv) hi hm hs

theorem R_NodeInterface_RemoveSentMessage (g : G) (i m : Nat) (inv : Inv g) :
    ObsEq (obs (R.NodeInterface_RemoveSentMessage (view g) i m)) (obsG (stepIfaceRemoveSent g i m)) :=
  RemoveSent_main g i m inv

theorem R_NodeInterface_AddReceivedMessage_nil (g : G) (i m : Nat) (ifc : IfaceE) (hi : g.ifaces.get i = some ifc)
    (hm : g.msgs.get m = none) :
    ObsEq (obs (R.NodeInterface_AddReceivedMessage (view g) i none)) (obsG (stepIfaceAddRecv g i m)) :=
  AddRecv_nil g i m ifc hi hm

theorem R_NodeInterface_AddReceivedMessage (g : G) (i m : Nat) (msg : MsgE) (hm : g.msgs.get m = some msg) :
    ObsEq (obs (R.NodeInterface_AddReceivedMessage (view g) i (some m))) (obsG (stepIfaceAddRecv g i m)) :=
  AddRecv_main g i m msg hm

theorem R_NodeInterface_RemoveReceivedMessage (g : G) (i m : Nat) (inv : Inv g) :
    ObsEq (obs (R.NodeInterface_RemoveReceivedMessage (view g) i m)) (obsG (stepIfaceRemoveRecv g i m)) :=
  RemoveRecv_main g i m inv

/-! ### node.go, and the remaining bus.go writers -/

/-- verify-all-then-apply: refused (duplicated, heap untouched) iff one attached bus knows the new
id, otherwise every attached bus re-keys the node and the node takes the id -/
theorem R_Node_UpdateID (g : G) (n nid : Nat) (inv : Inv g) :
    ObsEq (obs (R.Node_UpdateID (view g) n nid)) (obsG (stepNodeSetId g n nid)) :=
  NodeUpdateID_main g n nid (closed_of_inv inv)

theorem R_Node_UpdateName (g : G) (n : Nat) (name : String) (inv : Inv g) :
    ObsEq (obs (R.Node_UpdateName (view g) n name)) (obsG (stepNodeRename g n name)) :=
  NodeUpdateName_main g n name (closed_of_inv inv)

theorem R_Bus_RemoveAllNodeInterfaces (g : G) (b : Nat) (inv : Inv g) :
    ObsEq (obsV (R.Bus_RemoveAllNodeInterfaces (view g) b)) (obsG (stepBusRemoveAllIfaces g b)) :=
  RemoveAllNI_main g b (closed_of_inv inv)

theorem R_Bus_UpdateName (g : G) (b : Nat) (name : String) :
    ObsEq (obs (R.Bus_UpdateName (view g) b name)) (obsG (stepBusRename g b name)) :=
  BusUpdateName_main g b name

/-! ### no panic, for every method with a model equality -/

theorem no_panic_of_obsEq {r : Res (H × Option R.Err)} {g : G} {op : Op} (h : ObsEq (obs r) (obsG (step g op))) :
    r ≠ .panic := by
  intro hp
  have hnp := step_np g op
  rw [hp] at h
  unfold obsG at h
  split at h <;> simp_all [obs, ObsEq]

theorem no_panicV_of_obsEq {r : Res H} {g : G} {op : Op} (h : ObsEq (obsV r) (obsG (step g op))) :
    r ≠ .panic := by
  intro hp
  have hnp := step_np g op
  rw [hp] at h
  unfold obsG at h
  split at h <;> simp_all [obsV, ObsEq]

theorem R_no_panic_NodeInterface_AddSentMessage (g : G) (i m : Nat) (ifc : IfaceE) (msg : MsgE) (inv : Inv g)
    (hi : g.ifaces.get i = some ifc) (hm : g.msgs.get m = some msg) (hs : msg.sender = none) :
    R.NodeInterface_AddSentMessage (view g) i (some m) ≠ .panic :=
  no_panic_of_obsEq (op := .ifaceAddSent i m) (R_NodeInterface_AddSentMessage g i m ifc msg inv hi hm hs)

theorem R_no_panic_NodeInterface_RemoveSentMessage (g : G) (i m : Nat) (inv : Inv g) :
    R.NodeInterface_RemoveSentMessage (view g) i m ≠ .panic :=
  no_panic_of_obsEq (op := .ifaceRemoveSent i m) (R_NodeInterface_RemoveSentMessage g i m inv)

theorem R_no_panic_NodeInterface_AddReceivedMessage (g : G) (i m : Nat) (msg : MsgE) (hm : g.msgs.get m = some msg) :
    R.NodeInterface_AddReceivedMessage (view g) i (some m) ≠ .panic :=
  no_panic_of_obsEq (op := .ifaceAddRecv i m) (R_NodeInterface_AddReceivedMessage g i m msg hm)

theorem R_no_panic_NodeInterface_RemoveReceivedMessage (g : G) (i m : Nat) (inv : Inv g) :
    R.NodeInterface_RemoveReceivedMessage (view g) i m ≠ .panic :=
  no_panic_of_obsEq (op := .ifaceRemoveRecv i m) (R_NodeInterface_RemoveReceivedMessage g i m inv)

theorem R_no_panic_Node_UpdateID (g : G) (n nid : Nat) (inv : Inv g) :
    R.Node_UpdateID (view g) n nid ≠ .panic :=
  no_panic_of_obsEq (op := .nodeSetId n nid) (R_Node_UpdateID g n nid inv)

theorem R_no_panic_Node_UpdateName (g : G) (n : Nat) (name : String) (inv : Inv g) :
    R.Node_UpdateName (view g) n name ≠ .panic :=
  no_panic_of_obsEq (op := .nodeRename n name) (R_Node_UpdateName g n name inv)

theorem R_no_panic_Bus_RemoveAllNodeInterfaces (g : G) (b : Nat) (inv : Inv g) :
    R.Bus_RemoveAllNodeInterfaces (view g) b ≠ .panic :=
  no_panicV_of_obsEq (op := .busRemoveAllIfaces b) (R_Bus_RemoveAllNodeInterfaces g b inv)

theorem R_no_panic_NodeInterface_RemoveAllSentMessages (g : G) (i : Nat) (inv : Inv g) :
    R.NodeInterface_RemoveAllSentMessages (view g) i ≠ .panic :=
  no_panicV_of_obsEq (op := .ifaceRemoveAllSent i) (R_NodeInterface_RemoveAllSentMessages g i inv)

theorem R_no_panic_Bus_UpdateName (g : G) (b : Nat) (name : String) :
    R.Bus_UpdateName (view g) b name ≠ .panic :=
  no_panic_of_obsEq (op := .busRename b name) (R_Bus_UpdateName g b name)

/-! ### C06 read off the generated code: an error leaves the heap as it was -/

theorem R_err_unchanged_Bus_AddNodeInterface (h : H) (b : Nat) (ni : Option Nat) (ord : List Nat) (h' : H) (e : R.Err) :
    R.Bus_AddNodeInterface h b ni ord = .val (h', some e) → h' = h := Bus_AddNodeInterface_err h b ni ord h' e

theorem R_err_unchanged_Bus_RemoveNodeInterface (h : H) (b x : Nat) (h' : H) (e : R.Err) :
    R.Bus_RemoveNodeInterface h b x = .val (h', some e) → h' = h := Bus_RemoveNodeInterface_err h b x h' e

theorem R_err_unchanged_Bus_UpdateName (h : H) (b : Nat) (n : String) (h' : H) (e : R.Err) :
    R.Bus_UpdateName h b n = .val (h', some e) → h' = h := Bus_UpdateName_err h b n h' e

theorem R_err_unchanged_NodeInterface_AddSentMessage (h : H) (ni : Nat) (m : Option Nat) (h' : H) (e : R.Err) :
    R.NodeInterface_AddSentMessage h ni m = .val (h', some e) → h' = h :=
  NodeInterface_AddSentMessage_err h ni m h' e

theorem R_err_unchanged_NodeInterface_RemoveSentMessage (h : H) (ni m : Nat) (h' : H) (e : R.Err) :
    R.NodeInterface_RemoveSentMessage h ni m = .val (h', some e) → h' = h :=
  NodeInterface_RemoveSentMessage_err h ni m h' e

theorem R_err_unchanged_NodeInterface_AddReceivedMessage (h : H) (ni : Nat) (m : Option Nat) (h' : H) (e : R.Err) :
    R.NodeInterface_AddReceivedMessage h ni m = .val (h', some e) → h' = h :=
  NodeInterface_AddReceivedMessage_err h ni m h' e

theorem R_err_unchanged_NodeInterface_RemoveReceivedMessage (h : H) (ni m : Nat) (h' : H) (e : R.Err) :
    R.NodeInterface_RemoveReceivedMessage h ni m = .val (h', some e) → h' = h :=
  NodeInterface_RemoveReceivedMessage_err h ni m h' e

theorem R_err_unchanged_Node_UpdateName (h : H) (n : Nat) (nm : String) (h' : H) (e : R.Err) :
    R.Node_UpdateName h n nm = .val (h', some e) → h' = h := Node_UpdateName_err h n nm h' e

theorem R_err_unchanged_Node_UpdateID (h : H) (n nid : Nat) (h' : H) (e : R.Err) :
    R.Node_UpdateID h n nid = .val (h', some e) → h' = h := Node_UpdateID_err h n nid h' e

/-- the translated writers that return an error are exactly the nine above -/
theorem R_err_unchanged_covers :
    (R.methods.filter (fun m => m.2.2.1)).map (·.1) =
      ["set.add", "set.remove", "set.modifyKey", "set.clear",
       "Bus.AddNodeInterface", "Bus.RemoveNodeInterface", "Bus.RemoveAllNodeInterfaces", "Bus.UpdateName",
       "NodeInterface.addReceivedMessage", "NodeInterface.removeReceivedMessage",
       "NodeInterface.AddSentMessage", "NodeInterface.RemoveSentMessage",
       "NodeInterface.RemoveAllSentMessages", "NodeInterface.AddReceivedMessage",
       "NodeInterface.RemoveReceivedMessage", "Node.UpdateName", "Node.UpdateID"] := by decide

end Acme.Props.GenRegistry
