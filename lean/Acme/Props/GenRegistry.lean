/-
GenRegistry — the registry bookkeeping of the bus / node-interface / node layer (C04, C05, C06)
hangs on the SOURCE TEXT of /repo/helpers.go, bus.go, node_iterface.go, node.go.

What is generated.  On every run /verif/tools/extract (kernels_registry*.go) translates, from
go/ast + go/types, into `Acme/Gen/Registry.lean` (namespace `Acme.Gen.R`, not tracked):

    set.verifyKeyUnique / add / remove / hasKey / modifyKey / getValue / size / clear
    Bus.verifyNodeName / verifyNodeID / verifyStaticCANID / verifyMessageSize,
    Bus.AddNodeInterface / RemoveNodeInterface / RemoveAllNodeInterfaces / UpdateName
    NodeInterface.verifyMessageName / verifyMessageID / verifyStaticCANID / verifyMessageSize,
    NodeInterface.addReceivedMessage / removeReceivedMessage / AddSentMessage / RemoveSentMessage /
    RemoveAllSentMessages / AddReceivedMessage / RemoveReceivedMessage
    Node.UpdateName / UpdateID

Idiom (Core/GenRegistryPrelude.lean): the objects form a heap `H` of five `AMap`s keyed by
entity id; a pointer is the key of its target (`Option Nat` while it may be nil), `x.entityID` is
the key of `x`; a `*set[K,V]` is an association list with the Go map built-ins; every field write
and mutating set call re-reads the record from the CURRENT heap and binds a new heap; a
dereference of a possibly-nil pointer is `Res.panic`, a key outside the heap `Res.dangling`; an
error is its sentinel cause (+ the Name of an ArgumentError); a loop over a map snapshot WITH an
early return iterates over the list parameter `ord1` (theorems: for every order), every other map
loop over the association list.

What is proved.  Through the explicit projection `view : Graph.G → H` each finished method equals
the corresponding part of the hand model `Acme.Graph` (state compared look-up by look-up, `Heq`;
outcome; `dangling` ↔ `unsupported`).  `R_err_unchanged_*` is C06's atomicity for the GENERATED
code of every translated writer, with no model and no hypothesis.

Hypotheses.  `Closed g` (no dangling id in the world: the heap of a Go program always is closed;
the model totalises look-ups of missing entities instead).  `AddNodeInterface`: the interface is
not attached yet (the model's D25 boundary: the code has no such check), and — only for
`R_Bus_AddNodeInterface_statics_order` — no two sent messages of the interface share a static
CAN-ID (`SentI.static_get` of `Inv`): with two equal ids the bus index would depend on the map
iteration order.  Nothing else.
-/
import Acme.Proofs.GenRegistryBus
import Acme.Proofs.GenRegistryAddNI
import Acme.Proofs.GenRegistryAtomic

namespace Acme.Props.GenRegistry
open Acme Acme.Graph Acme.RegSem Acme.Gen Acme.GenR

/-! ### helpers.go: `set[K,V]` (Go map semantics: add overwrites, remove of an absent key is a no-op) -/

theorem R_set_add {κ : Type} [DecidableEq κ] (r : Reg κ) (k : κ) (v : Nat) :
    R.set_add r k v = Reg.add r k v := set_add_eq r k v

theorem R_set_remove {κ : Type} [DecidableEq κ] (r : Reg κ) (k : κ) :
    R.set_remove r k = Reg.remove r k := set_remove_eq r k

theorem R_set_hasKey {κ : Type} [DecidableEq κ] (r : Reg κ) (k : κ) :
    R.set_hasKey r k = Reg.has r k := set_hasKey_eq r k

theorem R_set_getValue {κ : Type} [DecidableEq κ] (r : Reg κ) (k : κ) :
    R.set_getValue r k = match Reg.get r k with
      | some v => (some v, none)
      | none => (none, some ⟨.ErrNotFound, ""⟩) := set_getValue_eq r k

theorem R_set_verifyKeyUnique {κ : Type} [DecidableEq κ] (r : Reg κ) (k : κ) :
    R.set_verifyKeyUnique r k = if Reg.has r k then some ⟨.ErrIsDuplicated, ""⟩ else none :=
  set_verifyKeyUnique_eq r k

theorem R_set_modifyKey {κ : Type} [DecidableEq κ] (r : Reg κ) (a b : κ) (v : Nat) :
    R.set_modifyKey r a b v = Reg.add (Reg.remove r a) b v := set_modifyKey_eq r a b v

theorem R_set_clear {κ ν : Type} [DecidableEq κ] (s : GoMap κ ν) : R.set_clear s = [] := set_clear_eq s

theorem R_set_size {κ : Type} [DecidableEq κ] (r : Reg κ) : R.set_size r = (r.length : Int) := set_size_eq r

/-- the same operations on an `AMap` (keys = entity ids) -/
theorem R_set_amap {α : Type} (m : AMap α) (k : Nat) (v : α) :
    (⟨R.set_add m.l k v⟩ : AMap α) = m.set k v ∧ (⟨R.set_remove m.l k⟩ : AMap α) = m.erase k ∧
    (R.set_getValue m.l k).1 = m.get k := by
  refine ⟨rfl, rfl, ?_⟩
  unfold R.set_getValue AMap.get GoMap.lookup
  cases m.l.find? (fun p => decide (p.1 = k)) <;> rfl

/-! ### bus.go: the four checks -/

theorem R_Bus_verifyNodeName (g : G) (b : Nat) (name : String) :
    R.Bus_verifyNodeName (view g) b name = match g.buses.get b with
      | none => .dangling
      | some bus => .val (if bus.nodeNames.has name then some dupErr else none) :=
  Bus_verifyNodeName_eq g b name

theorem R_Bus_verifyNodeID (g : G) (b : Nat) (nid : Nat) :
    R.Bus_verifyNodeID (view g) b nid = match g.buses.get b with
      | none => .dangling
      | some bus => .val (if bus.nodeIDs.has nid then some dupErr else none) :=
  Bus_verifyNodeID_eq g b nid

theorem R_Bus_verifyStaticCANID (g : G) (b : Nat) (c : Nat) :
    R.Bus_verifyStaticCANID (view g) b c = match g.buses.get b with
      | none => .dangling
      | some bus => .val (if bus.staticIDs.has c then some dupErr else none) :=
  Bus_verifyStaticCANID_eq g b c

theorem R_Bus_verifyMessageSize (g : G) (b : Nat) (size : Int) :
    R.Bus_verifyMessageSize (view g) b size = match g.buses.get b with
      | none => .dangling
      | some _ => .val (if busSizeOK size then none else some bigErr) :=
  Bus_verifyMessageSize_eq g b size

/-! ### bus.go: RemoveNodeInterface -/

/-- the generated `Bus.RemoveNodeInterface` IS the model's `busRemoveIface` step: same final
state (look-up by look-up), same outcome (`ok` / `err notFound`), outside the model together -/
theorem R_Bus_RemoveNodeInterface (g : G) (b nodeId : Nat) (hc : Closed g) :
    ObsEq (obs (R.Bus_RemoveNodeInterface (view g) b nodeId)) (obsG (stepBusRemoveIface g b nodeId)) :=
  R_Bus_RemoveNodeInterface_raw g b nodeId hc

/-! ### bus.go: AddNodeInterface, for EVERY order in which the loop visits the sent messages -/

theorem R_Bus_AddNodeInterface_nil (h : H) (b : Nat) (ord : List Nat) :
    R.Bus_AddNodeInterface h b none ord = .val (h, some ⟨.ErrIsNil, "nodeInterface"⟩) := rfl

/-- accepted together with the model, with the model's final state up to the ORDER in which the
static CAN-IDs were entered into the bus index (see `_statics_order`); refused together with the
model, heap untouched, with the model's cause — except that when a too-big message AND a clashing
static CAN-ID are both present the code reports whichever the map iteration meets first -/
theorem R_Bus_AddNodeInterface (g : G) (b i : Nat) (ord : List Nat) (bus : BusE) (ifc : IfaceE) (hc : Closed g)
    (hb : g.buses.get b = some bus) (hi : g.ifaces.get i = some ifc) (hperm : ord.Perm ifc.sent.vals)
    (hpb : ifc.parentBus = none) :
    match (stepBusAddIface g b i).2 with
    | .ok => ∃ h', R.Bus_AddNodeInterface (view g) b (some i) ord = .val (h', none) ∧
        Heq h' (view (withStatics (stepBusAddIface g b i).1 b (addAll bus.staticIDs (addAll [] (staticOf g ord)))))
    | .err c => ∃ e, R.Bus_AddNodeInterface (view g) b (some i) ord = .val (view g, some e) ∧
        (ofCause e.cause = c ∨ (c = .tooBig ∧ e.cause = .ErrIsDuplicated ∧
          ifc.sent.vals.any (tooBigB g) = true ∧ ifc.sent.vals.any (clashB g bus) = true))
    | _ => False :=
  addNI_main g b i ord bus ifc hc hb hi hperm hpb

theorem R_Bus_AddNodeInterface_statics_order (g : G) (r : Reg Nat) (ord vals : List Nat) (hperm : ord.Perm vals)
    (hf : ∀ k v v', (k, v) ∈ staticOf g vals → (k, v') ∈ staticOf g vals → v = v') (c : Nat) :
    Reg.get (addAll r (addAll [] (staticOf g ord))) c = Reg.get (addAll r (staticOf g vals)) c :=
  statics_order g r ord vals hperm hf c

/-! ### no panic (where the equalities exist) -/

theorem R_no_panic_Bus_RemoveNodeInterface (g : G) (b nodeId : Nat) (hc : Closed g) :
    R.Bus_RemoveNodeInterface (view g) b nodeId ≠ .panic := by
  intro hp
  have h := R_Bus_RemoveNodeInterface_raw g b nodeId hc
  rw [hp] at h
  unfold stepBusRemoveIface busRemoveIfaceCore at h
  (repeat' split at h) <;> simp_all [obs, obsG, ObsEq]

theorem R_no_panic_Bus_AddNodeInterface (g : G) (b i : Nat) (ord : List Nat) (bus : BusE) (ifc : IfaceE) (hc : Closed g)
    (hb : g.buses.get b = some bus) (hi : g.ifaces.get i = some ifc) (hperm : ord.Perm ifc.sent.vals)
    (hpb : ifc.parentBus = none) :
    R.Bus_AddNodeInterface (view g) b (some i) ord ≠ .panic := by
  intro hp
  have h := addNI_main g b i ord bus ifc hc hb hi hperm hpb
  rw [hp] at h
  split at h <;> simp_all

/-! ### C06 read off the generated code: an error leaves the heap as it was -/

theorem R_err_unchanged_Bus_AddNodeInterface (h : H) (b : Nat) (ni : Option Nat) (ord : List Nat) (h' : H) (e : R.Err) :
    R.Bus_AddNodeInterface h b ni ord = .val (h', some e) → h' = h := Bus_AddNodeInterface_err h b ni ord h' e

theorem R_err_unchanged_Bus_RemoveNodeInterface (h : H) (b x : Nat) (h' : H) (e : R.Err) :
    R.Bus_RemoveNodeInterface h b x = .val (h', some e) → h' = h := Bus_RemoveNodeInterface_err h b x h' e

theorem R_err_unchanged_Bus_UpdateName (h : H) (b : Nat) (n : String) (h' : H) (e : R.Err) :
    R.Bus_UpdateName h b n = .val (h', some e) → h' = h := Bus_UpdateName_err h b n h' e

theorem R_err_unchanged_NodeInterface_AddSentMessage (h : H) (ni : Nat) (m : Option Nat) (h' : H) (e : R.Err) :
    R.NodeInterface_AddSentMessage h ni m = .val (h', some e) → h' = h :=
  NodeInterface_AddSentMessage_err h ni m h' e

theorem R_err_unchanged_NodeInterface_RemoveSentMessage (h : H) (ni m : Nat) (h' : H) (e : R.Err) :
    R.NodeInterface_RemoveSentMessage h ni m = .val (h', some e) → h' = h :=
  NodeInterface_RemoveSentMessage_err h ni m h' e

theorem R_err_unchanged_NodeInterface_AddReceivedMessage (h : H) (ni : Nat) (m : Option Nat) (h' : H) (e : R.Err) :
    R.NodeInterface_AddReceivedMessage h ni m = .val (h', some e) → h' = h :=
  NodeInterface_AddReceivedMessage_err h ni m h' e

theorem R_err_unchanged_NodeInterface_RemoveReceivedMessage (h : H) (ni m : Nat) (h' : H) (e : R.Err) :
    R.NodeInterface_RemoveReceivedMessage h ni m = .val (h', some e) → h' = h :=
  NodeInterface_RemoveReceivedMessage_err h ni m h' e

theorem R_err_unchanged_Node_UpdateName (h : H) (n : Nat) (nm : String) (h' : H) (e : R.Err) :
    R.Node_UpdateName h n nm = .val (h', some e) → h' = h := Node_UpdateName_err h n nm h' e

theorem R_err_unchanged_Node_UpdateID (h : H) (n nid : Nat) (h' : H) (e : R.Err) :
    R.Node_UpdateID h n nid = .val (h', some e) → h' = h := Node_UpdateID_err h n nid h' e

/-- the translated writers that return an error are exactly the nine above -/
theorem R_err_unchanged_covers :
    (R.methods.filter (fun m => m.2.2.1)).map (·.1) =
      ["set.add", "set.remove", "set.modifyKey", "set.clear",
       "Bus.AddNodeInterface", "Bus.RemoveNodeInterface", "Bus.RemoveAllNodeInterfaces", "Bus.UpdateName",
       "NodeInterface.addReceivedMessage", "NodeInterface.removeReceivedMessage",
       "NodeInterface.AddSentMessage", "NodeInterface.RemoveSentMessage",
       "NodeInterface.RemoveAllSentMessages", "NodeInterface.AddReceivedMessage",
       "NodeInterface.RemoveReceivedMessage", "Node.UpdateName", "Node.UpdateID"] := by decide

end Acme.Props.GenRegistry
