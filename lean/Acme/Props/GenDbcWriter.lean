/-
Public obligations of translator stage 11 (C08): the DBC writer REGENERATED from /repo/dbc/writer.go
(`Acme.Gen.W`, tools/extract/kernels_dbcwriter*.go, rebuilt from the current source by bin/check)
prints, section by section, an explicit layout of the token list of the hand model
`Acme.Dbc.writeToks` - and that layout is admissible, so the text-level round trip of
`Acme.Props.C08Text` holds for the text of the GENERATED writer, no layout quantifier left.

`WritesLayout text fs ts ok`:
* `text out = out ++ render lead l` for every text `out` written so far, where
  `(lead, l) = layoutOf fs` is the explicit separator assignment of the fragment list `fs`
  (`Acme/Proofs/GenDbcWriterSec*.lean`: the model's tokens with the blanks the writer prints);
* the tokens of `l` are exactly `ts` (the hand model's token list for the section);
* under `ok` (the section's part of `DbcWF`; `True` for most sections: only float texts need it,
  a non-finite float prints `+Inf` as the two glued tokens `+` `Inf`) the layout is admissible:
  `lead` blank and `chainOK l`.
-/
import Acme.Props.C08Text
import Acme.Proofs.GenDbcWriterFile

namespace Acme.Props.GenDbcWriter
open Acme.Dbc Acme.Dbc.Scan Acme.GenW Acme.Gen

def WritesLayout (text : String → String) (fs : List Frag) (ts : List Token) (ok : Prop) : Prop :=
  (∀ out, text out = out ++ render (layoutOf fs).1 (layoutOf fs).2) ∧
  (layoutOf fs).2.map (·.1) = ts ∧
  (ok → isBlankStr (layoutOf fs).1 = true ∧ chainOK (layoutOf fs).2 = true)

theorem writesLayout_intro {text : String → String} {fs : List Frag} {ts : List Token} {ok : Prop}
    (h1 : ∀ out, text out = out ++ fragText fs) (h2 : toks fs = ts) (h3 : ok → SecOK fs) :
    WritesLayout text fs ts ok :=
  ⟨appends_of_text h1, by rw [layoutOf_toks, h2], fun h => admissible_of_secOK (h3 h)⟩

/-- VERSION ".." and an empty line -/
theorem W_version (h : Bool) (ver : String) :
    WritesLayout (W.writeVersion h ver) (frVersion ver) (Acme.Dbc.writeVersion ver) (True) :=
  writesLayout_intro (text_version h ver) (toks_frVersion ver) (fun _ => ok_version ver)

/-- NS_: one symbol per line behind a tab -/
theorem W_newSymbols (h : Bool) (syms : List String) :
    WritesLayout (W.writeNewSymbols h syms) (frNewSymbols syms) (Acme.Dbc.writeNewSymbols syms) (True) :=
  writesLayout_intro (text_newSymbols h syms) (toks_frNewSymbols syms) (fun _ => ok_newSymbols syms)

/-- BS_: [baud : reg1, reg2] -/
theorem W_bitTiming (h : Bool) (bt : BitTiming) :
    WritesLayout (W.writeBitTiming h bt) (frBitTiming bt) (Acme.Dbc.writeBitTiming bt) (True) :=
  writesLayout_intro (text_bitTiming h bt) (toks_frBitTiming bt) (fun _ => ok_bitTiming bt)

/-- BU_: names -/
theorem W_nodes (h : Bool) (names : List String) :
    WritesLayout (W.writeNodes h names) (frNodes names) (Acme.Dbc.writeNodes names) (True) :=
  writesLayout_intro (text_nodes h names) (toks_frNodes names) (fun _ => ok_nodes names)

/-- VAL_TABLE_ -/
theorem W_valueTable (h : Bool) (vt : ValueTable) :
    WritesLayout (W.writeValueTable h vt) (frValueTable vt) (Acme.Dbc.writeValueTable vt) (True) :=
  writesLayout_intro (text_valueTable h vt) (toks_frValueTable vt) (fun _ => ok_valueTable vt)

/-- SG_ (one line of a message) -/
theorem W_signal (h : Bool) (sig : Signal) :
    WritesLayout (W.writeSignal h sig) (frSignal sig) (Acme.Dbc.writeSignal sig) (signalOK finiteFloatText sig = true) :=
  writesLayout_intro (text_signal h sig) (toks_frSignal sig) (fun hx => ok_signal sig hx)

/-- BO_ with its signals -/
theorem W_message (h : Bool) (msg : Message) :
    WritesLayout (W.writeMessage h msg) (frMessage msg) (Acme.Dbc.writeMessage msg) (messageOK finiteFloatText msg = true) :=
  writesLayout_intro (text_message h msg) (toks_frMessage msg) (fun hx => ok_message msg hx)

/-- BO_TX_BU_ -/
theorem W_messageTransmitter (h : Bool) (mt : MessageTransmitter) :
    WritesLayout (W.writeMessageTransmitter h mt) (frMessageTransmitter mt) (Acme.Dbc.writeMessageTransmitter mt) (True) :=
  writesLayout_intro (text_messageTransmitter h mt) (toks_frMessageTransmitter mt) (fun _ => ok_messageTransmitter mt)

/-- EV_ -/
theorem W_envVar (h : Bool) (ev : EnvVar) :
    WritesLayout (W.writeEnvVar h ev) (frEnvVar ev) (Acme.Dbc.writeEnvVar ev) (envVarOK finiteFloatText ev = true) :=
  writesLayout_intro (text_envVar h ev) (toks_frEnvVar ev) (fun hx => ok_envVar ev hx)

/-- ENVVAR_DATA_ -/
theorem W_envVarData (h : Bool) (d : EnvVarData) :
    WritesLayout (W.writeEnvVarData h d) (frEnvVarData d) (Acme.Dbc.writeEnvVarData d) (True) :=
  writesLayout_intro (text_envVarData h d) (toks_frEnvVarData d) (fun _ => ok_envVarData d)

/-- SGTYPE_ (definition) -/
theorem W_signalType (h : Bool) (st : SignalType) :
    WritesLayout (W.writeSignalType h st) (frSignalType st) (Acme.Dbc.writeSignalType st) (signalTypeOK finiteFloatText st = true) :=
  writesLayout_intro (text_signalType h st) (toks_frSignalType st) (fun hx => ok_signalType st hx)

/-- CM_ -/
theorem W_comment (h : Bool) (c : Comment) :
    WritesLayout (W.writeComment h c) (frComment c) (Acme.Dbc.writeComment c) (True) :=
  writesLayout_intro (text_comment h c) (toks_frComment c) (fun _ => ok_comment c)

/-- BA_DEF_ -/
theorem W_attribute (h : Bool) (a : Attribute) :
    WritesLayout (W.writeAttribute h a) (frAttribute h a) (Acme.Dbc.writeAttribute h a) (attributeOK finiteFloatText a = true) :=
  writesLayout_intro (text_attribute h a) (toks_frAttribute h a) (fun hx => ok_attribute h a hx)

/-- BA_DEF_DEF_ -/
theorem W_attributeDefault (h : Bool) (d : AttributeDefault) :
    WritesLayout (W.writeAttributeDefault h d) (frAttributeDefault h d) (Acme.Dbc.writeAttributeDefault h d) (attributeDefaultOK finiteFloatText d = true) :=
  writesLayout_intro (text_attributeDefault h d) (toks_frAttributeDefault h d) (fun hx => ok_attributeDefault h d hx)

/-- BA_ -/
theorem W_attributeValue (h : Bool) (v : AttributeValue) :
    WritesLayout (W.writeAttributeValue h v) (frAttributeValue h v) (Acme.Dbc.writeAttributeValue h v) (attributeValueOK finiteFloatText v = true) :=
  writesLayout_intro (text_attributeValue h v) (toks_frAttributeValue h v) (fun hx => ok_attributeValue h v hx)

/-- VAL_ -/
theorem W_valueEncoding (h : Bool) (ve : ValueEncoding) :
    WritesLayout (W.writeValueEncoding h ve) (frValueEncoding ve) (Acme.Dbc.writeValueEncoding ve) (True) :=
  writesLayout_intro (text_valueEncoding h ve) (toks_frValueEncoding ve) (fun _ => ok_valueEncoding ve)

/-- SGTYPE_ (reference) -/
theorem W_signalTypeRef (h : Bool) (r : SignalTypeRef) :
    WritesLayout (W.writeSignalTypeRef h r) (frSignalTypeRef r) (Acme.Dbc.writeSignalTypeRef r) (True) :=
  writesLayout_intro (text_signalTypeRef h r) (toks_frSignalTypeRef r) (fun _ => ok_signalTypeRef r)

/-- SIG_GROUP_ -/
theorem W_signalGroup (h : Bool) (g : SignalGroup) :
    WritesLayout (W.writeSignalGroup h g) (frSignalGroup g) (Acme.Dbc.writeSignalGroup g) (True) :=
  writesLayout_intro (text_signalGroup h g) (toks_frSignalGroup g) (fun _ => ok_signalGroup g)

/-- SIG_VALTYPE_ -/
theorem W_signalExtValueType (h : Bool) (t : SignalExtValueType) :
    WritesLayout (W.writeSignalExtValueType h t) (frSignalExtValueType t) (Acme.Dbc.writeSignalExtValueType t) (True) :=
  writesLayout_intro (text_signalExtValueType h t) (toks_frSignalExtValueType t) (fun _ => ok_signalExtValueType t)

/-- SG_MUL_VAL_ -/
theorem W_extendedMux (h : Bool) (m : ExtendedMux) :
    WritesLayout (W.writeExtendedMux h m) (frExtendedMux m) (Acme.Dbc.writeExtendedMux m) (True) :=
  writesLayout_intro (text_extendedMux h m) (toks_frExtendedMux m) (fun _ => ok_extendedMux m)

/-- the `format*` helpers are the number / string text functions of `Core/Dbc.lean` (floats: the
float-as-text convention, `formatDouble` is the identity on the FormatFloat(x,'f',-1,64) text) -/
theorem W_format (h : Bool) (n : Nat) (i : Int) (x s : String) :
    W.formatUint h n = Acme.Dbc.formatUint n ∧ W.formatInt h i = Acme.Dbc.formatInt i ∧
    W.formatHexInt h n = Acme.Dbc.formatHexInt h n ∧ W.formatDouble h x = x ∧
    W.formatString h s = tokText (.string s) :=
  ⟨rfl, rfl, text_formatHexInt h n, rfl, rfl⟩

/-- `writeSlice`: the elements in order, one more new line behind the LAST element (nothing for an empty slice) -/
theorem W_writeSlice {α : Type} (fr : α → List Frag) (wf : α → String → String) (nl : String → String)
    (hwf : ∀ x out, wf x out = out ++ fragText (fr x)) (hnl : ∀ out, nl out = out ++ "\n") (xs : List α) (out : String) :
    W.writeSlice xs wf nl out = out ++ fragText (frSlice fr xs) :=
  text_slice fr wf nl hwf hnl xs out

/-- the regenerated tables of keyword.go are the tables of the hand model -/
theorem W_tables : W.newSymbolsValues = Acme.Dbc.newSymbolsValues ∧
    W.envVarAccessTypes.map (fun p => (accessTypeName p.2, p.2)) = W.envVarAccessTypes := by decide

/-- `writeFile`: every section in the order of the hand model -/
theorem W_writeFile (h : Bool) (f : File) :
    WritesLayout (W.writeFile h f) (frFile h f) (Acme.Dbc.writeFile h f) (DbcWF h f) :=
  writesLayout_intro (text_file h f) (toks_frFile h f) (fun hw => ok_file h f hw)

/-- the scanner reads the text of the GENERATED writer as the hand model's token list -/
theorem W_text_tokens (h : Bool) (f : File) (hw : DbcWF h f) :
    scanToks (utf8 (W.writeFile h f "")) = writeToks h f := by
  obtain ⟨h1, h2, h3⟩ := W_writeFile h f
  obtain ⟨hb, hc⟩ := h3 hw
  have := Acme.Props.C09Scan.scan_render _ _ hb
    (by rw [h2]; exact Acme.Props.C08Text.writeFile_scanWF h f hw) hc
  rw [h1 "", String.empty_append, this, h2]; rfl

/-- C08 on the text of the GENERATED writer: write (code regenerated from writer.go), scan (byte level),
parse = the document up to `norm`; no layout quantifier, no hypothesis beyond `DbcWF` -/
theorem W_text_roundtrip (h : Bool) (f : File) (hw : DbcWF h f) :
    parseToks h (scanToks (utf8 (W.writeFile h f ""))) = .ok (norm h f) := by
  obtain ⟨h1, h2, h3⟩ := W_writeFile h f
  obtain ⟨hb, hc⟩ := h3 hw
  rw [h1 "", String.empty_append]
  exact Acme.Props.C08Text.C08_text_roundtrip_any h f hw _ _ h2 hb hc

/-- the same for the exported entry point `dbc.Write(w, ast, hexNumbersEnabled)` on an empty io.Writer -/
theorem W_Write_roundtrip (h : Bool) (f : File) (hw : DbcWF h f) :
    parseToks h (scanToks (utf8 (W.Write f h))) = .ok (norm h f) :=
  W_text_roundtrip h f hw

end Acme.Props.GenDbcWriter
