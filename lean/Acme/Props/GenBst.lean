/-
GenBst — C19 hangs on the SOURCE TEXT of /repo/internal/interval_bst.go.

What is generated.  On every run /verif/tools/extract (kernels_bst*.go) parses the CURRENT
interval_bst.go (go/ast + go/types) and translates every function of the tree to a Lean
definition in `Acme/Gen/Bst.lean` (namespace `Acme.Gen.Bst`; not tracked, rewritten before
every build):

    (*node[T]).updateHeight, updateMax, balanceFactor, rotateRight, rotateLeft, findMin (+ its
    loop `findMin_loop1`), lessThan;  (*IntervalBST[T]).insertNode, Insert, deleteNode, Delete,
    Size, IsEmpty, intersectsNode, Intersects, inOrderTraversal, GetAllIntervals,
    checkOtherIntervals, CanUpdateInterval, Clear

Idiom: `*node[T]` ↦ the generated inductive `Tree` (nil ↦ leaf, the fields of `struct node` in
declaration order); pointers are executed symbolically on a heap of cells, so a write through an
alias (`leftNode.right = n` … `n.updateHeight()`) is seen through the other name, and the result
is read back as a tree (sharing or a cycle is a loud extractor failure); `t.size++ / --` is
threaded (a function returns the new `t.size`, `t.root` next to its Go result); a dereference of a
pointer that is not known non-nil on that path is `match .. | .leaf => .panic`, so a function
whose Go code can dereference nil returns `GoSem.Res`; `for n.left != nil { n = n.left }` is the
structurally recursive `findMin_loop1`.  Items are (low, high) pairs of unbounded `Int`.

What is proved (Acme/Proofs/GenBst*.lean).  `abs` re-orders the constructor arguments of the
generated tree into the hand model's (Acme.Avl.Tree) and is a bijection (B_abs_conc, B_conc_abs).
Every generated function, seen through `abs`, EQUALS the model function, for ALL trees and all
arguments — no invariant is assumed anywhere; `Res.panic` corresponds to the model's `none`, so
the equalities also say that the code dereferences nil exactly where the model says so
(B_rotateRight_panic_iff: only on nil or a node without left child).  The C19 theorems then say
that on every history from the empty tree the generated code never panics (B_C19_history).

What breaks when the Go code changes.  A semantic change of any of the functions changes the
generated text and falsifies the equality of that function (and of its callers); a rewrite
outside the translator's subset makes the extractor exit non-zero with file:line.
-/
import Acme.Props.C19
import Acme.Proofs.GenBstDelete

namespace Acme.Props.GenBst
open Acme.GoSem (Res)
open Acme.Gen.Bst (Tree)
open Acme.GenBst
open Acme.Avl (Op Inv specRun anyOverlap anyOtherOverlap)

/-! ### the abstraction is a bijection -/

theorem B_conc_abs (t : Tree) : conc (abs t) = t := conc_abs t
theorem B_abs_conc (t : Acme.Avl.Tree) : abs (conc t) = t := abs_conc t

/-! ### node methods -/

/-- `updateHeight`: height := 1 + max of the children's height fields (0 for nil); panics on nil only. -/
theorem B_updateHeight (lo hi mx : Int) (l r : Tree) (h : Int) :
    Acme.Gen.Bst.updateHeight (.node lo hi mx l r h) =
      .val (.node lo hi mx l r (1 + max (Acme.Avl.height (abs l)) (Acme.Avl.height (abs r)))) := by
  simp

/-- `updateHeight` followed by `updateMax` is the model's `mk`. -/
theorem B_updateMax (lo hi mx : Int) (l r : Tree) (h : Int) :
    absR (match Acme.Gen.Bst.updateHeight (.node lo hi mx l r h) with
      | .panic => Res.panic
      | .val n => Acme.Gen.Bst.updateMax n) = some (Acme.Avl.mk (abs l) lo hi (abs r)) := by
  simp only [updateHeight_node, updateMax_node, absR_val]
  rw [← abs_gmk]; rfl

theorem B_balanceFactor (t : Tree) :
    toOpt (Acme.Gen.Bst.balanceFactor t) =
      (match t with | .leaf => none | _ => some (Acme.Avl.bf (abs t))) :=
  balanceFactor_eq t

theorem B_rotateRight (t : Tree) :
    absR (Acme.Gen.Bst.rotateRight t) = Acme.Avl.rotateRight (abs t) := rotateRight_eq t

theorem B_rotateLeft (t : Tree) :
    absR (Acme.Gen.Bst.rotateLeft t) = Acme.Avl.rotateLeft (abs t) := rotateLeft_eq t

/-- the exact panic condition of the rotations -/
theorem B_rotateRight_panic_iff (t : Tree) :
    Acme.Gen.Bst.rotateRight t = .panic ↔ (t = .leaf ∨ ∃ lo hi mx r h, t = .node lo hi mx .leaf r h) :=
  rotateRight_panic_iff t

theorem B_rotateLeft_panic_iff (t : Tree) :
    Acme.Gen.Bst.rotateLeft t = .panic ↔ (t = .leaf ∨ ∃ lo hi mx l h, t = .node lo hi mx l .leaf h) :=
  rotateLeft_panic_iff t

/-- `findMin`: the item of the node it returns is the model's; it panics on nil only. -/
theorem B_findMin (t : Tree) :
    (toOpt (Acme.Gen.Bst.findMin t)).bind rootItem = Acme.Avl.findMin (abs t) := findMin_eq t

theorem B_findMin_no_panic (lo hi mx : Int) (l r : Tree) (h : Int) :
    ∃ lo' hi' mx' l' r' h', Acme.Gen.Bst.findMin (.node lo hi mx l r h) = .val (.node lo' hi' mx' l' r' h') :=
  findMin_loop1_node lo hi mx l r h

theorem B_lessThan (nlo nhi mx : Int) (l r : Tree) (h lo hi : Int) :
    Acme.Gen.Bst.lessThan (.node nlo nhi mx l r h) lo hi = .val (Acme.Avl.lessThan lo hi nlo nhi) :=
  lessThan_node nlo nhi mx l r h lo hi

/-! ### tree methods -/

/-- `insertNode`: same subtree (through `abs`), same panics, `t.size` incremented exactly once. -/
theorem B_insertNode (t : Tree) (size lo hi : Int) :
    absP (Acme.Gen.Bst.insertNode size t lo hi) =
      (Acme.Avl.insertNode (abs t) lo hi).map (fun u => (u, size + 1)) := insertNode_eq t size lo hi

/-- `deleteNode`: same subtree, same panics, `t.size` changed by the model's delta. -/
theorem B_deleteNode (t : Tree) (size lo hi : Int) :
    absP (Acme.Gen.Bst.deleteNode size t lo hi) =
      (Acme.Avl.deleteNode (abs t) lo hi).map (fun p => (p.1, size + p.2)) := deleteNode_eq t size lo hi

theorem B_Insert (root : Tree) (size lo hi : Int) :
    absP (Acme.Gen.Bst.Insert root size lo hi) =
      (Acme.Avl.step { root := abs root, size := size } (.insert lo hi)).map (fun t => (t.root, t.size)) :=
  Insert_eq root size lo hi

theorem B_Delete (root : Tree) (size lo hi : Int) :
    absP (Acme.Gen.Bst.Delete root size lo hi) =
      (Acme.Avl.step { root := abs root, size := size } (.delete lo hi)).map (fun t => (t.root, t.size)) :=
  Delete_eq root size lo hi

theorem B_Clear (root : Tree) (size : Int) :
    some (abs (Acme.Gen.Bst.Clear root size).1, (Acme.Gen.Bst.Clear root size).2) =
      (Acme.Avl.step { root := abs root, size := size } .clear).map (fun t => (t.root, t.size)) :=
  Clear_eq root size

theorem B_Size (size : Int) : Acme.Gen.Bst.Size size = size := rfl
theorem B_IsEmpty (size : Int) : Acme.Gen.Bst.IsEmpty size = decide (size = 0) := rfl

theorem B_intersectsNode (t : Tree) (lo hi : Int) :
    Acme.Gen.Bst.intersectsNode t lo hi = Acme.Avl.intersectsNode (abs t) lo hi := intersectsNode_eq t lo hi

theorem B_Intersects (root : Tree) (size lo hi : Int) :
    Acme.Gen.Bst.Intersects root size lo hi = Acme.Avl.intersects { root := abs root, size := size } lo hi :=
  Intersects_eq root size lo hi

theorem B_checkOtherIntervals (t : Tree) (lo hi slo shi : Int) :
    Acme.Gen.Bst.checkOtherIntervals t lo hi slo shi = Acme.Avl.checkOther (abs t) lo hi slo shi :=
  checkOtherIntervals_eq t lo hi slo shi

theorem B_CanUpdateInterval (root : Tree) (size slo shi lo hi : Int) :
    Acme.Gen.Bst.CanUpdateInterval root size slo shi lo hi =
      Acme.Avl.canUpdate { root := abs root, size := size } slo shi lo hi :=
  CanUpdateInterval_eq root size slo shi lo hi

theorem B_inOrderTraversal (t : Tree) (acc : List (Int × Int)) :
    Acme.Gen.Bst.inOrderTraversal t acc = acc ++ Acme.Avl.inorder (abs t) := inOrderTraversal_eq t acc

theorem B_GetAllIntervals (root : Tree) (size : Int) :
    Acme.Gen.Bst.GetAllIntervals root size = Acme.Avl.inorder (abs root) := GetAllIntervals_eq root size

/-! ### histories of the GENERATED public mutators -/

/-- one public mutator of the translated code on the state (t.root, t.size) -/
def gstep (t : Tree × Int) : Op → Res (Tree × Int)
  | .insert lo hi => Acme.Gen.Bst.Insert t.1 t.2 lo hi
  | .delete lo hi => Acme.Gen.Bst.Delete t.1 t.2 lo hi
  | .clear => .val (Acme.Gen.Bst.Clear t.1 t.2)

def grun : Tree × Int → List Op → Res (Tree × Int)
  | t, [] => .val t
  | t, op :: ops => match gstep t op with
    | .panic => .panic
    | .val t' => grun t' ops

/-- `NewIntervalBST()`: root nil, size 0 -/
def empty : Tree × Int := (.leaf, 0)

theorem B_step (t : Tree × Int) (op : Op) :
    absP (gstep t op) =
      (Acme.Avl.step { root := abs t.1, size := t.2 } op).map (fun b => (b.root, b.size)) := by
  cases op with
  | insert lo hi => exact Insert_eq t.1 t.2 lo hi
  | delete lo hi => exact Delete_eq t.1 t.2 lo hi
  | clear => simp [gstep, Acme.Gen.Bst.Clear, Acme.Avl.step]

/-- every history of the generated mutators is the model's history -/
theorem B_run (ops : List Op) (t : Tree × Int) :
    absP (grun t ops) =
      (Acme.Avl.run { root := abs t.1, size := t.2 } ops).map (fun b => (b.root, b.size)) := by
  induction ops generalizing t with
  | nil => obtain ⟨r, s⟩ := t; simp [grun, Acme.Avl.run]
  | cons op ops ih =>
    have hs := B_step t op
    simp only [grun, Acme.Avl.run]
    cases hg : gstep t op with
    | panic =>
      rw [hg] at hs
      cases hm : Acme.Avl.step { root := abs t.1, size := t.2 } op with
      | none => simp
      | some b => rw [hm] at hs; simp at hs
    | val t' =>
      obtain ⟨r', s'⟩ := t'
      rw [hg] at hs
      cases hm : Acme.Avl.step { root := abs t.1, size := t.2 } op with
      | none => rw [hm] at hs; simp at hs
      | some b =>
        rw [hm] at hs
        simp only [absP_val, Option.map_some, Option.some.injEq, Prod.mk.injEq] at hs
        obtain ⟨h1, h2⟩ := hs
        have := ih (r', s')
        simp only [Option.bind_some]
        rw [this]
        cases b
        simp_all

theorem run_from_empty (ops : List Op) :
    absP (grun empty ops) = (Acme.Avl.run {} ops).map (fun b => (b.root, b.size)) := by
  simpa [empty] using B_run ops empty

/-- C19 for the generated code: after every history from the empty tree the translated
    Insert / Delete / Clear have not dereferenced nil, the tree is ordered, every height field is
    the true height, every node is balanced, every max field is the subtree maximum, `t.size` is
    the number of stored items, and `GetAllIntervals` is a permutation of the abstract multiset. -/
theorem B_C19_history (ops : List Op) :
    ∃ root size, grun empty ops = .val (root, size) ∧ Inv (abs root) ∧
      size = (Acme.Gen.Bst.GetAllIntervals root size).length ∧
      (Acme.Gen.Bst.GetAllIntervals root size).Perm (specRun [] ops) := by
  obtain ⟨b, hb, hinv, hsz, hperm⟩ := Acme.Props.C19.C19_history ops
  have h := run_from_empty ops
  rw [hb] at h
  cases hg : grun empty ops with
  | panic => rw [hg] at h; simp at h
  | val p =>
    obtain ⟨root, size⟩ := p
    rw [hg] at h
    simp only [absP_val, Option.map_some, Option.some.injEq, Prod.mk.injEq] at h
    obtain ⟨h1, h2⟩ := h
    refine ⟨root, size, rfl, ?_, ?_, ?_⟩
    · rw [h1]; exact hinv
    · rw [GetAllIntervals_eq, h1, h2]; exact hsz
    · rw [GetAllIntervals_eq, h1]; exact hperm

theorem model_of_grun {ops : List Op} {root : Tree} {size : Int}
    (h : grun empty ops = .val (root, size)) :
    Acme.Avl.run {} ops = some { root := abs root, size := size } := by
  have h' := run_from_empty ops
  rw [h] at h'
  cases hm : Acme.Avl.run {} ops with
  | none => rw [hm] at h'; simp at h'
  | some b =>
    rw [hm] at h'
    cases b
    simp_all

/-- `GetAllIntervals` of the generated code reports the contents in ascending (low, high) order. -/
theorem B_C19_sorted (ops : List Op) (root : Tree) (size : Int)
    (h : grun empty ops = .val (root, size)) :
    (Acme.Gen.Bst.GetAllIntervals root size).Pairwise (fun a b => a.1 < b.1 ∨ (a.1 = b.1 ∧ a.2 ≤ b.2)) := by
  rw [GetAllIntervals_eq]
  exact Acme.Props.C19.C19_sorted ops _ (model_of_grun h)

/-- The generated `Intersects` = brute-force scan over pairwise disjoint contents. -/
theorem B_C19_intersects (ops : List Op) (root : Tree) (size : Int)
    (h : grun empty ops = .val (root, size))
    (hd : (Acme.Gen.Bst.GetAllIntervals root size).Pairwise (fun a b => a.2 < b.1 ∨ b.2 < a.1))
    (lo hi : Int) :
    Acme.Gen.Bst.Intersects root size lo hi =
      anyOverlap (Acme.Gen.Bst.GetAllIntervals root size) lo hi := by
  rw [GetAllIntervals_eq] at hd ⊢
  rw [Intersects_eq]
  exact Acme.Props.C19.C19_intersects ops _ (model_of_grun h) hd lo hi

/-- The generated `CanUpdateInterval` = brute-force scan over the other intervals. -/
theorem B_C19_canUpdate (ops : List Op) (root : Tree) (size : Int)
    (h : grun empty ops = .val (root, size))
    (hd : (Acme.Gen.Bst.GetAllIntervals root size).Pairwise (fun a b => a.2 < b.1 ∨ b.2 < a.1))
    (slo shi : Int) (hs : (slo, shi) ∈ Acme.Gen.Bst.GetAllIntervals root size) (lo hi : Int) :
    Acme.Gen.Bst.CanUpdateInterval root size slo shi lo hi =
      !(anyOtherOverlap (Acme.Gen.Bst.GetAllIntervals root size) slo shi lo hi) := by
  rw [GetAllIntervals_eq] at hd hs ⊢
  rw [CanUpdateInterval_eq]
  exact Acme.Props.C19.C19_canUpdate ops _ (model_of_grun h) hd slo shi hs lo hi

/-- `insertNode` / `deleteNode` of the generated code do not dereference nil on a tree that
    satisfies the invariant (on arbitrary trees they can: see B_rotateRight_panic_iff). -/
theorem B_insertNode_no_panic (t : Tree) (size lo hi : Int) (hi' : Inv (abs t)) :
    ∃ t', Acme.Gen.Bst.insertNode size t lo hi = .val (t', size + 1) := by
  obtain ⟨hb, hh, hbal, hm, _⟩ := hi'
  obtain ⟨u, hu, _⟩ := Acme.Avl.insertNode_spec (abs t) lo hi hb hh hbal hm
  have h := insertNode_eq t size lo hi
  rw [hu] at h
  cases hg : Acme.Gen.Bst.insertNode size t lo hi with
  | panic => rw [hg] at h; simp at h
  | val p =>
    obtain ⟨t', s'⟩ := p
    rw [hg] at h
    simp only [absP_val, Option.map_some, Option.some.injEq, Prod.mk.injEq] at h
    exact ⟨t', by rw [h.2]⟩

theorem B_deleteNode_no_panic (t : Tree) (size lo hi : Int) (hi' : Inv (abs t)) :
    ∃ t' size', Acme.Gen.Bst.deleteNode size t lo hi = .val (t', size') := by
  obtain ⟨hb, hh, hbal, hm, _⟩ := hi'
  obtain ⟨u, d, hu, _⟩ := Acme.Avl.deleteNode_spec (abs t) lo hi hb hh hbal hm
  have h := deleteNode_eq t size lo hi
  rw [hu] at h
  cases hg : Acme.Gen.Bst.deleteNode size t lo hi with
  | panic => rw [hg] at h; simp at h
  | val p => exact ⟨p.1, p.2, rfl⟩

/-- a witness that the panic is real on a tree OUTSIDE the invariant (a height field that lies):
    deleting the left leaf of a node whose right child claims height -5 makes `deleteNode` call
    `rotateRight` on a node without left child, which dereferences nil. -/
theorem B_deleteNode_panic_witness :
    Acme.Gen.Bst.deleteNode 2 (.node 5 6 8 (.node 1 2 2 .leaf .leaf 1) (.node 7 8 8 .leaf .leaf (-5)) 2) 1 2
      = .panic := by
  decide

/-! ### non-vacuity: the generated code on the C19 sample history -/

example : (toOpt (grun empty Acme.Props.C19.sampleOps)).map
    (fun t => (Acme.Gen.Bst.GetAllIntervals t.1 t.2, Acme.Gen.Bst.Size t.2)) =
    some ([(0,1),(3,3),(10,12),(13,14),(20,30)], 5) := by decide

end Acme.Props.GenBst
