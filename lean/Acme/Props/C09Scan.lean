/-
C09 (scanner part) — the byte-level scanner: totality, token positions, rendering round trip.

  … and a syntax error names the file, line and column of the offending token.

Model: `Acme.Core.DbcScan` (`scanAll` = `dbc.VerifScan`: bytes → tokens with line / column, every
byte string, invalid UTF-8 included), tied to `/repo/dbc/scanner.go` by the lines `dbc scan` of
the harness stream `dbc`.  Specification vocabulary: `Acme.Spec.DbcScan`.

a. `scan_total`     — the fuel of the scan loop never runs out; the token list ends with the
                      first `eof` / `error` token.
b. `scan_positions` — every token that has a first rune carries the line / column of that rune
                      as defined independently in the Spec (`lineAt`, `colAt`), its raw value is
                      the text at that offset, tokens do not overlap and their positions strictly
                      increase, the final `eof` token included: it has no rune and is located at
                      `endPos` (Spec), just behind the last rune (`scan_eof_position`; this is
                      the behaviour of /repo since commit 6914cb1 — before, the token carried the
                      stale start position of the token before it).
c. `scan_render`    — printing a token list of the scanner's image (`ScanWF`) with blank separators
                      (empty ones where the tokens cannot merge: `chainOK`) and scanning the bytes
                      of the text gives the token list back.  `scan_render_ws`: the special case of
                      non-empty blank separators everywhere.
                      `ScanWF` (each token's text, scanned alone, is read completely as that token)
                      is the exact image of the scanner; `TokensWF` of `Acme.Spec.Dbc` is only a
                      necessary condition on number tokens (`tokensWF_not_sufficient`).
                      `scan_render_tokensWF`: the same with `TokensWF` as the hypothesis, for token
                      lists without `eof`/`error` whose NUMBER tokens have one of the shapes the
                      writer prints (`writerNumOK`: `-?digits(.digits)?`, `0x` + 1..9 hex digits,
                      `digits-digits`); for every other kind `tokenOK` alone suffices
                      (`Acme.Dbc.Scan.lexAlone_of_tokenOK`).
                      `scan_parse_write`: composition with `C08_write_parse` — parsing the scanned
                      bytes of a printed writer token list gives the document up to `norm`.
-/
import Acme.Core.DbcScan
import Acme.Spec.DbcScan
import Acme.Proofs.DbcScanBasic
import Acme.Proofs.DbcScanPos
import Acme.Proofs.DbcScanRender
import Acme.Proofs.DbcScanImage
import Acme.Core.DbcWrite
import Acme.Core.DbcParse
import Acme.Props.C08

namespace Acme.Props.C09Scan
open Acme.Dbc Acme.Dbc.Scan

/-! ## a. totality -/

/-- the structural fuel `length + 1` of the scan loop never runs out, on any item list -/
theorem scan_total_items (items : List Item) :
    ∃ ts, scanFuel (items.length + 1) { inp := items } = some ts := by
  have := scanFuel_isSome (items.length + 1) { inp := items } (Nat.lt_succ_self _)
  exact Option.isSome_iff_exists.mp this

/-- on every byte string the scan loop terminates within its fuel; the result (space tokens
included) is a non-empty list whose last token is the first `eof` or `error` token -/
theorem scan_total (bs : List UInt8) :
    ∃ pre t, scanFuel ((decode bs).length + 1) { inp := decode bs } = some (pre ++ [t]) ∧
      scanItemsAll (decode bs) = pre ++ [t] ∧
      (t.kind = .eof ∨ t.kind = .error) ∧ ∀ u ∈ pre, u.kind ≠ .eof ∧ u.kind ≠ .error := by
  obtain ⟨ts, hts⟩ := scan_total_items (decode bs)
  obtain ⟨pre, t, rfl, ht, hpre⟩ := scanFuel_shape _ _ _ hts
  exact ⟨pre, t, hts, by simp [scanItemsAll, hts], ht, hpre⟩

/-- `VerifScan`'s result is never empty: its last token is an `eof` or an `error` token -/
theorem scan_last (bs : List UInt8) :
    ∃ pre t, scanAll bs = pre ++ [t] ∧ (t.kind = .eof ∨ t.kind = .error) := by
  obtain ⟨pre, t, _, h, ht, _⟩ := scan_total bs
  refine ⟨pre.filter (fun t => t.kind != .space), t, ?_, ht⟩
  have : (t.kind != Kind.space) = true := by
    rcases ht with h | h <;> simp [h]
  simp [scanAll, scanItems, h, List.filter_append, this]

/-! ## b. positions -/

/-- the facts of `scan_positions` for the list WITH the space tokens -/
theorem scan_positions_all (bs : List UInt8) :
    let rs := rds (decode bs)
    let ts := scanItemsAll (decode bs)
    (∀ t ∈ ts, TokGood rs t) ∧ Chain 0 ts := by
  intro rs ts
  obtain ⟨l, hl⟩ := scan_total_items (decode bs)
  have := scanFuel_spec (decode bs) _ _ l (inv_init _) hl
  simpa [ts, scanItemsAll, hl] using this

/-- Positions.  `rs` = the runes of the text as `ReadRune` delivers them, `ts` = `VerifScan`'s
tokens.
1. A token that has a first rune (every token but the `eof` at the real end of the input) has
   `t.len ≥ 1` runes, lies inside the text, its raw value is the text at rune offset `t.off`, and
   its position is `(lineAt rs t.off, colAt rs t.off)`: the line and column of its first rune.
2. A token without a rune is the `eof` token at the end of the text (`t.off = rs.length`) and its
   position is `endPos rs`: the line of the end and the column just behind the last rune.
3. Tokens do not overlap and appear in text order.
4. Positions strictly increase (lexicographically) along the whole token list, the final `eof`
   token included. -/
theorem scan_positions (bs : List UInt8) :
    let rs := rds (decode bs)
    let ts := scanAll bs
    (∀ t ∈ ts, t.raw ≠ [] →
        1 ≤ t.len ∧ t.off + t.len ≤ rs.length ∧ t.raw = (rs.drop t.off).take t.len ∧
        t.pos = ⟨lineAt rs t.off, colAt rs t.off⟩) ∧
    (∀ t ∈ ts, t.raw = [] → t.kind = .eof ∧ t.off = rs.length ∧ t.len = 0 ∧ t.pos = endPos rs) ∧
    ts.Pairwise (fun a b => a.off + a.len ≤ b.off) ∧
    ts.Pairwise (fun a b => Pos.lt a.pos b.pos) := by
  intro rs ts
  obtain ⟨hall, hch⟩ := scan_positions_all bs
  have hrs : rs = rds (decode bs) := rfl
  rw [← hrs] at hall
  have hsub : ts.Sublist (scanItemsAll (decode bs)) := List.filter_sublist
  have hmem : ∀ t ∈ ts, t ∈ scanItemsAll (decode bs) ∧ t.kind ≠ .space := by
    intro t ht
    have := List.mem_filter.mp ht
    exact ⟨this.1, by simpa using this.2⟩
  have hpw := (chain_pairwise _ _ hch).sublist hsub
  have hlen : ∀ t ∈ scanItemsAll (decode bs), t.raw ≠ [] → 1 ≤ t.len := by
    intro t ht hne
    have hg := hall t ht
    rw [hg.len_eq]
    cases h : t.raw with
    | nil => exact absurd h hne
    | cons c cs => simp
  -- the shape of the list: everything before the last token has runes
  obtain ⟨pre, tl, _, hshape, htl, hpre⟩ := scan_total bs
  have hprene : ∀ a ∈ pre, a.raw ≠ [] := by
    intro a ha hnil
    have hg := hall a (by rw [hshape]; simp [ha])
    exact (hpre a ha).1 (hg.eof_of_nil hnil)
  -- positions increase from a token with runes to any later token
  have hlt : ∀ a b, a ∈ scanItemsAll (decode bs) → b ∈ scanItemsAll (decode bs) → a.raw ≠ [] →
      a.off + a.len ≤ b.off → Pos.lt a.pos b.pos := by
    intro a b ha hb hane hab
    have hga := hall a ha
    have hgb := hall b hb
    have h1 := hlen a ha hane
    rw [hga.pos_eq hane]
    by_cases hbne : b.raw = []
    · rw [hgb.nil_pos hbne]
      have := hga.in_range
      exact posAfter_lt_endPos rs _ (by omega)
    · rw [hgb.pos_eq hbne]
      have := hlen b hb hbne
      have := hgb.in_range
      exact posAfter_lt' rs _ _ (by omega) (by omega)
  refine ⟨?_, ?_, hpw, ?_⟩
  · intro t ht hne
    have hg := hall t (hmem t ht).1
    have h1 := hlen t (hmem t ht).1 hne
    refine ⟨h1, hg.in_range, hg.raw_eq, ?_⟩
    rw [hg.pos_eq hne]
    have hlt : t.off < rs.length := by have := hg.in_range; omega
    apply posAfter_succ rs t.off hlt
    intro hnl
    -- a token whose first rune is a new line is a space token
    have hhead : t.raw.head? = some '\n' := by
      rw [hg.raw_eq]
      have : (List.drop t.off rs) = rs[t.off] :: List.drop (t.off + 1) rs := by simp
      rw [this, hnl]
      cases hl : t.len with
      | zero => omega
      | succ n => simp
    exact (hmem t ht).2 (hg.space _ hhead (by decide))
  · intro t ht hnil
    have hg := hall t (hmem t ht).1
    exact ⟨hg.eof_of_nil hnil, hg.nil_off hnil, by rw [hg.len_eq, hnil]; rfl, hg.nil_pos hnil⟩
  · -- `ts = filter pre ++ [tl]`; every token of `pre` has runes
    have hts : ts = pre.filter (fun t => t.kind != .space) ++ [tl] := by
      show (scanItemsAll (decode bs)).filter _ = _
      have hk : (tl.kind != Kind.space) = true := by rcases htl with h | h <;> simp [h]
      rw [hshape, List.filter_append]
      simp [hk]
    have hmem' : ∀ a b, a ∈ ts → b ∈ ts → a ∈ pre → a.off + a.len ≤ b.off → Pos.lt a.pos b.pos := by
      intro a b ha hb hap hab
      exact hlt a b (hmem a ha).1 (hmem b hb).1 (hprene a hap) hab
    have hpw' : ts.Pairwise (fun a b => a ∈ pre → Pos.lt a.pos b.pos) := by
      refine hpw.imp_of_mem ?_
      intro a b ha hb hab hap
      exact hmem' a b ha hb hap hab
    rw [hts] at hpw' ⊢
    rw [List.pairwise_append] at hpw' ⊢
    refine ⟨?_, List.pairwise_singleton _ _, ?_⟩
    · exact hpw'.1.imp_of_mem (fun ha _ hR => hR (List.mem_filter.mp ha).1)
    · intro a ha b hb
      exact hpw'.2.2 a ha b hb (List.mem_filter.mp ha).1

/-- The final `eof` token: when the input ends (no NUL byte, no error token before) the last
token of `VerifScan` is the `eof` token without a rune; it is located just behind the last rune:
`endPos rs` = (1 + number of new lines of the text, 1 + width of the text behind the last new
line) — `(1,1)` on an empty input, `(line+1, 1)` behind a trailing new line. -/
theorem scan_eof_position (bs : List UInt8) (pre : List PTok) (t : PTok)
    (h : scanAll bs = pre ++ [t]) (hraw : t.raw = []) :
    t.kind = .eof ∧ t.pos = endPos (rds (decode bs)) ∧ ∀ u ∈ pre, Pos.lt u.pos t.pos := by
  obtain ⟨_, h2, _, h4⟩ := scan_positions bs
  have ht := h2 t (by rw [h]; simp) hraw
  refine ⟨ht.1, ht.2.2.2, ?_⟩
  intro u hu
  have h4' : (pre ++ [t]).Pairwise (fun a b => Pos.lt a.pos b.pos) := by rw [← h]; exact h4
  rw [List.pairwise_append] at h4'
  exact h4'.2.2 u hu t (by simp)

/-! ## c. rendering round trip -/

/-- Printing and scanning.  `l` = the tokens, each with the separator printed behind it; `lead` =
the blanks in front.  If every token is in the image of the scanner (`ScanWF`) and every separator
is a blank string that is non-empty unless the two tokens cannot merge (`chainOK`: `noMerge` — the
token in front is a string or a punctuation other than a sign, or the next text starts with a
quote or a punctuation other than `-`, or a number is followed by the punctuation `-`), then
scanning the UTF-8 bytes of `lead t₁ sep₁ t₂ sep₂ … tₙ sepₙ` yields exactly `t₁ … tₙ eof`. -/
theorem scan_render (lead : String) (l : List (Token × String))
    (hlead : isBlankStr lead = true) (hwf : ScanWF (l.map (·.1))) (hch : chainOK l = true) :
    scanToks (utf8 (render lead l)) = l.map (·.1) ++ [.eof] := by
  rw [scanToks_eq, decode_utf8]
  apply render_scan_lead lead l hlead hch
  intro p hp
  exact alone_of_lexAlone (hwf p.1 (List.mem_map_of_mem hp))

theorem chainOK_of_nonempty (l : List (Token × String))
    (h : ∀ p ∈ l, isBlankStr p.2 = true ∧ p.2.isEmpty = false) : chainOK l = true := by
  induction l with
  | nil => rfl
  | cons p l ih =>
    cases l with
    | nil => exact (h p (by simp)).1
    | cons q l =>
      rw [chainOK_cons2, ih (fun x hx => h x (by simp [hx]))]
      simp [sepOK, (h p (by simp)).1, (h p (by simp)).2]

/-- the whitespace-only form: token list `ts`, one non-empty blank separator behind each token -/
theorem scan_render_ws (ts : List Token) (seps : List String) (hlen : seps.length = ts.length)
    (hwf : ScanWF ts) (hseps : ∀ s ∈ seps, isBlankStr s = true ∧ s.isEmpty = false) :
    scanToks (utf8 (render "" (ts.zip seps))) = ts ++ [.eof] := by
  have hmap : (ts.zip seps).map (·.1) = ts := by
    rw [List.map_fst_zip]; omega
  have := scan_render "" (ts.zip seps) rfl (by rw [hmap]; exact hwf)
    (chainOK_of_nonempty _ (fun p hp => hseps p.2 (List.of_mem_zip hp).2))
  rwa [hmap] at this

/-- The form with `TokensWF` (Spec/Dbc.lean): every token satisfies `tokenOK`, none is `eof` /
`error` (they have no text), and the number tokens have one of the writer's shapes. -/
theorem scan_render_tokensWF (lead : String) (l : List (Token × String))
    (hlead : isBlankStr lead = true) (hwf : TokensWF (l.map (·.1)))
    (hnum : ∀ t ∈ l.map (·.1), writerNumOK t = true) (htext : ∀ t ∈ l.map (·.1), hasText t = true)
    (hch : chainOK l = true) :
    scanToks (utf8 (render lead l)) = l.map (·.1) ++ [.eof] :=
  scan_render lead l hlead (scanWF_of_tokensWF _ hwf hnum htext) hch

/-! ## composition with C08: text → tokens → document -/

/-- Write, print, scan, parse.  `l` is the token list of the writer for a well-formed document
(`writeToks h f` without its final `eof`), each token with the separator printed behind it.  If the
tokens are in the image of the scanner (`ScanWF`, decidable; `scanWF_of_tokensWF` gives it from
`TokensWF` + writer-shaped numbers) and the separators are admissible (`chainOK`), then scanning
the BYTES of the text and parsing the tokens yields the document up to `norm`: C08's round trip
holds on the text level of the model, not only on the token level. -/
theorem scan_parse_write (h : Bool) (f : File) (hw : DbcWF h f) (lead : String)
    (l : List (Token × String)) (htoks : writeToks h f = l.map (·.1) ++ [.eof])
    (hlead : isBlankStr lead = true) (hscan : ScanWF (l.map (·.1))) (hch : chainOK l = true) :
    parseToks h (scanToks (utf8 (render lead l))) = .ok (norm h f) := by
  rw [scan_render lead l hlead hscan hch, ← htoks]
  exact Acme.Props.C08.C08_write_parse h f hw

/-- `TokensWF` (Spec/Dbc.lean) does not characterise the image of the scanner on number tokens:
`number "+"` satisfies it, but the text `+` is a punctuation token. -/
theorem tokensWF_not_sufficient :
    TokensWF [.number "+"] ∧ scanToks (utf8 (render "" [(.number "+", "")])) = [.punct "+", .eof] := by
  decide

/-! ## examples: the hypotheses are satisfiable on non-trivial inputs -/

/-- `SG_ s m3M : 3|4@1- (1.5e-3,0) [-0.5|0x1F] "°C"  N,3-5` with the writer's spacing -/
def exLine : List (Token × String) :=
  [(.keyword "SG_", " "), (.ident "s", " "), (.muxIndicator "m3M", " "), (.punct ":", " "),
   (.number "3", ""), (.punct "|", ""), (.number "4", ""), (.punct "@", ""), (.number "1", ""),
   (.punct "-", " "), (.punct "(", ""), (.number "1.5e-3", ""), (.punct ",", ""), (.number "0", ""),
   (.punct ")", " \t"), (.punct "[", ""), (.number "-0.5", ""), (.punct "|", ""), (.number "0x1F", ""),
   (.punct "]", " "), (.string "°C", "  "), (.ident "N", ""), (.punct ",", ""),
   (.numberRange "3-5", "\r\n")]

set_option maxHeartbeats 1000000 in
theorem exLine_wf : ScanWF (exLine.map (·.1)) := by decide

theorem exLine_chain : chainOK exLine = true := by decide

/-- `scan_render` applies to `exLine` -/
example : scanToks (utf8 (render "\n" exLine)) = exLine.map (·.1) ++ [.eof] :=
  scan_render "\n" exLine (by decide) exLine_wf exLine_chain

/-- `scan_render_tokensWF` applies to `exLine` without the exponent number (not a writer shape) -/
example : let l := exLine.filter (fun p => p.1 != .number "1.5e-3")
    scanToks (utf8 (render " " l)) = l.map (·.1) ++ [.eof] :=
  scan_render_tokensWF " " _ (by decide) (by decide) (by decide) (by decide) (by decide)

/-- `scan_render_ws` applies to a token list with blank separators -/
example : scanToks (utf8 (render "" ([.keyword "BO_", .number "1", .muxIndicator "M", .punct ":",
      .number "8", .ident "N"].zip [" ", "\t", "\n", " ", "  ", "\r\n"]))) =
    [.keyword "BO_", .number "1", .muxIndicator "M", .punct ":", .number "8", .ident "N", .eof] :=
  scan_render_ws _ _ rfl (by decide) (by decide)

/-- the bytes of `A \n \t x blank 1 \n` -/
def exBytes : List UInt8 := [0x41, 0x0A, 0x09, 0x78, 0x20, 0x31, 0x0A]

/-- `scan_total` / `scan_positions` on a concrete input: `x` behind a tab at the start of line 2
is in column 6, the final `eof` is located behind the trailing new line: line 3, column 1 -/
example : (scanAll exBytes).map (fun t => (t.kind, t.pos.line, t.pos.col, t.off, t.len)) =
    [(.ident, 1, 1, 0, 1), (.ident, 2, 6, 3, 1), (.number, 2, 8, 5, 1), (.eof, 3, 1, 7, 0)] := by
  decide

/-- invalid UTF-8: the byte FF is read as one rune U+FFFD in column 3 and reported as an
unrecognised symbol -/
example : (scanAll [0x41, 0x20, 0xFF, 0x42]).map (fun t => (t.kind, t.pos.line, t.pos.col, t.msg, t.raw)) =
    [(.ident, 1, 1, "", ['A']), (.error, 1, 3, "unrecognized symbol", [Char.ofNat 0xFFFD])] := by
  decide

/-- `scan_eof_position`'s hypotheses hold for `exBytes` (the last token has no rune) -/
example : ∃ pre t, scanAll exBytes = pre ++ [t] ∧ t.raw = [] ∧ t.kind = .eof ∧
    t.pos = endPos (rds (decode exBytes)) ∧ t.pos = ⟨3, 1⟩ := by
  obtain ⟨pre, t, h, _⟩ := scan_last exBytes
  have hlast : ((scanAll exBytes).getLast?.map (fun t => (t.raw, t.pos))) = some ([], ⟨3, 1⟩) := by decide
  rw [h] at hlast
  simp only [List.getLast?_append, List.getLast?_singleton, Option.some_or, Option.map_some,
    Option.some.injEq, Prod.mk.injEq] at hlast
  have := scan_eof_position exBytes pre t h hlast.1
  exact ⟨pre, t, h, hlast.1, this.1, this.2.1, hlast.2⟩

/-! ### composition example: a document with one message and one signed signal in `°C` -/

def exSig : Signal :=
  { name := "s"
    size := 4
    startBit := 3
    valueType := ValueType.signed
    factor := "0.5"
    offset := "-1"
    min := "0"
    max := "7.5"
    unit := "°C"
    receivers := ["A"] }

def exMsg : Message :=
  { id := 1
    name := "Msg"
    size := 8
    transmitter := "A"
    signals := [exSig] }

def exDoc : File :=
  { version := "1"
    newSymbols := some []
    bitTiming := some {}
    nodes := some ["A"]
    messages := [exMsg] }

/-- the writer's tokens of `exDoc`, each followed by a new line and a blank -/
def exDocLine : List (Token × String) := (writeFile true exDoc).map (fun t => (t, "\n "))

/-- `scan_parse_write` applies to `exDoc` -/
example : parseToks true (scanToks (utf8 (render "" exDocLine))) = .ok (norm true exDoc) :=
  scan_parse_write true exDoc (by decide) "" exDocLine (by simp [exDocLine, writeToks, Function.comp_def])
    (by decide) (by decide) (by decide)

end Acme.Props.C09Scan
