/-
C11 at MESSAGE level, NESTED multiplexers (extended multiplexing, `SG_MUL_VAL_`) —
"export then import reproduces the DBC-expressible model".

`Acme.Import.exportAny` / `exportMsgN` (Acme/Core/ImportNested.lean) model
`exporter.exportMessage` with the recursive `exportMultiplexerSignal` (a nested multiplexer is
written `m<k>M`, its children follow it, every child at every depth gets an SG_MUL_VAL_ entry, the
quirk `Signals[len-1].MuxSwitchValue = id` included); `Acme.Import.importMsg` models
`importer.importMessage`, whose third case rebuilds the nested multiplexers from the last written
start bit to the first.  Both are tied to the real code by stream `imp` (harness/s_imp.go), and the
driver of that stream evaluates both sides of the statement below on every generated tree of the
class (`THEOREM-VIOLATION` otherwise).

  export_import_nested_statement   the full statement, as a proposition
  export_import_nested             … proved, for every tree of the class (any depth, both byte orders)
  export_import_nested_node        one multiplexer read back by `importMuxSignal` (the step of the proof)
  normN_flat, expressibleN_flat    the flat theorem `C11Msg.export_import` is the special case
  examples                         fixture message msg_1 (id 32), a depth-3 tree; what happens outside

`ExpressibleN`, `normN`: Acme/Spec/ExportImportNested.lean (decidable; the header there lists the
conditions and why each is needed).
-/
import Acme.Spec.ExportImportNested
import Acme.Props.C11Msg
import Acme.Proofs.ExportNestedRound7

namespace Acme.Props.C11Nested
open Acme.Layout Acme.Conv Acme.Arith Acme.Import

/-- The full statement: export then import is the identity up to `normN` on `ExpressibleN`. -/
def export_import_nested_statement : Prop :=
  ∀ t : ITree, ExpressibleN t → importMsg (exportAny t) = .ok (normN t)

/-! ### the flat class is the special case -/

theorem normN_flat (t : ITree) (h : t.nested = []) : normN t = norm t := by
  unfold normN
  rw [if_pos h]

/-- on a tree without nested nodes the class is the class of `C11Msg.export_import` -/
theorem expressibleN_flat (t : ITree) (h : t.nested = []) : ExpressibleN t ↔ Expressible t := by
  constructor
  · rintro (h1 | h1)
    · exact h1
    · exact absurd h h1.2.2.2.1
  · exact Or.inl

theorem expressible_not_nested (t : ITree) (h : Expressible t) : hasNested t = false := by
  obtain ⟨_, _, _, _, _, hm, _, hn⟩ := h
  unfold hasNested
  rw [hn]
  simp only [List.isEmpty_nil, Bool.not_true, Bool.false_or]
  apply List.any_eq_false.2
  intro x hx
  cases x with
  | sig l => simp
  | mux n =>
    have := hm n ((mem_muxesOf _ _).2 hx)
    simp only [Bool.not_eq_true]
    apply List.any_eq_false.2
    intro c hc
    simp [(this.2.2.2.2.2.1 c hc).2.2.2.2]

/-- the flat theorem, read through the nested vocabulary -/
theorem export_import_nested_flat (t : ITree) (h : Expressible t) : importMsg (exportAny t) = .ok (normN t) := by
  have hn : t.nested = [] := h.2.2.2.2.2.2.2
  rw [normN_flat t hn]
  unfold exportAny
  rw [expressible_not_nested t h]
  exact Acme.Props.C11Msg.export_import t h

/-! ### one multiplexer of the class, read back -/

/-- `importMuxSignal`, handed ANY signals that carry the names, positions, sizes and multiplexor
    flags of the children of a multiplexer of expressible shape (nested multiplexers as built:
    with their total size), rebuilds exactly that multiplexer, in the order of the signals —
    given an SG_MUL_VAL_ entry for every child, as the exporter writes them for a multiplexer that
    is nested or holds a nested one.  The switch values of the signals are not read. -/
theorem export_import_nested_node (E : List DExt) (n : MuxNode) (hs : MuxShapeN n)
    (hn : (n.children.map (·.name)).Nodup) (h0 : 0 ≤ n.start)
    (hE : ∀ c ∈ n.children, findExt E c.name = some (extN n c))
    (mx : DSig) (hm1 : mx.name = n.name) (hm2 : sigPos mx = n.start) (hm3 : (mx.size : Int) = n.selW)
    (cs : List Child) (ks : List DSig) (hks : ks.map sigCore = cs.map (kidCore n))
    (hperm : cs.Perm n.children) :
    importMux E mx ks = .ok { n with children := cs } :=
  importMux_nested E n (muxOKN_of n hs hn) h0 hE mx hm1 hm2 hm3 cs ks hks hperm

/-! ### the theorem -/

/-- Export then import is the identity up to `normN` on `ExpressibleN`: nested multiplexers of any
    depth, in one group / several groups / fixed, little endian or big endian with the nested
    multiplexors written above their parents.  Proof: Acme/Proofs/ExportNested*.lean
    (`NCtx.round`; the exported signals are described up to their switch values, which the
    exporter's `Signals[len-1].MuxSwitchValue = id` rewrites and the importer does not read). -/
theorem export_import_nested (t : ITree) (h : ExpressibleN t) : importMsg (exportAny t) = .ok (normN t) := by
  rcases h with h | h
  · exact export_import_nested_flat t h
  · obtain ⟨r, _, c⟩ := nctx_of t h
    have hne : t.nested ≠ [] := c.ne
    have hN : hasNested t = true := by
      unfold hasNested
      cases hn : t.nested with
      | nil => exact absurd hn hne
      | cons a l => simp
    unfold exportAny normN
    rw [if_pos hN, if_neg hne]
    exact c.round

/-- the full statement holds -/
theorem export_import_nested_full : export_import_nested_statement := export_import_nested

/-- the flat theorem `C11Msg.export_import` as a corollary of the nested one -/
theorem export_import_nested_corollary_flat (t : ITree) (h : Expressible t) :
    importMsg (exportMsg t) = .ok (norm t) := by
  have := export_import_nested t (Or.inl h)
  rw [normN_flat t h.2.2.2.2.2.2.2] at this
  unfold exportAny at this
  rw [expressible_not_nested t h] at this
  exact this

/-- the normal form keeps id, size, byte order, and on the nested class the number of nodes -/
theorem export_import_nested_shape (t : ITree) (h : ExpressibleN t) :
    ∃ t', importMsg (exportAny t) = .ok t' ∧ t'.id = t.id ∧ t'.sizeByte = t.sizeByte ∧
      t'.bigEndian = t.bigEndian ∧ t'.top.length = t.top.length := by
  refine ⟨normN t, export_import_nested t h, ?_⟩
  unfold normN
  split
  · exact ⟨rfl, rfl, rfl, by simp [norm]⟩
  · exact ⟨rfl, rfl, rfl, by simp [normNested]⟩

/-! ### examples -/

open Acme.Props.C10Msg (fxMsg fxTree)
open Acme.Props.C11Msg (nestedBE nestedBE1 nestedLE)

/-- the fixture message msg_1 (id 32: `nested_mux_sig_1` inside `mux_sig_1`) is in the class … -/
theorem fx_expressibleN : ExpressibleN fxTree := by decide

/-- … it is its own normal form … -/
theorem fx_normN : normN fxTree = fxTree := by decide

/-- a tree of depth 3 (a multiplexer in a multiplexer in a multiplexer, top-level signals before
    and after, children in one group, in several groups, nested multiplexers in one and in two
    groups) -/
def depth3 : ITree :=
  { id := 5, sizeByte := 8, bigEndian := false,
    top := [.sig ⟨"lead", 0, 3⟩,
            .mux ⟨"r", 3, 1, 2, 20, [⟨"a", 0, 20, [1], false⟩, ⟨"n1", 0, 12, [0], true⟩, ⟨"fx", 12, 8, [0], false⟩]⟩,
            .sig ⟨"tail", 30, 8⟩],
    nested := [⟨"n1", 4, 2, 4, 10, [⟨"b", 0, 10, [0, 2], false⟩, ⟨"n2", 2, 8, [1, 3], true⟩, ⟨"c", 0, 2, [1], false⟩]⟩,
               ⟨"n2", 8, 1, 2, 7, [⟨"d", 0, 7, [0], false⟩, ⟨"e", 3, 4, [1], false⟩, ⟨"f", 0, 3, [1], false⟩]⟩] }

theorem depth3_expressibleN : ExpressibleN depth3 := by decide

/-- … the instances of the theorem -/
theorem fx_round_nested : importMsg (exportAny fxTree) = .ok (normN fxTree) :=
  export_import_nested fxTree fx_expressibleN

theorem depth3_round : importMsg (exportAny depth3) = .ok (normN depth3) :=
  export_import_nested depth3 depth3_expressibleN

/-- the API calls build exactly this tree -/
theorem depth3_build : buildAny depth3 = .ok depth3 := by decide

/-- its normal form: per multiplexer the plain children by written start bit, then the nested
    multiplexer; `nested` from the last written start bit to the first -/
theorem depth3_normN : normN depth3 =
    { id := 5, sizeByte := 8, bigEndian := false,
      top := [.sig ⟨"lead", 0, 3⟩,
              .mux ⟨"r", 3, 1, 2, 20, [⟨"a", 0, 20, [1], false⟩, ⟨"fx", 12, 8, [0], false⟩, ⟨"n1", 0, 12, [0], true⟩]⟩,
              .sig ⟨"tail", 30, 8⟩],
      nested := [⟨"n2", 8, 1, 2, 7, [⟨"d", 0, 7, [0], false⟩, ⟨"f", 0, 3, [1], false⟩, ⟨"e", 3, 4, [1], false⟩]⟩,
                 ⟨"n1", 4, 2, 4, 10, [⟨"b", 0, 10, [0, 2], false⟩, ⟨"c", 0, 2, [1], false⟩, ⟨"n2", 2, 8, [1, 3], true⟩]⟩] } := by
  decide

/-! What happens outside the class. -/

/-- big endian, nested multiplexor written BELOW its parent: outside the class, and refused -/
theorem ex_BE_outside : ¬ ExpressibleN nestedBE ∧ importMsg (exportAny nestedBE) = .error .precede := by decide

/-- big endian with the nested multiplexor written ABOVE its parent (parent selector at position 7,
    written start bit 0; nested at position 8, written start bit 15): inside, round trip -/
def nestedBEok : ITree :=
  { id := 1, sizeByte := 8, bigEndian := true,
    top := [.mux ⟨"p", 7, 1, 2, 6, [⟨"a", 0, 6, [1], false⟩, ⟨"n", 0, 6, [0], true⟩]⟩],
    nested := [⟨"n", 8, 1, 2, 5, [⟨"k", 0, 5, [1], false⟩]⟩] }

theorem ex_BE_inside : ExpressibleN nestedBEok := by decide

theorem ex_BE_round : importMsg (exportAny nestedBEok) = .ok (normN nestedBEok) :=
  export_import_nested nestedBEok ex_BE_inside

/-- an EMPTY nested multiplexer (D76): outside the class, refused -/
def nestedEmpty : ITree :=
  { id := 1, sizeByte := 8, bigEndian := false,
    top := [.mux ⟨"p", 0, 1, 2, 6, [⟨"a", 0, 6, [1], false⟩, ⟨"n", 0, 6, [0], true⟩]⟩],
    nested := [⟨"n", 1, 1, 2, 5, []⟩] }

theorem ex_empty_outside :
    ¬ ExpressibleN nestedEmpty ∧ importMsg (exportAny nestedEmpty) = .error .groupSizeZero := by decide

/-- a second, flat top-level multiplexer next to a nested one (D54): outside, refused -/
def nestedTwoTop : ITree :=
  { id := 1, sizeByte := 8, bigEndian := false,
    top := [.mux ⟨"p", 0, 1, 2, 6, [⟨"a", 0, 6, [1], false⟩, ⟨"n", 0, 6, [0], true⟩]⟩,
            .mux ⟨"q", 16, 1, 2, 4, [⟨"z", 0, 4, [0], false⟩]⟩],
    nested := [⟨"n", 1, 1, 2, 5, [⟨"k", 0, 5, [1], false⟩]⟩] }

theorem ex_two_top_outside :
    ¬ ExpressibleN nestedTwoTop ∧ importMsg (exportAny nestedTwoTop) = .error .extMuxRequired := by decide

/-- slack at the end of the groups of a nested multiplexer: outside; the group size is lost, and
    with it the size of the child entry in the parent -/
def nestedSlack : ITree :=
  { id := 1, sizeByte := 8, bigEndian := false,
    top := [.mux ⟨"p", 0, 1, 2, 8, [⟨"a", 0, 8, [1], false⟩, ⟨"n", 0, 8, [0], true⟩]⟩],
    nested := [⟨"n", 1, 1, 2, 7, [⟨"k", 0, 5, [1], false⟩]⟩] }

theorem ex_slack_outside : ¬ ExpressibleN nestedSlack ∧ importMsg (exportAny nestedSlack) ≠ .ok (normN nestedSlack) := by
  decide

end Acme.Props.C11Nested
