/-
C13 / C09 / C10 (the "never panics" half), as a proof obligation over an inventory that is
REGENERATED from the source on every run (Acme.Gen.PanicSites, written by
/verif/tools/extract): every expression in the DBC scanner / parser, the importer and the
loader that can panic by itself — index and slice expressions, one-result type assertions,
explicit `panic`, field access through a pointer-typed protobuf field, `make` with a
computed size.

* `C13_loader_sites`: loader.go contains no such expression at all (it reads the
  protobuf tree through the nil-safe getters only).
* `panic_sites_classified`: the whole inventory is, entry by entry, the hand-classified
  table Acme.Expect.panicSites (each entry with the guard that makes it safe).

A change that adds, removes or rewrites such an expression changes the regenerated list and
breaks these theorems; panics raised further down (by the model mutators the loader and the
importer call) are observed by streams `saveload`, `expimp` and `dbc`.
-/
import Acme.Proofs.SitesPanic

namespace Acme.Props.C13

theorem C13_loader_sites :
    Acme.Gen.panicSites.filter (fun s => s.1 = "loader.go") = [] := by decide

theorem panic_sites_classified :
    Acme.Gen.panicSites = Acme.Expect.panicSites.map (·.1) := Acme.Sites.panicSites_expected

/-- the inventory is not empty (the extractor did look at the files) -/
example : ("importer.go", "importer.importValueEncoding", "index", "values[idx]") ∈ Acme.Gen.panicSites := by
  decide

end Acme.Props.C13
