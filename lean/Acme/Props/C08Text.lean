/-
C08 on the TEXT level of the model — write, print, scan, parse:

  for every well-formed document, the tokens the writer emits, printed as text with admissible
  separators and read back BYTE BY BYTE by the scanner model and then by the parser model, give the
  document up to `norm`.

No hypothesis beyond `DbcWF`: the writer's tokens are in the image of the scanner
(`writeToks_scanWF`, `Acme.Proofs.DbcScanWrite`), the canonical layout (one blank behind every
token, a new line behind `;`) is admissible (`chainOK_layout`), and so is every layout with
non-empty blank separators, or with empty ones where `noMerge` allows it (`C08_text_roundtrip_any`).
The real writer's layout is tied observationally: stream `dbc`, lines `dbc chainok` (the text of
`dbc.Write`, cut into tokens and separators by the real scanner, satisfies `chainOK`).
-/
import Acme.Props.C09Scan
import Acme.Proofs.DbcScanWrite

namespace Acme.Props.C08Text
open Acme.Dbc Acme.Dbc.Scan Acme.Props.C09Scan

/-- every token the writer emits for a well-formed document is in the image of the scanner -/
theorem writeFile_scanWF (h : Bool) (f : File) (hw : DbcWF h f) : ScanWF (writeFile h f) :=
  Acme.Dbc.Scan.writeFile_scanWF h f hw

/-- the same on `writeToks` (= `writeFile` followed by the scanner's `eof`) -/
theorem writeToks_scanWF (h : Bool) (f : File) (hw : DbcWF h f) : ScanWF (writeToks h f).dropLast := by
  unfold writeToks
  rw [List.dropLast_concat]
  exact writeFile_scanWF h f hw

theorem layout_fst (ts : List Token) : (layout ts).map (·.1) = ts := by
  simp [layout, Function.comp_def]

/-- the canonical layout is admissible for EVERY token list -/
theorem chainOK_layout (ts : List Token) : chainOK (layout ts) = true := by
  apply chainOK_of_nonempty
  intro p hp
  obtain ⟨t, _, rfl⟩ := List.mem_map.mp hp
  simp only [layoutSep]
  split <;> exact ⟨by decide, by decide⟩

/-- C08 on the text level, canonical layout -/
theorem C08_text_roundtrip (h : Bool) (f : File) (hw : DbcWF h f) :
    parseToks h (scanToks (utf8 (render "" (layout (writeFile h f))))) = .ok (norm h f) :=
  scan_parse_write h f hw "" (layout (writeFile h f)) (by rw [layout_fst]; rfl) rfl
    (by rw [layout_fst]; exact writeFile_scanWF h f hw) (chainOK_layout _)

/-- C08 on the text level, any admissible layout: `l` carries the writer's tokens with any
separators that satisfy `chainOK` (blank strings; empty only where the two tokens cannot merge),
`lead` is any blank string -/
theorem C08_text_roundtrip_any (h : Bool) (f : File) (hw : DbcWF h f) (lead : String)
    (l : List (Token × String)) (hl : l.map (·.1) = writeFile h f)
    (hlead : isBlankStr lead = true) (hch : chainOK l = true) :
    parseToks h (scanToks (utf8 (render lead l))) = .ok (norm h f) :=
  scan_parse_write h f hw lead l (by rw [hl]; rfl) hlead
    (by rw [hl]; exact writeFile_scanWF h f hw) hch

/-- the scanner reads the canonical text of a well-formed document as the writer's tokens -/
theorem C08_text_tokens (h : Bool) (f : File) (hw : DbcWF h f) :
    scanToks (utf8 (render "" (layout (writeFile h f)))) = writeToks h f := by
  have := scan_render "" (layout (writeFile h f)) rfl
    (by rw [layout_fst]; exact writeFile_scanWF h f hw) (chainOK_layout _)
  rw [layout_fst] at this
  exact this

/-- `firstBadPair` finds a violation iff `chainOK` fails (the driver line `dbc chainok` prints it) -/
theorem firstBadPair_none_iff (l : List (Token × String)) :
    ∀ i, firstBadPair i l = none ↔ chainOK l = true := by
  induction l with
  | nil => intro i; simp [firstBadPair, chainOK]
  | cons p l ih =>
    intro i
    cases l with
    | nil => simp [firstBadPair, chainOK]
    | cons q rest =>
      simp only [firstBadPair, chainOK_cons2, Bool.and_eq_true]
      by_cases hs : sepOK p.1 p.2 q.1 = true
      · simp [hs, ih (i + 1)]
      · simp [hs]

/-! ## examples -/

/-- the hypotheses are satisfiable: `exDoc` (C09Scan) is well formed, so its canonical text parses
back to its normal form; the writer-like layout `exLine` style is covered by `_any` -/
example : parseToks true (scanToks (utf8 (render "" (layout (writeFile true exDoc))))) =
    .ok (norm true exDoc) :=
  C08_text_roundtrip true exDoc (by decide)

/-- a layout with the writer's glued tokens: `SG_ s : 3|4@1 - (0.5,-1) [0|7.5] "°C" A` -/
def exDocGlued : List (Token × String) :=
  (writeFile true exDoc).map (fun t =>
    (t, if t = .punct "|" ∨ t = .punct "@" ∨ t = .punct "(" ∨ t = .punct "[" ∨ t = .number "3" ∨
           t = .number "4" ∨ t = .number "0.5" ∨ t = .punct "," ∨ t = .number "0" ∨
           t = .number "-1" ∨ t = .number "7.5" then "" else " "))

example : parseToks true (scanToks (utf8 (render "\n" exDocGlued))) = .ok (norm true exDoc) :=
  C08_text_roundtrip_any true exDoc (by decide) "\n" exDocGlued
    (by simp [exDocGlued, Function.comp_def]) (by decide) (by decide)

end Acme.Props.C08Text
