/-
C16, tie of the first kind for the straight-line part of md_exporter.go.

`tools/extract/mdtables.go` regenerates on every run, from go/ast + go/types of the current
/repo/md_exporter.go (file `Acme/Gen/MdTables.lean`):

* `Gen.mdTables`   — every `md.TableSet{Header: …}` literal: function, header cells, and for every
  expression appended to its `Rows` the widths of the rows that expression can denote;
* `Gen.mdRowPaths` — for every function that returns a row, returns rows or fills a table, per
  control-flow path the width(s) — a width `(c, ps)` is c cells plus the lengths of the row
  parameters `ps`; cells contributed by calls of other row builders are the callee's widths with
  the argument widths substituted (least fixed point over the recursion `exportSignal` ↔
  `exportMultiplexerSignal`);
* `Gen.mdDynamic`  — every width the extractor could not determine (cells appended in a loop, a
  row from a call outside the file, …);
* `Gen.mdParamAppends`, `Gen.mdSections` — appends through an aliased row parameter; every call on
  the Markdown writer and every call of a non-returning exporter method, in source order.

The theorems below state (1) that this inventory is the hand-validated one, (2) — about the
GENERATED data, independent of the expectation — that every row reaching a table has exactly as
many cells as the header literal of that table and nothing is dynamic, (3) that the header lists
and heading levels of the hand model `Acme.Md` are the ones of the source, and (4) that the row
width the model proves (`C16_row_width`) is the source's header length for each table kind and
the per-kind cell builders of the model have the widths the source's builders return.
What remains tied by the stream `md` only: WHICH text is in which cell, the loops (one row per
signal, one section per entity) and the collector maps.
-/
import Acme.Proofs.SitesMd
import Acme.Props.C16

namespace Acme.Props.C16Tables
open Acme.Md

/-- the widths the regenerated inventory lists for `what` of function `fn`, over all its paths -/
def srcWidths (fn what : String) : List (Nat × List Nat) :=
  (Acme.Gen.mdRowPaths.filter (fun p => p.1 == fn && p.2.2.1 == what)).flatMap (·.2.2.2)

def levelOf : String → Option Nat
  | "H1" => some 1 | "H2" => some 2 | "H3" => some 3 | "H4" => some 4 | "H5" => some 5 | "H6" => some 6
  | _ => none

/-- the heading calls of a function of md_exporter.go in source order: (level, nesting, argument) -/
def srcHeadings (fn : String) : List (Nat × String × String) :=
  Acme.Gen.mdSections.filterMap (fun s =>
    if s.1 = fn then (levelOf s.2.2.1).map (fun l => (l, s.2.1, s.2.2.2)) else none)

/-- The regenerated inventory of md_exporter.go — tables and headers, row widths per path, appends
    through the aliased row parameter, section calls, dynamic widths — is the validated one. -/
theorem C16_tables_expected :
    Acme.Gen.mdTables = Acme.Expect.mdTables ∧ Acme.Gen.mdRowPaths = Acme.Expect.mdRowPaths ∧
    Acme.Gen.mdParamAppends = Acme.Expect.mdParamAppends ∧ Acme.Gen.mdSections = Acme.Expect.mdSections ∧
    Acme.Gen.mdDynamic = Acme.Expect.mdDynamic :=
  ⟨Acme.Sites.mdTables_expected, Acme.Sites.mdRowPaths_expected, Acme.Sites.mdParamAppends_expected,
   Acme.Sites.mdSections_expected, Acme.Sites.mdDynamic_expected⟩

set_option maxRecDepth 100000 in
/-- A fact about the SOURCE as regenerated on this run (the expectation is not involved): no row
    width is dynamic; for every table, every expression appended to its `Rows` denotes rows of
    exactly `len(Header)` cells (and of no other width); on every control-flow path of a function
    that fills a table, the rows in the table have the width of a header of that function; no
    path of a function that returns rows returns none (a signal kind without a `case` in
    `exportSignal` would be such a path: that signal would have no row); and every path of
    `exportSignal` returns rows of the width of the signal table's header. -/
theorem C16_row_widths_source :
    Acme.Gen.mdDynamic = [] ∧
    (∀ t ∈ Acme.Gen.mdTables, t.2.2 ≠ [] ∧ ∀ e ∈ t.2.2, e.2 ≠ [] ∧ ∀ w ∈ e.2, w = (t.2.1.length, [])) ∧
    (∀ p ∈ Acme.Gen.mdRowPaths, p.2.2.1 = "table rows" →
      ∃ t ∈ Acme.Gen.mdTables, t.1 = p.1 ∧ ∀ w ∈ p.2.2.2, w = (t.2.1.length, [])) ∧
    (∀ p ∈ Acme.Gen.mdRowPaths, p.2.2.1 = "returns rows" → p.2.2.2 ≠ []) ∧
    (srcWidths "mdExporter.exportSignal" "returns rows" ≠ [] ∧
      ∀ w ∈ srcWidths "mdExporter.exportSignal" "returns rows",
        ∃ t ∈ Acme.Gen.mdTables, t.1 = "mdExporter.exportMessage" ∧ w = (t.2.1.length, [])) := by
  decide

set_option maxRecDepth 100000 in
/-- Model and source agree on every header: the tables of md_exporter.go are, in source order,
    the four tables of the model with the model's header cells. -/
theorem C16_model_headers :
    Acme.Gen.mdTables.map (fun t => (t.1, t.2.1)) =
      [("mdExporter.exportMessage", sigHeader), ("mdExporter.exportSignalTypes", typeHeader),
       ("mdExporter.exportSignalUnits", unitHeader), ("mdExporter.exportSignalEnum", valueHeader)] := by
  decide

set_option maxRecDepth 100000 in
theorem src_table (hdr : List String)
    (h : hdr = sigHeader ∨ hdr = typeHeader ∨ hdr = unitHeader ∨ hdr = valueHeader) :
    ∃ t ∈ Acme.Gen.mdTables, t.2.1 = hdr ∧ ∀ e ∈ t.2.2, ∀ w ∈ e.2, w = (hdr.length, []) := by
  rcases h with rfl | rfl | rfl | rfl <;> decide

set_option maxRecDepth 100000 in
/-- `C16_row_width` of the model combined with the regenerated source facts: every table of the
    model's document is a table of the source (same header cells), every model row has the length
    of the SOURCE's header, which is also the width of every row the source appends to that table;
    and the per-kind cell builders of the model have the widths the source's row builders return:
    `stdCells` / `enumCells` = `exportStandardSignal` / `exportEnumSignal`, `muxCells` = what
    `exportMultiplexerSignal` appends to the row it is handed (parameter 1), a separator row = the
    literal row, the three leading cells of a signal row = the row `exportSignal` hands on, and a
    model row = every row `exportSignal` returns. -/
theorem C16_model_row_width_source (n : Net) :
    (∀ hdr rows, Item.table hdr rows ∈ exportNetwork n →
      ∃ t ∈ Acme.Gen.mdTables, t.2.1 = hdr ∧ (∀ r ∈ rows, r.length = t.2.1.length) ∧
        ∀ r ∈ rows, ∀ e ∈ t.2.2, ∀ w ∈ e.2, w = (r.length, [])) ∧
    (∀ ty u d, srcWidths "mdExporter.exportStandardSignal" "returns row" = [((stdCells ty u d).length, [])]) ∧
    (∀ e d, srcWidths "mdExporter.exportEnumSignal" "returns row" = [((enumCells e d).length, [])]) ∧
    (∀ k d g, srcWidths "mdExporter.exportMultiplexerSignal" "returns rows" =
      [((muxCells k d).length, [1]), ((Row.sep g).cells.length, [])]) ∧
    (∀ name start size rest, (3, []) ∈ srcWidths "mdExporter.exportSignal" "local row 1" ∧
      (Row.sig name start size rest).cells.length = 3 + rest.length) ∧
    (∀ (ss : Sigs) (c : Coll), ∀ r ∈ (exportSigs ss c).1,
      ∀ w ∈ srcWidths "mdExporter.exportSignal" "returns rows", w = (r.cells.length, [])) := by
  refine ⟨?_, ?_, ?_, ?_, ?_, ?_⟩
  · intro hdr rows h
    obtain ⟨hh, hr⟩ := (Acme.Props.C16.C16_row_width n).1 hdr rows h
    obtain ⟨t, ht, rfl, hw⟩ := src_table hdr hh
    exact ⟨t, ht, rfl, hr, fun r hrm e he w hwm => by rw [hr r hrm]; exact hw e he w hwm⟩
  · intro ty u d; rw [stdCells_length]; decide
  · intro e d; rw [enumCells_length]; decide
  · intro k d g; rw [muxCells_length]
    have : (Row.sep g).cells.length = 8 := rfl
    rw [this]; decide
  · intro name start size rest
    refine ⟨by decide, ?_⟩
    simp [Row.cells]; omega
  · intro ss c r hr w hw
    rw [(Acme.Props.C16.C16_row_width n).2.2.2.2.2 ss c r hr]
    revert w; decide

set_option maxRecDepth 100000 in
/-- Model and source agree on the heading calls: each exporter function of the source has exactly
    the heading calls listed (level, nesting, argument — none of them conditional or in a loop of
    its own function), and the model emits a heading of the SAME level first thing in the
    corresponding function: H1 network, H2 bus, H3 node interface, H4 message, H2 for the three
    appendices, H4 per enum. -/
theorem C16_model_sections :
    (∃ l le, srcHeadings "mdExporter.exportNetwork" = [(l, "", "‹*Network›.name"), (le, "", "\"Signal Enums\"")] ∧
      (∀ n, (exportNetwork n).head? = some (.h l n.name)) ∧
      ∃ lt lu, srcHeadings "mdExporter.exportSignalTypes" = [(lt, "", "\"Signal Types\"")] ∧
        srcHeadings "mdExporter.exportSignalUnits" = [(lu, "", "\"Signal Units\"")] ∧
        ∀ c, appendix c =
          [.h lt "Signal Types", .table typeHeader (c.typeList.map typeRow),
           .h lu "Signal Units", .table unitHeader (c.unitList.map unitRow),
           .h le "Signal Enums"] ++ c.enumList.flatMap exportEnum) ∧
    (∃ l, srcHeadings "mdExporter.exportBus" = [(l, "", "‹*Bus›.name")] ∧
      ∀ b c, (exportBus b c).1.head? = some (.h l b.name)) ∧
    (∃ l, srcHeadings "mdExporter.exportNode" = [(l, "", "‹*NodeInterface›.node.name")] ∧
      ∀ i c, (exportIface i c).1.head? = some (.h l i.node)) ∧
    (∃ l, srcHeadings "mdExporter.exportMessage" = [(l, "", "‹*Message›.name")] ∧
      ∀ m c, (exportMessage m c).1.head? = some (.h l m.name)) ∧
    (∃ l, srcHeadings "mdExporter.exportSignalEnum" = [(l, "", "‹*SignalEnum›.name")] ∧
      ∀ e, (exportEnum e).head? = some (.h l e.name)) ∧
    -- no other function of the file emits a heading
    (Acme.Gen.mdSections.filter (fun s => (levelOf s.2.2.1).isSome)).map (·.1) =
      ["mdExporter.exportNetwork", "mdExporter.exportNetwork", "mdExporter.exportBus", "mdExporter.exportNode",
       "mdExporter.exportMessage", "mdExporter.exportSignalTypes", "mdExporter.exportSignalUnits",
       "mdExporter.exportSignalEnum"] := by
  refine ⟨⟨1, 2, by decide, fun _ => rfl, 2, 2, by decide, by decide, fun _ => rfl⟩,
    ⟨2, by decide, fun _ _ => rfl⟩, ⟨3, by decide, fun _ _ => rfl⟩, ⟨4, by decide, ?_⟩,
    ⟨4, by decide, fun _ => rfl⟩, by decide⟩
  intro m c
  unfold exportMessage
  split <;> rfl

/-! ## The inventory sees the code -/

/-- the multiplexer row: 5 cells appended to the row handed in (parameter 1), separator rows of 8 -/
example : ("mdExporter.exportMultiplexerSignal", "-", "returns rows", [(5, [1]), (8, [])]) ∈ Acme.Gen.mdRowPaths := by
  decide

/-- the three leading cells: on the multiplexer path `sigRow` leaves `exportSignal` with 3 cells -/
example : ("mdExporter.exportSignal", "switch#1=case SignalKindMultiplexer", "local row 1", [(3, [])]) ∈
    Acme.Gen.mdRowPaths := by decide

/-- `escapeTableRow` keeps the width of its argument -/
example : srcWidths "escapeTableRow" "returns row" = [(0, [0])] := by decide

/-- the table of a message is emitted after the heading, and only there -/
example : (Acme.Gen.mdSections.filter (fun s => s.1 = "mdExporter.exportMessage" ∧
      (s.2.2.1 = "H4" ∨ s.2.2.1 = "CustomTable"))).map (·.2.2.1) = ["H4", "CustomTable"] := by decide

/-- the width check is not vacuous: the five-cell multiplexer row of the repaired defect D65
    (`muxSigRow` started empty instead of from `sigRow`) would be the width `(5, [])` -/
example : ¬ ((5, []) : Nat × List Nat) = (sigHeader.length, []) := by decide

end Acme.Props.C16Tables
