/-
C13, the positive half, on the structural model of loader.go (`Acme.Save.load`, tied to the Go code
by stream `sv`): for EVERY saved tree the loader answers with an error or with a network that
satisfies the invariant `LoadedWF` (Spec/LoadWF).  The refusal theorems for dangling ids, unplaced
multiplexer children and children with two positions are in `Acme.Props.C12Struct`.

`LoadedWF` is `NetWF` (what networks built through the public API satisfy) without two groups of
clauses; for each there is a tree that the model loader accepts and whose network violates the
clause (`unused`, `dupSignal`), and `wf_of_loadedWF` shows that nothing else is missing.  What the
real loader does on them (probed with `acmelib.LoadNetwork` on the text encoding of the same trees):

* `unused` — loads; a definition nobody references is harmless (a network built through the API
  may well own none of them; only the saver never writes such an entry).
* `dupSignal` (ONE message lists a signal id twice) — REFUSED by the real loader: both signals
  are inserted at the one position the payload map holds for the id, so `Message.InsertSignal`
  answers "start bit … is intersecting".  This refusal comes from the layout geometry, which the
  model leaves to the public mutators (class `err api` of stream `sv`); the owner check of the
  loader lets the tree pass, in Go as in the model.

History: the first version of this file had a third witness, `dupMessage` (one message entity id
in two interfaces), and the observation that one SIGNAL id in two messages loads; both broke
invariants of the public API (receiver back-links; the reference sets of types / enums keyed by
signal id, hence unchecked resizing).  The loader was repaired (message ids are unique in the
network, a signal id has one owner); the model follows and both trees are refusals now.
-/
import Acme.Proofs.LoadWF
import Acme.Props.C12Struct

namespace Acme.Props.C13Load
open Acme.Save

/-- Whatever the saved tree: a network the loader answers with satisfies the invariant. -/
theorem load_ok_wf (p : PNet) (n : Net) (h : load p = .ok n) : LoadedWF n :=
  load_ok_loadedWf p n h

/-- Loading is total with two outcomes: a network that satisfies the invariant, or an error. -/
theorem load_total (p : PNet) :
    (∃ n, load p = .ok n ∧ LoadedWF n) ∨ (∃ e, load p = .error e) := by
  cases h : load p with
  | error e => exact Or.inr ⟨e, rfl⟩
  | ok n => exact Or.inl ⟨n, rfl, load_ok_wf p n h⟩

/-- `LoadedWF` plus the clauses it leaves out is `NetWF`: nothing else of `wf` is missing. -/
theorem wf_of_loadedWF (n : Net) (h : LoadedWF n) (hu : allUsed n = true)
    (hs : topSigIdsDistinct n = true) (hm : sigIdsDistinct n = true) : NetWF n :=
  wf_of_loadedWf_aux n h hu hs hm

/-- A tree written by the saver (from a well-formed network whose numbers fit) loads, and the
    network it loads to — the normal form of the saved one — satisfies the invariant. -/
theorem saved_loads_wf (n : Net) (hw : NetWF n) (hr : InRange n) : LoadedWF (norm n) :=
  load_ok_wf (save n) (norm n) (C12Struct.load_save n hw hr)

/-! ## the witnesses -/

/-- the loader answers with a network for which `f` holds -/
def loadsWith (p : PNet) (f : Net → Bool) : Bool :=
  match load p with
  | .ok n => f n
  | .error _ => false

theorem loadsWith_iff (p : PNet) (f : Net → Bool) :
    loadsWith p f = true ↔ ∃ n, load p = .ok n ∧ f n = true := by
  unfold loadsWith
  cases load p <;> simp

section Witnesses
set_option maxRecDepth 100000

def ty1 : Ent := ⟨"t1", "ty", "size=4"⟩
def node (id name : String) (nid ifc : Nat) : PNode := ⟨⟨id, name, ""⟩, nid, ifc, []⟩
def stdSig (id name : String) : PSig := .mk ⟨id, name, ""⟩ [] 1 (.std "t1" "")

def emptyNet : PNet :=
  { e := ⟨"net", "net", ""⟩, buses := [], builders := [], nodes := [], types := [], units := [],
    enums := [], attrs := [] }

/-- the tables of the probes: one signal type, three nodes -/
def base : PNet :=
  { emptyNet with types := [ty1], nodes := [node "n1" "node1" 1 2, node "n2" "node2" 2 1, node "n3" "node3" 3 1] }

def msg (id name : String) (mid : Nat) (sigs : List PSig) (refs recvs : List (Id × Nat)) : PMsg :=
  { e := ⟨id, name, "size=8"⟩, asg := [], mid := mid, staticVal := 0, hasStatic := false
    sigs := sigs, refs := refs, recvs := recvs }

def bus1 (ifaces : List PIface) : PBus := { e := ⟨"bus1", "bus1", ""⟩, builder := "", ifaces := ifaces, asg := [] }

/-- (1) one unreferenced entry in every definition table, no bus -/
def unused : PNet :=
  { emptyNet with
    builders := [⟨⟨"b9", "bld", ""⟩, []⟩], nodes := [node "n9" "node9" 9 1], types := [⟨"t9", "ty9", ""⟩]
    units := [⟨"u9", "un9", ""⟩], enums := [⟨"e9", "en9", ""⟩], attrs := [⟨⟨"a9", "at9", ""⟩, 1, .str⟩] }

/-- the loader accepts it, the invariant holds, and each of the six "every entry is referenced"
    clauses of `wf` fails -/
example : loadsWith unused (fun n => loadedWf n && !allUsed n && !wf n) = true := by decide
example : loadsWith unused (fun n =>
    !(n.t.builders.all fun x => (usedRefs n).contains (RefK.builder, x.e.id)) &&
    !(n.t.nodes.all fun x => (walkRefs n).contains (RefK.node, x.e.id)) &&
    !(n.t.types.all fun x => (usedRefs n).contains (RefK.type, x.id)) &&
    !(n.t.units.all fun x => (usedRefs n).contains (RefK.unit, x.id)) &&
    !(n.t.enums.all fun x => (usedRefs n).contains (RefK.enum, x.id)) &&
    !(n.t.attrs.all fun x => (usedRefs n).contains (RefK.attr, x.e.id))) = true := by decide
/-- … and only these: the other clauses hold -/
example : loadsWith unused (fun n => topSigIdsDistinct n && sigIdsDistinct n) = true := by decide

/-- (2) a message with two top-level signals that share the entity id `s` -/
def dupSignal : PNet :=
  { base with buses := [bus1 [⟨"n1", 0, [msg "m1" "msg1" 1 [stdSig "s" "a", stdSig "s" "b"] [("s", 0)] []]⟩]] }

/-- accepted by the MODEL loader (the real loader refuses it through the layout geometry, see the
    header); the invariant holds — the id `s` has one owner, the message `m1` —, "distinct
    top-level signal ids" and "distinct signal ids in the network" fail -/
example : loadsWith dupSignal (fun n => loadedWf n && !topSigIdsDistinct n && !sigIdsDistinct n && !wf n) = true := by
  decide
example : loadsWith dupSignal (fun n => allUsed n == false) = true := by decide
/-- both signals come back at the one position of the id (so they overlap: the real loader's refusal) -/
example : loadsWith dupSignal (fun n =>
    n.buses.all fun b => b.ifaces.all fun i => i.msgs.all fun m =>
      m.sigs.map (fun p => (p.1.id, p.1.e.name, p.2)) == [("s", "a", 0), ("s", "b", 0)]) = true := by decide

/-! ### entity ids the loader checks network-wide -/

/-- two interfaces that each send a message with the entity id `m` (the former witness
    `dupMessage`): refused, naming the id -/
def dupMessage : PNet :=
  { base with buses := [bus1 [⟨"n1", 0, [msg "m" "msgA" 1 [] [] [("n3", 0)]]⟩,
                              ⟨"n2", 0, [msg "m" "msgB" 2 [] [] [("n3", 0)]]⟩]] }

example : load dupMessage = .error (.duplicated "m") := by decide
/-- … also within one interface, and across two buses -/
example : load { base with buses := [bus1 [⟨"n1", 0, [msg "m" "msgA" 1 [] [] [], msg "m" "msgB" 2 [] [] []]⟩]] } =
    .error (.duplicated "m") := by decide
example : load { base with buses := [bus1 [⟨"n1", 0, [msg "m" "msgA" 1 [] [] []]⟩],
    { e := ⟨"bus2", "bus2", ""⟩, builder := "", ifaces := [⟨"n2", 0, [msg "m" "msgB" 2 [] [] []]⟩], asg := [] }] } =
    .error (.duplicated "m") := by decide
/-- the message id is checked before the signals of the message are looked at: the second `m` has a
    signal with a dangling type, the answer is still `duplicated "m"` -/
example : load { base with buses := [bus1 [⟨"n1", 0, [msg "m" "msgA" 1 [] [] [],
      msg "m" "msgB" 2 [.mk ⟨"s", "a", ""⟩ [] 1 (.std "zz" "")] [("s", 0)] []]⟩]] } =
    .error (.duplicated "m") := by decide

def muxSig (id name : String) (kids : List PSig) (groups : List (List (Id × Nat))) : PSig :=
  .mk ⟨id, name, "gs=8"⟩ [] 3 (.mux (groups.length) kids [] groups)

/-- one signal id in two messages: refused, naming the signal id -/
example : load { base with buses := [bus1 [⟨"n1", 0, [msg "m1" "msg1" 1 [stdSig "s" "a"] [("s", 0)] []]⟩,
                                          ⟨"n2", 0, [msg "m2" "msg2" 2 [stdSig "s" "b"] [("s", 0)] []]⟩]] } =
    .error (.duplicated "s") := by decide
/-- a top-level signal and a child of a multiplexer of the same message -/
example : load { base with buses := [bus1 [⟨"n1", 0, [msg "m1" "msg1" 1
      [stdSig "s" "a", muxSig "x" "mux" [stdSig "s" "b"] [[("s", 0)]]] [("s", 0), ("x", 4)] []]⟩]] } =
    .error (.duplicated "s") := by decide
/-- children of two multiplexers; a multiplexer that lists itself -/
example : load { base with buses := [bus1 [⟨"n1", 0, [msg "m1" "msg1" 1
      [muxSig "x" "mux1" [stdSig "s" "a"] [[("s", 0)]], muxSig "y" "mux2" [stdSig "s" "b"] [[("s", 0)]]]
      [("x", 0), ("y", 16)] []]⟩]] } =
    .error (.duplicated "s") := by decide
example : load { base with buses := [bus1 [⟨"n1", 0, [msg "m1" "msg1" 1
      [muxSig "x" "mux1" [stdSig "x" "a"] [[("x", 0)]]] [("x", 0)] []]⟩]] } =
    .error (.duplicated "x") := by decide
/-- the owner check comes before the oneof checks: the second `s` has no oneof, the answer is
    `duplicated "s"`, not `missingOneof` -/
example : load { base with buses := [bus1 [⟨"n1", 0, [msg "m1" "msg1" 1 [stdSig "s" "a"] [("s", 0)] []]⟩,
      ⟨"n2", 0, [msg "m2" "msg2" 2 [.mk ⟨"s", "b", ""⟩ [] 1 .none] [("s", 0)] []]⟩]] } =
    .error (.duplicated "s") := by decide
/-- ONE multiplexer may list a child once per group (older saves do): accepted, the child is kept once -/
example : loadsWith { base with buses := [bus1 [⟨"n1", 0, [msg "m1" "msg1" 1
      [muxSig "x" "mux" [stdSig "s" "a", stdSig "s" "a"] [[("s", 0)], [("s", 0)]]] [("x", 0)] []]⟩]] }
    (fun n => loadedWf n && wf n == false && sigIdsDistinct n && netOwners n == [("x", .msg "m1"), ("s", .sig "x")]) = true := by
  decide
/-- a message and a multiplexer with one entity id are different owners -/
example : load { base with buses := [bus1 [⟨"n1", 0, [msg "x" "msg1" 1
      [stdSig "s" "a", muxSig "x" "mux" [stdSig "s" "b"] [[("s", 0)]]] [("s", 0), ("x", 4)] []]⟩]] } =
    .error (.duplicated "s") := by decide

/-! ### an interface never sends and receives one message id

With message ids unique in the network this is the statement about one message; the two trees in
which an interface sends one `m` and receives another `m` stop at the second `m` now. -/

example : load { base with buses := [bus1 [⟨"n1", 0, [msg "m" "msgA" 1 [] [] [("n2", 0)]]⟩,
                                          ⟨"n2", 0, [msg "m" "msgB" 2 [] [] []]⟩]] } =
    .error (.duplicated "m") := by decide
example : load { base with buses := [bus1 [⟨"n2", 0, [msg "m" "msgB" 2 [] [] []]⟩,
                                          ⟨"n1", 0, [msg "m" "msgA" 1 [] [] [("n2", 0)]]⟩]] } =
    .error (.duplicated "m") := by decide

/-- a message that names its own sender as receiver: refused -/
example : load { base with buses := [bus1 [⟨"n1", 0, [msg "m" "msgA" 1 [] [] [("n1", 0)]]⟩]] } =
    .error .receiverIsSender := by decide

/-! ## non-vacuity -/

/-- the round trip of the example of C12Struct ends in a network with the invariant -/
example : LoadedWF (norm Ex.net) := load_ok_wf _ _ C12Struct.example_round_trip
example : LoadedWF (norm Ex.net) := by decide
example : loadsWith (save Ex.net) (fun n => loadedWf n && wf n) = true := by decide

/-- An inconsistent tree that is accepted: a signal type, a node entry twice (the later entry wins),
    an enum attribute with a repeated value whose default is no value, a node with two assignments
    of one attribute and one without value, a message id that disagrees with the static CAN-ID, a
    multiplexer with a child entry twice, a child of unspecified kind, a fixed id that names
    nothing, a group list beyond the group count (it holds the fixed child only), a position entry
    twice and one for no signal, a receiver twice and two interfaces of one node as receivers. -/
def messy : PNet :=
  { emptyNet with
    types := [⟨"t1", "old", "size=8"⟩, ty1]
    attrs := [⟨⟨"a1", "level", ""⟩, 4, .enm ["x", "y", "x"] "z"⟩, ⟨⟨"a2", "note", ""⟩, 0, .str⟩]
    nodes := [⟨⟨"n1", "first", ""⟩, 7, 1, []⟩,
              ⟨⟨"n1", "node1", ""⟩, 1, 2, [⟨"n1", "a1", 0, "y"⟩, ⟨"n1", "a1", 0, "x"⟩, ⟨"n1", "a2", 3, ""⟩]⟩,
              node "n2" "node2" 2 1, node "n3" "node3" 3 2]
    buses := [bus1 [⟨"n1", 0,
      [{ e := ⟨"m1", "msg1", "size=2"⟩, asg := [], mid := 3, staticVal := 7, hasStatic := true
         sigs := [.mk ⟨"s1", "mux", "gs=8"⟩ [] 3
                    (.mux 2 [.mk ⟨"c1", "c1", ""⟩ [] 0 (.std "t1" ""), stdSig "c2" "c2", stdSig "c1" "c1"]
                      ["c1", "zz"] [[("c1", 0), ("c2", 4)], [("c1", 0)], [("c1", 0)]])]
         refs := [("s1", 0), ("s1", 0), ("zz", 5)]
         recvs := [("n2", 0), ("n2", 0), ("n3", 0), ("n3", 1)] }]⟩]] }

example : loadsWith messy loadedWf = true := by decide
/-- no id is shared; the attribute `a2` is referenced by the assignment without value only, which is
    dropped, so it ends up unreferenced -/
example : loadsWith messy (fun n => topSigIdsDistinct n && sigIdsDistinct n && !allUsed n) = true := by decide
/-- what it loads to, in the places the inconsistencies touch -/
example : loadsWith messy (fun n =>
    n.t.types == [ty1] &&
    n.t.attrs.map (·.kind) == [.enm ["x", "y"] "x", .str] &&
    n.t.nodes.map (fun x => (x.e.name, x.asg)) == [("node1", [⟨"a1", "x"⟩]), ("node2", []), ("node3", [])] &&
    n.buses.all fun b => b.ifaces.all fun i => i.msgs.all fun m =>
      m.mid == 7 && m.static == some 7 && m.recvs == [⟨"n2", 0⟩, ⟨"n3", 1⟩] &&
      m.sigs.map (fun p => match p.1.body with
        | .mux gc kids => (gc, kids.map fun k => (k.sig.id, k.pos, k.grp))
        | _ => (0, [])) == [(2, [("c2", 4, some [0]), ("c1", 0, none)])]) = true := by decide

/-! the other outcome of `load_total`, one tree per class of C13 (dangling ids, unplaced children
    and two positions: see `Acme.Props.C12Struct`) -/

/-- oneof kind mismatch: the kind field says enum, the oneof holds a standard signal -/
example : load { base with buses := [bus1 [⟨"n1", 0,
    [msg "m1" "msg1" 1 [.mk ⟨"s", "a", ""⟩ [] 2 (.std "t1" "")] [("s", 0)] []]⟩]] } =
    .error (.invalidOneof 1) := by decide
/-- no oneof at all -/
example : load { base with buses := [bus1 [⟨"n1", 0,
    [msg "m1" "msg1" 1 [.mk ⟨"s", "a", ""⟩ [] 1 .none] [("s", 0)] []]⟩]] } = .error .missingOneof := by decide
/-- duplicate keys: a bus id twice, an interface attached twice -/
example : load { base with buses := [bus1 [], bus1 []] } = .error (.duplicated "bus1") := by decide
example : load { base with buses := [bus1 [⟨"n1", 0, []⟩, ⟨"n1", 0, []⟩]] } = .error (.duplicated "n1") := by decide
/-- empty value list of an enum attribute -/
example : load { base with attrs := [⟨⟨"a1", "level", ""⟩, 4, .enm [] "z"⟩] } = .error .enumValuesEmpty := by decide
/-- a signal without position entry; a multiplexer without groups -/
example : load { base with buses := [bus1 [⟨"n1", 0, [msg "m1" "msg1" 1 [stdSig "s" "a"] [] []]⟩]] } =
    .error (.notFound .position "s") := by decide
example : load { base with buses := [bus1 [⟨"n1", 0,
    [msg "m1" "msg1" 1 [.mk ⟨"s", "a", ""⟩ [] 3 (.mux 0 [] [] [])] [("s", 0)] []]⟩]] } =
    .error .groupCountZero := by decide
/-- interface numbers out of range -/
example : load { base with buses := [bus1 [⟨"n1", 2, []⟩]] } = .error .ifaceOutOfBounds := by decide
example : load { base with buses := [bus1 [⟨"n1", -1, []⟩]] } = .error .ifaceNegative := by decide

end Witnesses

end Acme.Props.C13Load
