/-
C10 at the bus level of the DBC importer: whenever `importBus f = .ok b` (the model of
`importFile` tied to the code by stream `impbus`),

  a. `nodes_faithful`      the nodes of the bus are the nodes of `BU_` in file order (the placeholder
                           name skipped, id = index in `BU_`, description = last `CM_ BU_`), and the
                           placeholder node (id 1024) iff a message names it as transmitter; the
                           list is sorted by id, so the placeholder stands where id 1024 belongs
  b. `messages_faithful`   position by position the messages of the file: id, name, size, comment,
                           sender = the node the file names, receivers = the union of the signals'
                           receivers without the placeholder, all of them nodes of the bus
  c. `signals_faithful`    position by position (in start-bit order) the signals of every message:
                           name, start, size, comment; with a `VAL_` list (the last one for the
                           signal) an enum signal with exactly these values, otherwise a standard
                           signal whose type has the kind selected by the numbers and the file's
                           size, signedness, min, max, factor, offset, and the file's unit
  d. `type_sharing_sound`, `enum_sharing_sound`, `unit_sharing_sound`
                           two signals share an object only if the file gives them the same
                           parameters (for enums: the same values AND the same size)
  e. examples by `decide`.

What the model does not cover: positions / multiplexing (Acme.Props.C10Msg), attributes
(Acme.Props.C11Attr), NaN / infinities / negative zero as numbers of a signal.
-/
import Acme.Proofs.ImportBusMsg
import Acme.Proofs.ImportBusTotal

namespace Acme.Props.C10Bus
open Acme.ImportBus Acme.Arith
open Acme.Import (sortBy)

/-! ## a. nodes -/

theorem any_sender_eq {f : DFile} {b : IBus} {R : DMessage → IMessage → Prop}
    (hall : All2 R f.msgs b.msgs) (hs : ∀ m im, R m im → im.sender = m.transmitter) :
    b.msgs.any (fun m => m.sender = placeholder) = usesPlaceholder f := by
  have hmap : f.msgs.map (·.transmitter) = b.msgs.map (·.sender) :=
    hall.map_eq (fun m im h => (hs m im h).symm)
  have h1 : b.msgs.any (fun m => m.sender = placeholder)
      = (b.msgs.map (·.sender)).any (fun s => s = placeholder) := by
    rw [List.any_map]; rfl
  have h2 : usesPlaceholder f = (f.msgs.map (·.transmitter)).any (fun s => s = placeholder) := by
    unfold usesPlaceholder; rw [List.any_map]; rfl
  rw [h1, h2, hmap]

/-- the messages of an accepted import, with the state-level facts -/
theorem msgs_ok {f : DFile} {b : IBus} (h : importBus f = .ok b) :
    ∃ reg enums se ns st,
      importEncs reg reg [] f.encs = .ok (enums, se) ∧
      importNodes f.comments f.nodes = .ok ns ∧
      WF st ∧ StLe (initSt enums se) st ∧
      All2 (MsgOK (ns.map (·.name)) f.comments st) f.msgs b.msgs ∧ (b.msgs.map (·.id)).Nodup ∧
      b.nodes = finalNodes ns (usesPlaceholder f) ∧
      b.types = st.types.map (·.2) ∧ b.units = st.units ∧ b.enums = st.enums := by
  obtain ⟨reg, enums, se, ns, st, h2, h3, h4, _, h6, h7, h8, h9⟩ := importBus_ok h
  obtain ⟨hw, hle, new, hout, hall, hnd⟩ := importMessages_spec f.msgs (wf_init enums se) (by simp) h4
  simp only [List.nil_append] at hout
  subst hout
  refine ⟨reg, enums, se, ns, st, h2, h3, hw, hle, hall, hnd, ?_, h7, h8, h9⟩
  rw [h6, any_sender_eq hall (fun m im hm => hm.2.2.2.1)]

theorem nodes_faithful {f : DFile} {b : IBus} (h : importBus f = .ok b) :
    b.nodes = (fileNodes f).filter (fun n => n.id < placeholderId)
        ++ (if usesPlaceholder f then [placeholderNode] else [])
        ++ (fileNodes f).filter (fun n => placeholderId < n.id) ∧
    ((fileNodes f).map (·.name)).Nodup ∧
    (∀ n ∈ fileNodes f, n.name ≠ placeholder ∧ n.id ≠ placeholderId) := by
  obtain ⟨reg, enums, se, ns, st, _, h3, _, _, _, _, hnodes, _⟩ := msgs_ok h
  obtain ⟨hns, hnd, hname, hid⟩ := importNodes_spec h3
  have : ns = fileNodes f := hns
  subst this
  exact ⟨hnodes, hnd, fun n hn => ⟨hname n hn, hid n hn⟩⟩

/-- up to 1024 names in `BU_` (every real file): the nodes of the file, then the placeholder -/
theorem nodes_faithful_small {f : DFile} {b : IBus} (h : importBus f = .ok b)
    (hlen : f.nodes.length ≤ placeholderId) :
    b.nodes = fileNodes f ++ (if usesPlaceholder f then [placeholderNode] else []) := by
  have hlt : ∀ n ∈ fileNodes f, n.id < placeholderId := by
    intro n hn
    unfold fileNodes nodesOf at hn
    obtain ⟨p, hp, rfl⟩ := List.mem_map.mp hn
    have hp' := (List.mem_filter.mp hp).1
    have := List.mem_zipIdx (x := p.1) (i := p.2) hp'
    simp only
    omega
  rw [(nodes_faithful h).1]
  have h1 : (fileNodes f).filter (fun n => n.id < placeholderId) = fileNodes f :=
    List.filter_eq_self.mpr (fun n hn => by simpa using hlt n hn)
  have h2 : (fileNodes f).filter (fun n => placeholderId < n.id) = [] :=
    List.filter_eq_nil_iff.mpr (fun n hn => by have := hlt n hn; simp; omega)
  rw [h1, h2, List.append_nil]

/-- the names of the nodes of the bus are unique: a name resolves to one node -/
theorem node_names_nodup {f : DFile} {b : IBus} (h : importBus f = .ok b) :
    (b.nodes.map (·.name)).Nodup := by
  obtain ⟨hn, hnd, hprop⟩ := nodes_faithful h
  have hC : (fileNodes f).filter (fun n => placeholderId < n.id)
      = (fileNodes f).filter (fun n => !(decide (n.id < placeholderId))) := by
    apply List.filter_congr
    intro n hn
    have := (hprop n hn).2
    by_cases hlt : n.id < placeholderId
    · have : ¬ placeholderId < n.id := by omega
      simp [hlt, this]
    · have : placeholderId < n.id := by omega
      simp [hlt, this]
  have hperm : b.nodes.Perm ((if usesPlaceholder f then [placeholderNode] else []) ++ fileNodes f) := by
    rw [hn, hC]
    refine (List.perm_append_comm.append_right _).trans ?_
    rw [List.append_assoc]
    exact (List.filter_append_perm _ _).append_left _
  rw [(hperm.map _).nodup_iff, List.map_append, List.nodup_append]
  refine ⟨by split <;> simp, hnd, ?_⟩
  intro a ha c hc
  split at ha
  · simp only [List.map_cons, List.map_nil, List.mem_singleton] at ha
    subst ha
    obtain ⟨n, hnm, rfl⟩ := List.mem_map.mp hc
    exact fun heq => (hprop n hnm).1 heq.symm
  · simp at ha

/-! ## b. messages -/

theorem msgFaithful_of_ok {f : DFile} {b : IBus} {ns : List INode} {st : St} {m : DMessage} {im : IMessage}
    (hnodes : b.nodes = finalNodes ns (usesPlaceholder f))
    (hid : ∀ n ∈ ns, n.id ≠ placeholderId) (hm : m ∈ f.msgs)
    (hok : MsgOK (ns.map (·.name)) f.comments st m im) : MsgFaithful f b m im := by
  obtain ⟨h1, h2, h3, h4, h5, h6, h7, h8, h9, _, _, _⟩ := hok
  have hres : ∀ r, r ∈ ns.map (·.name) → ∃ n ∈ b.nodes, n.name = r := by
    intro r hr
    obtain ⟨n, hn, rfl⟩ := List.mem_map.mp hr
    exact ⟨n, by rw [hnodes]; exact mem_finalNodes_of_mem hid hn, rfl⟩
  refine ⟨h1, h2, h3, h5, h4, ?_, ?_, ?_, ?_, h9⟩
  · rcases h8 with hp | hin
    · refine ⟨placeholderNode, ?_, hp.symm⟩
      have hu : usesPlaceholder f = true := by
        unfold usesPlaceholder
        rw [List.any_eq_true]
        exact ⟨m, hm, by simpa using hp⟩
      rw [hnodes, hu]
      exact placeholder_mem_finalNodes ns
    · exact hres _ hin
  · intro r
    rw [h6, mem_receiversOf]
    constructor
    · rintro ⟨hne, d, hd, hr⟩
      exact ⟨hne, d, mem_sortedSigs.mp hd, hr⟩
    · rintro ⟨hne, d, hd, hr⟩
      exact ⟨hne, d, mem_sortedSigs.mpr hd, hr⟩
  · rw [h6]; exact nodup_receiversOf _
  · intro r hr
    exact hres r (h7 r hr)

theorem messages_faithful {f : DFile} {b : IBus} (h : importBus f = .ok b) :
    All2 (MsgFaithful f b) f.msgs b.msgs ∧ (b.msgs.map (·.id)).Nodup ∧ (b.nodes.map (·.name)).Nodup := by
  obtain ⟨reg, enums, se, ns, st, _, h3, _, _, hall, hnd, hnodes, _⟩ := msgs_ok h
  obtain ⟨_, _, _, hid⟩ := importNodes_spec h3
  exact ⟨hall.imp_mem (fun m im hm _ hok => msgFaithful_of_ok hnodes hid hm hok), hnd, node_names_nodup h⟩

/-! ## c. signals -/

theorem sigFaithful_of_ok {f : DFile} {b : IBus} {reg enums : List IEnum} {se : SigEnums} {st : St}
    {id : Nat} {d : DSignal} {s : ISignal}
    (henc : importEncs reg reg [] f.encs = .ok (enums, se)) (hle : StLe (initSt enums se) st)
    (ht : b.types = st.types.map (·.2)) (hu : b.units = st.units) (he : b.enums = st.enums)
    (hok : SigOK f.comments id st d s) : SigFaithful f b id d s := by
  obtain ⟨hn, hs, hd, hk⟩ := hok
  obtain ⟨_, hkeys⟩ := importEncs_spec f.encs (Ext.refl reg) henc
  have hkey := hkeys id d.name
  have hse : st.sigEnums = se := hle.2.2.1
  rw [hse] at hk
  cases hv : encOf f.encs id d.name with
  | some vals =>
    rw [hv] at hkey
    obtain ⟨eid, e, hl, hget, hvals⟩ := hkey
    rw [hl] at hk
    obtain ⟨rid, en, e0, hkind, h1, h2, hv2, _, hsz⟩ := hk
    obtain ⟨e0', g, l⟩ := hle.2.2.2 eid e (by simpa [initSt] using hget)
    rw [h2] at g
    cases g
    refine ⟨hn, hs, ?_, hd, ?_⟩
    · simp [IBus.sigSize, hkind, he, h1, hsz]
    · simp only [hv]
      exact ⟨rid, en, hkind, by rw [he]; exact h1, by rw [hv2, l.1, hvals]⟩
  | none =>
    rw [hv] at hkey
    simp only [List.lookup_nil] at hkey
    rw [hkey] at hk
    obtain ⟨t, u, k, hkind, hty, hunit⟩ := hk
    obtain ⟨f1, f2, f3, f4, f5, f6, f7⟩ := expType_fields d
    have hbt : b.types[t]? = some (expType d) := by
      rw [ht, List.getElem?_map, hty]; rfl
    refine ⟨hn, hs, ?_, hd, ?_⟩
    · simp [IBus.sigSize, hkind, hbt, f2]
    · simp only [hv]
      refine ⟨t, u, expType d, hkind, hbt, f1, f2, f3, f4, f5, f6, f7, ?_⟩
      unfold UnitFaithful
      rw [hu]
      exact hunit

theorem signals_faithful {f : DFile} {b : IBus} (h : importBus f = .ok b) :
    All2 (fun m im => All2 (SigFaithful f b m.id) (sortedSigs m) im.sigs ∧
                      (sortedSigs m).Perm m.sigs ∧ (m.sigs.map (·.name)).Nodup) f.msgs b.msgs := by
  obtain ⟨reg, enums, se, ns, st, henc, _, _, hle, hall, _, _, ht, hu, he⟩ := msgs_ok h
  refine hall.imp (fun m im hok => ?_)
  obtain ⟨_, _, _, _, _, _, _, _, _, _, hnd, hsigs⟩ := hok
  refine ⟨hsigs.imp (fun d s hs => sigFaithful_of_ok henc hle ht hu he hs), sortBy_perm' _ _, ?_⟩
  exact (((sortBy_perm' (fun (d : DSignal) => d.start) m.sigs).map (·.name)).nodup_iff).mp hnd

/-- every signal of every message of the file, through its occurrence -/
theorem signal_faithful {f : DFile} {b : IBus} (h : importBus f = .ok b) {id : Nat} {d : DSignal} {s : ISignal}
    (hocc : Occ f b id d s) : SigFaithful f b id d s := by
  obtain ⟨i, m, im, hm, him, rfl, hz⟩ := hocc
  obtain ⟨im', him', hrel⟩ := (signals_faithful h).getElem? hm
  rw [him] at him'
  cases him'
  exact hrel.1.mem_zip hz

/-! ## d. sharing -/

theorem type_sharing_sound {f : DFile} {b : IBus} (h : importBus f = .ok b)
    {id₁ id₂ : Nat} {d₁ d₂ : DSignal} {s₁ s₂ : ISignal} {t : Nat} {u₁ u₂ : Option Nat}
    (h₁ : Occ f b id₁ d₁ s₁) (h₂ : Occ f b id₂ d₂ s₂)
    (k₁ : s₁.kind = .standard t u₁) (k₂ : s₂.kind = .standard t u₂) : typeParams d₁ = typeParams d₂ := by
  obtain ⟨_, _, _, _, hm₁⟩ := signal_faithful h h₁
  obtain ⟨_, _, _, _, hm₂⟩ := signal_faithful h h₂
  cases hv₁ : encOf f.encs id₁ d₁.name with
  | some v =>
    rw [hv₁] at hm₁
    obtain ⟨e, _, hk, _⟩ := hm₁
    rw [k₁] at hk; cases hk
  | none =>
    rw [hv₁] at hm₁
    cases hv₂ : encOf f.encs id₂ d₂.name with
    | some v =>
      rw [hv₂] at hm₂
      obtain ⟨e, _, hk, _⟩ := hm₂
      rw [k₂] at hk; cases hk
    | none =>
      rw [hv₂] at hm₂
      obtain ⟨t₁, _, ty₁, hk₁, hg₁, a1, a2, a3, a4, a5, a6, a7, _⟩ := hm₁
      obtain ⟨t₂, _, ty₂, hk₂, hg₂, b1, b2, b3, b4, b5, b6, b7, _⟩ := hm₂
      rw [k₁] at hk₁; cases hk₁
      rw [k₂] at hk₂; cases hk₂
      rw [hg₁] at hg₂
      cases hg₂
      simp only [typeParams, ← a1, ← a2, ← a3, ← a4, ← a5, ← a6, ← a7, ← b1, ← b2, ← b3, ← b4, ← b5, ← b6, ← b7]

theorem enum_sharing_sound {f : DFile} {b : IBus} (h : importBus f = .ok b)
    {id₁ id₂ : Nat} {d₁ d₂ : DSignal} {s₁ s₂ : ISignal} {e : Nat}
    (h₁ : Occ f b id₁ d₁ s₁) (h₂ : Occ f b id₂ d₂ s₂)
    (k₁ : s₁.kind = .enum e) (k₂ : s₂.kind = .enum e) :
    d₁.size = d₂.size ∧ ∃ v₁ v₂, encOf f.encs id₁ d₁.name = some v₁ ∧ encOf f.encs id₂ d₂.name = some v₂ ∧
      sortVals v₁ = sortVals v₂ := by
  obtain ⟨_, _, hz₁, _, hm₁⟩ := signal_faithful h h₁
  obtain ⟨_, _, hz₂, _, hm₂⟩ := signal_faithful h h₂
  refine ⟨?_, ?_⟩
  · simp only [IBus.sigSize, k₁] at hz₁
    simp only [IBus.sigSize, k₂] at hz₂
    rw [hz₁] at hz₂
    have := Option.some.inj hz₂
    omega
  · cases hv₁ : encOf f.encs id₁ d₁.name with
    | none =>
      rw [hv₁] at hm₁
      obtain ⟨_, _, _, hk, _⟩ := hm₁
      rw [k₁] at hk; cases hk
    | some v₁ =>
      rw [hv₁] at hm₁
      cases hv₂ : encOf f.encs id₂ d₂.name with
      | none =>
        rw [hv₂] at hm₂
        obtain ⟨_, _, _, hk, _⟩ := hm₂
        rw [k₂] at hk; cases hk
      | some v₂ =>
        rw [hv₂] at hm₂
        obtain ⟨e₁, en₁, hk₁, hg₁, hvals₁⟩ := hm₁
        obtain ⟨e₂, en₂, hk₂, hg₂, hvals₂⟩ := hm₂
        rw [k₁] at hk₁; cases hk₁
        rw [k₂] at hk₂; cases hk₂
        rw [hg₁] at hg₂
        cases hg₂
        exact ⟨v₁, v₂, rfl, rfl, hvals₁.symm.trans hvals₂⟩

theorem unit_sharing_sound {f : DFile} {b : IBus} (h : importBus f = .ok b)
    {id₁ id₂ : Nat} {d₁ d₂ : DSignal} {s₁ s₂ : ISignal} {t₁ t₂ u : Nat}
    (h₁ : Occ f b id₁ d₁ s₁) (h₂ : Occ f b id₂ d₂ s₂)
    (k₁ : s₁.kind = .standard t₁ (some u)) (k₂ : s₂.kind = .standard t₂ (some u)) : d₁.unit = d₂.unit := by
  obtain ⟨_, _, _, _, hm₁⟩ := signal_faithful h h₁
  obtain ⟨_, _, _, _, hm₂⟩ := signal_faithful h h₂
  have key : ∀ {id : Nat} {d : DSignal} {s : ISignal} {t : Nat},
      (match encOf f.encs id d.name with
        | some vals => ∃ e en, s.kind = .enum e ∧ b.enums[e]? = some en ∧ en.values = sortVals vals
        | none => ∃ t u ty, s.kind = .standard t u ∧ b.types[t]? = some ty ∧
            ty.kind = kindSel d ∧ ty.size = d.size ∧ ty.signed = d.signed ∧ ty.min = d.min ∧ ty.max = d.max ∧
            ty.scale = d.factor ∧ ty.offset = d.offset ∧ UnitFaithful b d.unit u) →
      s.kind = .standard t (some u) → b.units[u]? = some d.unit := by
    intro id d s t hm k
    cases hv : encOf f.encs id d.name with
    | some v =>
      rw [hv] at hm
      obtain ⟨_, _, hk, _⟩ := hm
      rw [k] at hk; cases hk
    | none =>
      rw [hv] at hm
      obtain ⟨_, _, _, hk, _, _, _, _, _, _, _, _, hu⟩ := hm
      rw [k] at hk
      cases hk
      rcases hu with ⟨_, hnone⟩ | ⟨_, i, hi, hg⟩
      · cases hnone
      · cases hi; exact hg
  have e₁ := key hm₁ k₁
  have e₂ := key hm₂ k₂
  rw [e₁] at e₂
  exact Option.some.inj e₂

/-- the values of an enum signal are the file's pairs: `sortVals` only orders them by index -/
theorem enum_values_perm (vals : List DVal) : (sortVals vals).Perm vals := sortVals_perm vals

/-- the model-only cause `internal` (a dangling object index) is never an answer -/
theorem never_internal (f : DFile) : importBus f ≠ .error .internal := importBus_ne_internal f

/-! ## e. examples -/

namespace Ex

def sig (name : String) (start size : Nat) (signed : Bool) (factor offset min max : Rat) (unit : String)
    (rx : List String) : DSignal :=
  { name := name, start := start, size := size, signed := signed, factor := factor, offset := offset,
    min := min, max := max, unit := unit, receivers := rx }

/-- kind selection: flag / integer / decimal (by the factor, by the offset, by the minimum) -/
def fKinds : DFile :=
  { nodes := ["A"],
    msgs := [{ id := 1, name := "M", size := 8, transmitter := "A",
               sigs := [sig "f" 0 1 false 1 0 0 1 "" [], sig "i" 1 8 false 1 0 0 255 "" [],
                        sig "d1" 9 8 false (mkRat 1 2) 0 0 255 "" [], sig "d2" 17 8 false 1 (mkRat 1 2) 0 255 "" [],
                        sig "d3" 25 8 true 1 0 (mkRat (-1) 2) 127 "" [], sig "g" 33 1 true 1 0 0 1 "" []] }] }

example : (importBus fKinds).toOption.map (fun b => b.types.map (·.kind))
    = some [.flag, .integer, .decimal, .decimal, .decimal, .integer] := by decide

/-- sharing: equal parameters share one type object, one differing field (the maximum; the
    signedness) makes a new one; units are shared by symbol -/
def fShare : DFile :=
  { nodes := ["A"],
    msgs := [{ id := 1, name := "M", size := 8, transmitter := "A",
               sigs := [sig "a" 0 8 false 1 0 0 255 "V" [], sig "b" 8 8 false 1 0 0 255 "V" [],
                        sig "c" 16 8 false 1 0 0 254 "rpm" [], sig "d" 24 8 true 1 0 0 255 "" []] },
             { id := 2, name := "N", size := 8, transmitter := "A",
               sigs := [sig "a" 0 8 false 1 0 0 255 "rpm" []] }] }

example : (importBus fShare).toOption.map (fun b => b.msgs.map (fun m => m.sigs.map (·.kind)))
    = some [[.standard 1 (some 0), .standard 1 (some 0), .standard 2 (some 1), .standard 3 none],
            [.standard 1 (some 1)]] := by decide

/-- the placeholder sender: the placeholder node is kept (after the nodes of the file) -/
def fPlaceholder : DFile :=
  { nodes := ["A", "B"],
    msgs := [{ id := 1, name := "M", size := 8, transmitter := placeholder, sigs := [] }] }

example : (importBus fPlaceholder).toOption.map (fun b => (b.nodes.map (fun n => (n.name, n.id)), b.msgs.map (·.sender)))
    = some ([("A", 0), ("B", 1), ("Vector__XXX", 1024)], ["Vector__XXX"]) := by decide

/-- no message names the placeholder: the placeholder node is removed; the placeholder name in
    `BU_` is skipped but counts for the ids -/
example : (importBus { nodes := ["A", placeholder, "B"],
                       msgs := [{ id := 1, name := "M", size := 8, transmitter := "B", sigs := [] }] }).toOption.map
      (fun b => b.nodes.map (fun n => (n.name, n.id)))
    = some [("A", 0), ("B", 2)] := by decide

/-- receivers: the union over the signals, every node once, without the placeholder -/
def fRecv : DFile :=
  { nodes := ["A", "B", "C"],
    msgs := [{ id := 1, name := "M", size := 8, transmitter := "A",
               sigs := [sig "a" 0 8 false 1 0 0 255 "" ["B", placeholder], sig "b" 8 8 false 1 0 0 255 "" ["C", "B"],
                        sig "c" 16 8 false 1 0 0 255 "" []] }] }

example : (importBus fRecv).toOption.map (fun b => b.msgs.map (·.receivers)) = some [["C", "B"]] := by decide

/-- the refusal of a document (`none` when it is accepted) -/
def errOf (f : DFile) : Option ImpErr :=
  match importBus f with
  | .error e => some e
  | .ok _ => none

def msgOf (tx : String) (sigs : List DSignal) : DMessage :=
  { id := 1, name := "M", size := 8, transmitter := tx, sigs := sigs }

/-- refusals: unknown transmitter, unknown receiver, the sender among the receivers, a node twice,
    a CAN-ID twice -/
example : errOf { nodes := ["A"], msgs := [msgOf "Z" []] } = some .nodeNotFound := by decide
example : errOf { nodes := ["A"], msgs := [msgOf "A" [sig "a" 0 8 false 1 0 0 255 "" ["Z"]]] }
    = some .nodeNotFound := by decide
example : errOf { nodes := ["A"], msgs := [msgOf "A" [sig "a" 0 8 false 1 0 0 255 "" ["A"]]] }
    = some .receiverIsSender := by decide
example : errOf { nodes := ["A", "B", "A"] } = some .nodeNameDuplicated := by decide
example : errOf { nodes := ["A"], msgs := [msgOf "A" [], { msgOf "A" [] with name := "N" }] }
    = some .canIdDuplicated := by decide

/-- value tables: a `VAL_` list equal (as a set) to a global table uses the table's enum object;
    two signals of the natural size share it; a wider signal gets a copy with its own minimum
    size; a second signal of that width shares the copy -/
def fEnum : DFile :=
  { tables := [{ name := "T", values := [(0, "a"), (1, "b"), (2, "c")] }],
    encs := [{ msgId := 1, sigName := "e0", values := [(2, "c"), (0, "a"), (1, "b")] },
             { msgId := 1, sigName := "e1", values := [(0, "a"), (1, "b"), (2, "c")] },
             { msgId := 1, sigName := "e2", values := [(0, "a"), (1, "b"), (2, "c")] },
             { msgId := 1, sigName := "e3", values := [(0, "a"), (1, "b"), (2, "c")] },
             { msgId := 1, sigName := "e4", values := [(0, "a"), (1, "b")] }],
    msgs := [{ id := 1, name := "M", size := 8, transmitter := placeholder,
               sigs := [sig "e0" 0 2 false 1 0 0 0 "" [], sig "e1" 2 2 false 1 0 0 0 "" [],
                        sig "e2" 4 4 false 1 0 0 0 "" [], sig "e3" 8 4 false 1 0 0 0 "" [],
                        sig "e4" 12 1 false 1 0 0 0 "" []] }] }

example : (importBus fEnum).toOption.map (fun b => (b.msgs.map (fun m => m.sigs.map (·.kind)),
      b.enums.map (fun e => (e.name, e.minSize, e.size))))
    = some ([[.enum 0, .enum 0, .enum 2, .enum 2, .enum 1]],
            [("T", 1, 2), ("e4_Enum", 1, 1), ("T", 4, 4)]) := by decide

/-- the first signal is wider than the values need: the enum object itself is resized; the
    narrower signal that follows gets the copy -/
def fEnum2 : DFile :=
  { fEnum with
    encs := fEnum.encs.take 4,
    msgs := [msgOf placeholder [sig "e0" 0 4 false 1 0 0 0 "" [], sig "e1" 4 2 false 1 0 0 0 "" []]] }

example : (importBus fEnum2).toOption.map
      (fun b => (b.msgs.map (fun m => m.sigs.map (·.kind)), b.enums.map (fun e => (e.minSize, e.size))))
    = some ([[.enum 0, .enum 1]], [(4, 4), (2, 2)]) := by decide

/-- a value that does not fit the signal; a value id twice -/
example : errOf { encs := [{ msgId := 1, sigName := "e", values := [(4, "x")] }],
                  msgs := [msgOf placeholder [sig "e" 0 2 false 1 0 0 0 "" []]] } = some .sizeTooSmall := by decide
example : errOf { encs := [{ msgId := 1, sigName := "e", values := [(1, "x"), (1, "y")] }] }
    = some .valueIndexDuplicated := by decide

/-- comments: the last one wins -/
example : (importBus { nodes := ["A"], comments := [.node "A" "first", .general "bus", .node "A" "second", .msg 1 "m",
                                                    .sig 1 "a" "s"],
                       msgs := [{ id := 1, name := "M", size := 8, transmitter := "A",
                                  sigs := [sig "a" 0 8 false 1 0 0 255 "" []] }] }).toOption.map
      (fun b => (b.desc, b.nodes.map (·.desc), b.msgs.map (fun m => (m.desc, m.sigs.map (·.desc)))))
    = some ("bus", ["second"], [("m", ["s"])]) := by decide

end Ex

end Acme.Props.C10Bus
