/-
C06, atomicity as a proof obligation over the SOURCE: every function of the model files in
which a non-nil error can be returned after model memory was mutated is listed (regenerated
by /verif/tools/extract/atomic.go on every run: SSA + class-hierarchy call graph) and the
list is exactly the two classified entries of Acme.Expect.atomicSites.  All other mutators
verify first and commit afterwards.
-/
import Acme.Proofs.SitesAtomic

namespace Acme.Props.C06Sites

theorem C06_error_after_mutation_sites :
    Acme.Gen.atomicSites = Acme.Expect.atomicSites.map (·.1) := Acme.Sites.atomicSites_expected

/-- the two entries, by name -/
example : Acme.Gen.atomicSites.map (fun s => s.2.1) =
    ["MultiplexerSignal.modifySignalSize", "Node.RemoveInterface"] := by decide

end Acme.Props.C06Sites
