/-
C11 at the bus level: export → import of a bus (models `exportBus` of Acme.Core.ExportBus and
`importBus` of Acme.Core.ImportBus, both tied to the code by stream `impbus`).

  `bus_roundtrip`   for every well-formed bus `b` (`BusWF`, decidable: what the public API guarantees
                    for a bus of top-level standard / enum signals with static CAN-IDs, and at most
                    1024 nodes) the exported document is accepted by the importer and the imported
                    bus, seen without object identities (`view`), is the normal form `normB b`.

WHAT IS PRESERVED (`normB`, Acme.Spec.ExportBus):
  bus:      description
  nodes:    names and descriptions, in node-id order
  messages: CAN-ID, name, size, sender, description, in export order (by sender in node-id order,
            then by CAN-ID); the receivers as a set, sorted by name — if the message has a signal
  signals:  name, start, size, description, in layout order; standard: size, signedness, min, max,
            scale, offset of the type and the unit symbol; enum: the values and the size
WHAT IS NOT (each item is explicit in `normB` / absent from `view`):
  1. node ids: the id of a node becomes its position in id order (`normNodes`)
  2. a node named `Vector__XXX`: comes back as the placeholder node (id 1024, no description, after
     the others) if it sends a message, disappears otherwise; never a receiver
  3. the receivers of a message without signals (`normMsg`)
  4. the kind of a signal type: selected again from the numbers (`reKind`): custom → flag /
     integer / decimal, integer with a fractional number → decimal, decimal with integral numbers →
     integer, the numbers of a flag under any kind → flag
  5. a unit object with the empty symbol comes back as no unit (`view` shows the symbol only)
  6. object identities: which signals share a type / unit / enum object (after the round trip two
     signals share an object only if their numbers / symbols / values and sizes are equal:
     Acme.Props.C10Bus.type_sharing_sound, unit_sharing_sound, enum_sharing_sound on the exported
     document; equal-valued enum objects of the original are merged)
  7. the name and the minimum size of an enum object (the size of every enum signal is kept)
-/
import Acme.Proofs.ExportBusRound

namespace Acme.Props.C11Bus
open Acme.ImportBus Acme.ExportBus Acme.Arith

/-- the exported document of a well-formed bus satisfies the acceptance condition `FileOK` -/
theorem export_accepted {b : IBus} (h : BusWF b) : FileOK (exportBus b) := export_fileOK h

/-- `FileOK` is sufficient for acceptance (a complement to C10, which speaks about accepted
    documents only) -/
theorem fileOK_accepted {f : DFile} (h : FileOK f) : ∃ b, importBus f = .ok b := importBus_accepts h

/-- the round trip -/
theorem bus_roundtrip {b : IBus} (h : BusWF b) :
    ∃ ib, importBus (exportBus b) = .ok ib ∧ view ib = normB b := roundtrip h

/-- the buses that come back unchanged (as views): those that are their own normal form — node ids
    0, 1, 2 … in order, type kinds as the importer selects them, messages in export order, receivers
    sorted by name and only on messages with signals (decidable) -/
theorem bus_roundtrip_fixpoint {b : IBus} (h : BusWF b) (hn : normB b = view b) :
    ∃ ib, importBus (exportBus b) = .ok ib ∧ view ib = view b := by
  obtain ⟨ib, h1, h2⟩ := roundtrip h
  exact ⟨ib, h1, h2.trans hn⟩

/-- the node names after the round trip: the names in id order, a node named like the placeholder
    moved to the end (if it sends) or dropped -/
theorem norm_node_names (b : IBus) :
    (normNodes b).map (·.name) = ((sortedNodes b).map (·.name)).filter (fun n => n ≠ placeholder)
      ++ (if b.msgs.any (fun m => m.sender = placeholder) then [placeholder] else []) := by
  unfold normNodes
  rw [List.map_append, List.map_map]
  congr 1
  · have : ∀ (l : List INode) (k : Nat),
        List.map ((fun (n : INode) => n.name) ∘ fun (p : INode × Nat) => ({ p.1 with id := p.2 } : INode))
          ((l.zipIdx k).filter (fun p => p.1.name ≠ placeholder))
        = (l.map (·.name)).filter (fun n => n ≠ placeholder) := by
      intro l
      induction l with
      | nil => intro k; rfl
      | cons x r ih =>
        intro k
        rw [List.zipIdx_cons, List.map_cons]
        by_cases hx : x.name = placeholder
        · simpa [hx] using ih (k + 1)
        · simpa [hx] using ih (k + 1)
    exact this _ 0
  · split <;> rfl

/-- without a node named like the placeholder: the nodes in id order, renumbered -/
theorem norm_nodes_plain (b : IBus) (hp : ∀ n ∈ b.nodes, n.name ≠ placeholder)
    (hs : ∀ m ∈ b.msgs, m.sender ∈ b.nodes.map (·.name)) :
    normNodes b = (sortedNodes b).zipIdx.map (fun p => { p.1 with id := p.2 }) := by
  unfold normNodes
  have h1 : (sortedNodes b).zipIdx.filter (fun p => p.1.name ≠ placeholder) = (sortedNodes b).zipIdx := by
    apply List.filter_eq_self.mpr
    intro p hpm
    have := List.mem_zipIdx (x := p.1) (i := p.2) hpm
    have hmem : p.1 ∈ sortedNodes b := by
      rw [List.mem_iff_getElem]
      exact ⟨p.2, by omega, by simpa using this.2.2.symm⟩
    simpa using hp p.1 (mem_sortedNodes.mp hmem)
  have h2 : b.msgs.any (fun m => m.sender = placeholder) = false := by
    rw [List.any_eq_false]
    intro m hm
    obtain ⟨n, hn, hname⟩ := List.mem_map.mp (hs m hm)
    simpa [← hname] using hp n hn
  rw [h1, h2]
  simp

/-! ## examples -/

namespace Ex

def ty (kind : Kind) (size : Nat) (signed : Bool) (min max scale offset : Rat) : SigType :=
  { kind := kind, size := size, signed := signed, min := min, max := max, scale := scale, offset := offset }

/-- two nodes with ids out of order, a custom type with a fractional scale, a custom type with the
    numbers of a flag, a shared enum wider than its values need, a message without signals that has
    a receiver, two enum objects with the same values -/
def bus1 : IBus :=
  { desc := "demo",
    nodes := [{ name := "B", id := 7, desc := "second" }, { name := "A", id := 3, desc := "" }],
    types := [ty .custom 8 false 0 255 (mkRat 1 2) 0, ty .custom 1 false 0 1 1 0, ty .decimal 4 true (-8) 7 1 0],
    units := ["rpm", ""],
    enums := [{ name := "Mode", values := [(0, "off"), (2, "on")], minSize := 4, refs := 0 },
              { name := "Other", values := [(0, "off"), (2, "on")], minSize := 1, refs := 0 }],
    msgs := [{ id := 20, name := "M", size := 8, sender := "B", receivers := ["A"], desc := "msg",
               sigs := [{ name := "s", start := 0, desc := "sig", kind := .standard 0 (some 0) },
                        { name := "f", start := 8, desc := "", kind := .standard 1 (some 1) },
                        { name := "d", start := 9, desc := "", kind := .standard 2 none },
                        { name := "e", start := 16, desc := "", kind := .enum 0 },
                        { name := "g", start := 20, desc := "", kind := .enum 0 },
                        { name := "h", start := 24, desc := "", kind := .enum 1 }] },
             { id := 10, name := "N", size := 2, sender := "A", receivers := ["B"], desc := "", sigs := [] }] }

example : BusWF bus1 := by decide

/-- the round trip on `bus1`, evaluated: the view that comes back is the normal form -/
example : (importBus (exportBus bus1)).toOption.map view = some (normB bus1) := by decide

/-- node ids renumbered in id order; message order by sender, then CAN-ID -/
example : (normB bus1).nodes.map (fun n => (n.name, n.id)) = [("A", 0), ("B", 1)] := by decide
example : (normB bus1).msgs.map (·.id) = [10, 20] := by decide

/-- the receivers of the message without signals are lost, the others kept -/
example : (normB bus1).msgs.map (·.receivers) = [[], ["A"]] := by decide

/-- custom with a fractional scale → decimal, custom with the numbers of a flag → flag, decimal
    with integral numbers → integer -/
example : ((normB bus1).msgs.map (fun m => m.sigs.filterMap (fun s =>
      match s.kind with | .standard t _ => some t.kind | .enum _ _ => none))) = [[], [.decimal, .flag, .integer]] := by
  decide

/-- the enum signals keep values and size (4 bits by the minimum size, 2 bits without); after the
    round trip the two signals of `Mode` share one object again (the table `Mode`, resized to 4
    bits), and `h` — whose enum `Other` has the same values — gets a 2-bit COPY OF `Mode`, the first
    table with its values: the name `Other` is lost for the signal -/
example : (importBus (exportBus bus1)).toOption.map (fun (ib : IBus) =>
      (ib.msgs.map (fun m => m.sigs.filterMap (fun s => match s.kind with | .enum e => some e | _ => none)),
       ib.enums.map (fun e => (e.name, e.minSize))))
    = some ([[], [0, 0, 2]], [("Mode", 4), ("Other", 1), ("Mode", 2)]) := by decide

/-- a bus that is its own normal form comes back unchanged -/
def bus2 : IBus :=
  { desc := "",
    nodes := [{ name := "A", id := 0, desc := "" }, { name := "B", id := 1, desc := "n" }],
    types := [ty .integer 8 false 0 255 1 0], units := ["V"], enums := [],
    msgs := [{ id := 5, name := "M", size := 8, sender := "A", receivers := ["B"], desc := "",
               sigs := [{ name := "s", start := 0, desc := "", kind := .standard 0 (some 0) }] }] }

example : BusWF bus2 ∧ normB bus2 = view bus2 := by decide

/-- outside the class: two messages with one CAN-ID (the API refuses them) -/
example : ¬ BusWF { bus2 with msgs := bus2.msgs ++ bus2.msgs } := by decide

end Ex

end Acme.Props.C11Bus
