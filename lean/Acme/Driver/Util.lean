/- Shared helpers for the line-protocol driver (core only). -/
namespace Acme.Driver

def parseInt? (s : String) : Option Int := s.toInt?

def parseNat? (s : String) : Option Nat := s.toNat?

/-- parse all tokens as Int, failing if any is malformed -/
def parseInts (ts : List String) : Option (List Int) := ts.mapM parseInt?

def showBool (b : Bool) : String := if b then "true" else "false"

def joinSp (xs : List String) : String := " ".intercalate xs

def showPair (p : Int × Int) : String := s!"({p.1},{p.2})"

def showList (xs : List String) : String := "[" ++ ",".intercalate xs ++ "]"

/-- exact rational as `num/den` -/
def showRat (q : Rat) : String := s!"{q.num}/{q.den}"

end Acme.Driver
