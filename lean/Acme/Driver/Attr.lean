/-
Driver of word `at` (attribute export / import model `Acme.Attr`, stream `attr`).

  at export <model-json>  → ok <dbc-attrs>  |  err <cause>     (the attributes and assignments are
                                  first passed through the modelled constructors / AssignAttribute)
  at import <dbc-json>    → ok <model-attrs>  |  err <cause>

JSON (no blank anywhere; names and strings are blank-free ASCII; a float is the exact rational
"num/den" of the binary64 number):
  model-json = {"bus":[asg…],"ents":[ent…]}
  ent  = {"k":"n","n":name,"a":[asg…]}
       | {"k":"m","id":N,"c":cycle,"d":delay,"sd":startDelay,"st":0..4,"a":[asg…]}
       | {"k":"s","id":N,"n":name,"sv":"num/den","st":0..7,"a":[asg…]}
  asg  = {"d":def,"v":val}
  def  = {"n":name,"t":"s","s":str} | {"n":name,"t":"i","d":Z,"min":Z,"max":Z,"hex":0|1}
       | {"n":name,"t":"f","fd":q,"fmin":q,"fmax":q} | {"n":name,"t":"e","vals":[str…]}
  (the harness writes every key of every variant; only the keys of the variant are read)
  val  = {"t":"s","s":str} | {"t":"i","i":Z} | {"t":"f","f":q}

  dbc-json = {"keys":[key…],"defs":[ddef…],"dflt":[{"n":name,"v":dval}…],"vals":[{"n":name,"o":obj,"v":dval}…]}
  key  = {"k":"n","n":name} | {"k":"m","id":N} | {"k":"s","id":N,"n":name}
  ddef = {"k":0..4,"n":name,"t":"int","min":Z,"max":Z} | {…"t":"hex","hmin":N,"hmax":N}
       | {…"t":"float","fmin":q,"fmax":q} | {…"t":"string"} | {…"t":"enum","vals":[str…]}
  dval = {"t":"i","i":Z} | {"t":"h","h":N} | {"t":"f","f":q} | {"t":"s","s":str}
  obj  = {"k":"g"} | {"k":"n","n":name} | {"k":"m","id":N} | {"k":"s","id":N,"n":name} | {"k":"e","n":name}

Renderings (the same text is produced by harness/s_attr.go from the real objects):
  dbc-attrs   : defs=[G|N|M|S|E:name:INT(min,max)|HEX(min,max)|FLOAT(q,q)|STRING|ENUM("a","b"),…]
                dflt=[name=dval,…] vals=[obj:name=dval,…]     dval = i:Z | h:N | f:q | s:"str"
                obj = G | N(name) | M(id) | S(id,name) | E(name)
  model-attrs : bus=[asg,…] ents=[N(name)[asg,…];M(id){c=…,d=…,sd=…,st=…}[asg,…];S(id,name){sv=q,st=…}[asg,…]]
                asg = name:def=val   def = str("d") | int(d,min,max) | hex(d,min,max) | float(d,min,max) | enum("a","b";"d")
                val = s:"str" | i:Z | f:q
-/
import Lean.Data.Json
import Acme.Driver.Util
import Acme.Core.Attr

namespace Acme.Driver.AttrD
open Lean (Json)
open Acme.Attr Acme.Conv

abbrev D := Except String

def fld (j : Json) (k : String) : D Json := j.getObjVal? k
def fStr (j : Json) (k : String) : D String := do (← fld j k).getStr?
def fNat (j : Json) (k : String) : D Nat := do (← fld j k).getNat?
def fInt (j : Json) (k : String) : D Int := do (← fld j k).getInt?

def fList {α : Type} (f : Json → D α) (j : Json) (k : String) : D (List α) := do
  let v ← fld j k
  if v.isNull then return []
  let a ← v.getArr?
  a.toList.mapM f

def parseRat (s : String) : D Rat :=
  match s.splitOn "/" with
  | [n, d] =>
    match n.toInt?, d.toNat? with
    | some n, some d => if d = 0 then throw "rat" else pure (mkRat n d)
    | _, _ => throw "rat"
  | _ => throw "rat"

def fRat (j : Json) (k : String) : D Rat := do parseRat (← fStr j k)

def msgSendOf : Nat → MsgSend
  | 1 => .cyclic | 2 => .cyclicIfActive | 3 => .cyclicAndTriggered
  | 4 => .cyclicIfActiveAndTriggered | _ => .unset

def sigSendOf : Nat → SigSend
  | 1 => .cyclic | 2 => .onWrite | 3 => .onWriteRep | 4 => .onChange | 5 => .onChangeRep
  | 6 => .ifActive | 7 => .ifActiveRep | _ => .unset

/-! ## model side input: through the constructors of the public API -/

/-- the attribute as the constructor makes it (or its refusal) -/
def jDef (j : Json) : D (Except ImpErr AttrDef) := do
  let n ← fStr j "n"
  match ← fStr j "t" with
  | "s" => pure (.ok ⟨n, .str (← fStr j "s")⟩)
  | "i" =>
    let hex := (← fNat j "hex") != 0
    pure (newInt n (← fInt j "d") (← fInt j "min") (← fInt j "max") hex)
  | "f" => pure (newFloat n (← fRat j "fd") (← fRat j "fmin") (← fRat j "fmax"))
  | "e" => pure (newEnum n (← fList (·.getStr?) j "vals"))
  | _ => throw "def"

def jVal (j : Json) : D Val := do
  match ← fStr j "t" with
  | "s" => pure (.str (← fStr j "s"))
  | "i" => pure (.int (← fInt j "i"))
  | "f" => pure (.float (← fRat j "f"))
  | _ => throw "val"

/-- `AssignAttribute(att, value)` -/
def jAsg (j : Json) : D (Except ImpErr Asg) := do
  let d ← jDef (← fld j "d")
  let v ← jVal (← fld j "v")
  match d with
  | .error e => pure (.error e)
  | .ok d =>
    match checkAssign d.ty v with
    | .error e => pure (.error e)
    | .ok () => pure (.ok ⟨d, v⟩)

def seqE {α : Type} (l : List (Except ImpErr α)) : Except ImpErr (List α) := mapE id l

def jEnt (j : Json) : D (Except ImpErr Ent) := do
  let asgs := seqE (← fList jAsg j "a")
  match ← fStr j "k" with
  | "n" =>
    let n ← fStr j "n"
    pure (asgs.map (Ent.node n ·))
  | "m" =>
    let id ← fNat j "id"
    let f : MsgF := { cycle := ← fInt j "c", delay := ← fInt j "d", startDelay := ← fInt j "sd",
                      send := msgSendOf (← fNat j "st") }
    pure (asgs.map (Ent.msg id f ·))
  | "s" =>
    let id ← fNat j "id"
    let n ← fStr j "n"
    let f : SigF := { start := ← fRat j "sv", send := sigSendOf (← fNat j "st") }
    pure (asgs.map (Ent.sig id n f ·))
  | _ => throw "ent"

def jModel (j : Json) : D (Except ImpErr ModelAttrs) := do
  let bus := seqE (← fList jAsg j "bus")
  let ents := seqE (← fList jEnt j "ents")
  match bus, ents with
  | .error e, _ => pure (.error e)
  | _, .error e => pure (.error e)
  | .ok b, .ok es => pure (.ok ⟨b, es⟩)

/-! ## file side input -/

def jKey (j : Json) : D Key := do
  match ← fStr j "k" with
  | "n" => pure (.node (← fStr j "n"))
  | "m" => pure (.msg (← fNat j "id"))
  | "s" => pure (.sig (← fNat j "id") (← fStr j "n"))
  | _ => throw "key"

def kindOf : Nat → Kind
  | 0 => .general | 1 => .node | 2 => .message | 3 => .signal | _ => .envVar

def jDDef (j : Json) : D DAttr := do
  let k := kindOf (← fNat j "k")
  let n ← fStr j "n"
  match ← fStr j "t" with
  | "int" => pure ⟨k, n, .int (← fInt j "min") (← fInt j "max")⟩
  | "hex" => pure ⟨k, n, .hex (← fNat j "hmin") (← fNat j "hmax")⟩
  | "float" => pure ⟨k, n, .float (← fRat j "fmin") (← fRat j "fmax")⟩
  | "string" => pure ⟨k, n, .string⟩
  | "enum" => pure ⟨k, n, .enum (← fList (·.getStr?) j "vals")⟩
  | _ => throw "ddef"

def jDVal (j : Json) : D DVal := do
  match ← fStr j "t" with
  | "i" => pure (.int (← fInt j "i"))
  | "h" => pure (.hex (← fNat j "h"))
  | "f" => pure (.float (← fRat j "f"))
  | "s" => pure (.str (← fStr j "s"))
  | _ => throw "dval"

def jTarget (j : Json) : D Target := do
  match ← fStr j "k" with
  | "g" => pure .general
  | "n" => pure (.node (← fStr j "n"))
  | "m" => pure (.msg (← fNat j "id"))
  | "s" => pure (.sig (← fNat j "id") (← fStr j "n"))
  | "e" => pure (.envVar (← fStr j "n"))
  | _ => throw "obj"

def jDDefault (j : Json) : D DDefault := do
  pure ⟨← fStr j "n", ← jDVal (← fld j "v")⟩

def jDValue (j : Json) : D DValue := do
  pure ⟨← fStr j "n", ← jTarget (← fld j "o"), ← jDVal (← fld j "v")⟩

def jDbc (j : Json) : D DbcAttrs := do
  pure { keys := ← fList jKey j "keys", defs := ← fList jDDef j "defs",
         defaults := ← fList jDDefault j "dflt", values := ← fList jDValue j "vals" }

/-! ## renderings -/

def q (s : String) : String := "\"" ++ s ++ "\""

def showStrs (l : List String) : String := ",".intercalate (l.map q)

def showKind : Kind → String
  | .general => "G" | .node => "N" | .message => "M" | .signal => "S" | .envVar => "E"

def showDType : DType → String
  | .int mn mx => s!"INT({mn},{mx})"
  | .hex mn mx => s!"HEX({mn},{mx})"
  | .float mn mx => s!"FLOAT({showRat mn},{showRat mx})"
  | .string => "STRING"
  | .enum vs => s!"ENUM({showStrs vs})"

def showDVal : DVal → String
  | .int i => s!"i:{i}"
  | .hex h => s!"h:{h}"
  | .float x => s!"f:{showRat x}"
  | .str s => s!"s:{q s}"

def showTarget : Target → String
  | .general => "G"
  | .node n => s!"N({n})"
  | .msg id => s!"M({id})"
  | .sig id n => s!"S({id},{n})"
  | .envVar n => s!"E({n})"

def showDbc (d : DbcAttrs) : String :=
  let defs := d.defs.map (fun a => s!"{showKind a.kind}:{a.name}:{showDType a.ty}")
  let dflt := d.defaults.map (fun a => s!"{a.name}={showDVal a.val}")
  let vals := d.values.map (fun a => s!"{showTarget a.target}:{a.name}={showDVal a.val}")
  s!"defs={showList defs} dflt={showList dflt} vals={showList vals}"

def showType : AttrType → String
  | .str d => s!"str({q d})"
  | .int d mn mx false => s!"int({d},{mn},{mx})"
  | .int d mn mx true => s!"hex({d},{mn},{mx})"
  | .float d mn mx => s!"float({showRat d},{showRat mn},{showRat mx})"
  | .enum vs d => s!"enum({showStrs vs};{q d})"

def showVal : Val → String
  | .str s => s!"s:{q s}"
  | .int i => s!"i:{i}"
  | .float x => s!"f:{showRat x}"

def showAsg (a : Asg) : String := s!"{a.att.name}:{showType a.att.ty}={showVal a.val}"

def showAsgs (l : List Asg) : String := showList (l.map showAsg)

def showEnt : Ent → String
  | .node n a => s!"N({n}){showAsgs a}"
  | .msg id f a =>
    s!"M({id})\{c={f.cycle},d={f.delay},sd={f.startDelay},st={msgSendToDBC f.send}}{showAsgs a}"
  | .sig id n f a => s!"S({id},{n})\{sv={showRat f.start},st={sigSendToDBC f.send}}{showAsgs a}"

def showModel (m : ModelAttrs) : String :=
  s!"bus={showAsgs m.bus} ents=[{";".intercalate (m.ents.map showEnt)}]"

def showErr : ImpErr → String
  | .defaultRequired => "defaultRequired" | .invalidType => "invalidType"
  | .minGreaterThanMax => "minGreaterThanMax" | .defGreaterThanMax => "defGreaterThanMax"
  | .defLowerThanMin => "defLowerThanMin" | .valuesNil => "valuesNil"
  | .indexNegative => "indexNegative" | .indexOutOfBounds => "indexOutOfBounds"
  | .outOfBounds => "outOfBounds" | .notFound => "notFound"

def handleExport (payload : String) : String :=
  match Json.parse payload >>= jModel with
  | .error e => "bad-op " ++ e
  | .ok (.error e) => "err " ++ showErr e
  | .ok (.ok A) => "ok " ++ showDbc (exportAttrs A)

def handleImport (payload : String) : String :=
  match Json.parse payload >>= jDbc with
  | .error e => "bad-op " ++ e
  | .ok d =>
    match importAttrs d with
    | .ok m => "ok " ++ showModel m
    | .error e => "err " ++ showErr e

def handle (args : List String) : String :=
  match args with
  | "export" :: payload :: _ => handleExport payload
  | "import" :: payload :: _ => handleImport payload
  | _ => "bad-op"

end Acme.Driver.AttrD
