/-
Driver of word `at` (attribute export / import model, stream attr).  Filled in by the
attribute model work.
-/
import Acme.Driver.Util

namespace Acme.Driver.AttrD

def handle (_args : List String) : String := "bad-op"

end Acme.Driver.AttrD
