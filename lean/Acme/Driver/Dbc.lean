/-
Line-protocol handlers of the stream `dbc` (token-level DBC writer/parser model).

  dbc write <hex 0|1> <file-json>            → <tokens-json>
  dbc parse <hex 0|1> <tokens-json> [ignored…] → ok <file-json> | err
  dbc scan x<hex-bytes>                      → kind:<hex-value>@line:col,… (`Scan.scanAll` = VerifScan)
  dbc chainok x<hex-bytes> [ignored…]        → ok <n> | bad <i> | error   (the text cut into tokens and
      separators by `Scan.scanItemsAll`; `Scan.chainOK` of the n tokens, or the index of the first
      pair that may merge, or `error` when the scan ends with an error token)

* The JSON payloads contain NO blank (the harness escapes every blank inside JSON strings as
  the escape `\u0020`), because the driver splits a line at blanks.
* file-json: an object with the Go field names of `dbc.File`; `NewSymbols`/`Nodes` are `null` or
  an array of strings, `BitTiming` is `null` or an object; slices are arrays; enums are their Go
  numeric values; `uint32`/`int` fields are JSON integers; `float64` fields are JSON strings
  holding `strconv.FormatFloat(x,'f',-1,64)` (in `parse` answers: the accepted token text).
* tokens-json: an array of `[kind, value]` pairs, the kinds being the names of token.go:
  ident number number_range mux_indicator string keyword punct eof error.
-/
import Lean.Data.Json
import Acme.Core.Dbc
import Acme.Core.DbcWrite
import Acme.Core.DbcParse
import Acme.Core.DbcScan
import Acme.Spec.DbcScan

namespace Acme.Driver.DbcD
open Lean (Json)
open Acme.Dbc

/-! ## decoding -/

abbrev D := Except String

def fld (j : Json) (k : String) : D Json := j.getObjVal? k
def fStr (j : Json) (k : String) : D String := do (← fld j k).getStr?
def fNat (j : Json) (k : String) : D Nat := do (← fld j k).getNat?
def fInt (j : Json) (k : String) : D Int := do (← fld j k).getInt?
def fBool (j : Json) (k : String) : D Bool := do (← fld j k).getBool?

def fList {α : Type} (f : Json → D α) (j : Json) (k : String) : D (List α) := do
  let v ← fld j k
  if v.isNull then return []
  let a ← v.getArr?
  a.toList.mapM f

def fStrs (j : Json) (k : String) : D (List String) := fList (·.getStr?) j k

def fOpt {α : Type} (f : Json → D α) (j : Json) (k : String) : D (Option α) := do
  let v ← fld j k
  if v.isNull then return none
  return some (← f v)

def strList (v : Json) : D (List String) := do
  let a ← v.getArr?
  a.toList.mapM (·.getStr?)

def enumOf {α : Type} (xs : List α) (n : Nat) : D α :=
  match xs[n]? with
  | some x => pure x
  | none => throw "enum out of range"

def byteOrders : List ByteOrder := [.littleEndian, .bigEndian]
def valueTypes : List ValueType := [.unsigned, .signed]
def extValueTypes : List ExtValueType := [.integer, .float, .double]
def envVarTypes : List EnvVarType := [.int, .float, .string]
def accessTypes : List AccessType := [.v0, .v1, .v2, .v3, .v8000, .v8001, .v8002, .v8003]
def valueEncodingKinds : List ValueEncodingKind := [.signal, .envVar]
def commentKinds : List CommentKind := [.general, .node, .message, .signal, .envVar]
def attributeKinds : List AttributeKind := [.general, .node, .message, .signal, .envVar]
def attributeTypes : List AttributeType := [.int, .float, .string, .enum, .hex]
def attrValTypes : List AttrValType := [.int, .string, .float, .hex]

def fEnum {α : Type} (xs : List α) (j : Json) (k : String) : D α := do enumOf xs (← fNat j k)

def idxOf {α : Type} [BEq α] (xs : List α) (x : α) : Nat := xs.idxOf x

def dBitTiming (j : Json) : D BitTiming := do
  pure { baudrate := ← fNat j "Baudrate", bitTimingReg1 := ← fNat j "BitTimingReg1",
         bitTimingReg2 := ← fNat j "BitTimingReg2" }

def dValueDescription (j : Json) : D ValueDescription := do
  pure { id := ← fNat j "ID", name := ← fStr j "Name" }

def dValueTable (j : Json) : D ValueTable := do
  pure { name := ← fStr j "Name", values := ← fList dValueDescription j "Values" }

def dSignal (j : Json) : D Signal := do
  pure { name := ← fStr j "Name", isMultiplexor := ← fBool j "IsMultiplexor",
         isMultiplexed := ← fBool j "IsMultiplexed", muxSwitchValue := ← fNat j "MuxSwitchValue",
         size := ← fNat j "Size", startBit := ← fNat j "StartBit",
         byteOrder := ← fEnum byteOrders j "ByteOrder", valueType := ← fEnum valueTypes j "ValueType",
         factor := ← fStr j "Factor", offset := ← fStr j "Offset", min := ← fStr j "Min",
         max := ← fStr j "Max", unit := ← fStr j "Unit", receivers := ← fStrs j "Receivers" }

def dMessage (j : Json) : D Message := do
  pure { id := ← fNat j "ID", name := ← fStr j "Name", size := ← fNat j "Size",
         transmitter := ← fStr j "Transmitter", signals := ← fList dSignal j "Signals" }

def dMessageTransmitter (j : Json) : D MessageTransmitter := do
  pure { messageID := ← fNat j "MessageID", transmitters := ← fStrs j "Transmitters" }

def dEnvVar (j : Json) : D EnvVar := do
  pure { name := ← fStr j "Name", type := ← fEnum envVarTypes j "Type", min := ← fStr j "Min",
         max := ← fStr j "Max", unit := ← fStr j "Unit", initialValue := ← fStr j "InitialValue",
         id := ← fNat j "ID", accessType := ← fEnum accessTypes j "AccessType",
         accessNodes := ← fStrs j "AccessNodes" }

def dEnvVarData (j : Json) : D EnvVarData := do
  pure { envVarName := ← fStr j "EnvVarName", dataSize := ← fNat j "DataSize" }

def dSignalType (j : Json) : D SignalType := do
  pure { typeName := ← fStr j "TypeName", size := ← fNat j "Size",
         byteOrder := ← fEnum byteOrders j "ByteOrder", valueType := ← fEnum valueTypes j "ValueType",
         factor := ← fStr j "Factor", offset := ← fStr j "Offset", min := ← fStr j "Min",
         max := ← fStr j "Max", unit := ← fStr j "Unit", defaultValue := ← fStr j "DefaultValue",
         valueTableName := ← fStr j "ValueTableName" }

def dComment (j : Json) : D Comment := do
  pure { kind := ← fEnum commentKinds j "Kind", text := ← fStr j "Text",
         nodeName := ← fStr j "NodeName", messageID := ← fNat j "MessageID",
         signalName := ← fStr j "SignalName", envVarName := ← fStr j "EnvVarName" }

def dAttribute (j : Json) : D Attribute := do
  pure { kind := ← fEnum attributeKinds j "Kind", type := ← fEnum attributeTypes j "Type",
         name := ← fStr j "Name", minInt := ← fInt j "MinInt", maxInt := ← fInt j "MaxInt",
         minHex := ← fNat j "MinHex", maxHex := ← fNat j "MaxHex",
         minFloat := ← fStr j "MinFloat", maxFloat := ← fStr j "MaxFloat",
         enumValues := ← fStrs j "EnumValues" }

def dAttributeDefault (j : Json) : D AttributeDefault := do
  pure { type := ← fEnum attrValTypes j "Type", attributeName := ← fStr j "AttributeName",
         valueString := ← fStr j "ValueString", valueInt := ← fInt j "ValueInt",
         valueHex := ← fNat j "ValueHex", valueFloat := ← fStr j "ValueFloat" }

def dAttributeValue (j : Json) : D AttributeValue := do
  pure { attributeKind := ← fEnum attributeKinds j "AttributeKind",
         type := ← fEnum attrValTypes j "Type", attributeName := ← fStr j "AttributeName",
         nodeName := ← fStr j "NodeName", messageID := ← fNat j "MessageID",
         signalName := ← fStr j "SignalName", envVarName := ← fStr j "EnvVarName",
         valueString := ← fStr j "ValueString", valueInt := ← fInt j "ValueInt",
         valueHex := ← fNat j "ValueHex", valueFloat := ← fStr j "ValueFloat" }

def dValueEncoding (j : Json) : D ValueEncoding := do
  pure { kind := ← fEnum valueEncodingKinds j "Kind", messageID := ← fNat j "MessageID",
         signalName := ← fStr j "SignalName", envVarName := ← fStr j "EnvVarName",
         values := ← fList dValueDescription j "Values" }

def dSignalTypeRef (j : Json) : D SignalTypeRef := do
  pure { typeName := ← fStr j "TypeName", messageID := ← fNat j "MessageID",
         signalName := ← fStr j "SignalName" }

def dSignalGroup (j : Json) : D SignalGroup := do
  pure { messageID := ← fNat j "MessageID", groupName := ← fStr j "GroupName",
         repetitions := ← fNat j "Repetitions", signalNames := ← fStrs j "SignalNames" }

def dSignalExtValueType (j : Json) : D SignalExtValueType := do
  pure { messageID := ← fNat j "MessageID", signalName := ← fStr j "SignalName",
         extValueType := ← fEnum extValueTypes j "ExtValueType" }

def dExtendedMuxRange (j : Json) : D ExtendedMuxRange := do
  pure { from_ := ← fNat j "From", to := ← fNat j "To" }

def dExtendedMux (j : Json) : D ExtendedMux := do
  pure { messageID := ← fNat j "MessageID", multiplexorName := ← fStr j "MultiplexorName",
         multiplexedName := ← fStr j "MultiplexedName", ranges := ← fList dExtendedMuxRange j "Ranges" }

def dFile (j : Json) : D File := do
  pure { version := ← fStr j "Version",
         newSymbols := ← fOpt strList j "NewSymbols",
         bitTiming := ← fOpt dBitTiming j "BitTiming",
         nodes := ← fOpt strList j "Nodes",
         valueTables := ← fList dValueTable j "ValueTables",
         messages := ← fList dMessage j "Messages",
         messageTransmitters := ← fList dMessageTransmitter j "MessageTransmitters",
         envVars := ← fList dEnvVar j "EnvVars",
         envVarDatas := ← fList dEnvVarData j "EnvVarDatas",
         signalTypes := ← fList dSignalType j "SignalTypes",
         comments := ← fList dComment j "Comments",
         attributes := ← fList dAttribute j "Attributes",
         attributeDefaults := ← fList dAttributeDefault j "AttributeDefaults",
         attributeValues := ← fList dAttributeValue j "AttributeValues",
         valueEncodings := ← fList dValueEncoding j "ValueEncodings",
         signalTypeRefs := ← fList dSignalTypeRef j "SignalTypeRefs",
         signalGroups := ← fList dSignalGroup j "SignalGroups",
         signalExtValueTypes := ← fList dSignalExtValueType j "SignalExtValueTypes",
         extendedMuxes := ← fList dExtendedMux j "ExtendedMuxes" }

def dToken (j : Json) : D Token := do
  let a ← j.getArr?
  match a.toList with
  | [k, v] =>
    let kind ← k.getStr?
    let val ← v.getStr?
    match kind with
    | "ident" => pure (.ident val)
    | "number" => pure (.number val)
    | "number_range" => pure (.numberRange val)
    | "mux_indicator" => pure (.muxIndicator val)
    | "string" => pure (.string val)
    | "keyword" => pure (.keyword val)
    | "punct" => pure (.punct val)
    | "eof" => pure .eof
    | "error" => pure (.error val)
    | _ => throw "unknown token kind"
  | _ => throw "token: pair expected"

/-! ## encoding -/

def jNat (n : Nat) : Json := Json.num n
def jInt (i : Int) : Json := Json.num i
def jStrs (xs : List String) : Json := Json.arr (xs.map Json.str).toArray
def jList {α : Type} (f : α → Json) (xs : List α) : Json := Json.arr (xs.map f).toArray
def jEnum {α : Type} [BEq α] (xs : List α) (x : α) : Json := jNat (xs.idxOf x)

def eBitTiming (b : BitTiming) : Json :=
  Json.mkObj [("Baudrate", jNat b.baudrate), ("BitTimingReg1", jNat b.bitTimingReg1),
              ("BitTimingReg2", jNat b.bitTimingReg2)]

def eValueDescription (v : ValueDescription) : Json :=
  Json.mkObj [("ID", jNat v.id), ("Name", Json.str v.name)]

def eValueTable (v : ValueTable) : Json :=
  Json.mkObj [("Name", Json.str v.name), ("Values", jList eValueDescription v.values)]

def eSignal (s : Signal) : Json :=
  Json.mkObj [("Name", Json.str s.name), ("IsMultiplexor", Json.bool s.isMultiplexor),
    ("IsMultiplexed", Json.bool s.isMultiplexed), ("MuxSwitchValue", jNat s.muxSwitchValue),
    ("Size", jNat s.size), ("StartBit", jNat s.startBit),
    ("ByteOrder", jEnum byteOrders s.byteOrder), ("ValueType", jEnum valueTypes s.valueType),
    ("Factor", Json.str s.factor), ("Offset", Json.str s.offset), ("Min", Json.str s.min),
    ("Max", Json.str s.max), ("Unit", Json.str s.unit), ("Receivers", jStrs s.receivers)]

def eMessage (m : Message) : Json :=
  Json.mkObj [("ID", jNat m.id), ("Name", Json.str m.name), ("Size", jNat m.size),
    ("Transmitter", Json.str m.transmitter), ("Signals", jList eSignal m.signals)]

def eMessageTransmitter (m : MessageTransmitter) : Json :=
  Json.mkObj [("MessageID", jNat m.messageID), ("Transmitters", jStrs m.transmitters)]

def eEnvVar (e : EnvVar) : Json :=
  Json.mkObj [("Name", Json.str e.name), ("Type", jEnum envVarTypes e.type),
    ("Min", Json.str e.min), ("Max", Json.str e.max), ("Unit", Json.str e.unit),
    ("InitialValue", Json.str e.initialValue), ("ID", jNat e.id),
    ("AccessType", jEnum accessTypes e.accessType), ("AccessNodes", jStrs e.accessNodes)]

def eEnvVarData (e : EnvVarData) : Json :=
  Json.mkObj [("EnvVarName", Json.str e.envVarName), ("DataSize", jNat e.dataSize)]

def eSignalType (s : SignalType) : Json :=
  Json.mkObj [("TypeName", Json.str s.typeName), ("Size", jNat s.size),
    ("ByteOrder", jEnum byteOrders s.byteOrder), ("ValueType", jEnum valueTypes s.valueType),
    ("Factor", Json.str s.factor), ("Offset", Json.str s.offset), ("Min", Json.str s.min),
    ("Max", Json.str s.max), ("Unit", Json.str s.unit), ("DefaultValue", Json.str s.defaultValue),
    ("ValueTableName", Json.str s.valueTableName)]

def eComment (c : Comment) : Json :=
  Json.mkObj [("Kind", jEnum commentKinds c.kind), ("Text", Json.str c.text),
    ("NodeName", Json.str c.nodeName), ("MessageID", jNat c.messageID),
    ("SignalName", Json.str c.signalName), ("EnvVarName", Json.str c.envVarName)]

def eAttribute (a : Attribute) : Json :=
  Json.mkObj [("Kind", jEnum attributeKinds a.kind), ("Type", jEnum attributeTypes a.type),
    ("Name", Json.str a.name), ("MinInt", jInt a.minInt), ("MaxInt", jInt a.maxInt),
    ("MinHex", jNat a.minHex), ("MaxHex", jNat a.maxHex), ("MinFloat", Json.str a.minFloat),
    ("MaxFloat", Json.str a.maxFloat), ("EnumValues", jStrs a.enumValues)]

def eAttributeDefault (a : AttributeDefault) : Json :=
  Json.mkObj [("Type", jEnum attrValTypes a.type), ("AttributeName", Json.str a.attributeName),
    ("ValueString", Json.str a.valueString), ("ValueInt", jInt a.valueInt),
    ("ValueHex", jNat a.valueHex), ("ValueFloat", Json.str a.valueFloat)]

def eAttributeValue (a : AttributeValue) : Json :=
  Json.mkObj [("AttributeKind", jEnum attributeKinds a.attributeKind),
    ("Type", jEnum attrValTypes a.type), ("AttributeName", Json.str a.attributeName),
    ("NodeName", Json.str a.nodeName), ("MessageID", jNat a.messageID),
    ("SignalName", Json.str a.signalName), ("EnvVarName", Json.str a.envVarName),
    ("ValueString", Json.str a.valueString), ("ValueInt", jInt a.valueInt),
    ("ValueHex", jNat a.valueHex), ("ValueFloat", Json.str a.valueFloat)]

def eValueEncoding (v : ValueEncoding) : Json :=
  Json.mkObj [("Kind", jEnum valueEncodingKinds v.kind), ("MessageID", jNat v.messageID),
    ("SignalName", Json.str v.signalName), ("EnvVarName", Json.str v.envVarName),
    ("Values", jList eValueDescription v.values)]

def eSignalTypeRef (s : SignalTypeRef) : Json :=
  Json.mkObj [("TypeName", Json.str s.typeName), ("MessageID", jNat s.messageID),
    ("SignalName", Json.str s.signalName)]

def eSignalGroup (s : SignalGroup) : Json :=
  Json.mkObj [("MessageID", jNat s.messageID), ("GroupName", Json.str s.groupName),
    ("Repetitions", jNat s.repetitions), ("SignalNames", jStrs s.signalNames)]

def eSignalExtValueType (s : SignalExtValueType) : Json :=
  Json.mkObj [("MessageID", jNat s.messageID), ("SignalName", Json.str s.signalName),
    ("ExtValueType", jEnum extValueTypes s.extValueType)]

def eExtendedMuxRange (r : ExtendedMuxRange) : Json :=
  Json.mkObj [("From", jNat r.from_), ("To", jNat r.to)]

def eExtendedMux (m : ExtendedMux) : Json :=
  Json.mkObj [("MessageID", jNat m.messageID), ("MultiplexorName", Json.str m.multiplexorName),
    ("MultiplexedName", Json.str m.multiplexedName), ("Ranges", jList eExtendedMuxRange m.ranges)]

def eOpt {α : Type} (f : α → Json) : Option α → Json
  | none => Json.null
  | some x => f x

def eFile (f : File) : Json :=
  Json.mkObj [("Version", Json.str f.version),
    ("NewSymbols", eOpt jStrs f.newSymbols),
    ("BitTiming", eOpt eBitTiming f.bitTiming),
    ("Nodes", eOpt jStrs f.nodes),
    ("ValueTables", jList eValueTable f.valueTables),
    ("Messages", jList eMessage f.messages),
    ("MessageTransmitters", jList eMessageTransmitter f.messageTransmitters),
    ("EnvVars", jList eEnvVar f.envVars),
    ("EnvVarDatas", jList eEnvVarData f.envVarDatas),
    ("SignalTypes", jList eSignalType f.signalTypes),
    ("Comments", jList eComment f.comments),
    ("Attributes", jList eAttribute f.attributes),
    ("AttributeDefaults", jList eAttributeDefault f.attributeDefaults),
    ("AttributeValues", jList eAttributeValue f.attributeValues),
    ("ValueEncodings", jList eValueEncoding f.valueEncodings),
    ("SignalTypeRefs", jList eSignalTypeRef f.signalTypeRefs),
    ("SignalGroups", jList eSignalGroup f.signalGroups),
    ("SignalExtValueTypes", jList eSignalExtValueType f.signalExtValueTypes),
    ("ExtendedMuxes", jList eExtendedMux f.extendedMuxes)]

def eToken : Token → Json
  | .ident v => Json.arr #[Json.str "ident", Json.str v]
  | .number v => Json.arr #[Json.str "number", Json.str v]
  | .numberRange v => Json.arr #[Json.str "number_range", Json.str v]
  | .muxIndicator v => Json.arr #[Json.str "mux_indicator", Json.str v]
  | .string v => Json.arr #[Json.str "string", Json.str v]
  | .keyword v => Json.arr #[Json.str "keyword", Json.str v]
  | .punct v => Json.arr #[Json.str "punct", Json.str v]
  | .eof => Json.arr #[Json.str "eof", Json.str ""]
  | .error v => Json.arr #[Json.str "error", Json.str v]

/-! ## handlers -/

def hexFlag : String → Option Bool
  | "0" => some false
  | "1" => some true
  | _ => none

def handleWrite (hex : Bool) (payload : String) : String :=
  match Json.parse payload >>= dFile with
  | .error e => "bad-op " ++ e
  | .ok f => (jList eToken (writeToks hex f)).compress

def handleParse (hex : Bool) (payload : String) : String :=
  match Json.parse payload >>= (fun j => do let a ← j.getArr?; a.toList.mapM dToken) with
  | .error e => "bad-op " ++ e
  | .ok ts =>
    match parseToks hex ts with
    | .ok f => "ok " ++ (eFile f).compress
    | .error .fuel => "err fuel"
    | .error (.syntax _) => "err"

/-! ## `dbc scan`: the byte-level scanner model -/

def hexVal? (c : Char) : Option Nat :=
  if '0' ≤ c ∧ c ≤ '9' then some (c.toNat - 48)
  else if 'a' ≤ c ∧ c ≤ 'f' then some (c.toNat - 87)
  else none

def unhex : List Char → Option (List UInt8)
  | [] => some []
  | a :: b :: rest =>
    match hexVal? a, hexVal? b, unhex rest with
    | some x, some y, some r => some (UInt8.ofNat (16 * x + y) :: r)
    | _, _, _ => none
  | _ => none

def hexDigit (n : Nat) : Char := if n < 10 then Char.ofNat (48 + n) else Char.ofNat (87 + n)

def hexOf (bs : List UInt8) : String :=
  String.ofList (bs.flatMap (fun b => [hexDigit (b.toNat / 16), hexDigit (b.toNat % 16)]))

def showPTok (t : Scan.PTok) : String :=
  t.kind.name ++ ":" ++ hexOf t.valueBytes ++ "@" ++ toString t.pos.line ++ ":" ++ toString t.pos.col

def handleScan (payload : String) : String :=
  match payload.toList with
  | 'x' :: hs =>
    match unhex hs with
    | some bs => ",".intercalate ((Scan.scanAll bs).map showPTok)
    | none => "bad-op hex"
  | _ => "bad-op hex"

/-- the tokens of a scan (spaces included) as `(token, separator behind it)`; `none` when the
scan ends with an error token.  A NUL-`eof` token ends the list like the real `eof`. -/
def chainOfScan : List Scan.PTok → Option (List (Token × String))
  | [] => some []
  | t :: rest =>
    match t.kind with
    | .error => none
    | .eof => some []
    | .space => chainOfScan rest
    | _ =>
      let sep := match rest with
        | s :: _ => if s.kind = .space then String.ofList s.raw else ""
        | [] => ""
      (chainOfScan rest).map ((t.tok, sep) :: ·)

def handleChainOK (payload : String) : String :=
  match payload.toList with
  | 'x' :: hs =>
    match unhex hs with
    | some bs =>
      match chainOfScan (Scan.scanItemsAll (Scan.decode bs)) with
      | none => "error"
      | some l =>
        if Scan.chainOK l then "ok " ++ toString l.length
        else match Scan.firstBadPair 0 l with
          | some i => "bad " ++ toString i
          | none => "bad ?"
    | none => "bad-op hex"
  | _ => "bad-op hex"

def handle (args : List String) : String :=
  match args with
  | "scan" :: payload :: _ => handleScan payload
  | "chainok" :: payload :: _ => handleChainOK payload
  | "write" :: h :: payload :: _ =>
    match hexFlag h with
    | some hex => handleWrite hex payload
    | none => "bad-op"
  | "parse" :: h :: payload :: _ =>
    match hexFlag h with
    | some hex => handleParse hex payload
    | none => "bad-op"
  | _ => "bad-op"

end Acme.Driver.DbcD
