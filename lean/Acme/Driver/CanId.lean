import Acme.Core.CanId
import Acme.Driver.Util

namespace Acme.Driver.CanIdD
open Acme.CanId Acme.Driver

def kindOf : Int → Option Kind
  | 0 => some .prio | 1 => some .msgId | 2 => some .nodeId | 3 => some .mask | _ => none

def kindNum : Kind → Nat
  | .prio => 0 | .msgId => 1 | .nodeId => 2 | .mask => 3

/-- reads `n` triples (kind from len) -/
def readOps : Nat → List Int → Option (List BOp × List Int)
  | 0, rest => some ([], rest)
  | n + 1, k :: f :: l :: rest => do
    let kd ← kindOf k
    let (ops, rest') ← readOps n rest
    pure (⟨kd, f, l⟩ :: ops, rest')
  | _, _ => none

def showOps (ops : List BOp) : String :=
  showList (ops.map (fun o => s!"({kindNum o.kind},{o.from_},{o.len})"))

def bv (i : Int) : BitVec 32 := BitVec.ofInt 32 i

def showErr : Err → String
  | .outOfBounds a => s!"err outOfBounds {a}"

def handle (args : List String) : String :=
  match args with
  | cmd :: rest =>
    match parseInts rest with
    | none => "bad-op"
    | some (n :: xs) =>
      if n < -1 then "bad-op" else
      let opsr := if n = -1 then some (defaultOps, xs) else readOps n.toNat xs
      match opsr with
      | none => "bad-op"
      | some (ops, tail) =>
        match cmd, tail with
        | "calc", [p, m, nd] =>
          let ps := partialsFromFast 0#32 (bv p) (bv m) (bv nd) ops
          s!"calc {(calculateFast ops (bv p) (bv m) (bv nd)).toNat} {showList (ps.map (fun x => toString x.toNat))}"
        | "ins", [k, f, l, idx] =>
          match kindOf k with
          | none => "bad-op"
          | some kd =>
            match insertOp ops kd f l idx with
            | .ok ops' => s!"ok {showOps ops'}"
            | .error e => showErr e
        | "rem", [idx] =>
          match removeOp ops idx with
          | .ok ops' => s!"ok {showOps ops'}"
          | .error e => showErr e
        | "get", [st, static, att, p, m, nd] =>
          let s := if st = 1 then some (bv static) else none
          let a := if att = 2 then some (ops, bv nd) else none
          -- SetStaticCANID also overwrites the message id
          let mid := if st = 1 then bv static else bv m
          let a' := a.map (fun (o, n) => (calculateFast o (bv p) mid n))
          let r := match s with
            | some c => c
            | none => match a' with | none => mid | some v => v
          s!"id {r.toNat}"
        | _, _ => "bad-op"
    | _ => "bad-op"
  | [] => "bad-op"

end Acme.Driver.CanIdD
