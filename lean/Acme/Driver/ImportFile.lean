/-
Driver of word `if` (whole-file importer model `Acme.ImportFile.importDoc`, stream `impfile`).

  if import <doc-json>   → ok <idoc>  |  err <pass> <cause>

JSON (no blank anywhere, see Driver/ImportBus.lean): the document of `ib import` whose signal
objects ALSO carry the layout keys of `imp import`, plus the extended-multiplexing section and the
three attribute sections of `at import` (without "keys": the entities are those of the document)

  doc = {"nodes":[name…],"vt":[…],"ve":[…],"cm":[…],
         "msgs":[{"id":N,"n":name,"z":bytes,"tx":transmitter,
                  "sigs":[{"n":name,"s":start,"z":size,"be":0|1,"mr":0|1,"md":0|1,"k":switch,
                           "sg":0|1,"f":q,"o":q,"mn":q,"mx":q,"u":unit,"r":[name…]}…]}…],
         "ext":[{"m":msgId,"x":multiplexor,"d":multiplexed,"r":[[from,to]…]}…],
         "defs":[ddef…],"dflt":[{"n":name,"v":dval}…],"vals":[{"n":name,"o":obj,"v":dval}…]}

Rendering (the same text is produced by harness/s_impfile.go from the real objects):
  desc="…" nodes=[name#id:"desc",…] msgs=[msg,…] attrs=(bus=… ents=[…])
  msg = {id=…,n=…,z=…,tx=…,rx=[sorted],d="…",sigs=[sig,…],mux=[name:"desc",…],tree=(<itree of `imp import`>)}
  messages sorted by id; `sigs` = the standard / enum signals of the message at every depth sorted
  by name, rendered as by `ib import` with the start bit 0 (the positions are in the tree);
  `mux` = the multiplexor signals sorted by name; the attribute entities are the nodes of the
  file, then every message followed by its signals in file order.
  pass = tables | encs | nodes | msg<index in file order> | attrs
  cause = the cause names of `ib import` (bus level), `imp import` (message level), `at import`
-/
import Lean.Data.Json
import Acme.Driver.Util
import Acme.Driver.ImportBus
import Acme.Driver.Import
import Acme.Driver.Attr
import Acme.Core.ImportFile

namespace Acme.Driver.ImportFileD
open Lean (Json)
open Acme.ImportFile
open Acme.Driver.ImportBusD (D fList fNat fStr)

def dSig (j : Json) : D DSig := do
  let b ← ImportBusD.dSignal j
  let l ← ImportD.dSig j
  pure { name := b.name, start := b.start, size := b.size, bigEndian := l.bigEndian,
         isMultiplexor := l.isMultiplexor, isMultiplexed := l.isMultiplexed, muxSwitch := l.muxSwitch,
         signed := b.signed, factor := b.factor, offset := b.offset, min := b.min, max := b.max,
         unit := b.unit, receivers := b.receivers }

def dMsg (j : Json) : D DMsg := do
  pure { id := ← fNat j "id", name := ← fStr j "n", size := ← fNat j "z", transmitter := ← fStr j "tx",
         sigs := ← fList dSig j "sigs" }

def dExt (j : Json) : D DExt := do
  pure { msgId := ← fNat j "m", muxor := ← fStr j "x", muxed := ← fStr j "d",
         ranges := ← fList ImportD.dRange j "r" }

def dDoc (j : Json) : D DDoc := do
  let f ← ImportBusD.dFile j
  pure { nodes := f.nodes, tables := f.tables, encs := f.encs, comments := f.comments,
         msgs := ← fList dMsg j "msgs", exts := ← fList dExt j "ext",
         defs := ← fList AttrD.jDDef j "defs", defaults := ← fList AttrD.jDDefault j "dflt",
         values := ← fList AttrD.jDValue j "vals" }

/-! ## rendering -/

def sigLe (a c : ImportBus.ISignal) : Bool := decide (a.name ≤ c.name)

def showMux (p : String × String) : String := s!"{p.1}:{ImportBusD.q p.2}"

def showMsg (b : ImportBus.IBus) (seen : ImportBusD.Seen)
    (x : ImportBus.IMessage × Import.ITree × List (String × String)) : ImportBusD.Seen × String :=
  let m := x.1
  let sigs := (m.sigs.map (fun s => { s with start := 0 })).mergeSort sigLe
  let (seen', ss) := ImportBusD.showSigs b seen sigs
  let rx := m.receivers.mergeSort (fun a c => decide (a ≤ c))
  let mux := (x.2.2.mergeSort (fun a c => decide (a.1 ≤ c.1))).map showMux
  (seen', "{" ++ s!"id={m.id},n={m.name},z={m.size},tx={m.sender},rx={showList rx},d={ImportBusD.q m.desc},sigs={showList ss},mux={showList mux},tree=({ImportD.showTree x.2.1})" ++ "}")

def showMsgs (b : ImportBus.IBus) : ImportBusD.Seen →
    List (ImportBus.IMessage × Import.ITree × List (String × String)) → List String
  | _, [] => []
  | seen, m :: r =>
    let (seen', o) := showMsg b seen m
    o :: showMsgs b seen' r

def showDoc (r : IDoc) : String :=
  let b := r.bus
  let rows := (b.msgs.zip (r.trees.zip r.muxors)).mergeSort (fun a c => decide (a.1.id ≤ c.1.id))
  s!"desc={ImportBusD.q b.desc} nodes={showList (b.nodes.map ImportBusD.showNode)} msgs={showList (showMsgs b {} rows)} attrs=({AttrD.showModel r.attrs})"

def showPass : Pass → String
  | .tables => "tables" | .encs => "encs" | .nodes => "nodes" | .msg i => s!"msg{i}" | .attrs => "attrs"

def showCause : Cause → String
  | .bus e => ImportBusD.showErr e
  | .layout e => ImportD.showErr e
  | .attr e => AttrD.showErr e

def handleImport (payload : String) : String :=
  match Json.parse payload >>= dDoc with
  | .error e => "bad-op " ++ e
  | .ok d =>
    match importDoc d with
    | .ok r => "ok " ++ showDoc r
    | .error e => s!"err {showPass e.pass} {showCause e.cause}"

def handle (args : List String) : String :=
  match args with
  | "import" :: payload :: _ => handleImport payload
  | _ => "bad-op"

end Acme.Driver.ImportFileD
