/-
Line-protocol driver of the container / registry / reference graph model
(`Acme.Core.Graph`).  Lines are `gr <op> args…`; see /verif/harness/s_graph.go for the
protocol.  Mutators print `ok | err <cause> | unsupported | panic`; `dump.*` lines print a
canonical projection of one entity (contents, every index, parent links, references);
`probe.*` lines answer "would the real `verify…` accept this key" from the index alone.
-/
import Acme.Core.Graph
import Acme.Driver.Util

namespace Acme.Driver.GraphD
open Acme.Graph Acme.Driver

abbrev St := G

def showCause : Cause → String
  | .duplicated => "duplicated" | .notFound => "notFound" | .outOfBounds => "outOfBounds"
  | .negative => "negative" | .zero => "zero" | .nil => "nil" | .tooBig => "tooBig"
  | .tooSmall => "tooSmall" | .receiverIsSender => "receiverIsSender"
  | .invalidType => "invalidType" | .greaterThan => "greaterThan" | .lowerThan => "lowerThan"

def showOut : Out → String
  | .ok => "ok"
  | .err c => "err " ++ showCause c
  | .unsupported => "unsupported"
  | .panic => "panic"

def n? (s : String) : Option Nat := s.toNat?
def i? (s : String) : Option Int := s.toInt?

/-- an optional entity argument: `-` is the explicit nil, any number is an id (an unknown
id is a nil as well, the model decides) -/
def on? (s : String) : Option (Option Nat) :=
  if s = "-" then some none else (s.toNat?).map some

def kind? : String → Option EKind
  | "bus" => some .bus | "node" => some .node | "msg" => some .msg | "sig" => some .sig
  | _ => none

def parseOp : List String → Option Op
  | ["net.new", n, name] => do pure (.netNew (← n? n) name)
  | ["net.addBus", n, b] => do pure (.netAddBus (← n? n) (← n? b))
  | ["net.rmBus", n, b] => do pure (.netRemoveBus (← n? n) (← n? b))
  | ["net.clear", n] => do pure (.netRemoveAllBuses (← n? n))
  | ["bus.new", b, name] => do pure (.busNew (← n? b) name)
  | ["bus.name", b, name] => do pure (.busRename (← n? b) name)
  | ["bus.addIface", b, i] => do pure (.busAddIface (← n? b) (← n? i))
  | ["bus.rmIface", b, nd] => do pure (.busRemoveIface (← n? b) (← n? nd))
  | ["bus.clear", b] => do pure (.busRemoveAllIfaces (← n? b))
  | ["bus.builder", b, c] => do pure (.busSetBuilder (← n? b) (← on? c))
  | ["builder.new", c] => do pure (.builderNew (← n? c))
  | "node.new" :: n :: name :: nid :: k :: ifs => do
    let ifs ← ifs.mapM n?
    pure (.nodeNew (← n? n) name (← n? nid) (← i? k) ifs)
  | ["node.name", n, name] => do pure (.nodeRename (← n? n) name)
  | ["node.id", n, nid] => do pure (.nodeSetId (← n? n) (← n? nid))
  | ["node.addIface", n, i] => do pure (.nodeAddIface (← n? n) (← n? i))
  | ["node.rmIface", n, k] => do pure (.nodeRemoveIface (← n? n) (← i? k))
  | ["msg.new", m, name, mid, size] => do pure (.msgNew (← n? m) name (← n? mid) (← i? size))
  | ["msg.name", m, name] => do pure (.msgRename (← n? m) name)
  | ["msg.id", m, mid] => do pure (.msgSetId (← n? m) (← n? mid))
  | ["msg.static", m, c] => do pure (.msgSetStatic (← n? m) (← n? c))
  | ["msg.size", m, k] => do pure (.msgResize (← n? m) (← i? k))
  | ["iface.addSent", i, m] => do pure (.ifaceAddSent (← n? i) (← n? m))
  | ["iface.rmSent", i, m] => do pure (.ifaceRemoveSent (← n? i) (← n? m))
  | ["iface.clearSent", i] => do pure (.ifaceRemoveAllSent (← n? i))
  | ["iface.addRecv", i, m] => do pure (.ifaceAddRecv (← n? i) (← n? m))
  | ["iface.rmRecv", i, m] => do pure (.ifaceRemoveRecv (← n? i) (← n? m))
  | ["iface.clearRecv", i] => do pure (.ifaceRemoveAllRecv (← n? i))
  | ["msg.addRecv", m, i] => do pure (.msgAddReceiver (← n? m) (← n? i))
  | ["msg.rmRecv", m, nd] => do pure (.msgRemoveReceiver (← n? m) (← n? nd))
  | ["attr.str", a] => do pure (.attrNewStr (← n? a))
  | ["attr.int", a, d, mn, mx] => do pure (.attrNewInt (← n? a) (← i? d) (← i? mn) (← i? mx))
  | "attr.enum" :: a :: vs => do pure (.attrNewEnum (← n? a) vs)
  | ["assign", k, x, a, "int", v] => do pure (.assign (← kind? k) (← n? x) (← n? a) (.int (← i? v)))
  | ["assign", k, x, a, "str", s] => do pure (.assign (← kind? k) (← n? x) (← n? a) (.str s))
  | ["assign", k, x, a, "flt"] => do pure (.assign (← kind? k) (← n? x) (← n? a) .flt)
  | ["unassign", k, x, a] => do pure (.unassign (← kind? k) (← n? x) (← n? a))
  | ["unassignAll", k, x] => do pure (.unassignAll (← kind? k) (← n? x))
  | ["type.new", t] => do pure (.typeNew (← n? t))
  | ["unit.new", u] => do pure (.unitNew (← n? u))
  | ["sig.new", s, t] => do pure (.sigNew (← n? s) (← n? t))
  | ["sig.type", s, t] => do pure (.sigSetType (← n? s) (← n? t))
  | ["sig.unit", s, u] => do pure (.sigSetUnit (← n? s) (← on? u))
  | _ => none

/-! ### key pools probed by every dump (the same constants as in s_graph.go) -/

def namePool : List String := ["a", "b", "c", "d"]
def nidPool : List Nat := [0, 1, 2, 3, 7]
def idPool : List Nat := [0, 1, 2, 7, 100, 2047, 4294967295]

def sortNat (l : List Nat) : List Nat := l.mergeSort (fun a b => a ≤ b)
def showNats (l : List Nat) : String := showList (l.map toString)
def showOpt : Option Nat → String
  | some x => toString x
  | none => "-"
def bit (b : Bool) : String := if b then "1" else "0"

/-! ### pure mirrors of the probes -/

/-- `Network.verifyBusName` refuses -/
def busNameUsed (net : NetE) (name : String) : Bool := net.busNames.has name
def nodeNameUsed (bus : BusE) (name : String) : Bool := bus.nodeNames.has name
def nodeIdUsed (bus : BusE) (nid : Nat) : Bool := bus.nodeIDs.has nid
def busStaticUsed (bus : BusE) (c : Nat) : Bool := bus.staticIDs.has c
def sentNameUsed (ifc : IfaceE) (name : String) : Bool := ifc.sentNames.has name
def sentIdUsed (ifc : IfaceE) (mid : Nat) : Bool := ifc.sentIDs.has mid
/-- `NodeInterface.verifyStaticCANID`: own index first, then the index of the bus -/
def sentStaticUsed (g : G) (ifc : IfaceE) (c : Nat) : Bool :=
  ifc.sentStatic.has c ||
  (match ifc.parentBus with
   | some b => match g.buses.get b with | some bus => bus.staticIDs.has c | none => false
   | none => false)

/-- `Bus.GetNodeInterfaceByNodeName`: name index, then contents (a miss there is a panic) -/
def busLookup (bus : BusE) (name : String) : String :=
  match bus.nodeNames.get name with
  | none => "-"
  | some nd => match bus.nodeInts.get nd with
    | some i => toString i
    | none => "panic"

/-- `NodeInterface.GetSentMessageByName` -/
def sentLookup (ifc : IfaceE) (name : String) : String :=
  match ifc.sentNames.get name with
  | none => "-"
  | some m => match ifc.sent.get m with
    | some m' => toString m'
    | none => "panic"

def showAttrs (r : Reg Nat) : String := showNats (sortNat r.keys)

def dumpNet (g : G) (n : Nat) : String :=
  match g.nets.get n with
  | none => "none"
  | some net =>
    let bs := (sortNat net.buses.keys).map (fun b =>
      s!"{b}:{match g.buses.get b with | some e => e.name | none => "?"}")
    let nm := namePool.map (fun s => s!"{s}:{bit (busNameUsed net s)}")
    s!"name={net.name} buses={showList bs} names={showList nm}"

def dumpBus (g : G) (b : Nat) : String :=
  match g.buses.get b with
  | none => "none"
  | some bus =>
    let ents := bus.nodeInts.mergeSort (fun p q => p.2 ≤ q.2)
    let ifs := ents.map (fun (nd, i) => s!"{i}:{nd}:{nodeName g nd}:{nodeNid g nd}")
    let bn := namePool.map (fun s => s!"{s}:{busLookup bus s}")
    let ni := nidPool.map (fun k => s!"{k}:{bit (nodeIdUsed bus k)}")
    let st := idPool.map (fun k => s!"{k}:{bit (busStaticUsed bus k)}")
    s!"name={bus.name} net={showOpt bus.parent} builder={showOpt bus.builder} ifaces={showList ifs} byname={showList bn} nids={showList ni} statics={showList st} attrs={showAttrs bus.attrs}"

def dumpNode (g : G) (n : Nat) : String :=
  match g.nodes.get n with
  | none => "none"
  | some nd =>
    let ifs := nd.ifaces.map (fun i =>
      s!"{i}:{match g.ifaces.get i with | some e => toString e.number | none => "?"}")
    s!"name={nd.name} nid={nd.nid} count={nd.ifaceCount} ifaces={showList ifs} attrs={showAttrs nd.attrs}"

def dumpIface (g : G) (i : Nat) : String :=
  match g.ifaces.get i with
  | none => "none"
  | some ifc =>
    let bn := namePool.map (fun s => s!"{s}:{sentLookup ifc s}")
    let ids := idPool.map (fun k => s!"{k}:{bit (sentIdUsed ifc k)}")
    let st := idPool.map (fun k => s!"{k}:{bit (sentStaticUsed g ifc k)}")
    s!"node={ifc.node} num={ifc.number} bus={showOpt ifc.parentBus} sent={showNats (sortNat ifc.sent.keys)} byname={showList bn} ids={showList ids} statics={showList st} recv={showNats (sortNat ifc.received.keys)}"

def dumpMsg (g : G) (m : Nat) : String :=
  match g.msgs.get m with
  | none => "none"
  | some msg =>
    s!"name={msg.name} id={msg.mid} static={showOpt msg.static} size={msg.sizeByte} sender={showOpt msg.sender} recv={showNats (sortNat msg.receivers.vals)} attrs={showAttrs msg.attrs}"

def dumpSig (g : G) (s : Nat) : String :=
  match g.sigs.get s with
  | none => "none"
  | some sg => s!"type={sg.typ} unit={showOpt sg.unit} attrs={showAttrs sg.attrs}"

def dumpRefs (refs : Option (List Nat)) : String :=
  match refs with
  | none => "none"
  | some l => s!"refs={showNats (sortNat l)}"

def usedStr (b : Bool) : String := if b then "used" else "free"

/-- double failure of `Bus.AddNodeInterface` (an oversize message and a clashing static
CAN-ID): Go reports whichever message its map iteration visits first -/
def addIfaceDouble (g : G) (b i : Nat) : Bool :=
  match g.buses.get b, g.ifaces.get i with
  | some bus, some ifc =>
    let msgs := ifc.sent.vals
    let tooBig := msgs.any (fun m => match g.msgs.get m with | some e => !busSizeOK e.sizeByte | none => false)
    let clash := (staticOf g msgs).any (fun p => bus.staticIDs.has p.1)
    tooBig && clash
  | _, _ => false

def handle (g : St) (args : List String) : St × String :=
  match args with
  | ["dump.net", x] => (g, match n? x with | some x => dumpNet g x | none => "bad-op")
  | ["dump.bus", x] => (g, match n? x with | some x => dumpBus g x | none => "bad-op")
  | ["dump.node", x] => (g, match n? x with | some x => dumpNode g x | none => "bad-op")
  | ["dump.iface", x] => (g, match n? x with | some x => dumpIface g x | none => "bad-op")
  | ["dump.msg", x] => (g, match n? x with | some x => dumpMsg g x | none => "bad-op")
  | ["dump.sig", x] => (g, match n? x with | some x => dumpSig g x | none => "bad-op")
  | ["dump.builder", x] => (g, match n? x with | some x => dumpRefs ((g.builders.get x).map (·.refs)) | none => "bad-op")
  | ["dump.attr", x] => (g, match n? x with | some x => dumpRefs ((g.attrs.get x).map (·.refs)) | none => "bad-op")
  | ["dump.type", x] => (g, match n? x with | some x => dumpRefs ((g.types.get x).map (·.refs)) | none => "bad-op")
  | ["dump.unit", x] => (g, match n? x with | some x => dumpRefs ((g.units.get x).map (·.refs)) | none => "bad-op")
  | ["probe.busname", x, name] =>
    (g, match n? x with
      | some x => (match g.nets.get x with | some e => usedStr (busNameUsed e name) | none => "none")
      | none => "bad-op")
  | ["probe.nodename", x, name] =>
    (g, match n? x with
      | some x => (match g.buses.get x with | some e => usedStr (nodeNameUsed e name) | none => "none")
      | none => "bad-op")
  | ["probe.nodeid", x, k] =>
    (g, match n? x, n? k with
      | some x, some k => (match g.buses.get x with | some e => usedStr (nodeIdUsed e k) | none => "none")
      | _, _ => "bad-op")
  | ["probe.busstatic", x, k] =>
    (g, match n? x, n? k with
      | some x, some k => (match g.buses.get x with | some e => usedStr (busStaticUsed e k) | none => "none")
      | _, _ => "bad-op")
  | ["probe.sentname", x, name] =>
    (g, match n? x with
      | some x => (match g.ifaces.get x with | some e => usedStr (sentNameUsed e name) | none => "none")
      | none => "bad-op")
  | ["probe.sentid", x, k] =>
    (g, match n? x, n? k with
      | some x, some k => (match g.ifaces.get x with | some e => usedStr (sentIdUsed e k) | none => "none")
      | _, _ => "bad-op")
  | ["probe.sentstatic", x, k] =>
    (g, match n? x, n? k with
      | some x, some k => (match g.ifaces.get x with | some e => usedStr (sentStaticUsed g e k) | none => "none")
      | _, _ => "bad-op")
  | _ =>
    match parseOp args with
    | none => (g, "bad-op")
    | some op =>
      let (g', o) := step g op
      let s := match op, o with
        | .busAddIface b i, .err .tooBig => if addIfaceDouble g b i then "err tooBig|duplicated" else showOut o
        | _, _ => showOut o
      (g', s)

end Acme.Driver.GraphD
