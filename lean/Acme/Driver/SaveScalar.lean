/-
Driver word `svs` (stream `svs`, harness/s_svs.go): the scalar model `Acme.SaveScalar` on ONE
field of the regenerated field table.

  svs rt <Msg> <Field> <value>  → wire=<w> back=<v|keep> fits=<bool>   save, then load
  svs ld <Msg> <Field> <wire>   → back=<v|keep>                        load of a hand-edited save
  svs conv <Msg> <Field>        → the conversion of the field

values: i<int> · f<float64 bits, decimal> · s<text without blanks> · b0 / b1 · t<Go constant>
wire:   u<uint32> · j<int32> · f<bits> · s<text> · b0 / b1 · e<schema constant>
`keep`: the loaded object keeps the value its constructor chose (constant outside the loader's
table, invalid creation time).  `ill-typed`: the token is not of the field's type.
-/
import Acme.Driver.Util
import Acme.Core.SaveScalar

namespace Acme.Driver.SaveScalarD
open Acme.SaveScalar

def rest (s : String) : String := (s.drop 1).toString

def parseScalar (t : String) : Option Scalar :=
  if t.startsWith "i" then (rest t).toInt?.map .int
  else if t.startsWith "f" then (rest t).toNat?.map .float
  else if t.startsWith "s" then some (.str (rest t))
  else if t == "b0" then some (.bool false)
  else if t == "b1" then some (.bool true)
  else if t.startsWith "t" then some (.tag (rest t))
  else none

def parseWire (t : String) : Option Wire :=
  if t.startsWith "u" then
    match (rest t).toNat? with
    | some n => if n < 4294967296 then some (.u32 (BitVec.ofNat 32 n)) else none
    | none => none
  else if t.startsWith "j" then
    match (rest t).toInt? with
    | some n => if -2147483648 ≤ n ∧ n < 2147483648 then some (.i32 (BitVec.ofInt 32 n)) else none
    | none => none
  else if t.startsWith "f" then (rest t).toNat?.map .f64
  else if t.startsWith "s" then some (.str (rest t))
  else if t == "b0" then some (.bool false)
  else if t == "b1" then some (.bool true)
  else if t.startsWith "e" then some (.enum (rest t))
  else none

def showScalar : Scalar → String
  | .int x => s!"i{x}"
  | .float b => s!"f{b}"
  | .str s => "s" ++ s
  | .bool b => if b then "b1" else "b0"
  | .tag c => "t" ++ c
  | .time s n => s!"T{s}.{n}"

def showWire : Wire → String
  | .u32 b => s!"u{b.toNat}"
  | .i32 b => s!"j{b.toInt}"
  | .f64 b => s!"f{b}"
  | .str s => "s" ++ s
  | .bool b => if b then "b1" else "b0"
  | .enum c => "e" ++ c
  | .ts s n => s!"T{s}.{n}"

def showBack : Option Scalar → String
  | some v => showScalar v
  | none => "keep"

def handle : List String → String
  | ["rt", m, f, v] =>
    match parseScalar v with
    | none => "bad-value"
    | some x =>
      let c := convOf m f
      match saveScalar c x with
      | none => "ill-typed " ++ c.name.1
      | some w => s!"wire={showWire w} back={showBack (loadScalar c w)} fits={showBool (decide (Fits c x))}"
  | ["ld", m, f, w] =>
    match parseWire w with
    | none => "bad-wire"
    | some x =>
      let c := convOf m f
      match c, x with
      | .enum _ _ _, .enum _ => s!"back={showBack (loadScalar c x)}"
      | _, _ =>
        match loadScalar c x with
        | some v => s!"back={showScalar v}"
        | none => "ill-typed " ++ c.name.1
  | ["conv", m, f] => let n := (convOf m f).name; if n.2 == "" then n.1 else n.1 ++ " " ++ n.2
  | _ => "bad-op"

end Acme.Driver.SaveScalarD
