import Acme.Core.Payload
import Acme.Driver.Util

namespace Acme.Driver.PayloadD
open Acme.Payload Acme.Layout Acme.Bits Acme.Driver

abbrev St := W

def showCause : Cause → String
  | .duplicated => "duplicated" | .notFound => "notFound" | .outOfBounds => "outOfBounds"
  | .noSpaceLeft => "noSpaceLeft" | .intersect => "intersect" | .negative => "negative"
  | .zero => "zero" | .nil => "nil" | .tooBig => "tooBig" | .tooSmall => "tooSmall"

def showOut : Out → String
  | .ok [] => "ok"
  | .ok vs => "ok " ++ joinSp (vs.map toString)
  | .err c => "err " ++ showCause c
  | .unsupported => "unsupported"
  | .panic => "panic"

def n? (s : String) : Option Nat := s.toNat?
def i? (s : String) : Option Int := s.toInt?

def parseOp : List String → Option Op
  | ["type.new", t, sz] => do pure (.typeNew (← n? t) (← i? sz))
  | ["enum.new", e] => do pure (.enumNew (← n? e))
  | ["val.new", v, name, idx] => do pure (.valNew (← n? v) name (← i? idx))
  | ["enum.add", e, v] => do pure (.enumAddValue (← n? e) (← n? v))
  | ["enum.rm", e, v] => do pure (.enumRemoveValue (← n? e) (← n? v))
  | ["enum.clear", e] => do pure (.enumRemoveAll (← n? e))
  | ["enum.min", e, k] => do pure (.enumSetMinSize (← n? e) (← i? k))
  | ["val.idx", v, i] => do pure (.valSetIndex (← n? v) (← i? i))
  | ["val.name", v, name] => do pure (.valRename (← n? v) name)
  | ["sig.std", s, name, t] => do pure (.sigNewStd (← n? s) name (← n? t))
  | ["sig.enum", s, name, e] => do pure (.sigNewEnum (← n? s) name (← n? e))
  | ["sig.mux", s, name, gc, gs] => do pure (.sigNewMux (← n? s) name (← i? gc) (← i? gs))
  | ["sig.type", s, t] => do pure (.sigSetType (← n? s) (← n? t))
  | ["sig.setenum", s, e] => do pure (.sigSetEnum (← n? s) (← n? e))
  | ["sig.name", s, name] => do pure (.sigRename (← n? s) name)
  | ["msg.new", m, k] => do pure (.msgNew (← n? m) (← i? k))
  | ["msg.app", m, s] => do pure (.msgAppend (← n? m) (← n? s))
  | ["msg.ins", m, s, st] => do pure (.msgInsert (← n? m) (← n? s) (← i? st))
  | ["msg.rm", m, s] => do pure (.msgRemove (← n? m) (← n? s))
  | ["msg.clear", m] => do pure (.msgRemoveAll (← n? m))
  | ["msg.compact", m] => do pure (.msgCompact (← n? m))
  | ["msg.shl", m, s, a] => do pure (.msgShiftL (← n? m) (← n? s) (← i? a))
  | ["msg.shr", m, s, a] => do pure (.msgShiftR (← n? m) (← n? s) (← i? a))
  | ["msg.size", m, k] => do pure (.msgResize (← n? m) (← i? k))
  | ["msg.be", m, b] => do pure (.msgSetByteOrder (← n? m) ((← n? b) = 1))
  | _ => none

def showFilter (f : Filter) : String :=
  s!"({f.id},{f.byteIdx},{f.mask},{f.length},{f.leftOffset})"

def dumpMsg (w : W) (m : Nat) : String :=
  match w.msgs.get m with
  | none => "none"
  | some msg =>
    let sl := msg.layout.map (fun i =>
      match w.sigs.get i with
      | some s => s!"({i},{s.rel},{sizeOf w s},{s.name},{if s.be then 1 else 0},{match s.parent with | some p => toString p | none => "-"})"
      | none => s!"({i},?)")
    s!"size={msg.sizeByte} be={if msg.be then 1 else 0} layout={showList sl} filters={showList (msg.filters.map showFilter)}"

def dumpEnum (w : W) (e : Nat) : String :=
  match w.enums.get e with
  | none => "none"
  | some en =>
    let vs := en.values.map (fun v => (valIndex w v, v, valName w v))
    let vs := vs.mergeSort (fun a b => a.1 ≤ b.1)
    let refs := en.refs.mergeSort (fun a b => a ≤ b)
    s!"min={en.minSize} max={en.maxIndex} size={enumSizeOf en} values={showList (vs.map (fun (i, v, n) => s!"({v},{n},{i})"))} refs={showList (refs.map toString)}"

def dumpSig (w : W) (s : Nat) : String :=
  match w.sigs.get s with
  | none => "none"
  | some sg =>
    s!"name={sg.name} start={sg.rel} size={sizeOf w sg} parent={match sg.parent with | some p => toString p | none => "-"}"

/-- decode: raw values of the standard / enum signals in layout order -/
def decode (w : W) (m : Nat) (data : List Nat) : String :=
  match w.msgs.get m with
  | none => "none"
  | some msg =>
    match decodeRaw msg.filters data with
    | none => "panic"
    | some rs =>
      let rs := rs.filter (fun (i, _) =>
        match w.sigs.get i with
        | some s => match s.kind with | .mux _ _ => false | _ => true
        | none => false)
      showList (rs.map (fun (i, r) => s!"({i},{r % 18446744073709551616})"))

def handle (w : St) (args : List String) : St × String :=
  match args with
  | ["dump", m] => match n? m with | some m => (w, dumpMsg w m) | none => (w, "bad-op")
  | ["edump", e] => match n? e with | some e => (w, dumpEnum w e) | none => (w, "bad-op")
  | ["sdump", s] => match n? s with | some s => (w, dumpSig w s) | none => (w, "bad-op")
  | "dec" :: m :: bytes =>
    match n? m, bytes.mapM n? with
    | some m, some bs => (w, decode w m bs)
    | _, _ => (w, "bad-op")
  | _ =>
    match parseOp args with
    | none => (w, "bad-op")
    | some op => let (w', o) := step w op; (w', showOut o)

end Acme.Driver.PayloadD
