import Acme.Core.BusLoad
import Acme.Driver.Util

namespace Acme.Driver.BusLoadD
open Acme.BusLoad Acme.Driver

def readMsgs : Nat → Nat → List Int → Option (List Msg)
  | 0, _, [] => some []
  | n + 1, i, s :: c :: rest => do
    let ms ← readMsgs n (i + 1) rest
    pure (⟨i, s % 1000, c⟩ :: ms)
  | _, _, _ => none

def handle (args : List String) : String :=
  match parseInts args with
  | some (baud :: d :: n :: rest) =>
    if n < 0 then "bad-op" else
    match readMsgs n.toNat 0 rest with
    | none => "bad-op"
    | some msgs =>
      match busLoad baud msgs d with
      | .error .negative => "err negative"
      | .error .zero => "err zero"
      | .ok (l, es) =>
        let body := es.map (fun e => s!"{e.msg.id} {showRat e.bps} {showRat e.pct}")
        s!"ok {showRat l} {es.length} {joinSp body}"
  | _ => "bad-op"

end Acme.Driver.BusLoadD
