import Acme.Core.Avl
import Acme.Driver.Util

namespace Acme.Driver.AvlD
open Acme.Avl Acme.Driver

/-- `none` state = a previous op panicked (model `none`): everything after prints `panic`. -/
abbrev St := Option Bst

def init : St := some {}

def dump (t : Bst) : String :=
  let items := showList ((inorder t.root).map showPair)
  let shp := showList ((shape t.root).map (fun (a, b, c, d, e, f) => s!"({a},{b},{c},{d},{showBool e},{showBool f})"))
  s!"size={t.size} items={items} shape={shp}"

def handle (st : St) (args : List String) : St × String :=
  match args with
  | ["new"] => (init, "ok")
  | cmd :: rest =>
    match st, parseInts rest with
    | none, _ => (none, "panic")
    | _, none => (st, "bad-op")
    | some t, some xs =>
      match cmd, xs with
      | "ins", [lo, hi] =>
        match step t (.insert lo hi) with
        | some t' => (some t', "ok") | none => (none, "panic")
      | "del", [lo, hi] =>
        match step t (.delete lo hi) with
        | some t' => (some t', "ok") | none => (none, "panic")
      | "clear", [] =>
        match step t .clear with
        | some t' => (some t', "ok") | none => (none, "panic")
      | "dump", [] => (st, dump t)
      | "q", [lo, hi] => (st, showBool (intersects t lo hi))
      | "cu", [slo, shi, lo, hi] => (st, showBool (canUpdate t slo shi lo hi))
      | _, _ => (st, "bad-op")
  | [] => (st, "bad-op")

end Acme.Driver.AvlD
