import Acme.Core.Arith
import Acme.Driver.Util

namespace Acme.Driver.ArithD
open Acme.Arith Acme.Driver

def kindOf : Int → Option Kind
  | 0 => some .custom | 1 => some .flag | 2 => some .integer | 3 => some .decimal | _ => none

def dyadic (num : Int) (log2den : Int) : Rat := (num : Rat) / ((2 ^ log2den.toNat : Nat) : Rat)

def showValue : Value → String
  | .flag b => s!"flag {showBool b}"
  | .int v => s!"int {v}"
  | .uint v => s!"uint {v}"
  | .float q => s!"float {showRat q}"

def readPairs : Nat → List Int → Option (List (String × Int) × List Int)
  | 0, rest => some ([], rest)
  | n + 1, i :: rest => do
    let (vs, r) ← readPairs n rest
    pure ((s!"v{i}", i) :: vs, r)
  | _, _ => none

def handle (args : List String) : String :=
  match args with
  | cmd :: rest =>
    match parseInts rest with
    | none => "bad-op"
    | some xs =>
      match cmd, xs with
      | "dec", [k, size, sg, sn, sd, on, od, raw] =>
        match kindOf k with
        | none => "bad-op"
        | some kd =>
          showValue (decodeStd kd size (sg = 1) sn on (dyadic sn sd) (dyadic on od) (BitVec.ofInt 64 raw))
      | "range", [size, sg] =>
        let (a, b) := typeRange size (sg = 1)
        s!"range {a} {b}"
      | "csize", [v] => s!"size {calcSize v}"
      | "cvalue", [v] => s!"value {calcValue v}"
      | "muxw", [gc] => s!"w {muxSelWidth gc}"
      | "enumsize", mn :: n :: idxs =>
        if n < 0 ∨ idxs.length ≠ n.toNat then "bad-op" else
        let mx := idxs.foldl (fun a b => if b > a then b else a) 0
        s!"size {enumSize mn mx}"
      | "enumdec", n :: more =>
        if n < 0 then "bad-op" else
        match readPairs n.toNat more with
        | some (vs, [raw]) =>
          let nm := decodeEnum vs (BitVec.ofInt 64 raw)
          if nm = "" then "enum -" else s!"enum {nm}"
        | _ => "bad-op"
      | _, _ => "bad-op"
  | [] => "bad-op"

end Acme.Driver.ArithD
