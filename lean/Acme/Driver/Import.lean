/-
Driver of word `imp` (message level of the DBC importer / exporter, stream `imp`).

  imp import <dmsg-json>   → ok <itree>  |  err <cause>
  imp export <itree-json>  → ok <dmsg>   |  err <cause>      (the tree is first built through the
                                                              modelled API calls: `Import.build`)

JSON (no blank anywhere: the driver splits a line at blanks; names are identifiers):
  dmsg  = {"id":N,"size":N,"sigs":[{"n":name,"s":start,"z":size,"be":0|1,"mr":0|1,"md":0|1,"k":switch}…],
           "ext":[{"x":multiplexor,"d":multiplexed,"r":[[from,to]…]}…]}
  itree = {"id":N,"size":Z,"be":0|1,"top":[item…]}
  item  = {"t":"s","n":name,"s":start,"z":size}
        | {"t":"m","n":name,"s":start,"gc":groupCount,"gs":groupSize,
           "ch":[child…]}
  child = {"n":name,"r":relStart,"z":size,"g":[ids…]}                     ("g":[] = fixed)
        | {"n":name,"r":relStart,"g":[ids…],"sub":{"gc":…,"gs":…,"ch":[child…]}}   (a nested multiplexer)

Renderings (the same text is produced by harness/s_imp.go from the real objects):
  itree: id=… size=… be=… top=[s:name@start+size,M:name@start+size(w=…,gc=…,gs=…,ch=[name@rel/abs+size:F|id.id…,…],g=[[names of group 0],…]),…]
         children sorted by (rel, name) — their registry is a Go map —, groups in layout order;
         a child that is a multiplexer carries its own body: name@rel/abs+size:ids{w=…,gc=…,gs=…,ch=[…],g=[…]}
  dmsg:  id=… size=… sigs=[name:-|M|m<k>|m<k>M:start|size@L|B,…] ext=[multiplexed/multiplexor:from-to.from-to,…]
-/
import Lean.Data.Json
import Acme.Driver.Util
import Acme.Core.Import
import Acme.Core.ImportNested
import Acme.Spec.ExportImportNested

namespace Acme.Driver.ImportD
open Lean (Json)
open Acme.Import

abbrev D := Except String

def fld (j : Json) (k : String) : D Json := j.getObjVal? k
def fStr (j : Json) (k : String) : D String := do (← fld j k).getStr?
def fNat (j : Json) (k : String) : D Nat := do (← fld j k).getNat?
def fInt (j : Json) (k : String) : D Int := do (← fld j k).getInt?
def fFlag (j : Json) (k : String) : D Bool := do return (← fNat j k) != 0

def fList {α : Type} (f : Json → D α) (j : Json) (k : String) : D (List α) := do
  let v ← fld j k
  if v.isNull then return []
  let a ← v.getArr?
  a.toList.mapM f

def dSig (j : Json) : D DSig := do
  pure { name := ← fStr j "n", start := ← fNat j "s", size := ← fNat j "z", bigEndian := ← fFlag j "be",
         isMultiplexor := ← fFlag j "mr", isMultiplexed := ← fFlag j "md", muxSwitch := ← fNat j "k" }

def dRange (j : Json) : D (Nat × Nat) := do
  let a ← j.getArr?
  match a.toList with
  | [f, t] => pure (← f.getNat?, ← t.getNat?)
  | _ => throw "range"

def dExt (j : Json) : D DExt := do
  pure { muxor := ← fStr j "x", muxed := ← fStr j "d", ranges := ← fList dRange j "r" }

def dMsg (j : Json) : D DMsg := do
  pure { id := ← fNat j "id", size := ← fNat j "size", sigs := ← fList dSig j "sigs",
         exts := ← fList dExt j "ext" }

/-- a child; with a key "sub" ({"gc","gs","ch"}) it is a multiplexer whose node (and the nodes
    below it) are returned as well; `fuel` bounds the depth -/
def dChildN : Nat → Json → D (Child × List MuxNode)
  | 0, _ => throw "depth"
  | fuel + 1, j => do
    let name ← fStr j "n"
    let rel ← fInt j "r"
    let gids ← fList (·.getInt?) j "g"
    match j.getObjVal? "sub" with
    | .ok sub =>
      let kids ← fList (dChildN fuel) sub "ch"
      let node : MuxNode :=
        { name := name, start := 0, selW := 0, groupCount := ← fInt sub "gc", groupSize := ← fInt sub "gs",
          children := kids.map (·.1) }
      pure ({ name := name, rel := rel, size := 0, gids := gids, isMux := true }, node :: kids.flatMap (·.2))
    | .error _ =>
      pure ({ name := name, rel := rel, size := ← fInt j "z", gids := gids }, [])

def dItemN (j : Json) : D (Item × List MuxNode) := do
  match ← fStr j "t" with
  | "s" => pure (.sig { name := ← fStr j "n", start := ← fInt j "s", size := ← fInt j "z" }, [])
  | "m" =>
    let kids ← fList (dChildN 8) j "ch"
    pure (.mux { name := ← fStr j "n", start := ← fInt j "s", selW := 0,
                 groupCount := ← fInt j "gc", groupSize := ← fInt j "gs",
                 children := kids.map (·.1) }, kids.flatMap (·.2))
  | _ => throw "item"

def dTree (j : Json) : D ITree := do
  let items ← fList dItemN j "top"
  pure { id := ← fNat j "id", sizeByte := ← fInt j "size", bigEndian := ← fFlag j "be",
         top := items.map (·.1), nested := items.flatMap (·.2) }

/-! ## renderings -/

def showFlag (b : Bool) : String := if b then "1" else "0"

def showIds (xs : List Int) : String :=
  if xs.isEmpty then "F" else ".".intercalate (xs.map toString)

def childLe (a b : Child) : Bool := a.rel < b.rel || (a.rel == b.rel && a.name ≤ b.name)

def showGroups (n : MuxNode) : String :=
  showList ((List.range n.groupCount.toNat).map (fun (k : Nat) =>
    showList ((groupOf n.children (k : Int)).map (·.name))))

/-- body of a multiplexer; a child that is a multiplexer carries its own body in braces (looked up
    by name among the nested nodes; `fuel` bounds the depth) -/
def showBody (nested : List MuxNode) : Nat → MuxNode → String
  | 0, _ => "?"
  | fuel + 1, n =>
    let ch := (n.children.mergeSort childLe).map (fun c =>
      let base := s!"{c.name}@{c.rel}/{n.start + n.selW + c.rel}+{c.size}:{showIds c.gids}"
      if c.isMux then
        match nested.find? (fun x => x.name == c.name) with
        | some sub => base ++ "{" ++ showBody nested fuel sub ++ "}"
        | none => base ++ "{?}"
      else base)
    s!"w={n.selW},gc={n.groupCount},gs={n.groupSize},ch={showList ch},g={showGroups n}"

def showItem (nested : List MuxNode) : Item → String
  | .sig l => s!"s:{l.name}@{l.start}+{l.size}"
  | .mux n => s!"M:{n.name}@{n.start}+{n.groupSize + n.selW}({showBody nested (nested.length + 1) n})"

def showTree (t : ITree) : String :=
  s!"id={t.id} size={t.sizeByte} be={showFlag t.bigEndian} top={showList (t.top.map (showItem t.nested))}"

def showInd (s : DSig) : String :=
  if s.isMultiplexed && s.isMultiplexor then s!"m{s.muxSwitch}M"
  else if s.isMultiplexed then s!"m{s.muxSwitch}"
  else if s.isMultiplexor then "M" else "-"

def showSig (s : DSig) : String :=
  s!"{s.name}:{showInd s}:{s.start}|{s.size}@{if s.bigEndian then "B" else "L"}"

def showExt (e : DExt) : String :=
  s!"{e.muxed}/{e.muxor}:{".".intercalate (e.ranges.map (fun r => s!"{r.1}-{r.2}"))}"

def showMsg (m : DMsg) : String :=
  s!"id={m.id} size={m.size} sigs={showList (m.sigs.map showSig)} ext={showList (m.exts.map showExt)}"

def showErr : ImpErr → String
  | .byteOrder => "byteOrder" | .startOutOfBounds => "startOutOfBounds" | .msgTooBig => "msgTooBig"
  | .sizeOutOfBounds => "sizeOutOfBounds" | .sizeZero => "sizeZero" | .nameDuplicated => "nameDuplicated"
  | .startNegative => "startNegative" | .noSpaceLeft => "noSpaceLeft" | .intersect => "intersect"
  | .groupCountZero => "groupCountZero" | .groupCountNegative => "groupCountNegative"
  | .groupSizeZero => "groupSizeZero" | .groupSizeNegative => "groupSizeNegative"
  | .groupIdOutOfBounds => "groupIdOutOfBounds" | .groupIdNegative => "groupIdNegative"
  | .extMuxRequired => "extMuxRequired" | .nameNotFound => "nameNotFound" | .precede => "precede"
  | .unsupported => "unsupported"

def handleImport (payload : String) : String :=
  match Json.parse payload >>= dMsg with
  | .error e => "bad-op " ++ e
  | .ok m =>
    match importMsg m with
    | .ok t => "ok " ++ showTree t
    | .error e => "err " ++ showErr e

/-- both sides of `Acme.Props.C11Nested.export_import_nested` -/
def roundN (t : ITree) : Bool :=
  match importMsg (exportAny t) with
  | .ok r => decide (r = normN t)
  | .error _ => false

def handleExport (payload : String) : String :=
  match Json.parse payload >>= dTree with
  | .error e => "bad-op " ++ e
  | .ok t =>
    match buildAny t with
    | .ok t' =>
      -- on the class of Acme.Props.C11Nested.export_import_nested both sides of the theorem are evaluated
      if decide (ExpressibleN t') && !(roundN t') then
        "THEOREM-VIOLATION export_import_nested"
      else "ok " ++ showMsg (exportAny t')
    | .error e => "err " ++ showErr e

/-- `imp rtn <itree-json>`: class membership of the built tree (offline census of the stream's
    trees; not used by the harness) -/
def handleRtn (payload : String) : String :=
  match Json.parse payload >>= dTree with
  | .error e => "bad-op " ++ e
  | .ok t =>
    match buildAny t with
    | .ok t' =>
      let nested := if hasNested t' then "nested" else "flat"
      let depth := (t'.top.map (fun x => match x with
        | .sig _ => 0
        | .mux n => (below t'.nested (t'.nested.length + 1) n).length)).foldl max 0
      if decide (ExpressibleN t') then
        if roundN t' then s!"in {nested} below={depth}"
        else "THEOREM-VIOLATION export_import_nested"
      else
        match importMsg (exportAny t') with
        | .ok r => s!"out {nested} below={depth} " ++ (if decide (r = normN t') then "round" else "differs")
        | .error e => s!"out {nested} below={depth} refused:" ++ showErr e
    | .error e => "err " ++ showErr e

def handle (args : List String) : String :=
  match args with
  | "import" :: payload :: _ => handleImport payload
  | "export" :: payload :: _ => handleExport payload
  | "rtn" :: payload :: _ => handleRtn payload
  | _ => "bad-op"

end Acme.Driver.ImportD
