/-
Driver of word `imp` (importer model, stream expimp).  Filled in by the importer model work.
-/
import Acme.Driver.Util

namespace Acme.Driver.ImportD

def handle (_args : List String) : String := "bad-op"

end Acme.Driver.ImportD
