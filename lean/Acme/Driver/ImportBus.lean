/-
Driver of word `ib` (bus-level importer model: nodes, senders, receivers, signal types,
units, value tables; stream impbus).  Filled in by the bus-level import model work.
-/
import Acme.Driver.Util

namespace Acme.Driver.ImportBusD

def handle (_args : List String) : String := "bad-op"

end Acme.Driver.ImportBusD
