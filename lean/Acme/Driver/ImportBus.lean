/-
Driver of word `ib` (bus-level importer model: nodes, senders, receivers, signal types,
units, value tables; stream impbus).

  ib import <dfile-json>   → ok <bus>  |  err <cause>

JSON (no blank anywhere: the driver splits a line at blanks; a blank inside a string travels as
 the JSON escape of U+0020):
  dfile = {"nodes":[name…],
           "vt":[{"n":name,"v":[[id,name]…]}…],                      VAL_TABLE_
           "ve":[{"m":msgId,"s":sigName,"v":[[id,name]…]}…],         VAL_
           "cm":[{"k":"g"|"n"|"m"|"s","t":text,"n":node,"m":msgId,"s":sigName}…],
           "msgs":[{"id":N,"n":name,"z":bytes,"tx":transmitter,
                    "sigs":[{"n":name,"s":start,"z":size,"sg":0|1,"f":"num/den","o":"num/den",
                             "mn":"num/den","mx":"num/den","u":unit,"r":[name…]}…]}…]}

Rendering (the same text is produced by harness/s_impbus.go from the real objects):
  desc="…" nodes=[name#id:"desc",…] msgs=[{id=…,n=…,z=…,tx=…,rx=[names sorted],d="…",sigs=[sig,…]},…]
  messages sorted by id, signals in layout order
  sig = S:name@start+size(t<class>:kind,size,s|u,min,max,scale,offset;u<class>:"symbol"|u-;d="…")
      | E:name@start+size(e<class>:"name",min=…,vals=[idx="name",…];d="…")
  <class> = number of the object in first-occurrence order of this walk (type / unit / enum
  objects separately); numbers are exact rationals num/den
-/
import Lean.Data.Json
import Acme.Driver.Util
import Acme.Core.ImportBus

namespace Acme.Driver.ImportBusD
open Lean (Json)
open Acme.ImportBus

abbrev D := Except String

def fld (j : Json) (k : String) : D Json := j.getObjVal? k
def fStr (j : Json) (k : String) : D String := do (← fld j k).getStr?
def fNat (j : Json) (k : String) : D Nat := do (← fld j k).getNat?
def fFlag (j : Json) (k : String) : D Bool := do return (← fNat j k) != 0

def fStrD (j : Json) (k : String) : D String :=
  match j.getObjVal? k with
  | .ok v => if v.isNull then pure "" else v.getStr?
  | .error _ => pure ""

def fNatD (j : Json) (k : String) : D Nat :=
  match j.getObjVal? k with
  | .ok v => if v.isNull then pure 0 else v.getNat?
  | .error _ => pure 0

def fList {α : Type} (f : Json → D α) (j : Json) (k : String) : D (List α) :=
  match j.getObjVal? k with
  | .error _ => pure []
  | .ok v => do
    if v.isNull then return []
    let a ← v.getArr?
    a.toList.mapM f

def parseRat (s : String) : D Rat :=
  match s.splitOn "/" with
  | [n, d] =>
    match n.toInt?, d.toNat? with
    | some n, some d => if d = 0 then throw "rat" else pure (mkRat n d)
    | _, _ => throw "rat"
  | _ => throw "rat"

def fRat (j : Json) (k : String) : D Rat := do parseRat (← fStr j k)

def dVal (j : Json) : D DVal := do
  let a ← j.getArr?
  match a.toList with
  | [i, n] => pure (← i.getNat?, ← n.getStr?)
  | _ => throw "value"

def dTable (j : Json) : D DTable := do
  pure { name := ← fStr j "n", values := ← fList dVal j "v" }

def dEnc (j : Json) : D DEnc := do
  pure { msgId := ← fNat j "m", sigName := ← fStr j "s", values := ← fList dVal j "v" }

def dComment (j : Json) : D DComment := do
  match ← fStr j "k" with
  | "g" => pure (.general (← fStr j "t"))
  | "n" => pure (.node (← fStrD j "n") (← fStr j "t"))
  | "m" => pure (.msg (← fNatD j "m") (← fStr j "t"))
  | "s" => pure (.sig (← fNatD j "m") (← fStrD j "s") (← fStr j "t"))
  | _ => throw "comment"

def dSignal (j : Json) : D DSignal := do
  pure { name := ← fStr j "n", start := ← fNat j "s", size := ← fNat j "z", signed := ← fFlag j "sg",
         factor := ← fRat j "f", offset := ← fRat j "o", min := ← fRat j "mn", max := ← fRat j "mx",
         unit := ← fStrD j "u", receivers := ← fList (·.getStr?) j "r" }

def dMessage (j : Json) : D DMessage := do
  pure { id := ← fNat j "id", name := ← fStr j "n", size := ← fNat j "z", transmitter := ← fStr j "tx",
         sigs := ← fList dSignal j "sigs" }

def dFile (j : Json) : D DFile := do
  pure { nodes := ← fList (·.getStr?) j "nodes", tables := ← fList dTable j "vt", encs := ← fList dEnc j "ve",
         comments := ← fList dComment j "cm", msgs := ← fList dMessage j "msgs" }

/-! ## rendering -/

def q (s : String) : String := "\"" ++ s ++ "\""

def showKind : Acme.Arith.Kind → String
  | .custom => "custom" | .flag => "flag" | .integer => "integer" | .decimal => "decimal"

/-- the classes met so far: object indexes in first-occurrence order -/
structure Seen where
  types : List Nat := []
  units : List Nat := []
  enums : List Nat := []

def classOf (seen : List Nat) (i : Nat) : List Nat × Nat :=
  match seen.findIdx? (· == i) with
  | some k => (seen, k)
  | none => (seen ++ [i], seen.length)

def showNode (n : INode) : String := s!"{n.name}#{n.id}:{q n.desc}"

def showType (t : SigType) : String :=
  s!"{showKind t.kind},{t.size},{if t.signed then "s" else "u"},{showRat t.min},{showRat t.max},{showRat t.scale},{showRat t.offset}"

def showVals (vs : List DVal) : String :=
  showList (vs.map (fun v => s!"{v.1}={q v.2}"))

def showSig (b : IBus) (seen : Seen) (s : ISignal) : Seen × String :=
  let size := match b.sigSize s with
    | some z => toString z
    | none => "?"
  match s.kind with
  | .standard t u =>
    let (ts, tc) := classOf seen.types t
    let tyS := match b.types[t]? with
      | some ty => showType ty
      | none => "?"
    let (us, uS) := match u with
      | none => (seen.units, "u-")
      | some ui =>
        let (us, uc) := classOf seen.units ui
        (us, s!"u{uc}:{q (b.units.getD ui "?")}")
    ({ seen with types := ts, units := us },
     s!"S:{s.name}@{s.start}+{size}(t{tc}:{tyS};{uS};d={q s.desc})")
  | .enum e =>
    let (es, ec) := classOf seen.enums e
    let eS := match b.enums[e]? with
      | some en => s!"{q en.name},min={en.minSize},vals={showVals en.values}"
      | none => "?"
    ({ seen with enums := es }, s!"E:{s.name}@{s.start}+{size}(e{ec}:{eS};d={q s.desc})")

def showSigs (b : IBus) : Seen → List ISignal → Seen × List String
  | seen, [] => (seen, [])
  | seen, s :: r =>
    let (seen1, o) := showSig b seen s
    let (seen2, os) := showSigs b seen1 r
    (seen2, o :: os)

def showMsg (b : IBus) (seen : Seen) (m : IMessage) : Seen × String :=
  let (seen', ss) := showSigs b seen m.sigs
  let rx := m.receivers.mergeSort (fun a c => decide (a ≤ c))
  (seen', "{" ++ s!"id={m.id},n={m.name},z={m.size},tx={m.sender},rx={showList rx},d={q m.desc},sigs={showList ss}" ++ "}")

def showMsgs (b : IBus) : Seen → List IMessage → List String
  | _, [] => []
  | seen, m :: r =>
    let (seen', o) := showMsg b seen m
    o :: showMsgs b seen' r

def showBus (b : IBus) : String :=
  let msgs := b.msgs.mergeSort (fun a c => decide (a.id ≤ c.id))
  s!"desc={q b.desc} nodes={showList (b.nodes.map showNode)} msgs={showList (showMsgs b {} msgs)}"

def showErr : ImpErr → String
  | .valueIndexDuplicated => "valueIndexDuplicated" | .valueNameDuplicated => "valueNameDuplicated"
  | .nodeNameDuplicated => "nodeNameDuplicated" | .nodeIdDuplicated => "nodeIdDuplicated"
  | .sigNameDuplicated => "sigNameDuplicated" | .startOutOfBounds => "startOutOfBounds"
  | .nodeNotFound => "nodeNotFound" | .receiverIsSender => "receiverIsSender"
  | .msgNameDuplicated => "msgNameDuplicated" | .msgTooBig => "msgTooBig"
  | .canIdDuplicated => "canIdDuplicated" | .sizeOutOfBounds => "sizeOutOfBounds"
  | .sizeTooSmall => "sizeTooSmall" | .sizeZero => "sizeZero" | .intersect => "intersect"
  | .internal => "internal"

def handleImport (payload : String) : String :=
  match Json.parse payload >>= dFile with
  | .error e => "bad-op " ++ e
  | .ok f =>
    match importBus f with
    | .ok b => "ok " ++ showBus b
    | .error e => "err " ++ showErr e

def handle (args : List String) : String :=
  match args with
  | "import" :: payload :: _ => handleImport payload
  | _ => "bad-op"

end Acme.Driver.ImportBusD
