/-
Driver of word `ib` (bus-level importer model: nodes, senders, receivers, signal types,
units, value tables; stream impbus).

  ib import <dfile-json>   → ok <bus>  |  err <cause>
  ib export <mbus-json>    → ok <dfile-json>          (canonical text, see `showFile`)
  ib rt <mbus-json>        → ok <bus>  |  err <cause>  (importBus (exportBus b), rendered like `ib import`)

  mbus  = {"desc":text,"nodes":[{"n":name,"id":N,"d":text}…],
           "types":[{"k":"flag"|"integer"|"decimal"|"custom","z":size,"sg":0|1,"mn":q,"mx":q,"sc":q,"of":q}…],
           "units":[symbol…],"enums":[{"n":name,"min":N,"v":[[id,name]…]}…],
           "msgs":[{"id":N,"n":name,"z":bytes,"tx":node,"rx":[node…],"d":text,
                    "sigs":[{"n":name,"s":start,"d":text,"t":typeIdx,"u":unitIdx|-1} | {"n":name,"s":start,"d":text,"e":enumIdx}…]}…]}
           (the indexes are the object identities: two signals with one index share the object)

JSON (no blank anywhere: the driver splits a line at blanks; a blank inside a string travels as
 the JSON escape of U+0020):
  dfile = {"nodes":[name…],
           "vt":[{"n":name,"v":[[id,name]…]}…],                      VAL_TABLE_
           "ve":[{"m":msgId,"s":sigName,"v":[[id,name]…]}…],         VAL_
           "cm":[{"k":"g"|"n"|"m"|"s","t":text,"n":node,"m":msgId,"s":sigName}…],
           "msgs":[{"id":N,"n":name,"z":bytes,"tx":transmitter,
                    "sigs":[{"n":name,"s":start,"z":size,"sg":0|1,"f":"num/den","o":"num/den",
                             "mn":"num/den","mx":"num/den","u":unit,"r":[name…]}…]}…]}

Rendering (the same text is produced by harness/s_impbus.go from the real objects):
  desc="…" nodes=[name#id:"desc",…] msgs=[{id=…,n=…,z=…,tx=…,rx=[names sorted],d="…",sigs=[sig,…]},…]
  messages sorted by id, signals in layout order
  sig = S:name@start+size(t<class>:kind,size,s|u,min,max,scale,offset;u<class>:"symbol"|u-;d="…")
      | E:name@start+size(e<class>:"name",min=…,vals=[idx="name",…];d="…")
  <class> = number of the object in first-occurrence order of this walk (type / unit / enum
  objects separately); numbers are exact rationals num/den
-/
import Lean.Data.Json
import Acme.Driver.Util
import Acme.Core.ImportBus
import Acme.Core.ExportBus
import Acme.Spec.ExportBus

namespace Acme.Driver.ImportBusD
open Lean (Json)
open Acme.ImportBus
open Acme.ExportBus (exportBus)

abbrev D := Except String

def fld (j : Json) (k : String) : D Json := j.getObjVal? k
def fStr (j : Json) (k : String) : D String := do (← fld j k).getStr?
def fNat (j : Json) (k : String) : D Nat := do (← fld j k).getNat?
def fFlag (j : Json) (k : String) : D Bool := do return (← fNat j k) != 0

def fStrD (j : Json) (k : String) : D String :=
  match j.getObjVal? k with
  | .ok v => if v.isNull then pure "" else v.getStr?
  | .error _ => pure ""

def fNatD (j : Json) (k : String) : D Nat :=
  match j.getObjVal? k with
  | .ok v => if v.isNull then pure 0 else v.getNat?
  | .error _ => pure 0

def fList {α : Type} (f : Json → D α) (j : Json) (k : String) : D (List α) :=
  match j.getObjVal? k with
  | .error _ => pure []
  | .ok v => do
    if v.isNull then return []
    let a ← v.getArr?
    a.toList.mapM f

def parseRat (s : String) : D Rat :=
  match s.splitOn "/" with
  | [n, d] =>
    match n.toInt?, d.toNat? with
    | some n, some d => if d = 0 then throw "rat" else pure (mkRat n d)
    | _, _ => throw "rat"
  | _ => throw "rat"

def fRat (j : Json) (k : String) : D Rat := do parseRat (← fStr j k)

def dVal (j : Json) : D DVal := do
  let a ← j.getArr?
  match a.toList with
  | [i, n] => pure (← i.getNat?, ← n.getStr?)
  | _ => throw "value"

def dTable (j : Json) : D DTable := do
  pure { name := ← fStr j "n", values := ← fList dVal j "v" }

def dEnc (j : Json) : D DEnc := do
  pure { msgId := ← fNat j "m", sigName := ← fStr j "s", values := ← fList dVal j "v" }

def dComment (j : Json) : D DComment := do
  match ← fStr j "k" with
  | "g" => pure (.general (← fStr j "t"))
  | "n" => pure (.node (← fStrD j "n") (← fStr j "t"))
  | "m" => pure (.msg (← fNatD j "m") (← fStr j "t"))
  | "s" => pure (.sig (← fNatD j "m") (← fStrD j "s") (← fStr j "t"))
  | _ => throw "comment"

def dSignal (j : Json) : D DSignal := do
  pure { name := ← fStr j "n", start := ← fNat j "s", size := ← fNat j "z", signed := ← fFlag j "sg",
         factor := ← fRat j "f", offset := ← fRat j "o", min := ← fRat j "mn", max := ← fRat j "mx",
         unit := ← fStrD j "u", receivers := ← fList (·.getStr?) j "r" }

def dMessage (j : Json) : D DMessage := do
  pure { id := ← fNat j "id", name := ← fStr j "n", size := ← fNat j "z", transmitter := ← fStr j "tx",
         sigs := ← fList dSignal j "sigs" }

def dFile (j : Json) : D DFile := do
  pure { nodes := ← fList (·.getStr?) j "nodes", tables := ← fList dTable j "vt", encs := ← fList dEnc j "ve",
         comments := ← fList dComment j "cm", msgs := ← fList dMessage j "msgs" }

/-! ## rendering -/

def q (s : String) : String := "\"" ++ s ++ "\""

def showKind : Acme.Arith.Kind → String
  | .custom => "custom" | .flag => "flag" | .integer => "integer" | .decimal => "decimal"

/-- the classes met so far: object indexes in first-occurrence order -/
structure Seen where
  types : List Nat := []
  units : List Nat := []
  enums : List Nat := []

def classOf (seen : List Nat) (i : Nat) : List Nat × Nat :=
  match seen.findIdx? (· == i) with
  | some k => (seen, k)
  | none => (seen ++ [i], seen.length)

def showNode (n : INode) : String := s!"{n.name}#{n.id}:{q n.desc}"

def showType (t : SigType) : String :=
  s!"{showKind t.kind},{t.size},{if t.signed then "s" else "u"},{showRat t.min},{showRat t.max},{showRat t.scale},{showRat t.offset}"

def showVals (vs : List DVal) : String :=
  showList (vs.map (fun v => s!"{v.1}={q v.2}"))

def showSig (b : IBus) (seen : Seen) (s : ISignal) : Seen × String :=
  let size := match b.sigSize s with
    | some z => toString z
    | none => "?"
  match s.kind with
  | .standard t u =>
    let (ts, tc) := classOf seen.types t
    let tyS := match b.types[t]? with
      | some ty => showType ty
      | none => "?"
    let (us, uS) := match u with
      | none => (seen.units, "u-")
      | some ui =>
        let (us, uc) := classOf seen.units ui
        (us, s!"u{uc}:{q (b.units.getD ui "?")}")
    ({ seen with types := ts, units := us },
     s!"S:{s.name}@{s.start}+{size}(t{tc}:{tyS};{uS};d={q s.desc})")
  | .enum e =>
    let (es, ec) := classOf seen.enums e
    let eS := match b.enums[e]? with
      | some en => s!"{q en.name},min={en.minSize},vals={showVals en.values}"
      | none => "?"
    ({ seen with enums := es }, s!"E:{s.name}@{s.start}+{size}(e{ec}:{eS};d={q s.desc})")

def showSigs (b : IBus) : Seen → List ISignal → Seen × List String
  | seen, [] => (seen, [])
  | seen, s :: r =>
    let (seen1, o) := showSig b seen s
    let (seen2, os) := showSigs b seen1 r
    (seen2, o :: os)

def showMsg (b : IBus) (seen : Seen) (m : IMessage) : Seen × String :=
  let (seen', ss) := showSigs b seen m.sigs
  let rx := m.receivers.mergeSort (fun a c => decide (a ≤ c))
  (seen', "{" ++ s!"id={m.id},n={m.name},z={m.size},tx={m.sender},rx={showList rx},d={q m.desc},sigs={showList ss}" ++ "}")

def showMsgs (b : IBus) : Seen → List IMessage → List String
  | _, [] => []
  | seen, m :: r =>
    let (seen', o) := showMsg b seen m
    o :: showMsgs b seen' r

def showBus (b : IBus) : String :=
  let msgs := b.msgs.mergeSort (fun a c => decide (a.id ≤ c.id))
  s!"desc={q b.desc} nodes={showList (b.nodes.map showNode)} msgs={showList (showMsgs b {} msgs)}"

def showErr : ImpErr → String
  | .valueIndexDuplicated => "valueIndexDuplicated" | .valueNameDuplicated => "valueNameDuplicated"
  | .nodeNameDuplicated => "nodeNameDuplicated" | .nodeIdDuplicated => "nodeIdDuplicated"
  | .sigNameDuplicated => "sigNameDuplicated" | .startOutOfBounds => "startOutOfBounds"
  | .nodeNotFound => "nodeNotFound" | .receiverIsSender => "receiverIsSender"
  | .msgNameDuplicated => "msgNameDuplicated" | .msgTooBig => "msgTooBig"
  | .canIdDuplicated => "canIdDuplicated" | .sizeOutOfBounds => "sizeOutOfBounds"
  | .sizeTooSmall => "sizeTooSmall" | .sizeZero => "sizeZero" | .intersect => "intersect"
  | .internal => "internal"

def handleImport (payload : String) : String :=
  match Json.parse payload >>= dFile with
  | .error e => "bad-op " ++ e
  | .ok f =>
    match importBus f with
    | .ok b => "ok " ++ showBus b
    | .error e => "err " ++ showErr e

/-! ## the bus as input -/

def fInt (j : Json) (k : String) : D Int := do (← fld j k).getInt?

def kindOfStr : String → D Acme.Arith.Kind
  | "flag" => pure .flag | "integer" => pure .integer | "decimal" => pure .decimal | "custom" => pure .custom
  | _ => throw "kind"

def mNode (j : Json) : D INode := do
  pure { name := ← fStr j "n", id := ← fNat j "id", desc := ← fStrD j "d" }

def mType (j : Json) : D SigType := do
  pure { kind := ← kindOfStr (← fStr j "k"), size := ← fNat j "z", signed := ← fFlag j "sg",
         min := ← fRat j "mn", max := ← fRat j "mx", scale := ← fRat j "sc", offset := ← fRat j "of" }

def mEnum (j : Json) : D IEnum := do
  pure { name := ← fStr j "n", values := ← fList dVal j "v", minSize := ← fNat j "min", refs := 0 }

def mSignal (j : Json) : D ISignal := do
  let kind ← match j.getObjVal? "e" with
    | .ok v => do pure (IKind.enum (← v.getNat?))
    | .error _ => do
      let u ← fInt j "u"
      pure (IKind.standard (← fNat j "t") (if u < 0 then none else some u.toNat))
  pure { name := ← fStr j "n", start := ← fNat j "s", desc := ← fStrD j "d", kind := kind }

def mMessage (j : Json) : D IMessage := do
  pure { id := ← fNat j "id", name := ← fStr j "n", size := ← fNat j "z", sender := ← fStr j "tx",
         receivers := ← fList (·.getStr?) j "rx", desc := ← fStrD j "d", sigs := ← fList mSignal j "sigs" }

def mBus (j : Json) : D IBus := do
  pure { desc := ← fStrD j "desc", nodes := ← fList mNode j "nodes", msgs := ← fList mMessage j "msgs",
         types := ← fList mType j "types", units := ← fList (·.getStr?) j "units", enums := ← fList mEnum j "enums" }

/-! ## the document as canonical JSON text (read back by `dFile` and by harness/s_impbus.go) -/

def jEsc (s : String) : String :=
  String.join (s.toList.map (fun c =>
    if c = ' ' then "\\u0020" else if c = '"' then "\\\"" else if c = '\\' then "\\\\" else c.toString))

def jStr (s : String) : String := "\"" ++ jEsc s ++ "\""

def jVals (vs : List DVal) : String := showList (vs.map (fun v => s!"[{v.1},{jStr v.2}]"))

def jTable (t : DTable) : String := "{" ++ s!"\"n\":{jStr t.name},\"v\":{jVals t.values}" ++ "}"

def jEnc (c : DEnc) : String := "{" ++ s!"\"m\":{c.msgId},\"s\":{jStr c.sigName},\"v\":{jVals c.values}" ++ "}"

def jComment : DComment → String
  | .general t => "{" ++ s!"\"k\":\"g\",\"t\":{jStr t}" ++ "}"
  | .node n t => "{" ++ s!"\"k\":\"n\",\"n\":{jStr n},\"t\":{jStr t}" ++ "}"
  | .msg i t => "{" ++ s!"\"k\":\"m\",\"m\":{i},\"t\":{jStr t}" ++ "}"
  | .sig i n t => "{" ++ s!"\"k\":\"s\",\"m\":{i},\"s\":{jStr n},\"t\":{jStr t}" ++ "}"

def jSignal (d : DSignal) : String :=
  "{" ++ s!"\"n\":{jStr d.name},\"s\":{d.start},\"z\":{d.size},\"sg\":{if d.signed then 1 else 0},\"f\":{jStr (showRat d.factor)},\"o\":{jStr (showRat d.offset)},\"mn\":{jStr (showRat d.min)},\"mx\":{jStr (showRat d.max)},\"u\":{jStr d.unit},\"r\":{showList (d.receivers.map jStr)}" ++ "}"

def jMessage (m : DMessage) : String :=
  "{" ++ s!"\"id\":{m.id},\"n\":{jStr m.name},\"z\":{m.size},\"tx\":{jStr m.transmitter},\"sigs\":{showList (m.sigs.map jSignal)}" ++ "}"

/-- tables of one name are a set for the comparison: ordered by the text of their values -/
def tableLe (a c : DTable) : Bool :=
  a.name < c.name || (a.name == c.name && decide (jVals a.values ≤ jVals c.values))

def showFile (f : DFile) : String :=
  "{" ++ s!"\"nodes\":{showList (f.nodes.map jStr)},\"vt\":{showList ((f.tables.mergeSort tableLe).map jTable)},\"ve\":{showList (f.encs.map jEnc)},\"cm\":{showList (f.comments.map jComment)},\"msgs\":{showList (f.msgs.map jMessage)}" ++ "}"

def handleExport (payload : String) : String :=
  match Json.parse payload >>= mBus with
  | .error e => "bad-op " ++ e
  | .ok b => "ok " ++ showFile (exportBus b)

def handleRt (payload : String) : String :=
  match Json.parse payload >>= mBus with
  | .error e => "bad-op " ++ e
  | .ok b =>
    -- on the class of Acme.Props.C11Bus.bus_roundtrip the answer is checked against `normB`
    let wf := decide (Acme.ExportBus.BusWF b)
    match importBus (exportBus b) with
    | .ok b' =>
      if wf && !(decide (Acme.ExportBus.view b' = Acme.ExportBus.normB b)) then "THEOREM-VIOLATION view"
      else "ok " ++ showBus b' ++ (if wf then " ##wf" else " ##outside")
    | .error e => if wf then "THEOREM-VIOLATION refused" else "err " ++ showErr e

def handle (args : List String) : String :=
  match args with
  | "import" :: payload :: _ => handleImport payload
  | "export" :: payload :: _ => handleExport payload
  | "rt" :: payload :: _ => handleRt payload
  | _ => "bad-op"

end Acme.Driver.ImportBusD
