import Acme.Core.Mux
import Acme.Driver.Util

/-
Line protocol of the multiplexer model (stream word `mx`):

  mx sig.leaf S name size | mx sig.mux S name gc gs | mx msg.new M sizeByte
  mx msg.app M S | mx msg.ins M S st | mx msg.rm M S | mx msg.clear M | mx msg.shl M S a | mx msg.shr M S a
  mx mux.ins X S st [g1 g2 ...] | mx mux.rm X S | mx mux.clear X g | mx mux.clearAll X
  mx mux.shl X S a | mx mux.shr X S a | mx leaf.size S n | mx sig.name S name
  mx dump.msg M | mx dump.mux X | mx dump.sig S

Answers: `ok [v]` | `err <cause>` | `unsupported` | `panic` | dump text | `none` | `bad-op`.
-/
namespace Acme.Driver.MuxD
open Acme.Mux Acme.Layout Acme.Arith Acme.Driver

abbrev St := MW

def showCause : Cause → String
  | .duplicated => "duplicated" | .notFound => "notFound" | .outOfBounds => "outOfBounds"
  | .noSpaceLeft => "noSpaceLeft" | .intersect => "intersect" | .negative => "negative"
  | .zero => "zero" | .nil => "nil"

def showOut : Out → String
  | .ok [] => "ok"
  | .ok vs => "ok " ++ joinSp (vs.map toString)
  | .err c => "err " ++ showCause c
  | .unsupported => "unsupported"
  | .panic => "panic"

def n? (s : String) : Option Nat := s.toNat?
def i? (s : String) : Option Int := s.toInt?

def parseOp : List String → Option Op
  | ["sig.leaf", s, name, sz] => do pure (.sigLeaf (← n? s) name (← i? sz))
  | ["sig.mux", s, name, gc, gs] => do pure (.sigMux (← n? s) name (← i? gc) (← i? gs))
  | ["msg.new", m, k] => do pure (.msgNew (← n? m) (← i? k))
  | ["msg.app", m, s] => do pure (.msgApp (← n? m) (← n? s))
  | ["msg.ins", m, s, st] => do pure (.msgIns (← n? m) (← n? s) (← i? st))
  | ["msg.rm", m, s] => do pure (.msgRm (← n? m) (← n? s))
  | ["msg.clear", m] => do pure (.msgClear (← n? m))
  | ["msg.shl", m, s, a] => do pure (.msgShl (← n? m) (← n? s) (← i? a))
  | ["msg.shr", m, s, a] => do pure (.msgShr (← n? m) (← n? s) (← i? a))
  | "mux.ins" :: x :: s :: st :: gids => do pure (.muxIns (← n? x) (← n? s) (← i? st) (← gids.mapM i?))
  | ["mux.rm", x, s] => do pure (.muxRm (← n? x) (← n? s))
  | ["mux.clear", x, g] => do pure (.muxClear (← n? x) (← i? g))
  | ["mux.clearAll", x] => do pure (.muxClearAll (← n? x))
  | ["mux.shl", x, s, a] => do pure (.muxShl (← n? x) (← n? s) (← i? a))
  | ["mux.shr", x, s, a] => do pure (.muxShr (← n? x) (← n? s) (← i? a))
  | ["leaf.size", s, n] => do pure (.leafSize (← n? s) (← i? n))
  | ["sig.name", s, name] => do pure (.sigName (← n? s) name)
  | _ => none

def sortNat (l : List Nat) : List Nat := l.mergeSort (fun a b => decide (a ≤ b))

def showNats (l : List Nat) : String := showList ((sortNat l).map toString)

def showNames (nm : Names) : String :=
  let l := nm.mergeSort (fun a b => decide (a.1 ≤ b.1))
  showList (l.map (fun p => s!"{p.1}:{p.2}"))

def showSlots (w : MW) (ids : List Nat) : String :=
  showList ((slotsOf w ids).map (fun sl => s!"({sl.id},{sl.start},{sl.size})"))

def optNat : Option Nat → String
  | some p => toString p
  | none => "-"

def dumpMsg (w : MW) (m : Nat) : String :=
  match w.msgs.get m with
  | none => "none"
  | some msg =>
    s!"cap={msg.cap} layout={showSlots w msg.layout} sigs={showNats msg.signals} names={showNames msg.signalNames}"

def dumpMux (w : MW) (x : Nat) : String :=
  match w.sigs.get x with
  | none => "none"
  | some xe =>
    match xe.kind with
    | .leaf _ => "none"
    | .mux gc gs =>
      let gids := xe.mx.groupIds.l.mergeSort (fun a b => decide (a.1 ≤ b.1))
      let gidsS := showList (gids.map (fun p => s!"{p.1}:{showList (p.2.map toString)}"))
      s!"gc={gc} gs={gs} sel={muxSelWidth gc} size={sigSize xe} groups={showList (xe.mx.groups.map (showSlots w))} fixed={showNats xe.mx.fixed} gids={gidsS} sigs={showNats xe.mx.signals} names={showNames xe.mx.signalNames}"

def dumpSig (w : MW) (s : Nat) : String :=
  match w.sigs.get s with
  | none => "none"
  | some e =>
    s!"name={e.name} rel={e.rel} size={sigSize e} start={absStart w (fuelOf w) s} pmux={optNat e.parentMux} pmsg={optNat e.parentMsg}"

def handle (w : St) (args : List String) : St × String :=
  match args with
  | ["dump.msg", m] => match n? m with | some m => (w, dumpMsg w m) | none => (w, "bad-op")
  | ["dump.mux", x] => match n? x with | some x => (w, dumpMux w x) | none => (w, "bad-op")
  | ["dump.sig", s] => match n? s with | some s => (w, dumpSig w s) | none => (w, "bad-op")
  | _ =>
    match parseOp args with
    | none => (w, "bad-op")
    | some op => let (w', o) := step w op; (w', showOut o)

end Acme.Driver.MuxD
