/-
Driver of stream `conv` (word `cv`): the exporter / importer kernels of Acme.Core.Conv,
one stateless line each.

  cv start  s            → convStart s            (exporter.getStartBit, big endian)
  cv istart b            → convStart b            (importer.getSignalStartBit, big endian)
  cv compress g1 g2 …    → [(f,t),…] | none       (SG_MUL_VAL_ ranges the exporter writes)
  cv compressn g1 g2 …   → [(f,t),…] | none       (the same inside a nested multiplexing: the
                                                   entry is written for one group too)
  cv compressfix gc      → [(0,gc-1)] | none      (a fixed signal: in every group)
  cv expand gc f1 t1 …   → [g,…] | none           (groups the importer puts the signal in)
  cv msgsend k / cv sigsend k              → DBC string | absent
  cv msgsendfrom str / cv sigsendfrom str  → k
  cv enumidx n v1..vn v  → index | err
  cv enumat  n v1..vn i  → value | none
  cv selw gc             → selector width written by the exporter
  cv gcount w            → group count derived by the importer

What surrounds a kernel in the Go code and is visible through the public API is applied
here, around the Core function, and nowhere else:
  * `MultiplexerSignal.InsertSignal` sorts and compacts the group ids (`normIds`);
  * the exporter writes no SG_MUL_VAL_ entry for a signal of a non-nested multiplexer that
    lives in one group only (`exportRanges`);
  * the importer inserts the signal as FIXED (all groups) when the number of expanded ids
    equals the group count, and also when the ranges expand to nothing (`importGroups`);
  * the exporter writes no send-type attribute for the unset send type (`absent`);
  * `NewEnumAttribute` drops repeated values (`eraseDups`) and `AssignAttribute` refuses a
    value that is not one of the attribute's values (`err`).
-/
import Acme.Core.Conv
import Acme.Driver.Util

namespace Acme.Driver.ConvD
open Acme.Conv Acme.Driver

def msgOf : Int → Option MsgSend
  | 0 => some .unset | 1 => some .cyclic | 2 => some .cyclicIfActive
  | 3 => some .cyclicAndTriggered | 4 => some .cyclicIfActiveAndTriggered | _ => none

def msgNum : MsgSend → Nat
  | .unset => 0 | .cyclic => 1 | .cyclicIfActive => 2 | .cyclicAndTriggered => 3
  | .cyclicIfActiveAndTriggered => 4

def sigOf : Int → Option SigSend
  | 0 => some .unset | 1 => some .cyclic | 2 => some .onWrite | 3 => some .onWriteRep
  | 4 => some .onChange | 5 => some .onChangeRep | 6 => some .ifActive | 7 => some .ifActiveRep
  | _ => none

def sigNum : SigSend → Nat
  | .unset => 0 | .cyclic => 1 | .onWrite => 2 | .onWriteRep => 3 | .onChange => 4
  | .onChangeRep => 5 | .ifActive => 6 | .ifActiveRep => 7

/-- `slices.Sort` + `slices.Compact` of `InsertSignal` -/
def normIds (ids : List Int) : List Int := (ids.mergeSort (fun a b => decide (a ≤ b))).eraseDups

/-- ids handed to `InsertSignal` → ranges of the signal's SG_MUL_VAL_ entry (none: no entry) -/
def exportRanges (ids : List Int) : Option (List (Int × Int)) :=
  let n := normIds ids
  if n.length < 2 then none else compress n

def allIds (gc : Int) : List Int := (List.range gc.toNat).map (fun (k : Nat) => (k : Int))

/-- ranges of a SG_MUL_VAL_ entry → the groups the imported signal is in -/
def importGroups (gc : Int) (rs : List (Int × Int)) : Option (List Int) :=
  match expand gc rs with
  | none => none
  | some ids =>
    let n := normIds ids
    if n.isEmpty || (n.length : Int) = gc then some (allIds gc) else some n

def readPairs : List Int → Option (List (Int × Int))
  | [] => some []
  | f :: t :: rest => (readPairs rest).map ((f, t) :: ·)
  | _ => none

def showInts (xs : List Int) : String := showList (xs.map toString)

def showRanges : Option (List (Int × Int)) → String
  | none => "none"
  | some rs => showList (rs.map showPair)

/-- `n v1..vn x` -/
def readEnum (args : List String) : Option (List String × String) :=
  match args with
  | n :: rest =>
    match n.toNat? with
    | none => none
    | some k =>
      if rest.length = k + 1 then some (rest.take k, rest.getD k "") else none
  | [] => none

def handle (args : List String) : String :=
  match args with
  | ["start", s] | ["istart", s] =>
    match parseInt? s with
    | some v => if v < 0 then "bad-op" else toString (convStart v)
    | none => "bad-op"
  | "compress" :: rest =>
    match parseInts rest with
    | some ids => showRanges (exportRanges ids)
    | none => "bad-op"
  | "compressn" :: rest =>
    match parseInts rest with
    | some ids => showRanges (compress (normIds ids))
    | none => "bad-op"
  | ["compressfix", gc] =>
    match parseInt? gc with
    | some g => if g < 1 then "bad-op" else showRanges (exportRanges (allIds g))
    | none => "bad-op"
  | "expand" :: gc :: rest =>
    match parseInt? gc, parseInts rest with
    | some g, some xs =>
      match readPairs xs with
      | some rs =>
        match importGroups g rs with
        | some ids => showInts ids
        | none => "none"
      | none => "bad-op"
    | _, _ => "bad-op"
  | ["msgsend", k] =>
    match (parseInt? k).bind msgOf with
    | some .unset => "absent"
    | some m => msgSendToDBC m
    | none => "bad-op"
  | ["msgsendfrom", s] => toString (msgNum (msgSendFromDBC s))
  | ["sigsend", k] =>
    match (parseInt? k).bind sigOf with
    | some .unset => "absent"
    | some m => sigSendToDBC m
    | none => "bad-op"
  | ["sigsendfrom", s] => toString (sigNum (sigSendFromDBC s))
  | "enumidx" :: rest =>
    match readEnum rest with
    | some (vals, v) =>
      let vs := vals.eraseDups
      if vs.isEmpty then "bad-op" else if vs.contains v then toString (enumIndex vs v) else "err"
    | none => "bad-op"
  | "enumat" :: rest =>
    match readEnum rest with
    | some (vals, i) =>
      match parseInt? i with
      | some iv =>
        -- the importer reads the index through the value list of the file (repetitions included)
        let vs := vals
        if vs.isEmpty then "bad-op" else
        match enumValueAt vs iv with
        | some v => v
        | none => "none"
      | none => "bad-op"
    | none => "bad-op"
  | ["selw", gc] =>
    match parseInt? gc with
    | some g => toString (exportSelWidth g)
    | none => "bad-op"
  | ["gcount", w] =>
    match parseInt? w with
    | some v => toString (importGroupCount v)
    | none => "bad-op"
  | _ => "bad-op"

end Acme.Driver.ConvD
