/-
Driver of word `sv` (structural save / load model, stream `sv`).

  sv save <net-json>   → <pnet-json>            the tree `Acme.Save.save` builds
  sv load <pnet-json>  → ok <net-json> <geo-json> | err <class> [<argument>]
                                                 `Acme.LoadGeom.loadFull` = `Acme.Save.load`, then the
                                                 geometry `loadGeom`; the network is shown in the order
                                                 normal form (`norm`) restricted to the definitions
                                                 that are reachable (the Go side walks the getters);
                                                 geo-json = the layouts: [[msg id, bits, [[signal id,
                                                 start, size] in layout order], [[mux id, group size,
                                                 [group layouts]] by id]] by id]
                                                 err geom <cause>[|<cause>…]: refused by the placement
                                                 (outOfBounds, noSpaceLeft, intersect, typeSizeZero,
                                                 groupSizeZero); a multiplexer with several faults lists
                                                 every cause the real loader may meet first (map order)
                                                 The scalars of the geometry are read from the payloads
                                                 HERE (the reader `sizesOf`): type `sz`, enum `ms` / `vs`
                                                 (name:index:desc joined by '/'), message `sz`, multiplexer
                                                 `gs` — decimal, through uint32 as the schema fields.
  sv example <net-json> / sv example-saved <pnet-json> → same=<bool>
                                                 the JSON is `Acme.Save.Ex.net` / `save Ex.net` (ties the
                                                 fixture of the stream to the example of the theorems);
                                                 `sv print-example net|norm|saved` prints them
  sv wf <net-json>     → wf=<bool> inrange=<bool> roundtrip=<bool>
                                                 `NetWF`, `InRange` and `load (save n) = ok (norm n)`
                                                 evaluated on the generator's output

JSON is compact, contains no blank (the generator only uses blank-free texts) and objects are
printed with sorted keys (`Lean.Json.compress`; the Go side re-marshals through a map).

net-json:  {"e":E,"buses":[BUS],"builders":[BLD],"nodes":[NODE],"types":[E],"units":[E],"enums":[E],"attrs":[ATTR]}
  E    = {"id","name","pl"}
  BUS  = {"e":E,"builder":"" (= default),"ifaces":[{"node","num","msgs":[MSG]}],"asg":[ASG]}
  MSG  = {"e":E,"asg":[ASG],"mid","static":-1|v,"sigs":[{"sig":SIG,"pos"}],"recvs":[{"node","num"}]}
  SIG  = {"e":E,"asg":[ASG],"k":1|2|3,"type","unit","enum","gc","kids":[{"sig":SIG,"pos","fixed","grp":[..]}]}
  ASG  = {"attr","val"}   BLD = {"e":E,"ops":[{"k","f","l"}]}   NODE = {"e":E,"nid","ifc","asg":[ASG]}
  ATTR = {"e":E,"k":0 string|1 integer|2 float|3 enum,"vals":[..],"def"}
pnet-json: the same shape for `acmelibv1.Network`:
  PBUS = {"e","builder","ifaces":[{"node","num","msgs":[PMSG]}],"asg":[PASG]}
  PMSG = {"e","asg","mid","sval","hs","sigs":[PSIG],"refs":[{"id","pos"}],"recvs":[{"node","num"}]}
  PSIG = {"e","asg","kind","body":0 none|1 standard|2 enum|3 multiplexer,"type","unit","enum","gc",
          "sigs":[PSIG],"fixed":[id],"groups":[[{"id","pos"}]]}
  PASG = {"owner","attr","tag":0 string|1 int|2 double|3 unset,"val"}
  PATTR = {"e","tag","body":0 none|1 string|2 integer|3 float|4 enum,"vals","def"}
  PBLD = {"e","ops":[{"k","f","l"}]}   PNODE = {"e","nid","ifc","asg":[PASG]}
-/
import Lean.Data.Json
import Acme.Core.Save
import Acme.Spec.Save
import Acme.Spec.SaveDecEq
import Acme.Spec.SaveExample
import Acme.Core.LoadGeom

namespace Acme.Driver.SaveD
open Lean (Json)
open Acme.Save

abbrev D := Except String

def fld (j : Json) (k : String) : D Json := j.getObjVal? k
def fStr (j : Json) (k : String) : D String := do (← fld j k).getStr?
def fNat (j : Json) (k : String) : D Nat := do (← fld j k).getNat?
def fInt (j : Json) (k : String) : D Int := do (← fld j k).getInt?
def fBool (j : Json) (k : String) : D Bool := do (← fld j k).getBool?
def fList {α : Type} (f : Json → D α) (j : Json) (k : String) : D (List α) := do
  let v ← fld j k
  if v.isNull then return []
  let a ← v.getArr?
  a.toList.mapM f
def fStrs (j : Json) (k : String) : D (List String) := fList (·.getStr?) j k

/-! ## decoding -/

def dEnt (j : Json) : D Ent := do
  pure { id := ← fStr j "id", name := ← fStr j "name", pl := ← fStr j "pl" }
def fEnt (j : Json) : D Ent := do dEnt (← fld j "e")

def dAsg (j : Json) : D Asg := do pure { attr := ← fStr j "attr", val := ← fStr j "val" }

def dAttr (j : Json) : D Attr := do
  let e ← fEnt j
  let k ← fNat j "k"
  let kind : AttrKind ←
    match k with
    | 0 => pure AttrKind.str
    | 1 => pure AttrKind.int
    | 2 => pure AttrKind.flt
    | _ => pure (AttrKind.enm (← fStrs j "vals") (← fStr j "def"))
  pure { e := e, kind := kind }

def dOp (j : Json) : D Op := do
  pure { kind := ← fNat j "k", «from» := ← fNat j "f", len := ← fNat j "l" }
def dBuilder (j : Json) : D Builder := do pure { e := ← fEnt j, ops := ← fList dOp j "ops" }
def dNode (j : Json) : D Node := do
  pure { e := ← fEnt j, nid := ← fNat j "nid", ifc := ← fNat j "ifc", asg := ← fList dAsg j "asg" }

partial def dSig (j : Json) : D Sig := do
  let e ← fEnt j
  let asg ← fList dAsg j "asg"
  let k ← fNat j "k"
  match k with
  | 1 =>
    let u ← fStr j "unit"
    pure (.mk e asg (.std (← fStr j "type") (if u == "" then none else some u)))
  | 2 => pure (.mk e asg (.enm (← fStr j "enum")))
  | _ =>
    let kids ← fList (fun kj => do
      let s ← dSig (← fld kj "sig")
      let fixed ← fBool kj "fixed"
      let grp ← fList (·.getNat?) kj "grp"
      pure (Kid.mk s (← fNat kj "pos") (if fixed then none else some grp))) j "kids"
    pure (.mk e asg (.mux (← fNat j "gc") kids))

def dRecv (j : Json) : D Recv := do pure { node := ← fStr j "node", num := ← fNat j "num" }

def dMsg (j : Json) : D Msg := do
  let st ← fInt j "static"
  pure { e := ← fEnt j, asg := ← fList dAsg j "asg", mid := ← fNat j "mid"
         static := if st < 0 then none else some st.toNat
         sigs := ← fList (fun sj => do pure (← dSig (← fld sj "sig"), ← fNat sj "pos")) j "sigs"
         recvs := ← fList dRecv j "recvs" }

def dIface (j : Json) : D Iface := do
  pure { node := ← fStr j "node", num := ← fNat j "num", msgs := ← fList dMsg j "msgs" }

def dBus (j : Json) : D Bus := do
  let b ← fStr j "builder"
  pure { e := ← fEnt j, builder := if b == "" then none else some b
         ifaces := ← fList dIface j "ifaces", asg := ← fList dAsg j "asg" }

def dNet (j : Json) : D Net := do
  pure { e := ← fEnt j, buses := ← fList dBus j "buses"
         t := { builders := ← fList dBuilder j "builders", nodes := ← fList dNode j "nodes"
                types := ← fList dEnt j "types", units := ← fList dEnt j "units"
                enums := ← fList dEnt j "enums", attrs := ← fList dAttr j "attrs" } }

def dPAsg (j : Json) : D PAsg := do
  pure { owner := ← fStr j "owner", attr := ← fStr j "attr", tag := ← fNat j "tag", val := ← fStr j "val" }

def dRef (j : Json) : D (Id × Nat) := do pure (← fStr j "id", ← fNat j "pos")

partial def dPSig (j : Json) : D PSig := do
  let e ← fEnt j
  let asg ← fList dPAsg j "asg"
  let kind ← fNat j "kind"
  let b ← fNat j "body"
  let body : PBody ←
    match b with
    | 0 => pure PBody.none
    | 1 => pure (PBody.std (← fStr j "type") (← fStr j "unit"))
    | 2 => pure (PBody.enm (← fStr j "enum"))
    | _ =>
      let groups ← fList (fun g => do (← g.getArr?).toList.mapM dRef) j "groups"
      pure (PBody.mux (← fNat j "gc") (← fList dPSig j "sigs") (← fStrs j "fixed") groups)
  pure (.mk e asg kind body)

def dPMsg (j : Json) : D PMsg := do
  pure { e := ← fEnt j, asg := ← fList dPAsg j "asg", mid := ← fNat j "mid", staticVal := ← fNat j "sval"
         hasStatic := ← fBool j "hs", sigs := ← fList dPSig j "sigs", refs := ← fList dRef j "refs"
         recvs := ← fList (fun r => do pure (← fStr r "node", ← fNat r "num")) j "recvs" }

def dPIface (j : Json) : D PIface := do
  pure { node := ← fStr j "node", num := ← fInt j "num", msgs := ← fList dPMsg j "msgs" }

def dPBus (j : Json) : D PBus := do
  pure { e := ← fEnt j, builder := ← fStr j "builder", ifaces := ← fList dPIface j "ifaces"
         asg := ← fList dPAsg j "asg" }

def dPAttr (j : Json) : D PAttr := do
  let b ← fNat j "body"
  let body : PAttrBody ←
    match b with
    | 0 => pure PAttrBody.none
    | 1 => pure PAttrBody.str
    | 2 => pure PAttrBody.int
    | 3 => pure PAttrBody.flt
    | _ => pure (PAttrBody.enm (← fStrs j "vals") (← fStr j "def"))
  pure { e := ← fEnt j, tag := ← fNat j "tag", body := body }

def dPOp (j : Json) : D POp := do
  pure { kind := ← fNat j "k", «from» := ← fNat j "f", len := ← fNat j "l" }

def dPNet (j : Json) : D PNet := do
  pure { e := ← fEnt j, buses := ← fList dPBus j "buses"
         builders := ← fList (fun b => do pure { e := ← fEnt b, ops := ← fList dPOp b "ops" }) j "builders"
         nodes := ← fList (fun x => do
            pure { e := ← fEnt x, nid := ← fNat x "nid", ifc := ← fNat x "ifc", asg := ← fList dPAsg x "asg" }) j "nodes"
         types := ← fList dEnt j "types", units := ← fList dEnt j "units", enums := ← fList dEnt j "enums"
         attrs := ← fList dPAttr j "attrs" }

/-! ## encoding -/

def jArr {α : Type} (f : α → Json) (xs : List α) : Json := Json.arr (xs.map f).toArray
def jStrs (xs : List String) : Json := jArr Json.str xs
def jNat (n : Nat) : Json := Json.num (Lean.JsonNumber.fromNat n)
def jInt (n : Int) : Json := Json.num (Lean.JsonNumber.fromInt n)

def eEnt (e : Ent) : Json := Json.mkObj [("id", e.id), ("name", e.name), ("pl", e.pl)]
def eAsg (a : Asg) : Json := Json.mkObj [("attr", a.attr), ("val", a.val)]
def ePAsg (a : PAsg) : Json :=
  Json.mkObj [("owner", a.owner), ("attr", a.attr), ("tag", jNat a.tag), ("val", a.val)]
def eRef (r : Id × Nat) : Json := Json.mkObj [("id", r.1), ("pos", jNat r.2)]

partial def ePSig (s : PSig) : Json :=
  let base := [("e", eEnt s.e), ("asg", jArr ePAsg s.asg), ("kind", jNat s.kind)]
  let z : List (String × Json) :=
    [("type", ""), ("unit", ""), ("enum", ""), ("gc", jNat 0), ("sigs", Json.arr #[]),
     ("fixed", Json.arr #[]), ("groups", Json.arr #[])]
  let upd (kvs : List (String × Json)) : List (String × Json) :=
    z.map fun (k, v) => match kvs.find? (·.1 == k) with | some kv => kv | none => (k, v)
  match s.body with
  | .none => Json.mkObj (base ++ [("body", jNat 0)] ++ z)
  | .std ty un => Json.mkObj (base ++ [("body", jNat 1)] ++ upd [("type", ty), ("unit", un)])
  | .enm en => Json.mkObj (base ++ [("body", jNat 2)] ++ upd [("enum", en)])
  | .mux gc sigs fixed groups =>
    Json.mkObj (base ++ [("body", jNat 3)] ++
      upd [("gc", jNat gc), ("sigs", jArr ePSig sigs), ("fixed", jStrs fixed),
           ("groups", jArr (jArr eRef) groups)])

def ePMsg (m : PMsg) : Json :=
  Json.mkObj [("e", eEnt m.e), ("asg", jArr ePAsg m.asg), ("mid", jNat m.mid), ("sval", jNat m.staticVal),
    ("hs", Json.bool m.hasStatic), ("sigs", jArr ePSig m.sigs), ("refs", jArr eRef m.refs),
    ("recvs", jArr (fun r : Id × Nat => Json.mkObj [("node", r.1), ("num", jNat r.2)]) m.recvs)]

def ePBus (b : PBus) : Json :=
  Json.mkObj [("e", eEnt b.e), ("builder", b.builder), ("asg", jArr ePAsg b.asg),
    ("ifaces", jArr (fun i : PIface =>
       Json.mkObj [("node", i.node), ("num", jInt i.num), ("msgs", jArr ePMsg i.msgs)]) b.ifaces)]

def ePAttr (a : PAttr) : Json :=
  let (b, vs, d) : Nat × List String × String :=
    match a.body with
    | .none => (0, [], "") | .str => (1, [], "") | .int => (2, [], "") | .flt => (3, [], "")
    | .enm vs d => (4, vs, d)
  Json.mkObj [("e", eEnt a.e), ("tag", jNat a.tag), ("body", jNat b), ("vals", jStrs vs), ("def", d)]

def ePNet (p : PNet) : Json :=
  Json.mkObj [("e", eEnt p.e), ("buses", jArr ePBus p.buses),
    ("builders", jArr (fun b : PBuilder => Json.mkObj [("e", eEnt b.e),
        ("ops", jArr (fun o : POp => Json.mkObj [("k", jNat o.kind), ("f", jNat o.from), ("l", jNat o.len)]) b.ops)]) p.builders),
    ("nodes", jArr (fun x : PNode => Json.mkObj [("e", eEnt x.e), ("nid", jNat x.nid), ("ifc", jNat x.ifc),
        ("asg", jArr ePAsg x.asg)]) p.nodes),
    ("types", jArr eEnt p.types), ("units", jArr eEnt p.units), ("enums", jArr eEnt p.enums),
    ("attrs", jArr ePAttr p.attrs)]

partial def eSig (s : Sig) : Json :=
  let base := [("e", eEnt s.e), ("asg", jArr eAsg s.asg)]
  match s.body with
  | .std ty un =>
    Json.mkObj (base ++ [("k", jNat 1), ("type", ty), ("unit", un.getD ""), ("enum", ""), ("gc", jNat 0),
      ("kids", Json.arr #[])])
  | .enm en =>
    Json.mkObj (base ++ [("k", jNat 2), ("type", ""), ("unit", ""), ("enum", en), ("gc", jNat 0),
      ("kids", Json.arr #[])])
  | .mux gc kids =>
    Json.mkObj (base ++ [("k", jNat 3), ("type", ""), ("unit", ""), ("enum", ""), ("gc", jNat gc),
      ("kids", jArr (fun k : Kid => Json.mkObj [("sig", eSig k.sig), ("pos", jNat k.pos),
          ("fixed", Json.bool k.grp.isNone), ("grp", jArr jNat (k.grp.getD []))]) kids)])

def eMsg (m : Msg) : Json :=
  Json.mkObj [("e", eEnt m.e), ("asg", jArr eAsg m.asg), ("mid", jNat m.mid),
    ("static", match m.static with | none => jInt (-1) | some v => jNat v),
    ("sigs", jArr (fun p : Sig × Nat => Json.mkObj [("sig", eSig p.1), ("pos", jNat p.2)]) m.sigs),
    ("recvs", jArr (fun r : Recv => Json.mkObj [("node", r.node), ("num", jNat r.num)]) m.recvs)]

def eBus (b : Bus) : Json :=
  Json.mkObj [("e", eEnt b.e), ("builder", b.builder.getD ""), ("asg", jArr eAsg b.asg),
    ("ifaces", jArr (fun i : Iface =>
      Json.mkObj [("node", i.node), ("num", jNat i.num), ("msgs", jArr eMsg i.msgs)]) b.ifaces)]

def eAttr (a : Attr) : Json :=
  let (k, vs, d) : Nat × List String × String :=
    match a.kind with
    | .str => (0, [], "") | .int => (1, [], "") | .flt => (2, [], "") | .enm vs d => (3, vs, d)
  Json.mkObj [("e", eEnt a.e), ("k", jNat k), ("vals", jStrs vs), ("def", d)]

def eNet (n : Net) : Json :=
  Json.mkObj [("e", eEnt n.e), ("buses", jArr eBus n.buses),
    ("builders", jArr (fun b : Builder => Json.mkObj [("e", eEnt b.e),
        ("ops", jArr (fun o : Op => Json.mkObj [("k", jNat o.kind), ("f", jNat o.from), ("l", jNat o.len)]) b.ops)]) n.t.builders),
    ("nodes", jArr (fun x : Node => Json.mkObj [("e", eEnt x.e), ("nid", jNat x.nid), ("ifc", jNat x.ifc),
        ("asg", jArr eAsg x.asg)]) n.t.nodes),
    ("types", jArr eEnt n.t.types), ("units", jArr eEnt n.t.units), ("enums", jArr eEnt n.t.enums),
    ("attrs", jArr eAttr n.t.attrs)]

/-! ## views -/

/-- the definitions a walk through the getters reaches -/
def dropUnused (n : Net) : Net :=
  let used := usedRefs n
  { n with t :=
    { builders := n.t.builders.filter (fun x => used.contains (RefK.builder, x.e.id))
      nodes := usedNodes n
      types := n.t.types.filter (fun x => used.contains (RefK.type, x.id))
      units := n.t.units.filter (fun x => used.contains (RefK.unit, x.id))
      enums := n.t.enums.filter (fun x => used.contains (RefK.enum, x.id))
      attrs := n.t.attrs.filter (fun x => used.contains (RefK.attr, x.e.id)) } }

def view (n : Net) : Net := norm (dropUnused n)

/-! ## the side table of the geometry (payload keys; see the header) -/

open Acme.LoadGeom in
/-- `svParsePl(pl)[k]` through `svAtoi` and `uint32(..)` -/
def plNat (pl k : String) : Nat :=
  let fs := (pl.splitOn ";").filter (fun f => f.startsWith (k ++ "="))
  match fs.getLast? with
  | none => 0
  | some f =>
    match (f.drop (k.length + 1)).toString.toInt? with
    | none => 0
    | some v => (v % 4294967296).toNat

def plStr (pl k : String) : String :=
  let fs := (pl.splitOn ";").filter (fun f => f.startsWith (k ++ "="))
  match fs.getLast? with
  | none => ""
  | some f => (f.drop (k.length + 1)).toString

/-- the highest index of the enum values `name:index:desc/…` -/
def plMaxIndex (pl : String) : Nat :=
  let vs := plStr pl "vs"
  if vs == "" then 0
  else
    (vs.splitOn "/").foldl (fun acc v =>
      match v.splitOn ":" with
      | _ :: i :: _ =>
        let n := match i.toInt? with | none => 0 | some x => (x % 4294967296).toNat
        if n > acc then n else acc
      | _ => acc) 0

/-- the reader of the payloads the stream uses -/
def sizesOf : Acme.LoadGeom.Sizes :=
  { typeSize := fun e => plNat e.pl "sz"
    enumMin := fun e => plNat e.pl "ms"
    enumMax := fun e => plMaxIndex e.pl
    msgSize := fun e => plNat e.pl "sz"
    groupSize := fun e => plNat e.pl "gs" }

def showLErr : Acme.Layout.LErr → String
  | .negative => "negative" | .zero => "zero" | .outOfBounds => "outOfBounds"
  | .noSpaceLeft => "noSpaceLeft" | .intersect => "intersect" | .tooSmall => "tooSmall" | .panic => "panic"

/-- the first multiplexer with the given id (entity, group count, kids), in loader order -/
partial def findMux (id : Id) : List Sig → Option (Ent × Nat × List Kid)
  | [] => none
  | s :: r =>
    match s.body with
    | .mux gc kids =>
      if s.id == id then some (s.e, gc, kids)
      else match findMux id (kids.map Kid.sig) with
        | some x => some x
        | none => findMux id r
    | _ => findMux id r

def sortStrs (xs : List String) : List String := sortBy (fun a b => decide (a ≤ b)) xs

def showGeomErr (z : Acme.LoadGeom.Sizes) (n : Net) : Acme.LoadGeom.GeomErr → String
  | .typeSize _ => "err geom typeSizeZero"
  | .groupSize _ => "err geom groupSizeZero"
  | .layout c (.msg _) _ => s!"err geom {showLErr c}"
  | .layout c (.mux id) _ =>
    let tops := (Acme.LoadGeom.allMsgs n).flatMap fun m => m.sigs.map (·.1)
    let alts : List Acme.Layout.LErr :=
      match findMux id tops with
      | none => []
      | some (e, gc, kids) =>
        match Acme.LoadGeom.kidsGeom z n.t kids with
        | .error _ => []
        | .ok (ks, _) => Acme.LoadGeom.muxCauses gc (z.gsOf e) ks
    let names := (sortStrs ((c :: alts).map showLErr)).eraseDups
    s!"err geom {"|".intercalate names}"

def eSlots (ids : List Id) (l : List Acme.Layout.Slot) : Json :=
  jArr (fun s : Acme.Layout.Slot => Json.arr #[Json.str (ids.getD s.id "?"), jInt s.start, jInt s.size]) l

def eGeo (g : Acme.LoadGeom.GNet) : Json :=
  let ms := sortBy (fun a b : Acme.LoadGeom.GMsg => decide (a.id ≤ b.id)) g.msgs
  jArr (fun m : Acme.LoadGeom.GMsg =>
    let xs := sortBy (fun a b : Acme.LoadGeom.GMux => decide (a.id ≤ b.id)) m.muxes
    Json.arr #[Json.str m.id, jInt m.cap, eSlots m.sigs m.slots,
      jArr (fun x : Acme.LoadGeom.GMux =>
        Json.arr #[Json.str x.id, jInt x.gs, jArr (eSlots x.kids) x.groups]) xs]) ms

def showErr : LoadErr → String
  | .notFound _ id => s!"err notFound {id}"
  | .unplaced ids => s!"err notFound {"|".intercalate ids}"
  | .duplicated id => s!"err duplicated {id}"
  | .twoPositions p => s!"err twoPositions {p}"
  | .invalidOneof k => s!"err invalidOneof {k}"
  | .missingOneof => "err missingOneof"
  | .ifaceNegative => "err ifaceNegative"
  | .ifaceOutOfBounds => "err ifaceOutOfBounds"
  | .groupCountZero => "err groupCountZero"
  | .groupId k => s!"err groupId {k}"
  | .enumValuesEmpty => "err enumValuesEmpty"
  | .attrValue => "err attrValue"
  | .receiverIsSender => "err receiverIsSender"

def handle (args : List String) : String :=
  match args with
  | ["save", js] =>
    match Json.parse js >>= dNet with
    | .error e => s!"bad-json {e}"
    | .ok n => (ePNet (save n)).compress
  | ["load", js] =>
    match Json.parse js >>= dPNet with
    | .error e => s!"bad-json {e}"
    | .ok p =>
      match load p with
      | .error e => showErr e
      | .ok n =>
        let z := sizesOf
        match Acme.LoadGeom.loadGeom z n with
        | .error ge => showGeomErr z n ge
        | .ok g => "ok " ++ (eNet (view n)).compress ++ " " ++ (eGeo g).compress
  | ["wf", js] =>
    match Json.parse js >>= dNet with
    | .error e => s!"bad-json {e}"
    | .ok n =>
      let rt : Bool :=
        match load (save n) with
        | .error _ => false
        | .ok m => (eNet m).compress == (eNet (norm n)).compress
      s!"wf={wf n} inrange={inRange n} roundtrip={rt}"
  | ["example", js] =>
    -- the fixture of the stream is the example network of the theorems
    match Json.parse js >>= dNet with
    | .error e => s!"bad-json {e}"
    | .ok n => s!"same={decide (n = Ex.net)}"
  | ["example-saved", js] =>
    match Json.parse js >>= dPNet with
    | .error e => s!"bad-json {e}"
    | .ok p => s!"same={decide (p = save Ex.net)}"
  | ["print-example", "net"] => (eNet Ex.net).compress
  | ["print-example", "norm"] => (eNet (norm Ex.net)).compress
  | ["print-example", "saved"] => (ePNet (save Ex.net)).compress
  | _ => "bad-op"

end Acme.Driver.SaveD
