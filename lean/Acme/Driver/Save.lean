/-
Driver of word `sv` (saver / loader structural model, stream saveload).  Filled in by the
save/load model work.
-/
import Acme.Driver.Util

namespace Acme.Driver.SaveD

def handle (_args : List String) : String := "bad-op"

end Acme.Driver.SaveD
