/-
Line-protocol handler of the stream `md` (structure of the Markdown export, C16).

  md doc <json>   →   ok <item>|<item>|…|types[..]|units[..]|enums[..]      (or: err <message>)

<json> is compact and contains NO blank (the harness escapes every blank inside a JSON string as
a unicode escape), because the driver splits a line at blanks:

  {"seed":…,"variant":…,"name":N,"buses":[{"name":N,"ifs":[{"node":N,"msgs":[{"name":N,"sigs":[SIG…]}]}]}]}
  SIG = {"k":"std","n":N,"s":start,"z":size,"d":desc,"t":TYPE[,"u":UNIT]}
      | {"k":"enum","n":N,"s":start,"z":size,"d":desc,"e":ENUM}
      | {"k":"mux","n":N,"s":start,"z":size,"d":desc,"g":[[SIG…]…]}
  TYPE = {"id":L,"size":n,"name":N,"kind":S,"signed":S,"min":S,"max":S,"scale":S,"offset":S,"desc":S}
  UNIT = {"id":L,"name":N,"kind":S,"symbol":S,"desc":S}
  ENUM = {"id":L,"name":N,"max":n,"v":[{"n":N,"i":index,"d":desc}…]}
(the float-valued texts are the `%g` renderings, supplied by the harness)

Answer: the document items in order — `H<level>:<text>` for a heading,
`T(<header width>,<row width>…)[(<cell>;<cell>;…)…]` for a table with all cells of all rows —
then the ids of the three appendices in listing order.
-/
import Lean.Data.Json
import Acme.Core.Md

namespace Acme.Driver.MdD
open Lean (Json)
open Acme.Md

abbrev D := Except String

def fStr (j : Json) (k : String) : D String := do (← j.getObjVal? k).getStr?
def fInt (j : Json) (k : String) : D Int := do (← j.getObjVal? k).getInt?
def fArr (j : Json) (k : String) : D (List Json) := do
  let v ← j.getObjVal? k
  if v.isNull then return []
  return (← v.getArr?).toList

def dType (j : Json) : D TypeRef := do
  pure { id := ← fStr j "id", size := ← fInt j "size", name := ← fStr j "name",
         kind := ← fStr j "kind", signed := ← fStr j "signed", min := ← fStr j "min",
         max := ← fStr j "max", scale := ← fStr j "scale", offset := ← fStr j "offset",
         desc := ← fStr j "desc" }

def dUnit (j : Json) : D UnitRef := do
  pure { id := ← fStr j "id", name := ← fStr j "name", kind := ← fStr j "kind",
         symbol := ← fStr j "symbol", desc := ← fStr j "desc" }

def dVal (j : Json) : D EnumVal := do
  pure { name := ← fStr j "n", index := ← fInt j "i", desc := ← fStr j "d" }

def dEnum (j : Json) : D EnumRef := do
  pure { id := ← fStr j "id", name := ← fStr j "name", maxIndex := ← fInt j "max",
         values := ← (← fArr j "v").mapM dVal }

partial def dSig (j : Json) : D Sig := do
  let k ← fStr j "k"
  let n ← fStr j "n"
  let s ← fInt j "s"
  let z ← fInt j "z"
  let d ← fStr j "d"
  match k with
  | "std" =>
    let t ← dType (← j.getObjVal? "t")
    let u ← match j.getObjVal? "u" with
      | .ok uj => if uj.isNull then pure none else pure (some (← dUnit uj))
      | .error _ => pure none
    pure (.std n s z d t u)
  | "enum" => pure (.enm n s z d (← dEnum (← j.getObjVal? "e")))
  | "mux" =>
    let gs ← (← fArr j "g").mapM (fun g => do
      let a ← g.getArr?
      let ss ← a.toList.mapM dSig
      pure (Sigs.ofList ss))
    pure (.mux n s z d (Groups.ofList gs))
  | _ => throw "signal kind"

def dMsg (j : Json) : D Msg := do
  pure { name := ← fStr j "name", sigs := Sigs.ofList (← (← fArr j "sigs").mapM dSig) }

def dIface (j : Json) : D Iface := do
  pure { node := ← fStr j "node", msgs := ← (← fArr j "msgs").mapM dMsg }

def dBus (j : Json) : D Bus := do
  pure { name := ← fStr j "name", ifaces := ← (← fArr j "ifs").mapM dIface }

def dNet (j : Json) : D Net := do
  pure { name := ← fStr j "name", buses := ← (← fArr j "buses").mapM dBus }

/-! ## the canonical summary -/

def itemStr : Item → String
  | .h l t => s!"H{l}:{t}"
  | .table hdr rows =>
    let ws := (hdr.length :: rows.map (·.length)).map toString
    let rs := rows.map (fun r => "(" ++ ";".intercalate r ++ ")")
    "T(" ++ ",".intercalate ws ++ ")[" ++ String.join rs ++ "]"

def idList (tag : String) (ids : List String) : String := tag ++ "[" ++ ",".intercalate ids ++ "]"

def summary (n : Net) : String :=
  match exportToMarkdown n with
  | .error e => "err " ++ e
  | .ok items =>
    let c := collected n
    "ok " ++ "|".intercalate (items.map itemStr ++
      [idList "types" (c.typeList.map (·.id)), idList "units" (c.unitList.map (·.id)),
       idList "enums" (c.enumList.map (·.id))])

def handle (args : List String) : String :=
  match args with
  | ["doc", js] =>
    match Json.parse js >>= dNet with
    | .ok n => summary n
    | .error _ => "bad-op"
  | _ => "bad-op"

end Acme.Driver.MdD
