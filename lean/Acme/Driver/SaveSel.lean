/-
Driver of word `ss` (stream saveload): the encoding selection of SaveNetwork.

  ss sel enc hw hj ht   → "<written encodings, in order>|<name of the missing writer or none>"
-/
import Acme.Core.SaveSel
import Acme.Driver.Util

namespace Acme.Driver.SaveSelD
open Acme.SaveSel Acme.Driver

def encName : Enc → String
  | .wire => "wire" | .json => "json" | .text => "text"

def handle (args : List String) : String :=
  match args with
  | ["sel", e, a, b, c] =>
    match e.toNat?, a.toNat?, b.toNat?, c.toNat? with
    | some enc, some hw, some hj, some ht =>
      let (ws, err) := saveSelect enc (hw != 0) (hj != 0) (ht != 0)
      ",".intercalate (ws.map encName) ++ "|" ++ err.getD "none"
    | _, _, _, _ => "bad-op"
  | _ => "bad-op"

end Acme.Driver.SaveSelD
