import Acme.Props.C01
import Acme.Props.C02
import Acme.Props.C01World
import Acme.Props.C03
import Acme.Props.C14
import Acme.Props.C17
import Acme.Props.C19
