package main

// Tie of the first kind for C16 (Markdown export), for the straight-line part of
// md_exporter.go: regenerated from go/ast + go/types on every run,
//
//	Acme.Gen.mdTables       every `md.TableSet{Header: …}` literal: function, header cells, every
//	                        expression appended to its Rows with the widths of the rows it denotes
//	Acme.Gen.mdRowPaths     per function that builds rows, per control-flow path: the width of the
//	                        row it returns / the widths of the rows it returns / of the table rows
//	Acme.Gen.mdDynamic      every width that is not determined statically (must be empty)
//	Acme.Gen.mdParamAppends every append whose base slice may share the backing array of a row parameter
//	Acme.Gen.mdSections     every call on the Markdown writer and every call of a non-returning
//	                        exporter method, per function in source order, with its nesting
//
// A width is (c, ps): c cells plus the lengths of the row parameters ps (0-based indexes) of the
// function; call sites substitute the widths of their arguments, summaries of (mutually
// recursive) functions are a least fixed point.  Row values are abstracted by the SET of widths
// they can have; `if` / `switch` statements that touch a row, a row list, a table or contain a
// return / break fork the path; loops are joined (a row list collects every width that may be
// appended; a row variable whose width changes inside a loop is DYNAMIC).  Anything outside this
// fragment makes the extractor fail loudly.

import (
	"fmt"
	"go/ast"
	"go/constant"
	"go/token"
	"go/types"
	"os"
	"path/filepath"
	"sort"
	"strconv"
	"strings"

	"golang.org/x/tools/go/packages"
)

func init() { extraWriters = append(extraWriters, writeMdTables) }

const mdFileName = "md_exporter.go"

func mdFail(n ast.Node, format string, args ...any) {
	pos := mdFileName
	if n != nil {
		p := fset.Position(n.Pos())
		pos = fmt.Sprintf("%s:%d", filepath.Base(p.Filename), p.Line)
	}
	fmt.Fprintf(os.Stderr, "extract/mdtables: %s: %s\n", pos, fmt.Sprintf(format, args...))
	os.Exit(1)
}

// ---- widths ----

type mdW struct {
	c   int
	ps  string // comma separated, sorted parameter indexes whose length is added
	dyn string // non-empty: not determined statically
}

type mdSet map[mdW]bool

func (s mdSet) clone() mdSet {
	r := mdSet{}
	for w := range s {
		r[w] = true
	}
	return r
}

func (s mdSet) union(t mdSet) bool {
	ch := false
	for w := range t {
		if !s[w] {
			s[w] = true
			ch = true
		}
	}
	return ch
}

func mdEq(a, b mdSet) bool {
	if len(a) != len(b) {
		return false
	}
	for w := range a {
		if !b[w] {
			return false
		}
	}
	return true
}

func mdPs(s string) []int {
	var r []int
	for _, f := range strings.Split(s, ",") {
		if f != "" {
			n, _ := strconv.Atoi(f)
			r = append(r, n)
		}
	}
	return r
}

func mdPsStr(ps []int) string {
	sort.Ints(ps)
	var fs []string
	for _, p := range ps {
		fs = append(fs, strconv.Itoa(p))
	}
	return strings.Join(fs, ",")
}

func (s mdSet) sorted() []mdW {
	var r []mdW
	for w := range s {
		r = append(r, w)
	}
	sort.Slice(r, func(i, j int) bool {
		a, b := r[i], r[j]
		if a.dyn != b.dyn {
			return a.dyn < b.dyn
		}
		if a.c != b.c {
			return a.c < b.c
		}
		return a.ps < b.ps
	})
	return r
}

func mdAdd(a, b mdW) mdW {
	if a.dyn != "" {
		return a
	}
	if b.dyn != "" {
		return b
	}
	return mdW{c: a.c + b.c, ps: mdPsStr(append(mdPs(a.ps), mdPs(b.ps)...))}
}

func mdSum(a, b mdSet) mdSet {
	r := mdSet{}
	for x := range a {
		for y := range b {
			r[mdAdd(x, y)] = true
		}
	}
	return r
}

func mdConst(n int) mdSet    { return mdSet{mdW{c: n}: true} }
func mdDyn(why string) mdSet { return mdSet{mdW{dyn: why}: true} }

// ---- types ----

func mdIsRow(t types.Type) bool {
	if t == nil {
		return false
	}
	s, ok := t.Underlying().(*types.Slice)
	if !ok {
		return false
	}
	b, ok := s.Elem().Underlying().(*types.Basic)
	return ok && b.Kind() == types.String
}

func mdIsRows(t types.Type) bool {
	if t == nil {
		return false
	}
	s, ok := t.Underlying().(*types.Slice)
	return ok && mdIsRow(s.Elem())
}

func mdNamedIn(t types.Type, name string) bool {
	if t == nil {
		return false
	}
	if p, ok := t.(*types.Pointer); ok {
		t = p.Elem()
	}
	n, ok := t.(*types.Named)
	return ok && n.Obj().Name() == name && n.Obj().Pkg() != nil && strings.HasSuffix(n.Obj().Pkg().Path(), "nao1215/markdown")
}

func mdIsTable(t types.Type) bool { return mdNamedIn(t, "TableSet") }

// ---- the analysis ----

type mdTable struct {
	fn     string
	header []string
	order  []string
	exprs  map[string]mdSet
}

type mdPath struct {
	fn, path, what string
	set            mdSet
}

type mdAn struct {
	info    *types.Info
	pkg     *types.Package
	decls   map[*types.Func]*ast.FuncDecl
	sums    map[*types.Func]mdSet
	changed bool
	record  bool

	tables     map[token.Pos]*mdTable
	tableOrder []token.Pos
	paths      []mdPath
	dynamic    [][4]string
	palias     map[token.Pos][3]string
	paliasPos  []token.Pos
}

func (a *mdAn) qual(p *types.Package) string {
	if p == a.pkg {
		return ""
	}
	return p.Name()
}

// norm prints an expression with every local variable / parameter / receiver replaced by ‹its type›,
// so that renaming a local does not change the inventory.
func (a *mdAn) norm(e ast.Node) string {
	type saved struct {
		id   *ast.Ident
		name string
	}
	var sv []saved
	ast.Inspect(e, func(n ast.Node) bool {
		id, ok := n.(*ast.Ident)
		if !ok {
			return true
		}
		v, ok := a.info.ObjectOf(id).(*types.Var)
		if !ok || v.IsField() || v.Parent() == nil || v.Parent() == a.pkg.Scope() || v.Parent() == types.Universe {
			return true
		}
		if v.Pkg() != a.pkg {
			return true
		}
		sv = append(sv, saved{id, id.Name})
		id.Name = "‹" + types.TypeString(v.Type(), a.qual) + "›"
		return true
	})
	s := exprStr(e)
	for _, x := range sv {
		x.id.Name = x.name
	}
	return s
}

type mdState struct {
	vars  map[types.Object]mdSet
	alias map[types.Object]int
	path  []string
}

func (s *mdState) clone() *mdState {
	r := &mdState{vars: map[types.Object]mdSet{}, alias: map[types.Object]int{}, path: append([]string{}, s.path...)}
	for k, v := range s.vars {
		r.vars[k] = v.clone()
	}
	for k, v := range s.alias {
		r.alias[k] = v
	}
	return r
}

func (s *mdState) label() string {
	if len(s.path) == 0 {
		return "-"
	}
	return strings.Join(s.path, "; ")
}

type mdTarget struct {
	loop  bool
	exits []*mdState
	conts []*mdState
}

type mdFrame struct {
	a        *mdAn
	fd       *ast.FuncDecl
	obj      *types.Func
	name     string
	resKind  int // 0 nothing tracked, 1 row, 2 rows
	named    types.Object
	paramIdx map[types.Object]int
	branch   map[ast.Node]string
	targets  []*mdTarget
	tblOf    map[types.Object]*ast.CompositeLit
	localNo  map[types.Object]int // local row variables ([]string, not parameters / results) in declaration order
}

// relevant: the statement can change a tracked value or leave the path
func (a *mdAn) relevant(n ast.Node) bool {
	res := false
	tracked := func(t types.Type) bool { return mdIsRow(t) || mdIsRows(t) || mdIsTable(t) }
	ast.Inspect(n, func(n ast.Node) bool {
		if res {
			return false
		}
		switch n := n.(type) {
		case *ast.FuncLit:
			return false
		case *ast.ReturnStmt:
			res = true
		case *ast.BranchStmt:
			if n.Tok != token.CONTINUE || n.Label != nil {
				res = true
			}
		case *ast.AssignStmt:
			for _, l := range n.Lhs {
				if id, ok := l.(*ast.Ident); ok && id.Name == "_" {
					continue
				}
				if tracked(a.info.TypeOf(l)) {
					res = true
				}
			}
		case *ast.ValueSpec:
			for _, id := range n.Names {
				if tracked(a.info.TypeOf(id)) {
					res = true
				}
			}
		}
		return true
	})
	return res
}

func mdIsPanic(s ast.Stmt) bool {
	es, ok := s.(*ast.ExprStmt)
	if !ok {
		return false
	}
	c, ok := es.X.(*ast.CallExpr)
	if !ok {
		return false
	}
	id, ok := c.Fun.(*ast.Ident)
	return ok && id.Name == "panic"
}

func (f *mdFrame) execList(list []ast.Stmt, st *mdState) []*mdState {
	states := []*mdState{st}
	for _, s := range list {
		var next []*mdState
		for _, x := range states {
			next = append(next, f.execStmt(s, x)...)
		}
		states = next
	}
	return states
}

func (f *mdFrame) execStmt(s ast.Stmt, st *mdState) []*mdState {
	a := f.a
	if mdIsPanic(s) {
		return nil
	}
	if !a.relevant(s) {
		return []*mdState{st}
	}
	switch s := s.(type) {
	case *ast.BlockStmt:
		return f.execList(s.List, st)
	case *ast.AssignStmt:
		f.assign(s, st)
		return []*mdState{st}
	case *ast.DeclStmt:
		gd := s.Decl.(*ast.GenDecl)
		for _, sp := range gd.Specs {
			vs, ok := sp.(*ast.ValueSpec)
			if !ok {
				continue
			}
			for i, id := range vs.Names {
				t := a.info.TypeOf(id)
				obj := a.info.ObjectOf(id)
				switch {
				case mdIsRow(t):
					if i < len(vs.Values) {
						st.vars[obj] = f.evalRow(vs.Values[i], st)
					} else {
						st.vars[obj] = mdConst(0)
					}
				case mdIsRows(t):
					if i < len(vs.Values) {
						st.vars[obj] = f.evalRows(vs.Values[i], st)
					} else {
						st.vars[obj] = mdSet{}
					}
				case mdIsTable(t):
					if i < len(vs.Values) {
						f.bindTable(id, vs.Values[i], st)
					} else {
						mdFail(id, "%s: table variable without a literal", f.name)
					}
				}
			}
		}
		return []*mdState{st}
	case *ast.ReturnStmt:
		f.ret(s, st)
		return nil
	case *ast.BranchStmt:
		if s.Label != nil || (s.Tok != token.BREAK && s.Tok != token.CONTINUE) {
			mdFail(s, "%s: unsupported jump `%s`", f.name, exprStr(s))
		}
		if s.Tok == token.BREAK {
			if len(f.targets) == 0 {
				mdFail(s, "%s: break outside of a loop / switch", f.name)
			}
			t := f.targets[len(f.targets)-1]
			t.exits = append(t.exits, st)
			return nil
		}
		for i := len(f.targets) - 1; i >= 0; i-- {
			if f.targets[i].loop {
				f.targets[i].conts = append(f.targets[i].conts, st)
				return nil
			}
		}
		mdFail(s, "%s: continue outside of a loop", f.name)
	case *ast.IfStmt:
		if s.Init != nil {
			sts := f.execStmt(s.Init, st)
			if len(sts) != 1 {
				mdFail(s, "%s: unsupported if-initialiser", f.name)
			}
			st = sts[0]
		}
		lab := f.branch[s]
		thenSt := st.clone()
		thenSt.path = append(thenSt.path, lab+"=then")
		res := f.execList(s.Body.List, thenSt)
		elseSt := st
		elseSt.path = append(elseSt.path, lab+"=else")
		if s.Else != nil {
			res = append(res, f.execStmt(s.Else, elseSt)...)
		} else {
			res = append(res, elseSt)
		}
		return res
	case *ast.SwitchStmt:
		if s.Init != nil {
			sts := f.execStmt(s.Init, st)
			if len(sts) != 1 {
				mdFail(s, "%s: unsupported switch-initialiser", f.name)
			}
			st = sts[0]
		}
		lab := f.branch[s]
		tg := &mdTarget{}
		f.targets = append(f.targets, tg)
		var res []*mdState
		hasDefault := false
		covered := map[string]bool{}
		for _, cs := range s.Body.List {
			cc := cs.(*ast.CaseClause)
			var names []string
			for _, e := range cc.List {
				names = append(names, a.norm(e))
				if tv, ok := a.info.Types[e]; ok && tv.Value != nil {
					covered[tv.Value.ExactString()] = true
				}
			}
			cst := st.clone()
			if cc.List == nil {
				hasDefault = true
				cst.path = append(cst.path, lab+"=default")
			} else {
				cst.path = append(cst.path, lab+"=case "+strings.Join(names, ", "))
			}
			for _, b := range cc.Body {
				if br, ok := b.(*ast.BranchStmt); ok && br.Tok == token.FALLTHROUGH {
					mdFail(br, "%s: fallthrough is not supported", f.name)
				}
			}
			res = append(res, f.execList(cc.Body, cst)...)
		}
		f.targets = f.targets[:len(f.targets)-1]
		res = append(res, tg.exits...)
		if !hasDefault && !(s.Tag != nil && f.exhaustive(s.Tag, covered)) {
			nst := st.clone()
			nst.path = append(nst.path, lab+"=no case")
			res = append(res, nst)
		}
		return res
	case *ast.RangeStmt:
		return f.execLoop(s.Body, func(in *mdState) {
			if s.Value != nil {
				if id, ok := s.Value.(*ast.Ident); ok && id.Name != "_" {
					obj := a.info.ObjectOf(id)
					t := a.info.TypeOf(id)
					switch {
					case mdIsRow(t):
						if mdIsRows(a.info.TypeOf(s.X)) {
							in.vars[obj] = f.evalRows(s.X, in)
						} else {
							in.vars[obj] = mdDyn("element of " + a.norm(s.X))
						}
					case mdIsRows(t):
						in.vars[obj] = mdDyn("element of " + a.norm(s.X))
					case mdIsTable(t):
						mdFail(s, "%s: loop over tables is not supported", f.name)
					}
				}
			}
		}, st)
	case *ast.ForStmt:
		if s.Init != nil && a.relevant(s.Init) || s.Post != nil && a.relevant(s.Post) {
			mdFail(s, "%s: unsupported for-clause", f.name)
		}
		return f.execLoop(s.Body, func(*mdState) {}, st)
	case *ast.ExprStmt, *ast.IncDecStmt, *ast.EmptyStmt:
		return []*mdState{st}
	}
	mdFail(s, "%s: unsupported statement `%s`", f.name, exprStr(s))
	return nil
}

// exhaustive: the tag has a named type of this package and every declared constant of it is a case
func (f *mdFrame) exhaustive(tag ast.Expr, covered map[string]bool) bool {
	t, ok := f.a.info.TypeOf(tag).(*types.Named)
	if !ok || t.Obj().Pkg() == nil {
		return false
	}
	sc := t.Obj().Pkg().Scope()
	n := 0
	for _, name := range sc.Names() {
		c, ok := sc.Lookup(name).(*types.Const)
		if !ok || !types.Identical(c.Type(), t) {
			continue
		}
		n++
		if !covered[c.Val().ExactString()] {
			return false
		}
	}
	return n > 0
}

func (f *mdFrame) execLoop(body *ast.BlockStmt, bind func(*mdState), st *mdState) []*mdState {
	acc := st.clone()
	for iter := 0; ; iter++ {
		if iter > 60 {
			mdFail(body, "%s: the loop has no fixed point", f.name)
		}
		in := acc.clone()
		bind(in)
		tg := &mdTarget{loop: true}
		f.targets = append(f.targets, tg)
		outs := f.execList(body.List, in)
		f.targets = f.targets[:len(f.targets)-1]
		outs = append(outs, tg.exits...)
		outs = append(outs, tg.conts...)
		changed := false
		for _, o := range outs {
			for obj, set := range acc.vars {
				if os, ok := o.vars[obj]; ok && set.union(os) {
					changed = true
				}
			}
			for obj, i := range o.alias {
				if _, ok := acc.vars[obj]; ok {
					acc.alias[obj] = i
				}
			}
		}
		for obj, set := range acc.vars {
			if mdIsRow(obj.Type()) && !mdEq(set, st.vars[obj]) {
				d := mdDyn("cells of `" + types.TypeString(obj.Type(), f.a.qual) + "` variable appended / assigned inside a loop")
				if !mdEq(set, d) {
					acc.vars[obj] = d
					changed = true
				}
			}
		}
		if !changed {
			break
		}
	}
	return []*mdState{acc}
}

func (f *mdFrame) aliasOf(e ast.Expr, st *mdState) (int, bool) {
	switch e := ast.Unparen(e).(type) {
	case *ast.Ident:
		i, ok := st.alias[f.a.info.ObjectOf(e)]
		return i, ok
	case *ast.CallExpr:
		if id, ok := e.Fun.(*ast.Ident); ok && id.Name == "append" && len(e.Args) > 0 {
			return f.aliasOf(e.Args[0], st)
		}
	case *ast.SliceExpr:
		return f.aliasOf(e.X, st)
	}
	return 0, false
}

func (f *mdFrame) bindTable(id *ast.Ident, rhs ast.Expr, st *mdState) {
	a := f.a
	lit, ok := ast.Unparen(rhs).(*ast.CompositeLit)
	if !ok {
		mdFail(rhs, "%s: a table must be bound to a TableSet literal, found `%s`", f.name, exprStr(rhs))
	}
	obj := a.info.ObjectOf(id)
	if old, ok := f.tblOf[obj]; ok && old != lit {
		mdFail(rhs, "%s: table variable bound twice", f.name)
	}
	f.tblOf[obj] = lit
	var header []string
	haveHeader := false
	rows := mdSet{}
	for _, el := range lit.Elts {
		kv, ok := el.(*ast.KeyValueExpr)
		if !ok {
			mdFail(el, "%s: positional TableSet literal", f.name)
		}
		switch kv.Key.(*ast.Ident).Name {
		case "Header":
			hl, ok := kv.Value.(*ast.CompositeLit)
			if !ok {
				mdFail(kv.Value, "%s: the header is not a literal: `%s`", f.name, exprStr(kv.Value))
			}
			haveHeader = true
			for _, c := range hl.Elts {
				tv, ok := a.info.Types[c]
				if !ok || tv.Value == nil || tv.Value.Kind() != constant.String {
					mdFail(c, "%s: header cell is not a string constant: `%s`", f.name, exprStr(c))
				}
				header = append(header, constant.StringVal(tv.Value))
			}
		case "Rows":
			rows = f.evalRows(kv.Value, st)
		default:
			mdFail(kv, "%s: unknown TableSet field %s", f.name, exprStr(kv.Key))
		}
	}
	if !haveHeader {
		mdFail(lit, "%s: TableSet literal without Header", f.name)
	}
	st.vars[obj] = rows
	if a.record {
		if _, ok := a.tables[lit.Pos()]; !ok {
			a.tables[lit.Pos()] = &mdTable{fn: f.name, header: header, exprs: map[string]mdSet{}}
			a.tableOrder = append(a.tableOrder, lit.Pos())
		}
		if len(rows) > 0 {
			f.recordRowExpr(lit, a.norm(lit.Elts[len(lit.Elts)-1]), rows)
		}
	}
}

func (f *mdFrame) recordRowExpr(lit *ast.CompositeLit, text string, set mdSet) {
	if !f.a.record {
		return
	}
	t := f.a.tables[lit.Pos()]
	if _, ok := t.exprs[text]; !ok {
		t.exprs[text] = mdSet{}
		t.order = append(t.order, text)
	}
	t.exprs[text].union(set)
}

func (f *mdFrame) isAppend(e ast.Expr) (*ast.CallExpr, bool) {
	c, ok := ast.Unparen(e).(*ast.CallExpr)
	if !ok {
		return nil, false
	}
	id, ok := c.Fun.(*ast.Ident)
	if !ok || id.Name != "append" {
		return nil, false
	}
	_, isB := f.a.info.Uses[id].(*types.Builtin)
	return c, isB
}

func (f *mdFrame) assign(s *ast.AssignStmt, st *mdState) {
	a := f.a
	if s.Tok != token.ASSIGN && s.Tok != token.DEFINE {
		mdFail(s, "%s: unsupported assignment `%s`", f.name, exprStr(s))
	}
	for i, l := range s.Lhs {
		if id, ok := l.(*ast.Ident); ok && id.Name == "_" {
			continue
		}
		t := a.info.TypeOf(l)
		if !(mdIsRow(t) || mdIsRows(t) || mdIsTable(t)) {
			continue
		}
		if len(s.Lhs) != len(s.Rhs) {
			mdFail(s, "%s: a row taken from a multi-value call: `%s`", f.name, exprStr(s))
		}
		r := s.Rhs[i]
		switch l := l.(type) {
		case *ast.Ident:
			obj := a.info.ObjectOf(l)
			if _, isVar := obj.(*types.Var); !isVar || obj.Parent() == a.pkg.Scope() {
				mdFail(s, "%s: assignment to the package-level variable %s", f.name, l.Name)
			}
			switch {
			case mdIsRow(t):
				st.vars[obj] = f.evalRow(r, st)
				if pi, ok := f.aliasOf(r, st); ok {
					st.alias[obj] = pi
					if c, isApp := f.isAppend(r); isApp && a.record {
						if _, seen := a.palias[c.Pos()]; !seen {
							a.palias[c.Pos()] = [3]string{f.name, strconv.Itoa(pi), a.norm(r)}
							a.paliasPos = append(a.paliasPos, c.Pos())
						}
					}
				} else {
					delete(st.alias, obj)
				}
			case mdIsRows(t):
				st.vars[obj] = f.evalRows(r, st)
			default:
				f.bindTable(l, r, st)
			}
		case *ast.SelectorExpr:
			x, ok := l.X.(*ast.Ident)
			var lit *ast.CompositeLit
			if ok {
				lit = f.tblOf[a.info.ObjectOf(x)]
			}
			if lit == nil || l.Sel.Name != "Rows" {
				mdFail(s, "%s: unsupported store `%s`", f.name, exprStr(s))
			}
			obj := a.info.ObjectOf(x)
			if c, isApp := f.isAppend(r); isApp && exprStr(c.Args[0]) == exprStr(l) {
				set := st.vars[obj].clone()
				if c.Ellipsis.IsValid() {
					if len(c.Args) != 2 {
						mdFail(c, "%s: unsupported append", f.name)
					}
					w := f.evalRows(c.Args[1], st)
					f.recordRowExpr(lit, a.norm(c.Args[1])+"...", w)
					set.union(w)
				} else {
					for _, arg := range c.Args[1:] {
						w := f.evalRow(arg, st)
						f.recordRowExpr(lit, a.norm(arg), w)
						set.union(w)
					}
				}
				st.vars[obj] = set
			} else {
				w := f.evalRows(r, st)
				f.recordRowExpr(lit, "= "+a.norm(r), w)
				st.vars[obj] = w
			}
		case *ast.IndexExpr:
			// rows[i] = row
			x, ok := l.X.(*ast.Ident)
			if !ok || !mdIsRow(t) {
				mdFail(s, "%s: unsupported store `%s`", f.name, exprStr(s))
			}
			obj := a.info.ObjectOf(x)
			if _, ok := st.vars[obj]; !ok {
				mdFail(s, "%s: store into an untracked row list `%s`", f.name, exprStr(s))
			}
			st.vars[obj].union(f.evalRow(r, st))
		default:
			mdFail(s, "%s: unsupported store `%s`", f.name, exprStr(s))
		}
	}
}

func (f *mdFrame) lookup(id *ast.Ident, st *mdState) mdSet {
	obj := f.a.info.ObjectOf(id)
	if set, ok := st.vars[obj]; ok {
		return set.clone()
	}
	return mdDyn("`" + f.a.norm(id) + "` is not a local of " + f.name)
}

func (f *mdFrame) evalRow(e ast.Expr, st *mdState) mdSet {
	a := f.a
	switch e := ast.Unparen(e).(type) {
	case *ast.Ident:
		if e.Name == "nil" {
			return mdConst(0)
		}
		return f.lookup(e, st)
	case *ast.CompositeLit:
		for _, el := range e.Elts {
			if _, ok := el.(*ast.KeyValueExpr); ok {
				mdFail(e, "%s: keyed row literal", f.name)
			}
		}
		return mdConst(len(e.Elts))
	case *ast.CallExpr:
		if c, ok := f.isAppend(e); ok {
			base := f.evalRow(c.Args[0], st)
			if c.Ellipsis.IsValid() {
				if len(c.Args) != 2 {
					mdFail(c, "%s: unsupported append", f.name)
				}
				if !mdIsRow(a.info.TypeOf(c.Args[1])) {
					return mdDyn("`" + a.norm(e) + "`")
				}
				return mdSum(base, f.evalRow(c.Args[1], st))
			}
			return mdSum(base, mdConst(len(c.Args)-1))
		}
		if id, ok := e.Fun.(*ast.Ident); ok {
			if _, isB := a.info.Uses[id].(*types.Builtin); isB && id.Name == "make" {
				if len(e.Args) < 2 {
					mdFail(e, "%s: make without a length", f.name)
				}
				n := ast.Unparen(e.Args[1])
				if tv, ok := a.info.Types[n]; ok && tv.Value != nil {
					if v, exact := constant.Int64Val(tv.Value); exact {
						return mdConst(int(v))
					}
				}
				if lc, ok := n.(*ast.CallExpr); ok {
					if lid, ok := lc.Fun.(*ast.Ident); ok && lid.Name == "len" && len(lc.Args) == 1 && mdIsRow(a.info.TypeOf(lc.Args[0])) {
						return f.evalRow(lc.Args[0], st)
					}
				}
				return mdDyn("`" + a.norm(e) + "`")
			}
		}
		if tv, ok := a.info.Types[e.Fun]; ok && tv.IsType() && len(e.Args) == 1 {
			return f.evalRow(e.Args[0], st)
		}
		return f.evalCall(e, st)
	case *ast.IndexExpr:
		if mdIsRows(a.info.TypeOf(e.X)) {
			return f.evalRows(e.X, st)
		}
	}
	return mdDyn("`" + a.norm(e) + "`")
}

func (f *mdFrame) evalRows(e ast.Expr, st *mdState) mdSet {
	a := f.a
	switch e := ast.Unparen(e).(type) {
	case *ast.Ident:
		if e.Name == "nil" {
			return mdSet{}
		}
		return f.lookup(e, st)
	case *ast.CompositeLit:
		r := mdSet{}
		for _, el := range e.Elts {
			if _, ok := el.(*ast.KeyValueExpr); ok {
				mdFail(e, "%s: keyed row-list literal", f.name)
			}
			r.union(f.evalRow(el, st))
		}
		return r
	case *ast.SelectorExpr:
		if x, ok := e.X.(*ast.Ident); ok && e.Sel.Name == "Rows" {
			obj := a.info.ObjectOf(x)
			if _, isT := f.tblOf[obj]; isT {
				return st.vars[obj].clone()
			}
		}
	case *ast.CallExpr:
		if c, ok := f.isAppend(e); ok {
			r := f.evalRows(c.Args[0], st)
			if c.Ellipsis.IsValid() {
				if len(c.Args) != 2 {
					mdFail(c, "%s: unsupported append", f.name)
				}
				r.union(f.evalRows(c.Args[1], st))
				return r
			}
			for _, arg := range c.Args[1:] {
				r.union(f.evalRow(arg, st))
			}
			return r
		}
		if id, ok := e.Fun.(*ast.Ident); ok {
			if _, isB := a.info.Uses[id].(*types.Builtin); isB && id.Name == "make" {
				if len(e.Args) >= 2 {
					if tv, ok := a.info.Types[e.Args[1]]; ok && tv.Value != nil && tv.Value.ExactString() == "0" {
						return mdSet{}
					}
				}
				return mdConst(0) // nil rows
			}
		}
		return f.evalCall(e, st)
	}
	return mdDyn("`" + a.norm(e) + "`")
}

func (f *mdFrame) evalCall(c *ast.CallExpr, st *mdState) mdSet {
	a := f.a
	var fn *types.Func
	switch fun := c.Fun.(type) {
	case *ast.Ident:
		fn, _ = a.info.Uses[fun].(*types.Func)
	case *ast.SelectorExpr:
		fn, _ = a.info.Uses[fun.Sel].(*types.Func)
	}
	if fn == nil {
		return mdDyn("`" + a.norm(c) + "`: not a static call")
	}
	fd := a.decls[fn]
	if fd == nil {
		return mdDyn("`" + a.norm(c) + "`: " + fn.Name() + " is not a function of " + mdFileName)
	}
	if c.Ellipsis.IsValid() {
		mdFail(c, "%s: variadic call of a row builder", f.name)
	}
	sig := fn.Type().(*types.Signature)
	args := map[int]mdSet{}
	for i := 0; i < sig.Params().Len(); i++ {
		if mdIsRow(sig.Params().At(i).Type()) && i < len(c.Args) {
			args[i] = f.evalRow(c.Args[i], st)
		}
	}
	res := mdSet{}
	for w := range a.sums[fn] {
		if w.dyn != "" {
			res[w] = true // the reason is handed on unchanged (a prefix per call would grow along the recursion)
			continue
		}
		acc := mdConst(w.c)
		for _, p := range mdPs(w.ps) {
			arg, ok := args[p]
			if !ok {
				arg = mdDyn("parameter " + strconv.Itoa(p) + " of " + fn.Name())
			}
			acc = mdSum(acc, arg)
		}
		res.union(acc)
	}
	for w := range res {
		if w.c > 256 {
			mdFail(c, "%s: the width of `%s` diverges", f.name, exprStr(c))
		}
	}
	return res
}

func (f *mdFrame) ret(s *ast.ReturnStmt, st *mdState) {
	var set mdSet
	switch f.resKind {
	case 1:
		if s == nil || len(s.Results) == 0 {
			set = st.vars[f.named]
		} else {
			set = f.evalRow(s.Results[0], st)
		}
	case 2:
		if s == nil || len(s.Results) == 0 {
			set = st.vars[f.named]
		} else {
			set = f.evalRows(s.Results[0], st)
		}
	}
	a := f.a
	if f.resKind != 0 {
		if set == nil {
			mdFail(f.fd, "%s: return without a value", f.name)
		}
		if a.sums[f.obj].union(set) {
			a.changed = true
		}
		if a.record {
			what := "returns row"
			if f.resKind == 2 {
				what = "returns rows"
			}
			a.paths = append(a.paths, mdPath{f.name, st.label(), what, set.clone()})
		}
	}
	if a.record {
		var locs []types.Object
		for obj := range st.vars {
			if _, ok := f.localNo[obj]; ok {
				locs = append(locs, obj)
			}
		}
		sort.Slice(locs, func(i, j int) bool { return f.localNo[locs[i]] < f.localNo[locs[j]] })
		for _, obj := range locs {
			a.paths = append(a.paths, mdPath{f.name, st.label(), "local row " + strconv.Itoa(f.localNo[obj]), st.vars[obj].clone()})
		}
	}
	if a.record {
		var objs []types.Object
		for obj := range f.tblOf {
			if _, ok := st.vars[obj]; ok {
				objs = append(objs, obj)
			}
		}
		sort.Slice(objs, func(i, j int) bool { return objs[i].Pos() < objs[j].Pos() })
		for _, obj := range objs {
			a.paths = append(a.paths, mdPath{f.name, st.label(), "table rows", st.vars[obj].clone()})
		}
	}
}

func (a *mdAn) analyse(fd *ast.FuncDecl) {
	obj := a.info.Defs[fd.Name].(*types.Func)
	f := &mdFrame{a: a, fd: fd, obj: obj, name: funcName(fd), paramIdx: map[types.Object]int{},
		branch: map[ast.Node]string{}, tblOf: map[types.Object]*ast.CompositeLit{}}
	_ = f.paramIdx
	sig := obj.Type().(*types.Signature)
	st := &mdState{vars: map[types.Object]mdSet{}, alias: map[types.Object]int{}}
	for i := 0; i < sig.Params().Len(); i++ {
		p := sig.Params().At(i)
		switch {
		case mdIsRow(p.Type()):
			st.vars[p] = mdSet{mdW{ps: strconv.Itoa(i)}: true}
			st.alias[p] = i
		case mdIsRows(p.Type()):
			st.vars[p] = mdDyn("row-list parameter " + strconv.Itoa(i) + " of " + f.name)
		case mdIsTable(p.Type()):
			mdFail(fd, "%s: table parameter", f.name)
		}
	}
	for i := 0; i < sig.Results().Len(); i++ {
		r := sig.Results().At(i)
		k := 0
		if mdIsRow(r.Type()) {
			k = 1
		} else if mdIsRows(r.Type()) {
			k = 2
		}
		if k != 0 {
			if sig.Results().Len() != 1 {
				mdFail(fd, "%s: a row among several results", f.name)
			}
			f.resKind = k
			if r.Name() != "" {
				f.named = r
				if k == 1 {
					st.vars[r] = mdConst(0)
				} else {
					st.vars[r] = mdSet{}
				}
			}
		}
	}
	// number the forking statements and the local row variables in source order
	nIf, nSw := 0, 0
	f.localNo = map[types.Object]int{}
	ast.Inspect(fd.Body, func(n ast.Node) bool {
		switch n := n.(type) {
		case *ast.Ident:
			if v, ok := a.info.Defs[n].(*types.Var); ok && mdIsRow(v.Type()) {
				f.localNo[v] = len(f.localNo) + 1
			}
		case *ast.FuncLit:
			if a.relevantAssign(n.Body) {
				mdFail(n, "%s: a function literal assigns a row", f.name)
			}
			return false
		case *ast.IfStmt:
			if a.relevant(n) {
				nIf++
				f.branch[n] = "if#" + strconv.Itoa(nIf)
			}
		case *ast.SwitchStmt:
			if a.relevant(n) {
				nSw++
				f.branch[n] = "switch#" + strconv.Itoa(nSw)
			}
		case *ast.TypeSwitchStmt, *ast.SelectStmt, *ast.LabeledStmt, *ast.GoStmt, *ast.DeferStmt:
			if a.relevant(n) {
				mdFail(n, "%s: unsupported statement around a row", f.name)
			}
		}
		return true
	})
	for _, end := range f.execList(fd.Body.List, st) {
		f.ret(nil, end)
	}
}

// relevantAssign: like relevant, but a return does not count (function literals)
func (a *mdAn) relevantAssign(n ast.Node) bool {
	res := false
	ast.Inspect(n, func(n ast.Node) bool {
		if as, ok := n.(*ast.AssignStmt); ok {
			for _, l := range as.Lhs {
				t := a.info.TypeOf(l)
				if mdIsRow(t) || mdIsRows(t) || mdIsTable(t) {
					res = true
				}
			}
		}
		return !res
	})
	return res
}

// ---- section calls ----

func (a *mdAn) sections(fd *ast.FuncDecl) [][4]string {
	type ent struct {
		pos token.Pos
		row [4]string
	}
	var ents []ent
	var stack []ast.Node
	fname := funcName(fd)
	ctx := func() string {
		var parts []string
		for i := 0; i+1 < len(stack); i++ {
			child := stack[i+1]
			switch n := stack[i].(type) {
			case *ast.IfStmt:
				if child == ast.Node(n.Body) {
					parts = append(parts, "if "+a.norm(n.Cond))
				} else if child == n.Else {
					parts = append(parts, "else "+a.norm(n.Cond))
				}
			case *ast.RangeStmt:
				if child == ast.Node(n.Body) {
					parts = append(parts, "range "+a.norm(n.X))
				}
			case *ast.ForStmt:
				if child == ast.Node(n.Body) {
					parts = append(parts, "for")
				}
			case *ast.CaseClause:
				if n.List == nil {
					parts = append(parts, "default")
				} else {
					var cs []string
					for _, e := range n.List {
						cs = append(cs, a.norm(e))
					}
					parts = append(parts, "case "+strings.Join(cs, ", "))
				}
			case *ast.FuncLit:
				parts = append(parts, "func")
			}
		}
		return strings.Join(parts, " / ")
	}
	ast.Inspect(fd.Body, func(n ast.Node) bool {
		if n == nil {
			stack = stack[:len(stack)-1]
			return true
		}
		stack = append(stack, n)
		c, ok := n.(*ast.CallExpr)
		if !ok {
			return true
		}
		sel, ok := c.Fun.(*ast.SelectorExpr)
		if !ok {
			return true
		}
		fn, ok := a.info.Uses[sel.Sel].(*types.Func)
		if !ok {
			return true
		}
		sig := fn.Type().(*types.Signature)
		if sig.Recv() == nil {
			return true
		}
		keep := false
		if mdNamedIn(sig.Recv().Type(), "Markdown") && fn.Name() != "LF" {
			keep = true
		}
		if _, own := a.decls[fn]; own && sig.Results().Len() == 0 {
			keep = true
		}
		if !keep {
			return true
		}
		var args []string
		for _, x := range c.Args {
			args = append(args, a.norm(x))
		}
		ents = append(ents, ent{sel.Sel.Pos(), [4]string{fname, ctx(), fn.Name(), strings.Join(args, ", ")}})
		return true
	})
	sort.SliceStable(ents, func(i, j int) bool { return ents[i].pos < ents[j].pos })
	var res [][4]string
	for _, e := range ents {
		res = append(res, e.row)
	}
	return res
}

// ---- output ----

func mdLeanW(w mdW) string {
	var ps []string
	for _, p := range mdPs(w.ps) {
		ps = append(ps, strconv.Itoa(p))
	}
	return fmt.Sprintf("(%d, [%s])", w.c, strings.Join(ps, ", "))
}

func (a *mdAn) leanSet(fn, path, what string, s mdSet) string {
	var ws []string
	for _, w := range s.sorted() {
		if w.dyn != "" {
			a.dynamic = append(a.dynamic, [4]string{fn, path, what, w.dyn})
			continue
		}
		ws = append(ws, mdLeanW(w))
	}
	return "[" + strings.Join(ws, ", ") + "]"
}

func mdLeanStrs(ss []string) string {
	var q []string
	for _, s := range ss {
		q = append(q, leanStr(s))
	}
	return "[" + strings.Join(q, ", ") + "]"
}

func writeMdTables(out string, root, dbc *packages.Package) {
	dst := filepath.Join(out, "MdTables.lean")
	os.Remove(dst)
	var file *ast.File
	for _, f := range root.Syntax {
		if fileOf(f) == mdFileName {
			file = f
		}
	}
	if file == nil {
		mdFail(nil, "file not found in package acmelib")
	}
	a := &mdAn{info: root.TypesInfo, pkg: root.Types, decls: map[*types.Func]*ast.FuncDecl{}, sums: map[*types.Func]mdSet{},
		tables: map[token.Pos]*mdTable{}, palias: map[token.Pos][3]string{}}
	var fds []*ast.FuncDecl
	for _, d := range file.Decls {
		if fd, ok := d.(*ast.FuncDecl); ok && fd.Body != nil {
			fds = append(fds, fd)
			fn := a.info.Defs[fd.Name].(*types.Func)
			a.decls[fn] = fd
			a.sums[fn] = mdSet{}
		}
	}
	for round := 0; ; round++ {
		if round > 100 {
			mdFail(nil, "the row-width summaries have no fixed point")
		}
		a.changed = false
		for _, fd := range fds {
			a.analyse(fd)
		}
		if !a.changed {
			break
		}
	}
	a.record = true
	for _, fd := range fds {
		a.analyse(fd)
	}
	// every TableSet literal of the file must have been bound to a variable and analysed
	ast.Inspect(file, func(n ast.Node) bool {
		if lit, ok := n.(*ast.CompositeLit); ok && mdIsTable(a.info.TypeOf(lit)) {
			if _, seen := a.tables[lit.Pos()]; !seen {
				mdFail(lit, "TableSet literal that is not bound to a local variable")
			}
		}
		if c, ok := n.(*ast.CallExpr); ok {
			if sel, ok := c.Fun.(*ast.SelectorExpr); ok && (sel.Sel.Name == "CustomTable" || sel.Sel.Name == "Table") && len(c.Args) > 0 && mdIsTable(a.info.TypeOf(c.Args[0])) {
				if _, isId := c.Args[0].(*ast.Ident); !isId {
					mdFail(c, "the table handed to %s is not a local variable", sel.Sel.Name)
				}
			}
		}
		return true
	})

	var b strings.Builder
	b.WriteString("/- GENERATED by /verif/tools/extract (mdtables.go) from /repo/md_exporter.go — do not edit. -/\n")
	b.WriteString("namespace Acme.Gen\n\n")
	b.WriteString("/-- every `md.TableSet{Header: …}` literal of md_exporter.go in source order: (function, header cells, for every expression appended to its `Rows` — locals written as ‹type› —: the widths of the rows it can denote).  A width `(c, ps)` is c cells plus the lengths of the row parameters `ps` (0-based indexes) of the function. -/\n")
	b.WriteString("def mdTables : List (String × List String × List (String × List (Nat × List Nat))) := [\n")
	for i, pos := range a.tableOrder {
		t := a.tables[pos]
		var es []string
		for _, x := range t.order {
			es = append(es, "("+leanStr(x)+", "+a.leanSet(t.fn, "-", "table rows: "+x, t.exprs[x])+")")
		}
		b.WriteString("  (" + leanStr(t.fn) + ", " + mdLeanStrs(t.header) + ",\n    [" + strings.Join(es, ", ") + "])")
		if i+1 < len(a.tableOrder) {
			b.WriteString(",")
		}
		b.WriteString("\n")
	}
	b.WriteString("]\n\n")
	b.WriteString("/-- per function that returns a row (`[]string`), returns rows (`[][]string`) or fills a table, per control-flow path (the forking `if` / `switch` statements of the function numbered in source order; a `switch` over all constants of its type has no `no case` path): (function, path, `returns row` | `returns rows` | `table rows` | `local row k` = the k-th local `[]string` variable of the function alive at the end of the path, the widths) -/\n")
	b.WriteString("def mdRowPaths : List (String × String × String × List (Nat × List Nat)) := [\n")
	for i, p := range a.paths {
		b.WriteString("  (" + leanStr(p.fn) + ", " + leanStr(p.path) + ", " + leanStr(p.what) + ", " + a.leanSet(p.fn, p.path, p.what, p.set) + ")")
		if i+1 < len(a.paths) {
			b.WriteString(",")
		}
		b.WriteString("\n")
	}
	b.WriteString("]\n\n")
	b.WriteString("/-- every append whose base slice may share the backing array of a row PARAMETER: (function, parameter index, expression) -/\n")
	b.WriteString("def mdParamAppends : List (String × Nat × String) := [\n")
	for i, pos := range a.paliasPos {
		e := a.palias[pos]
		b.WriteString("  (" + leanStr(e[0]) + ", " + e[1] + ", " + leanStr(e[2]) + ")")
		if i+1 < len(a.paliasPos) {
			b.WriteString(",")
		}
		b.WriteString("\n")
	}
	b.WriteString("]\n\n")
	b.WriteString("/-- every call on the Markdown writer (except LF) and every call of an exporter method without results, per function in source order: (function, nesting, call, arguments) -/\n")
	b.WriteString("def mdSections : List (String × String × String × String) := [\n")
	var secs [][4]string
	for _, fd := range fds {
		secs = append(secs, a.sections(fd)...)
	}
	for i, s := range secs {
		b.WriteString("  (" + leanStr(s[0]) + ", " + leanStr(s[1]) + ", " + leanStr(s[2]) + ", " + leanStr(s[3]) + ")")
		if i+1 < len(secs) {
			b.WriteString(",")
		}
		b.WriteString("\n")
	}
	b.WriteString("]\n\n")
	// last: filled while the lists above were printed
	seen := map[[4]string]bool{}
	var dyn [][4]string
	for _, d := range a.dynamic {
		if !seen[d] {
			seen[d] = true
			dyn = append(dyn, d)
		}
	}
	b.WriteString("/-- every width above that is NOT determined statically (left out of the lists above): (function, path, what, expression / reason) -/\n")
	b.WriteString("def mdDynamic : List (String × String × String × String) := [\n")
	for i, d := range dyn {
		b.WriteString("  (" + leanStr(d[0]) + ", " + leanStr(d[1]) + ", " + leanStr(d[2]) + ", " + leanStr(d[3]) + ")")
		if i+1 < len(dyn) {
			b.WriteString(",")
		}
		b.WriteString("\n")
	}
	b.WriteString("]\n\nend Acme.Gen\n")
	if err := os.WriteFile(dst, []byte(b.String()), 0o644); err != nil {
		panic(err)
	}
}
