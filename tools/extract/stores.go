package main

import (
	"go/ast"
	"go/token"
	"go/types"
	"path/filepath"
	"regexp"
	"sort"
	"strings"

	"golang.org/x/tools/go/callgraph"
	"golang.org/x/tools/go/callgraph/cha"
	"golang.org/x/tools/go/packages"
	"golang.org/x/tools/go/ssa"
	"golang.org/x/tools/go/ast/astutil"
	"golang.org/x/tools/go/ssa/ssautil"
)

// guardAt renders the conditions of the if statements that enclose pos inside its function
// (outermost first; "!(c)" for an else branch): the condition under which a store executes is
// part of what the inventory says about it.
func guardAt(pkgs []*packages.Package, pos token.Pos) string {
	if !pos.IsValid() {
		return ""
	}
	for _, p := range pkgs {
		for _, f := range p.Syntax {
			if f.Pos() > pos || pos >= f.End() {
				continue
			}
			path, _ := astutil.PathEnclosingInterval(f, pos, pos)
			var conds []string
			for i := len(path) - 1; i >= 0; i-- {
				ifs, ok := path[i].(*ast.IfStmt)
				if !ok {
					continue
				}
				switch {
				case ifs.Body != nil && ifs.Body.Pos() <= pos && pos < ifs.Body.End():
					conds = append(conds, exprStr(ifs.Cond))
				case ifs.Else != nil && ifs.Else.Pos() <= pos && pos < ifs.Else.End():
					conds = append(conds, "!("+exprStr(ifs.Cond)+")")
				}
			}
			return strings.Join(conds, " && ")
		}
	}
	return ""
}

// model types: the objects of a network that several goroutines may share
var modelTypes = map[string]bool{
	"Network": true, "Bus": true, "Node": true, "NodeInterface": true, "Message": true,
	"signal": true, "StandardSignal": true, "EnumSignal": true, "MultiplexerSignal": true,
	"SignalLayout": true, "SignalLayoutFilter": true, "SignalType": true, "SignalUnit": true,
	"SignalEnum": true, "SignalEnumValue": true, "attribute": true, "StringAttribute": true,
	"IntegerAttribute": true, "FloatAttribute": true, "EnumAttribute": true, "AttributeAssignment": true,
	"CANIDBuilder": true, "CANIDBuilderOp": true, "entity": true, "withRefs": true,
	"withAttributes": true, "set": true,
}

var mutatorPrefix = regexp.MustCompile(`^(Add|Remove|Insert|Append|Set|Update|Assign|Clear|Shift|Compact|Use|New|Import|Load|Clone)`)

func isReadOnlyRoot(fn *ssa.Function) bool {
	if fn.Pkg == nil || fn.Pkg.Pkg.Name() != "acmelib" {
		return false
	}
	name := fn.Name()
	if !token.IsExported(name) {
		return false
	}
	if fn.Signature.Recv() == nil {
		switch name {
		case "ExportBus", "ExportNetwork", "ExportToMarkdown", "SaveNetwork", "CalculateBusLoad":
			return true
		}
		return false
	}
	if strings.HasPrefix(name, "Verif") {
		return false
	}
	return !mutatorPrefix.MatchString(name)
}

func namedOf(t types.Type) string {
	for {
		switch x := t.(type) {
		case *types.Pointer:
			t = x.Elem()
			continue
		case *types.Named:
			o := x.Origin().Obj()
			if o.Pkg() != nil && o.Pkg().Name() != "acmelib" {
				return o.Pkg().Name() + "." + o.Name()
			}
			return o.Name()
		}
		return ""
	}
}

// baseOf descends to the value an address is derived from.
func baseOf(v ssa.Value, depth int) ssa.Value {
	if depth > 20 {
		return v
	}
	switch x := v.(type) {
	case *ssa.FieldAddr:
		return baseOf(x.X, depth+1)
	case *ssa.IndexAddr:
		return baseOf(x.X, depth+1)
	case *ssa.Slice:
		return baseOf(x.X, depth+1)
	case *ssa.ChangeType:
		return baseOf(x.X, depth+1)
	}
	return v
}

// fresh: the memory was allocated by the running function itself.
func fresh(v ssa.Value) bool {
	switch baseOf(v, 0).(type) {
	case *ssa.Alloc, *ssa.MakeSlice, *ssa.MakeMap:
		return true
	}
	return false
}

// owner walks an address back to the struct field it belongs to and returns "Type.field".
func owner(v ssa.Value, depth int) (string, bool) {
	if depth > 12 {
		return "", false
	}
	switch x := v.(type) {
	case *ssa.FieldAddr:
		st := namedOf(x.X.Type())
		if st != "" {
			ft := x.X.Type().Underlying().(*types.Pointer).Elem().Underlying().(*types.Struct).Field(x.Field).Name()
			if modelTypes[st] {
				return st + "." + ft, true
			}
		}
		return owner(x.X, depth+1)
	case *ssa.Field:
		return owner(x.X, depth+1)
	case *ssa.IndexAddr:
		return owner(x.X, depth+1)
	case *ssa.Index:
		return owner(x.X, depth+1)
	case *ssa.Slice:
		return owner(x.X, depth+1)
	case *ssa.UnOp:
		if x.Op == token.MUL {
			return owner(x.X, depth+1)
		}
	case *ssa.ChangeType:
		return owner(x.X, depth+1)
	case *ssa.Phi:
		for _, e := range x.Edges {
			if o, ok := owner(e, depth+1); ok {
				return o, true
			}
		}
	}
	return "", false
}

func storeSites(pkgs ...*packages.Package) []site {
	prog, _ := ssautil.AllPackages(pkgs, ssa.InstantiateGenerics)
	prog.Build()
	cg := cha.CallGraph(prog)

	inScope := func(fn *ssa.Function) bool {
		if fn == nil {
			return false
		}
		p := fn.Pkg
		if p == nil && fn.Origin() != nil {
			p = fn.Origin().Pkg
		}
		if p == nil {
			return false
		}
		path := p.Pkg.Path()
		return strings.HasSuffix(path, "squadracorsepolito/acmelib") || strings.HasSuffix(path, "squadracorsepolito/acmelib/dbc")
	}

	reach := map[*ssa.Function]bool{}
	var queue []*ssa.Function
	for fn := range cg.Nodes {
		if fn != nil && isReadOnlyRoot(fn) {
			reach[fn] = true
			queue = append(queue, fn)
		}
	}
	for len(queue) > 0 {
		fn := queue[0]
		queue = queue[1:]
		n := cg.Nodes[fn]
		if n == nil {
			continue
		}
		for _, e := range n.Out {
			c := e.Callee.Func
			if c != nil && inScope(c) && !reach[c] {
				reach[c] = true
				queue = append(queue, c)
			}
		}
		for _, anon := range fn.AnonFuncs {
			if !reach[anon] {
				reach[anon] = true
				queue = append(queue, anon)
			}
		}
	}
	_ = callgraph.GraphVisitEdges

	seen := map[site]bool{}
	var res []site
	add := func(fn *ssa.Function, kind, target string, pos token.Pos) {
		if g := guardAt(pkgs, pos); g != "" {
			target += " | if " + g
		} else {
			target += " | unconditional"
		}
		name := fn.Name()
		if fn.Signature.Recv() != nil {
			name = namedOf(fn.Signature.Recv().Type()) + "." + fn.Name()
		}
		if fn.Parent() != nil {
			p := fn.Parent()
			pn := p.Name()
			if p.Signature.Recv() != nil {
				pn = namedOf(p.Signature.Recv().Type()) + "." + p.Name()
			}
			name = pn + "$func"
		}
		file := ""
		if fn.Pos().IsValid() {
			file = filepath.Base(prog.Fset.Position(fn.Pos()).Filename)
		}
		s := site{file, name, kind, target}
		if !seen[s] {
			seen[s] = true
			res = append(res, s)
		}
	}
	for fn := range reach {
		if !inScope(fn) {
			continue
		}
		for _, b := range fn.Blocks {
			for _, ins := range b.Instrs {
				switch x := ins.(type) {
				case *ssa.Store:
					if o, ok := owner(x.Addr, 0); ok && !fresh(x.Addr) {
						add(fn, "store", o, x.Pos())
					} else if gl, isGlobal := baseOf(x.Addr, 0).(*ssa.Global); isGlobal && fn.Name() != "init" {
						// a package-level variable is shared by every goroutine of the process
						add(fn, "store-global", gl.Name(), x.Pos())
					} else if un, isLoad := baseOf(x.Addr, 0).(*ssa.UnOp); isLoad && un.Op == token.MUL {
						// an element of a package-level slice / a field behind a package-level pointer
						if gl, isGlobal := un.X.(*ssa.Global); isGlobal && fn.Name() != "init" {
							add(fn, "store-global", gl.Name(), x.Pos())
						}
					}
				case *ssa.MapUpdate:
					if o, ok := owner(x.Map, 0); ok {
						add(fn, "map-update", o, x.Pos())
					} else if un, isLoad := x.Map.(*ssa.UnOp); isLoad && un.Op == token.MUL {
						if gl, isGlobal := un.X.(*ssa.Global); isGlobal && fn.Name() != "init" {
							add(fn, "map-update-global", gl.Name(), x.Pos())
						}
					}
				case *ssa.Call:
					c := x.Call
					if bi, ok := c.Value.(*ssa.Builtin); ok && bi.Name() == "delete" {
						if o, ok := owner(c.Args[0], 0); ok {
							add(fn, "map-delete", o, x.Pos())
						}
					}
					if f := c.StaticCallee(); f != nil && f.Pkg != nil {
						pp := f.Pkg.Pkg.Path()
						if (pp == "slices" || pp == "sort" || strings.HasSuffix(pp, "x/exp/slices")) && strings.HasPrefix(f.Name(), "Sort") && len(c.Args) > 0 {
							if o, ok := owner(c.Args[0], 0); ok {
								add(fn, "in-place-sort", o, x.Pos())
							}
						}
					}
				}
			}
		}
	}
	// Listings: a function that hands out model-owned slice memory (returns a slice field, a
	// re-slice of it, an append to it, or the result of another such function) and, in the
	// functions reachable from the read-only API, every append / in-place sort / element store
	// THROUGH the result of such a function (the writes that the per-function walk above cannot
	// attribute to a field because the slice arrives as a call result).
	handout := map[*ssa.Function]string{}
	var origin func(v ssa.Value, depth int) (string, bool)
	origin = func(v ssa.Value, depth int) (string, bool) {
		if depth > 12 {
			return "", false
		}
		if _, ok := v.Type().Underlying().(*types.Slice); !ok {
			return "", false
		}
		switch x := v.(type) {
		case *ssa.Slice:
			return origin(x.X, depth+1)
		case *ssa.ChangeType:
			return origin(x.X, depth+1)
		case *ssa.Phi:
			for _, e := range x.Edges {
				if o, ok := origin(e, depth+1); ok {
					return o, true
				}
			}
		case *ssa.UnOp:
			if x.Op == token.MUL {
				return owner(x.X, 0)
			}
		case *ssa.Call:
			c := x.Call
			if bi, ok := c.Value.(*ssa.Builtin); ok && bi.Name() == "append" && len(c.Args) > 0 {
				return origin(c.Args[0], depth+1)
			}
			if f := c.StaticCallee(); f != nil {
				if f.Origin() != nil {
					f = f.Origin()
				}
				if o, ok := handout[f]; ok {
					return o, true
				}
			} else if c.IsInvoke() {
				for f, o := range handout {
					if f.Name() == c.Method.Name() {
						return o, true
					}
				}
			}
		}
		return "", false
	}
	var scoped []*ssa.Function
	for fn := range cg.Nodes {
		if fn != nil && inScope(fn) {
			scoped = append(scoped, fn)
		}
	}
	sort.Slice(scoped, func(i, j int) bool { return scoped[i].String() < scoped[j].String() })
	for changed := true; changed; {
		changed = false
		for _, fn := range scoped {
			key := fn
			if fn.Origin() != nil {
				key = fn.Origin()
			}
			if _, done := handout[key]; done {
				continue
			}
			for _, b := range fn.Blocks {
				for _, ins := range b.Instrs {
					ret, ok := ins.(*ssa.Return)
					if !ok {
						continue
					}
					for _, rv := range ret.Results {
						if o, ok := origin(rv, 0); ok {
							handout[key] = o
							changed = true
						}
					}
				}
			}
		}
	}
	for _, fn := range scoped {
		key := fn
		if fn.Origin() != nil {
			key = fn.Origin()
		}
		if o, ok := handout[key]; ok && reach[fn] {
			add(fn, "hands-out-slice", o, token.NoPos)
		}
		if !reach[fn] {
			continue
		}
		for _, b := range fn.Blocks {
			for _, ins := range b.Instrs {
				switch x := ins.(type) {
				case *ssa.Store:
					if ia, ok := x.Addr.(*ssa.IndexAddr); ok {
						if c, isCall := baseOf(ia.X, 0).(*ssa.Call); isCall {
							if o, ok := origin(c, 0); ok {
								add(fn, "store-through-listing", o, x.Pos())
							}
						}
					}
				case *ssa.Call:
					c := x.Call
					if bi, ok := c.Value.(*ssa.Builtin); ok && bi.Name() == "append" && len(c.Args) > 0 {
						if _, direct := owner(c.Args[0], 0); !direct {
							if o, ok := origin(c.Args[0], 0); ok {
								add(fn, "append-to-listing", o, x.Pos())
							}
						}
					}
					if f := c.StaticCallee(); f != nil && f.Pkg != nil {
						pp := f.Pkg.Pkg.Path()
						if (pp == "slices" || pp == "sort" || strings.HasSuffix(pp, "x/exp/slices")) && strings.HasPrefix(f.Name(), "Sort") && len(c.Args) > 0 {
							if _, direct := owner(c.Args[0], 0); !direct {
								if o, ok := origin(c.Args[0], 0); ok {
									add(fn, "in-place-sort-of-listing", o, x.Pos())
								}
							}
						}
					}
				}
			}
		}
	}
	sort.Slice(res, func(i, j int) bool { return res[i].lean() < res[j].lean() })
	return res
}
