// kernels_dbcwriter_expr.go: function classification, expressions and conditions of the DBC writer
// translator (see kernels_dbcwriter.go for the subset).
package main

import (
	"go/ast"
	"go/constant"
	"go/token"
	"go/types"
	"strings"
)

// collect: classify every declaration of writer.go
func (t *dwtr) collect(f *ast.File) {
	for _, d := range f.Decls {
		switch x := d.(type) {
		case *ast.GenDecl:
			switch x.Tok {
			case token.IMPORT:
			case token.TYPE:
				for _, s := range x.Specs {
					ts := s.(*ast.TypeSpec)
					st, ok := ts.Type.(*ast.StructType)
					if ts.Name.Name != dwRecvType || !ok {
						t.fail(ts, "type declaration %s (only the struct `%s`)", ts.Name.Name, dwRecvType)
					}
					var names []string
					for _, fl := range st.Fields.List {
						for _, n := range fl.Names {
							names = append(names, n.Name)
						}
					}
					if strings.Join(names, ",") != dwOutField+","+dwHexField {
						t.fail(ts, "fields of `%s` are %v (expected %s, %s)", dwRecvType, names, dwOutField, dwHexField)
					}
				}
			default:
				t.fail(x, "package-level %s declaration", x.Tok)
			}
		case *ast.FuncDecl:
			if x.Body == nil {
				t.fail(x, "function %s without body", x.Name.Name)
			}
			fn := &dwFn{decl: x, goName: x.Name.Name}
			if _, dup := t.fns[fn.goName]; dup {
				t.fail(x, "two functions named %s", fn.goName)
			}
			if x.Recv != nil {
				if len(x.Recv.List) != 1 || len(x.Recv.List[0].Names) != 1 || exprStr(x.Recv.List[0].Type) != "*"+dwRecvType {
					t.fail(x, "receiver of %s (only `(w *%s)`)", fn.goName, dwRecvType)
				}
				fn.method = true
			}
			switch {
			case fn.goName == "newWriter":
				t.checkNewWriter(x)
				continue
			case fn.goName == "Write":
				fn.kind = 4
			case fn.method && t.isWrapper(fn):
			case x.Type.Results != nil && len(x.Type.Results.List) > 0:
				if len(x.Type.Results.List) != 1 || exprStr(x.Type.Results.List[0].Type) != "string" {
					t.fail(x, "results of %s (only `string`)", fn.goName)
				}
				fn.kind = 1
			default:
				fn.kind = 0
			}
			t.fns[fn.goName] = fn
			t.order = append(t.order, fn.goName)
		}
	}
}

// newWriter must be `return &writer{f: <param 1>, hexNumbersEnabled: <param 2>}`
func (t *dwtr) checkNewWriter(fd *ast.FuncDecl) {
	var ps []string
	for _, f := range fd.Type.Params.List {
		for _, n := range f.Names {
			ps = append(ps, n.Name)
		}
	}
	ok := len(ps) == 2 && len(fd.Body.List) == 1
	if ok {
		r, isRet := fd.Body.List[0].(*ast.ReturnStmt)
		ok = isRet && len(r.Results) == 1 &&
			exprStr(r.Results[0]) == "&"+dwRecvType+"{ "+dwOutField+": "+ps[0]+", "+dwHexField+": "+ps[1]+", }"
		if isRet && len(r.Results) == 1 && !ok {
			s := strings.ReplaceAll(exprStr(r.Results[0]), " ", "")
			ok = s == "&"+dwRecvType+"{"+dwOutField+":"+ps[0]+","+dwHexField+":"+ps[1]+",}" ||
				s == "&"+dwRecvType+"{"+dwOutField+":"+ps[0]+","+dwHexField+":"+ps[1]+"}"
		}
	}
	if !ok {
		t.fail(fd, "newWriter does not have the shape `return &writer{f: w, hexNumbersEnabled: h}`")
	}
}

// isWrapper: the body is `fmt.Fprintf(w.f, E, a...)` (optionally `_, err := ..; if err != nil { panic(err) }`)
func (t *dwtr) isWrapper(fn *dwFn) bool {
	body := fn.decl.Body.List
	if len(body) == 0 {
		return false
	}
	var call *ast.CallExpr
	switch s := body[0].(type) {
	case *ast.ExprStmt:
		call, _ = s.X.(*ast.CallExpr)
	case *ast.AssignStmt:
		if len(s.Rhs) == 1 && s.Tok == token.DEFINE {
			call, _ = s.Rhs[0].(*ast.CallExpr)
		}
	}
	if call == nil || exprStr(call.Fun) != "fmt.Fprintf" {
		return false
	}
	recv := fn.decl.Recv.List[0].Names[0].Name
	if len(call.Args) < 2 || exprStr(call.Args[0]) != recv+"."+dwOutField {
		t.fail(call, "fmt.Fprintf whose destination is not %s.%s", recv, dwOutField)
	}
	// parameters: () or (format string, a ...any)
	var ps []*ast.Ident
	for _, f := range fn.decl.Type.Params.List {
		ps = append(ps, f.Names...)
	}
	switch {
	case len(ps) == 0 && len(call.Args) == 2 && !call.Ellipsis.IsValid():
		fn.kind = 3
	case len(ps) == 2 && len(call.Args) == 3 && call.Ellipsis.IsValid() && exprStr(call.Args[2]) == ps[1].Name &&
		exprStr(fn.decl.Type.Params.List[0].Type) == "string":
		fn.kind = 2
		fn.fmtPar = t.info.Defs[ps[0]]
	default:
		t.fail(call, "print wrapper %s: parameters / arguments of fmt.Fprintf", fn.goName)
	}
	fn.fmtExpr = call.Args[1]
	// the rest may only be the error check
	rest := body[1:]
	if len(rest) == 1 {
		is, ok := rest[0].(*ast.IfStmt)
		if as, isAs := body[0].(*ast.AssignStmt); ok && isAs && len(as.Lhs) == 2 && is.Init == nil && is.Else == nil &&
			exprStr(is.Cond) == exprStr(as.Lhs[1])+" != nil" && len(is.Body.List) == 1 &&
			exprStr(is.Body.List[0]) == "panic("+exprStr(as.Lhs[1])+")" {
			rest = nil
		}
	}
	if len(rest) != 0 {
		t.fail(fn.decl, "print wrapper %s does more than one fmt.Fprintf", fn.goName)
	}
	return true
}

// fmtOf: the constant format of a wrapper for the call-site format `arg` ("" for kind 3)
func (t *dwtr) fmtOf(fn *dwFn, arg *string, at ast.Node) string {
	var ev func(e ast.Expr) string
	ev = func(e ast.Expr) string {
		e = unparen(e)
		if id, ok := e.(*ast.Ident); ok && fn.fmtPar != nil && t.info.Uses[id] == fn.fmtPar {
			if arg == nil {
				t.fail(at, "format parameter without argument")
			}
			return *arg
		}
		if tv, ok := t.info.Types[e]; ok && tv.Value != nil && tv.Value.Kind() == constant.String {
			return constant.StringVal(tv.Value)
		}
		if b, ok := e.(*ast.BinaryExpr); ok && b.Op == token.ADD {
			return ev(b.X) + ev(b.Y)
		}
		t.fail(e, "format expression `%s` of %s", exprStr(e), fn.goName)
		return ""
	}
	return ev(fn.fmtExpr)
}

// ---------------------------------------------------------------- expressions

func (t *dwtr) isRecv(e ast.Expr) bool {
	id, ok := unparen(e).(*ast.Ident)
	return ok && t.recv != nil && t.info.Uses[id] == t.recv
}

func (t *dwtr) constExpr(e ast.Expr) (string, dwType, bool) {
	tv, ok := t.info.Types[e]
	if !ok || tv.Value == nil {
		return "", dwType{}, false
	}
	// enum constants by NAME
	if nm, ok := types.Unalias(tv.Type).(*types.Named); ok {
		if sp, ok := t.enums[nm.Obj().Name()]; ok && nm.Obj().Pkg() == t.pkg {
			id, isId := unparen(e).(*ast.Ident)
			if !isId {
				t.fail(e, "enum constant expression `%s` (only a named constant)", exprStr(e))
			}
			c, ok := sp.consts[id.Name]
			if !ok {
				t.fail(e, "constant %s is not in the enum table", id.Name)
			}
			return sp.lean + "." + c, dwType{k: dwEnum, name: nm.Obj().Name()}, true
		}
		t.fail(e, "constant `%s` of type %s", exprStr(e), tv.Type.String())
	}
	ty := t.goType(tv.Type, e)
	switch ty.k {
	case dwStr:
		return t.lit(constant.StringVal(tv.Value), e), ty, true
	case dwInt:
		return "(" + tv.Value.ExactString() + " : Int)", ty, true
	case dwU32:
		return "(" + tv.Value.ExactString() + " : Nat)", ty, true
	case dwBool:
		if constant.BoolVal(tv.Value) {
			return "true", ty, true
		}
		return "false", ty, true
	}
	t.fail(e, "constant `%s` of type %s", exprStr(e), tv.Type.String())
	return "", dwType{}, false
}

func (t *dwtr) expr(e ast.Expr) (string, dwType) {
	e = unparen(e)
	// getKeyword(C) first: its argument type is not translated
	if c, ok := e.(*ast.CallExpr); ok {
		if id, ok := c.Fun.(*ast.Ident); ok && id.Name == "getKeyword" {
			if _, isFn := t.info.Uses[id].(*types.Func); isFn {
				t.loadKeywords()
				if len(c.Args) != 1 {
					t.fail(c, "getKeyword arity")
				}
				tv := t.info.Types[c.Args[0]]
				if tv.Value == nil {
					t.fail(c, "getKeyword of a non-constant kind `%s`", exprStr(c.Args[0]))
				}
				return t.lit(t.keyOf[tv.Value.ExactString()], c), dwType{k: dwStr}
			}
		}
	}
	if s, ty, ok := t.constExpr(e); ok {
		return s, ty
	}
	switch x := e.(type) {
	case *ast.Ident:
		obj := t.info.Uses[x]
		if v, ok := t.vars[obj]; ok {
			return v.name, v.ty
		}
		if gv, ok := obj.(*types.Var); ok && gv.Parent() == t.pkg.Scope() {
			return t.global(x, gv)
		}
		t.fail(x, "identifier `%s`", x.Name)
	case *ast.SelectorExpr:
		if t.isRecv(x.X) {
			if x.Sel.Name == dwHexField {
				return "hex", dwType{k: dwBool}
			}
			if fn, ok := t.fns[x.Sel.Name]; ok && fn.method && (fn.kind == 0 || fn.kind == 3) {
				t.need(fn.goName, x)
				return "(" + fn.goName + " hex)", t.goType(t.info.Types[x].Type, x)
			}
			t.fail(x, "use of `%s` (the output is only written through fmt.Fprintf in a print wrapper)", exprStr(x))
		}
		base, bty := t.expr(x.X)
		if bty.k != dwStruct {
			t.fail(x, "selector `%s` on a value that is not a translated struct", exprStr(x))
		}
		sp := t.structs[bty.name]
		fs, ok := sp.fields[x.Sel.Name]
		if !ok {
			t.fail(x, "field %s.%s is not in the projection table", bty.name, x.Sel.Name)
		}
		fty := t.goType(t.info.Types[x].Type, x)
		if fs.opt {
			if b, ok := t.optBnd[exprStr(x)]; ok {
				return b, fty
			}
			t.fail(x, "optional part `%s` used outside `if %s != nil`", exprStr(x), exprStr(x))
		}
		if sp.wrap {
			return base, fty
		}
		return base + "." + fs.lean, fty
	case *ast.BinaryExpr:
		switch x.Op {
		case token.ADD, token.SUB:
			a, at := t.expr(x.X)
			b, bt := t.expr(x.Y)
			if at.k == dwStr && bt.k == dwStr && x.Op == token.ADD {
				return "(" + a + " ++ " + b + ")", at
			}
			if at.k == dwInt && bt.k == dwInt {
				return "(" + a + " " + x.Op.String() + " " + b + ")", at
			}
			t.fail(x, "operator %s on `%s`", x.Op, exprStr(x))
		}
		t.fail(x, "operator %s in a value position", x.Op)
	case *ast.UnaryExpr:
		if x.Op == token.AND {
			if cl, ok := x.X.(*ast.CompositeLit); ok {
				return t.composite(cl)
			}
		}
		t.fail(x, "operator %s", x.Op)
	case *ast.CallExpr:
		return t.callExpr(x)
	}
	t.fail(e, "expression `%s`", exprStr(e))
	return "", dwType{}
}

// global: a package-level slice of string constants ↦ a generated table
func (t *dwtr) global(at *ast.Ident, gv *types.Var) (string, dwType) {
	ty := t.goType(gv.Type(), at)
	if ty.k != dwList || ty.elem.k != dwStr {
		t.fail(at, "package-level variable %s of type %s", gv.Name(), gv.Type().String())
	}
	if !t.globals[gv.Name()] {
		cl, _ := t.globalLit(dwPkgs, gv.Name())
		var els []string
		for _, el := range cl.Elts {
			els = append(els, t.lit(t.constString(el), el))
		}
		t.globals[gv.Name()] = true
		t.gdefs = append(t.gdefs, "/-- `"+gv.Name()+"` (keyword.go) -/\ndef "+mangle(gv.Name())+" : List String :=\n  ["+strings.Join(els, ", ")+"]\n")
	}
	return mangle(gv.Name()), ty
}

func (t *dwtr) zero(ty types.Type, at ast.Node) string {
	d := t.goType(ty, at)
	switch d.k {
	case dwStr:
		return "\"\""
	case dwInt, dwU32:
		return "0"
	case dwBool:
		return "false"
	case dwList:
		return "[]"
	}
	t.fail(at, "zero value of type %s", ty.String())
	return ""
}

// &T{F: e, ..}: a fresh value of a translated struct, missing fields are Go zero values
func (t *dwtr) composite(cl *ast.CompositeLit) (string, dwType) {
	ty := t.goType(types.NewPointer(t.info.Types[cl].Type), cl)
	if ty.k != dwStruct {
		t.fail(cl, "composite literal of type %s", exprStr(cl.Type))
	}
	sp := t.structs[ty.name]
	st := t.info.Types[cl].Type.Underlying().(*types.Struct)
	given := map[string]string{}
	for _, el := range cl.Elts {
		kv, ok := el.(*ast.KeyValueExpr)
		if !ok {
			t.fail(el, "positional composite literal")
		}
		s, _ := t.expr(kv.Value)
		given[exprStr(kv.Key)] = s
	}
	var parts []string
	for i := 0; i < st.NumFields(); i++ {
		f := st.Field(i)
		fs, ok := sp.fields[f.Name()]
		if !ok {
			if _, g := given[f.Name()]; g {
				t.fail(cl, "field %s of the literal is not in the projection table", f.Name())
			}
			continue
		}
		v, g := given[f.Name()]
		if !g {
			v = t.zero(f.Type(), cl)
		}
		if sp.wrap {
			return v, ty
		}
		parts = append(parts, fs.lean+" := "+v)
	}
	return "({ " + strings.Join(parts, ", ") + " } : " + sp.lean + ")", ty
}

func (t *dwtr) callExpr(c *ast.CallExpr) (string, dwType) {
	fun := exprStr(c.Fun)
	intLit := func(e ast.Expr) string {
		if tv, ok := t.info.Types[e]; ok && tv.Value != nil {
			return tv.Value.ExactString()
		}
		return "?"
	}
	conv := func(e ast.Expr, to string) (string, dwType) {
		cc, ok := unparen(e).(*ast.CallExpr)
		if !ok || exprStr(cc.Fun) != to || len(cc.Args) != 1 {
			t.fail(e, "argument `%s` of %s (expected %s(v))", exprStr(e), fun, to)
		}
		return t.expr(cc.Args[0])
	}
	switch fun {
	case "strconv.FormatFloat":
		if len(c.Args) != 4 || intLit(c.Args[1]) != "102" || intLit(c.Args[2]) != "-1" || intLit(c.Args[3]) != "64" {
			t.fail(c, "`%s`: the float-as-text convention covers strconv.FormatFloat(v, 'f', -1, 64) only", exprStr(c))
		}
		s, ty := t.expr(c.Args[0])
		if ty.k != dwFloat {
			t.fail(c, "FormatFloat of a non-float64")
		}
		return "(Acme.Dbc.formatDouble " + s + ")", dwType{k: dwStr}
	case "strconv.FormatInt", "strconv.FormatUint":
		if len(c.Args) != 2 {
			t.fail(c, "arity of %s", fun)
		}
		to := "int64"
		if fun == "strconv.FormatUint" {
			to = "uint64"
		}
		s, ty := conv(c.Args[0], to)
		base := intLit(c.Args[1])
		switch {
		case ty.k == dwInt && base == "10" && to == "int64":
			return "(Acme.Dbc.formatInt " + s + ")", dwType{k: dwStr}
		case ty.k == dwU32 && base == "10":
			return "(Acme.Dbc.formatUint " + s + ")", dwType{k: dwStr}
		case ty.k == dwU32 && base == "16":
			return "(Acme.Dbc.formatHexDigits " + s + ")", dwType{k: dwStr}
		}
		t.fail(c, "`%s`: base / operand type outside the number-text functions of Core/Dbc.lean", exprStr(c))
	case "len":
		s, ty := t.expr(c.Args[0])
		if ty.k != dwList {
			t.fail(c, "len of a non-slice")
		}
		return "(" + s + ".length : Int)", dwType{k: dwInt}
	}
	if sel, ok := c.Fun.(*ast.SelectorExpr); ok && t.isRecv(sel.X) {
		fn, ok := t.fns[sel.Sel.Name]
		if !ok || fn.kind != 1 {
			t.fail(c, "call of `%s` in a value position", fun)
		}
		t.need(fn.goName, c)
		return "(" + fn.goName + " hex" + t.args(c, fn) + ")", dwType{k: dwStr}
	}
	t.fail(c, "call of `%s`", fun)
	return "", dwType{}
}

// args: the translated arguments of a call of a translated function, checked against its parameters
func (t *dwtr) args(c *ast.CallExpr, fn *dwFn) string {
	sig := t.info.Defs[fn.decl.Name].Type().(*types.Signature)
	if sig.Variadic() || sig.Params().Len() != len(c.Args) || c.Ellipsis.IsValid() {
		t.fail(c, "arguments of %s", fn.goName)
	}
	s := ""
	for _, a := range c.Args {
		x, _ := t.expr(a)
		s += " " + x
	}
	return s
}

// ---------------------------------------------------------------- conditions (decidable Props)

func (t *dwtr) cond(e ast.Expr) string {
	e = unparen(e)
	switch x := e.(type) {
	case *ast.BinaryExpr:
		switch x.Op {
		case token.LAND:
			return "(" + t.cond(x.X) + " ∧ " + t.cond(x.Y) + ")"
		case token.LOR:
			return "(" + t.cond(x.X) + " ∨ " + t.cond(x.Y) + ")"
		case token.EQL, token.NEQ, token.LSS, token.GTR, token.LEQ, token.GEQ:
			a, at := t.expr(x.X)
			b, bt := t.expr(x.Y)
			if !dwSame(at, bt) {
				t.fail(x, "comparison `%s` of different types", exprStr(x))
			}
			ordered := x.Op != token.EQL && x.Op != token.NEQ
			switch at.k {
			case dwInt, dwU32:
			case dwStr, dwEnum, dwBool:
				if ordered {
					t.fail(x, "ordering comparison `%s`", exprStr(x))
				}
			default:
				t.fail(x, "comparison `%s` (floats are texts in the model; slices / pointers are not comparable)", exprStr(x))
			}
			op := map[token.Token]string{token.EQL: "=", token.NEQ: "≠", token.LSS: "<", token.GTR: ">", token.LEQ: "≤", token.GEQ: "≥"}[x.Op]
			return "(" + a + " " + op + " " + b + ")"
		}
	case *ast.UnaryExpr:
		if x.Op == token.NOT {
			return "(¬ " + t.cond(x.X) + ")"
		}
	}
	s, ty := t.expr(e)
	if ty.k != dwBool {
		t.fail(e, "condition `%s` is not boolean", exprStr(e))
	}
	return "(" + s + " = true)"
}

// nilCheck: `X != nil` / `X == nil` on an optional part; returns the Lean scrutinee, the key for the
// binding and whether the THEN branch is the non-nil one
func (t *dwtr) nilCheck(e ast.Expr) (scrut, key string, elem dwType, thenSome, ok bool) {
	b, isB := unparen(e).(*ast.BinaryExpr)
	if !isB || (b.Op != token.NEQ && b.Op != token.EQL) {
		return
	}
	x, y := unparen(b.X), unparen(b.Y)
	if id, isId := x.(*ast.Ident); isId && id.Name == "nil" {
		x, y = y, x
	}
	if id, isId := y.(*ast.Ident); !isId || id.Name != "nil" {
		return
	}
	sel, isSel := x.(*ast.SelectorExpr)
	if !isSel {
		t.fail(e, "nil comparison of `%s` (only optional parts of the AST)", exprStr(x))
	}
	base, bty := t.expr(sel.X)
	if bty.k != dwStruct {
		t.fail(e, "nil comparison of `%s`", exprStr(x))
	}
	fs, found := t.structs[bty.name].fields[sel.Sel.Name]
	if !found || !fs.opt {
		t.fail(e, "nil comparison of `%s`, which the projection table does not declare optional", exprStr(x))
	}
	return base + "." + fs.lean, exprStr(sel), t.goType(t.info.Types[sel].Type, sel), b.Op == token.NEQ, true
}
