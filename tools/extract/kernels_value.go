// The post-processing half of (*SignalLayout).Decode (property C03): signExtend,
// decodeStandardSignal, decodeEnumSignal (signal_layout.go) as the kernels K.signExtend,
// K.decodeStandard, K.decodeEnum, proved equal to Acme.Arith.signExtend / decodeStd / decodeEnum
// (Acme/Proofs/GenKernelsValue.lean).
//
// Constructs used here (the generic parts are in kernels.go / kernels_bits.go, switched on by the
// fields of kernelSpec listed below):
//
//	string, SignalValueType       (goTypes) ↦ `String`: constants (the Go constant VALUE, so renaming or
//	                              changing `SignalValueTypeInt = "int"` counts), variables, == / !=
//	var value any ; value = e     (goTypes "any") ↦ `Acme.GoSem.Any`: the stored value tagged with its
//	                              dynamic (= static, for a non-interface e) type: bool, int64, uint64,
//	                              string; `var value any` ↦ Any.nil
//	value = <float64 expression>  (opaqueFloat) ↦ the MARKER Any.float64: the expression is NOT
//	                              translated — the decimal / custom branches of decodeStandardSignal
//	                              are genuine float arithmetic and stay outside the translator
//	sigType.scale (a float64)     (exactFloat) ↦ `Int`: an integral float as the exact integer;
//	int64(x) / uint64(x) of it    ↦ `BitVec.ofInt 64 x`: exact when x is integral and in the range of
//	                              the target type (otherwise Go's result is implementation-defined)
//	sigType := stdSig.typ         (aliases) a local that is only the root of parameterised reads
//	                              (`sigType.kind` ↦ `kind`, ..): the statement is checked and dropped
//	unit, sigUnit                 (ignoreVars) locals that are NOT translated: a declaration of / an
//	                              assignment to them, and an `if` over them whose branches contain
//	                              nothing else, is dropped; any other use is an error
//	&SignalDecoding{..}           (structs, goTypes "*SignalDecoding") ↦ the record
//	                              `Acme.GoSem.Decoded` (rawValue, valueType, value); the fields
//	                              `Signal` and `Unit` are NOT translated (table entry "")
//	res := &T{..} ; res.F = e     a local record and the assignment of one of its fields ↦
//	                              `{ res with f := e }`
//	sigEnum.values.entries()      the MAP of the enum values ↦ `vals : List (String × Int)` (name,
//	                              index) in an arbitrary order, as for getMaxIndexWith
package main

import (
	"go/ast"
	"go/token"
	"strings"
)

var decodedStruct = map[string]kStructSpec{"SignalDecoding": {lean: "Acme.GoSem.Decoded", fields: map[string]string{
	"Signal": "", "Unit": "", // not translated
	"RawValue": "rawValue := %", "ValueType": "valueType := %", "Value": "value := %"}}}

var valueTypes = map[string]kType{
	"string":          {k: kStr},
	"untyped string":  {k: kStr},
	"SignalValueType": {k: kStr},
	"any":             {k: kAny},
	"interface{}":     {k: kAny},
	"*SignalDecoding": {k: kRec, elem: "Acme.GoSem.Decoded"},
}

var valueKernelSpecs = []kernelSpec{
	{pkg: "acmelib", file: "signal_layout.go", goName: "signExtend", lean: "signExtend",
		model: "Acme.Arith.signExtend"},
	{pkg: "acmelib", file: "signal_layout.go", goName: "SignalLayout.decodeStandardSignal", lean: "decodeStandard",
		fields: []kField{{"sigType.kind", "kind"}, {"sigType.size", "size"}, {"sigType.signed", "signed"},
			{"sigType.scale", "scale"}, {"sigType.offset", "offset"}},
		aliases:    map[string]string{"sigType": "stdSig.typ"},
		ignoreVars: []string{"unit", "sigUnit"},
		goTypes:    valueTypes, structs: decodedStruct,
		exactFloat: true, opaqueFloat: true,
		model: "Acme.Arith.decodeStd"},
	{pkg: "acmelib", file: "signal_layout.go", goName: "SignalLayout.decodeEnumSignal", lean: "decodeEnum",
		slices: []kSlice{{kField: kField{"sigEnum.values.entries()", "vals"}, elem: "(String × Int)",
			proj: map[string]string{"name": "%.1", "index": "%.2"}, isMap: true}},
		aliases: map[string]string{"sigEnum": "enumSig.enum"},
		goTypes: valueTypes, structs: decodedStruct,
		model: "Acme.Arith.decodeEnum"},
}

func init() {
	kernelSpecs = append(kernelSpecs, valueKernelSpecs...)
	stmtHooks = append(stmtHooks, (*ktr).valueStmt)
}

func (t *ktr) ignoredVar(name string) bool {
	for _, n := range t.spec.ignoreVars {
		if n == name {
			return true
		}
	}
	return false
}

// onlyIgnored: the expression mentions nothing but ignored variables, nil, and field selections
// on them (no calls, no indexing: dropping it drops no effect and no panic other than a nil
// dereference of an ignored pointer).
func (t *ktr) onlyIgnored(e ast.Expr) bool {
	switch x := unparen(e).(type) {
	case *ast.Ident:
		return t.ignoredVar(x.Name) || t.isNilIdent(x)
	case *ast.SelectorExpr:
		return t.onlyIgnored(x.X)
	case *ast.BinaryExpr:
		return (x.Op == token.EQL || x.Op == token.NEQ) && t.onlyIgnored(x.X) && t.onlyIgnored(x.Y)
	}
	return false
}

// ignorable: the statement only concerns ignored variables.
func (t *ktr) ignorable(s ast.Stmt) bool {
	switch x := s.(type) {
	case *ast.DeclStmt:
		gd, ok := x.Decl.(*ast.GenDecl)
		if !ok || gd.Tok != token.VAR {
			return false
		}
		for _, sp := range gd.Specs {
			vs := sp.(*ast.ValueSpec)
			for _, n := range vs.Names {
				if !t.ignoredVar(n.Name) {
					return false
				}
			}
			for _, v := range vs.Values {
				if !t.onlyIgnored(v) {
					return false
				}
			}
		}
		return true
	case *ast.AssignStmt:
		for _, l := range x.Lhs {
			id, ok := unparen(l).(*ast.Ident)
			if !ok || !t.ignoredVar(id.Name) {
				return false
			}
		}
		for _, r := range x.Rhs {
			// the value may also be a read through a parameter that is not translated
			// (`sigUnit := stdSig.unit`): a selector chain without calls
			if !t.onlyIgnored(r) && !t.plainSelector(r) {
				return false
			}
		}
		return true
	case *ast.IfStmt:
		if x.Init != nil || !t.onlyIgnored(x.Cond) {
			return false
		}
		for _, b := range x.Body.List {
			if !t.ignorable(b) {
				return false
			}
		}
		switch e := x.Else.(type) {
		case nil:
		case *ast.BlockStmt:
			for _, b := range e.List {
				if !t.ignorable(b) {
					return false
				}
			}
		default:
			return t.ignorable(e)
		}
		return true
	}
	return false
}

// plainSelector: p.f.g for a parameter (or the receiver) p of the function (no calls, no indexing)
func (t *ktr) plainSelector(e ast.Expr) bool {
	switch x := unparen(e).(type) {
	case *ast.Ident:
		plist := append([]*ast.Field(nil), t.fd.Type.Params.List...)
		if t.fd.Recv != nil {
			plist = append(plist, t.fd.Recv.List...)
		}
		for _, fl := range plist {
			for _, n := range fl.Names {
				if t.info.Defs[n] == t.info.Uses[x] && t.info.Uses[x] != nil {
					return true
				}
			}
		}
		return false
	case *ast.SelectorExpr:
		return t.plainSelector(x.X)
	}
	return false
}

// valueStmt: the statement forms listed in the header.
func (t *ktr) valueStmt(s ast.Stmt) ([]kStmt, bool) {
	if len(t.spec.ignoreVars) > 0 && t.ignorable(s) {
		return nil, true
	}
	as, ok := s.(*ast.AssignStmt)
	if !ok || len(as.Lhs) != 1 || len(as.Rhs) != 1 {
		return nil, false
	}
	// the alias statement: x := p.f
	if id, isID := as.Lhs[0].(*ast.Ident); isID && as.Tok == token.DEFINE {
		if target, isAlias := t.spec.aliases[id.Name]; isAlias {
			if exprStr(as.Rhs[0]) != target {
				t.fail(as, "`%s` is defined as `%s` (the alias table of %s has `%s`)", id.Name, exprStr(as.Rhs[0]), t.spec.goName, target)
			}
			if !t.plainSelector(as.Rhs[0]) {
				t.fail(as, "alias `%s` of `%s`, which is not a read through a parameter", id.Name, target)
			}
			return nil, true
		}
		// res := &T{..}
		if u, isAddr := unparen(as.Rhs[0]).(*ast.UnaryExpr); isAddr && u.Op == token.AND && len(t.spec.structs) > 0 {
			if _, isLit := u.X.(*ast.CompositeLit); isLit {
				ty := t.typeOf(t.info.Types[as.Rhs[0]].Type, as)
				if ty.k != kRec {
					t.fail(as, "struct literal of type %s", ty)
				}
				return []kStmt{kLet{t.declare(id, ty), t.recordLit(as.Rhs[0], ty.elem), ty, true}}, true
			}
		}
		return nil, false
	}
	if as.Tok != token.ASSIGN {
		return nil, false
	}
	switch l := unparen(as.Lhs[0]).(type) {
	case *ast.Ident:
		// value = e for a variable of type any
		name, isVar := t.vars[t.info.Uses[l]]
		if isVar && t.names[name].k == kAny {
			return []kStmt{kLet{name, t.anyValue(as.Rhs[0]), t.names[name], false}}, true
		}
	case *ast.SelectorExpr:
		// res.F = e for a local record
		rid, isID := unparen(l.X).(*ast.Ident)
		if !isID {
			return nil, false
		}
		name, isVar := t.vars[t.info.Uses[rid]]
		if !isVar || t.names[name].k != kRec {
			return nil, false
		}
		var sp *kStructSpec
		for _, c := range t.spec.structs {
			if c.lean == t.names[name].elem {
				c := c
				sp = &c
			}
		}
		if sp == nil {
			t.fail(as, "record `%s` without an entry in the struct table", name)
		}
		tmpl, listed := sp.fields[l.Sel.Name]
		if !listed {
			t.fail(as, "assignment to the field `%s`, which is not in the struct table of %s", l.Sel.Name, t.spec.goName)
		}
		if tmpl == "" {
			t.fail(as, "assignment to the field `%s`, which is not translated", l.Sel.Name)
		}
		var v string
		if obj := t.info.Uses[l.Sel]; obj != nil && isEmptyInterface(obj.Type()) {
			v = t.anyValue(as.Rhs[0])
		} else {
			v, _ = t.expr(as.Rhs[0])
		}
		return []kStmt{kLet{name, "{ " + name + " with " + strings.ReplaceAll(tmpl, "%", v) + " }", t.names[name], false}}, true
	}
	return nil, false
}
