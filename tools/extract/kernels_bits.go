// Further constructs for the bit-level kernels (generateFilters, Decode):
//
//	for i := a; i <= b; i++ { .. }   (also i < b) over integers, possibly inside a range loop:
//	      F_loopN vs hidden (i : Int) : Nat → ρ            (structural recursion on the fuel)
//	        | 0          => F_afterN vs hidden
//	        | fuel_ + 1  => body    (continue / end ↦ F_loopN vs hidden (i+1) fuel_, break ↦ F_afterN ..)
//	      called with the fuel (b - a + 1).toNat: exactly the iterations of the Go loop, provided
//	      the body assigns neither i nor a variable of the bound (checked).  `hidden` are the
//	      recursion variables of the enclosing range loop (its tail `rest_`), so that the code
//	      after the inner loop can go on with the outer loop.
//	goto L  with  L: at the top level of the same loop body / block, AFTER the goto (a forward
//	      jump that skips the rest of the cases): the statements from the label on are emitted at
//	      the goto.
//	xs := []*T{} ; xs = append(xs, &T{f: e, ..})   for a struct T of kernelSpec.structs: a list of
//	      the Lean record (each Go field ↦ the listed Lean fields; every field must be given)
package main

import (
	"go/ast"
	"go/token"
	"go/types"
	"sort"
	"strings"
)

// kStruct2: Go struct ↦ Lean record; per Go field the Lean field assignments, `%` = the value
type kStructSpec struct {
	lean   string
	fields map[string]string
}

// kFor: for idx := start; idx <= hi (or < hi); idx++ { body }
type kFor struct {
	idx, start, fuel string
	body             []kStmt
	vars             []kVar
	pos              token.Pos
}
type kGoto struct{ label string }
type kLabel struct{ name string }

func identsOf(e ast.Expr) map[string]bool {
	m := map[string]bool{}
	ast.Inspect(e, func(n ast.Node) bool {
		if id, ok := n.(*ast.Ident); ok {
			m[id.Name] = true
		}
		return true
	})
	return m
}

func (t *ktr) fuelLoop(x *ast.ForStmt) []kStmt {
	if t.inLoop > 1 || t.inFuel {
		t.fail(x, "loop nested more than one level deep / inside a counted loop")
	}
	bad := func() { t.fail(x, "for loop that is not `for i := a; i <= b; i++` (or `i < b`)") }
	init, ok := x.Init.(*ast.AssignStmt)
	if !ok || init.Tok != token.DEFINE || len(init.Lhs) != 1 || len(init.Rhs) != 1 {
		bad()
	}
	iv, ok := init.Lhs[0].(*ast.Ident)
	if !ok {
		bad()
	}
	cond, ok := unparen(x.Cond).(*ast.BinaryExpr)
	if !ok || (cond.Op != token.LEQ && cond.Op != token.LSS) || exprStr(cond.X) != iv.Name {
		bad()
	}
	post, ok := x.Post.(*ast.IncDecStmt)
	if !ok || post.Tok != token.INC || exprStr(post.X) != iv.Name {
		bad()
	}
	start := t.value(init.Rhs[0], kType{k: kInt})
	hi := t.value(cond.Y, kType{k: kInt})
	fuel := "(Int.toNat ((" + hi + " - " + start + ") + (1 : Int)))"
	if cond.Op == token.LSS {
		fuel = "(Int.toNat (" + hi + " - " + start + "))"
	}
	lp := kFor{start: start, fuel: fuel, pos: x.Pos(), vars: append([]kVar(nil), t.scope...)}
	savedV := map[types.Object]string{}
	for k, v := range t.vars {
		savedV[k] = v
	}
	savedN := map[string]kType{}
	for k, v := range t.names {
		savedN[k] = v
	}
	nscope := len(t.scope)
	lp.idx = t.declare(iv, kType{k: kInt})
	if lp.idx == "fuel_" {
		t.fail(x, "variable name fuel_ is reserved")
	}
	t.inLoop++
	t.inFuel = true
	sw := t.inSwitch
	t.inSwitch = 0
	lp.body = t.block(x.Body.List)
	t.inSwitch = sw
	t.inFuel = false
	t.inLoop--
	t.vars, t.names, t.scope = savedV, savedN, t.scope[:nscope:nscope]
	var asg []kLet
	outerAssigned(lp.body, map[string]bool{}, map[string]bool{}, &asg)
	bound := identsOf(cond.Y)
	for _, a := range asg {
		if a.name == lp.idx {
			t.fail(x, "loop body assigns the loop variable `%s`", a.name)
		}
		for b := range bound {
			if a.name == mangle(b) {
				t.fail(x, "loop body assigns `%s`, which the loop bound reads", b)
			}
		}
	}
	return []kStmt{lp}
}

// recordLit translates &T{f: e, ..} for a struct of kernelSpec.structs.
func (t *ktr) recordLit(e ast.Expr, wantLean string) string {
	e = unparen(e)
	if u, ok := e.(*ast.UnaryExpr); ok && u.Op == token.AND {
		e = u.X
	}
	cl, ok := e.(*ast.CompositeLit)
	if !ok {
		t.fail(e, "`%s` where a struct literal is expected", exprStr(e))
	}
	ty := t.info.Types[cl].Type
	nt, ok := types.Unalias(ty).(*types.Named)
	if !ok {
		t.fail(e, "literal of type %s", ty)
	}
	sp, ok := t.spec.structs[nt.Obj().Name()]
	if !ok || sp.lean != wantLean {
		t.fail(e, "literal of struct %s, which is not in the struct table of %s (for %s)", nt.Obj().Name(), t.spec.goName, wantLean)
	}
	given := map[string]bool{}
	var parts []string
	for _, el := range cl.Elts {
		kv, ok := el.(*ast.KeyValueExpr)
		if !ok {
			t.fail(el, "struct literal without field names")
		}
		k := exprStr(kv.Key)
		tmpl, ok := sp.fields[k]
		if !ok {
			t.fail(kv, "field `%s` of %s is not in the struct table", k, nt.Obj().Name())
		}
		given[k] = true
		if tmpl == "" {
			continue // a field that is NOT translated (its value is not even inspected)
		}
		var v string
		if kid, isID := kv.Key.(*ast.Ident); isID && t.info.Uses[kid] != nil && isEmptyInterface(t.info.Uses[kid].Type()) {
			v = t.anyValue(kv.Value)
		} else {
			v, _ = t.expr(kv.Value)
		}
		parts = append(parts, strings.ReplaceAll(tmpl, "%", v))
	}
	var missing []string
	for f, tmpl := range sp.fields {
		if !given[f] && tmpl != "" {
			missing = append(missing, f)
		}
	}
	sort.Strings(missing)
	if len(missing) > 0 {
		t.fail(e, "struct literal leaves the fields %v to their zero value", missing)
	}
	return "({ " + strings.Join(parts, ", ") + " } : " + sp.lean + ")"
}

func isEmptyInterface(ty types.Type) bool {
	it, ok := types.Unalias(ty).Underlying().(*types.Interface)
	return ok && it.NumMethods() == 0
}

// anyValue translates an expression stored in a Go `any`: the value tagged with its dynamic
// type (Acme.GoSem.Any).  A float64 is the marker Any.float64 WITHOUT its value (kernelSpec.
// opaqueFloat: the expression is not translated — float arithmetic is outside the translator).
func (t *ktr) anyValue(e ast.Expr) string {
	e = unparen(e)
	tv := t.info.Types[e]
	if tv.Type == nil {
		t.fail(e, "expression `%s` without a type", exprStr(e))
	}
	if tv.IsNil() {
		return "Acme.GoSem.Any.nil"
	}
	if isEmptyInterface(tv.Type) {
		s, ty := t.expr(e)
		if ty.k != kAny {
			t.fail(e, "`%s` stored in an any", exprStr(e))
		}
		return s
	}
	ty := tv.Type
	if b, ok := ty.(*types.Basic); ok && b.Info()&types.IsUntyped != 0 {
		ty = types.Default(ty) // an untyped constant is stored with its default type
	}
	b, ok := types.Unalias(ty).(*types.Basic)
	if !ok {
		t.fail(e, "value of type %s stored in an any (only bool, int64, uint64, string and — as a marker — float64)", ty)
	}
	switch b.Kind() {
	case types.Float64:
		if !t.spec.opaqueFloat {
			t.fail(e, "float64 stored in an any in a kernel without opaqueFloat")
		}
		return "Acme.GoSem.Any.float64"
	case types.Bool:
		s, _ := t.expr(e)
		return "(Acme.GoSem.Any.bool " + s + ")"
	case types.Int64:
		s, _ := t.expr(e)
		return "(Acme.GoSem.Any.int64 " + s + ")"
	case types.Uint64:
		s, _ := t.expr(e)
		return "(Acme.GoSem.Any.uint64 " + s + ")"
	case types.String:
		s, sty := t.expr(e)
		if sty.k != kStr {
			t.fail(e, "string `%s` stored in an any in a kernel without a string type in its type table", exprStr(e))
		}
		return "(Acme.GoSem.Any.str " + s + ")"
	}
	t.fail(e, "value of type %s stored in an any (only bool, int64, uint64, string and — as a marker — float64)", ty)
	return ""
}

// recordListStmt: xs := []*T{} and xs = append(xs, &T{..}) for local lists of records
func (t *ktr) recordListStmt(x *ast.AssignStmt) ([]kStmt, bool) {
	if len(x.Lhs) != 1 || len(x.Rhs) != 1 || len(t.spec.structs) == 0 {
		return nil, false
	}
	if x.Tok == token.DEFINE {
		cl, ok := unparen(x.Rhs[0]).(*ast.CompositeLit)
		id, isID := x.Lhs[0].(*ast.Ident)
		if !ok || !isID || len(cl.Elts) != 0 {
			return nil, false
		}
		sl, isSlice := t.info.Types[cl].Type.Underlying().(*types.Slice)
		if !isSlice {
			return nil, false
		}
		et := sl.Elem()
		if p, isPtr := et.(*types.Pointer); isPtr {
			et = p.Elem()
		}
		nt, isNamed := types.Unalias(et).(*types.Named)
		if !isNamed {
			return nil, false
		}
		sp, ok := t.spec.structs[nt.Obj().Name()]
		if !ok {
			return nil, false
		}
		ty := kType{k: kList, elem: sp.lean}
		return []kStmt{kLet{t.declare(id, ty), "[]", ty, true}}, true
	}
	if x.Tok == token.ASSIGN {
		id, ok := unparen(x.Lhs[0]).(*ast.Ident)
		if !ok {
			return nil, false
		}
		name, ok := t.vars[t.info.Uses[id]]
		if !ok || t.names[name].k != kList || t.names[name].elem == "Int" {
			return nil, false
		}
		call, isCall := unparen(x.Rhs[0]).(*ast.CallExpr)
		if !isCall || exprStr(call.Fun) != "append" || len(call.Args) != 2 || call.Ellipsis.IsValid() || exprStr(call.Args[0]) != id.Name {
			t.fail(x, "assignment `%s` to a local slice (only xs = append(xs, &T{..}))", exprStr(x))
		}
		return []kStmt{kLet{name, "(" + name + " ++ [" + t.recordLit(call.Args[1], t.names[name].elem) + "])", t.names[name], false}}, true
	}
	return nil, false
}
