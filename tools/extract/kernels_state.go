// State-passing translation of methods that MUTATE their receiver (the state-changing half of
// signal_layout.go).  The receiver's slice `sl.signals` is an input `sigs : List elem` AND an
// output: the generated function returns the new list (then the new `sl.size` when the function
// assigns it, then the Go result, if any).  Inside the translation `sigs` (and `cap`) are ordinary
// mutable variables: every mutation shadows them.
//
//	x.setRelativeStartPos(e)      x the range variable of a loop over the slice: the current
//	                              element is replaced by { x with start := e } (see the loop form
//	                              below); x the argument signal (kState.arg): its start variable is
//	                              assigned and every list element with the SAME ENTITY ID gets the
//	                              new start (the list holds pointers: an element that is the
//	                              argument signal is aliased; pointer identity ↦ entity id);
//	                              after a setter every other element variable is stale (reading it
//	                              is an error of the translator: it could alias the mutated one)
//	sl.signals = append(sl.signals, sig)          ↦ sigs ++ [argument slot]
//	sl.signals = slices.Insert(sl.signals, i, sig) ↦ List.insertIdx sigs i.toNat (argument slot)
//	sl.signals = slices.DeleteFunc(sl.signals, func(s T) bool { return c }) ↦ sigs.filter (¬ c)
//	sl.signals = []T{} / nil / sl.signals[:0]      ↦ []
//	sl.size = e                                     ↦ cap (a second output, kState.outSize)
//	sl.generateFilters(), sl.filters = ..           ignored (kState.ignoreCalls / ignoreAssign):
//	                              the filters are derived data, a function of the signal list
//	for [i,] x := range sl.signals { .. }  ↦  F_loopN vs [i] (pre_ : List elem) : List elem → ρ
//	      | []         => let sigs := pre_; F_afterN vs
//	      | x :: rest_ => let sigs := pre_ ++ x :: rest_; body
//	                      (continue / end of body ↦ F_loopN vs [(i+1)] (pre_ ++ [x]) rest_)
//	                              so the list seen inside the body (len, sl.signals[j], the value
//	                              returned at a break) always contains the elements as modified by
//	                              the earlier iterations; a structural reassignment of sl.signals
//	                              inside the body must be followed by break / return
//	var p T ; p = sl.signals[j] ; p = nil ; if p != nil { .. }   nilable element variables ↦
//	                              Option elem (`match p with | some p => .. | none => ..`)
//	if err := sl.check(..); err != nil { return &E{.., Err: err} }   calls of earlier whitelisted
//	                              receiver methods (their parameterised reads are resolved through
//	                              the caller's table), error variables, the cause passed through
package main

import (
	"go/ast"
	"go/token"
	"go/types"
	"sort"
	"strings"
)

// kVia: a parameter that the function only hands on to a whitelisted callee (the callee's
// parameterised read `expr`, e.g. `sl.size` for sl.verifyBeforeAppend), or the components of the
// argument signal.
type kVia struct {
	expr, name string
	ty         kType
}

type kState struct {
	slice        string // the mutable slice (an entry of kernelSpec.slices)
	size         string // the size field ("" when not used)
	outSize      bool   // the function assigns the size: it is an output
	outOnly      bool   // the slice is only assigned (never read): an output, not a parameter
	ignoreCalls  []string
	ignoreAssign []string
	setter       string // method of an element that assigns ..
	setField     string // .. this field of the Lean element
	arg          string // Go parameter that is the argument signal ("" when none)
}

// kOrigin: where a Lean parameter of a kernel comes from (to translate calls of the kernel)
type kOrigin struct {
	goParam int    // index into receiver+parameters, or -1
	root    int    // for a parameterised read: index of its root in receiver+parameters
	suffix  string // the read without the root identifier
}

// kBind: name := call of a kernel that may panic
type kBind struct {
	name, call string
	ty         kType
}

// kStruct marks a structural reassignment of the state slice (inside a loop: no continue after it)
type kStruct struct{}

const kElemOpt kKind = 100 // nilable element variable ↦ Option elem

func (t *ktr) stateSlice() *kSlice {
	for i := range t.spec.slices {
		if t.spec.slices[i].expr == t.spec.state.slice {
			return &t.spec.slices[i]
		}
	}
	t.fail(nil, "state slice %s is not in the slice table", t.spec.state.slice)
	return nil
}

func (t *ktr) resolveText(text string, at ast.Node) string {
	f, ok := t.fields[text]
	if !ok {
		t.fail(at, "`%s` is needed here but is not in the parameterisation table of %s", text, t.spec.goName)
	}
	f.used = true
	return f.f.name
}

// argSlot is the argument signal as an element: its components are the parameterised reads
// <arg>.<getter>() of the projection table.
func (t *ktr) argSlot(at ast.Node) string {
	sl := t.stateSlice()
	var ms []string
	for m := range sl.proj {
		ms = append(ms, m)
	}
	sort.Slice(ms, func(i, j int) bool { return sl.proj[ms[i]] < sl.proj[ms[j]] })
	var parts []string
	for _, m := range ms {
		parts = append(parts, sl.proj[m]+" := "+t.resolveText(t.spec.state.arg+"."+m+"()", at))
	}
	return "({ " + strings.Join(parts, ", ") + " } : " + sl.elem + ")"
}

func (t *ktr) isArg(e ast.Expr) bool {
	id, ok := unparen(e).(*ast.Ident)
	return ok && t.spec.state.arg != "" && id.Name == t.spec.state.arg && t.vars[t.info.Uses[id]] == ""
}

func (t *ktr) markStale(except string) {
	for _, v := range t.scope {
		if (v.ty.k == kElem || v.ty.k == kElemOpt) && v.name != except {
			t.stale[v.name] = true
		}
	}
}

// listExpr translates a slice-valued right-hand side.
func (t *ktr) listExpr(e ast.Expr) string {
	e = unparen(e)
	if f := t.fieldMatch(e); f != nil && f.ty.k == kList {
		f.used = true
		return f.f.name
	}
	switch x := e.(type) {
	case *ast.Ident:
		if _, isNil := t.info.Uses[x].(*types.Nil); isNil {
			return "[]"
		}
		if name, ok := t.vars[t.info.Uses[x]]; ok && t.names[name].k == kList && t.names[name].elem == t.stateSlice().elem {
			return name
		}
	case *ast.CompositeLit:
		if len(x.Elts) == 0 {
			return "[]"
		}
	case *ast.SliceExpr:
		if x.Low == nil && x.High != nil && !x.Slice3 {
			if tv := t.info.Types[x.High]; tv.Value != nil && tv.Value.ExactString() == "0" {
				t.listExpr(x.X)
				return "[]"
			}
		}
	case *ast.CallExpr:
		fun := exprStr(x.Fun)
		switch {
		case fun == "append" && len(x.Args) == 2 && !x.Ellipsis.IsValid() && t.isArg(x.Args[1]):
			return "(" + t.listExpr(x.Args[0]) + " ++ [" + t.argSlot(x) + "])"
		case fun == "slices.Insert" && len(x.Args) == 3 && t.isArg(x.Args[2]):
			l := t.listExpr(x.Args[0])
			return "(List.insertIdx " + l + " (Int.toNat " + t.value(x.Args[1], kType{k: kInt}) + ") " + t.argSlot(x) + ")"
		case fun == "slices.DeleteFunc" && len(x.Args) == 2:
			fl, ok := unparen(x.Args[1]).(*ast.FuncLit)
			if !ok || len(fl.Type.Params.List) != 1 || len(fl.Type.Params.List[0].Names) != 1 || len(fl.Body.List) != 1 {
				t.fail(x, "slices.DeleteFunc with a predicate that is not `func(s T) bool { return c }`")
			}
			ret, ok := fl.Body.List[0].(*ast.ReturnStmt)
			if !ok || len(ret.Results) != 1 {
				t.fail(x, "slices.DeleteFunc with a predicate that is not `func(s T) bool { return c }`")
			}
			l := t.listExpr(x.Args[0])
			id := fl.Type.Params.List[0].Names[0]
			elem := kType{k: kElem, elem: t.stateSlice().elem}
			nscope := len(t.scope)
			name := t.declare(id, elem)
			c := t.prop(ret.Results[0])
			delete(t.vars, t.info.Defs[id])
			delete(t.names, name)
			t.scope = t.scope[:nscope:nscope]
			return "(List.filter (fun " + name + " => !(decide " + c + ")) " + l + ")"
		}
	}
	t.fail(e, "slice expression `%s` (only append(s, <argument>), slices.Insert(s, i, <argument>), slices.DeleteFunc(s, pred), []T{}, nil, s[:0])", exprStr(e))
	return ""
}

// stateTuple is the result of a state-passing kernel: the list, the size when it is an output,
// then the Go result.
func (t *ktr) stateTuple(v string) string {
	st := t.spec.state
	parts := []string{t.fields[st.slice].f.name}
	if st.outSize {
		parts = append(parts, t.fields[st.size].f.name)
	}
	if v != "" {
		parts = append(parts, v)
	}
	if len(parts) == 1 {
		return parts[0]
	}
	return "(" + strings.Join(parts, ", ") + ")"
}

// kernelCall translates a call of an earlier whitelisted kernel whose Lean parameters are
// parameterised reads: each read is resolved in the caller's table.
func (t *ktr) kernelCall(c *ast.CallExpr) (string, *kernelOut, bool) {
	var obj types.Object
	var recv ast.Expr
	switch f := unparen(c.Fun).(type) {
	case *ast.Ident:
		obj = t.info.Uses[f]
	case *ast.SelectorExpr:
		obj = t.info.Uses[f.Sel]
		recv = f.X
	}
	k, ok := t.funcs[obj]
	if !ok || k.origins == nil {
		return "", nil, false
	}
	actual := func(i int) ast.Expr { // i indexes receiver+parameters of the callee
		if k.hasRecv {
			if i == 0 {
				return recv
			}
			i--
		}
		if i < len(c.Args) {
			return c.Args[i]
		}
		return nil
	}
	s := "(" + k.spec.lean
	for _, o := range k.origins {
		if o.goParam >= 0 {
			a := actual(o.goParam)
			if a == nil {
				t.fail(c, "call of %s with too few arguments", k.spec.goName)
			}
			as, _ := t.expr(a)
			s += " " + as
			continue
		}
		a := actual(o.root)
		if a == nil {
			t.fail(c, "call of %s: no actual for a parameterised read", k.spec.goName)
		}
		if id, isID := unparen(a).(*ast.Ident); isID {
			if name, isVar := t.vars[t.info.Uses[id]]; isVar && t.names[name].k == kElem {
				// the actual is an element of a parameterised slice: the callee's read `x.f` /
				// `x.M()` is the projection of the element
				member := strings.TrimSuffix(strings.TrimPrefix(o.suffix, "."), "()")
				ps, _, ok := t.projection(a, member, c)
				if !ok {
					t.fail(c, "call of %s: `%s%s` is not a projection of the element `%s`", k.spec.goName, id.Name, o.suffix, id.Name)
				}
				s += " " + ps
				continue
			}
		}
		s += " " + t.resolveText(exprStr(a)+o.suffix, c)
	}
	return s + ")", k, true
}

// stateStmt translates the statements that only occur in state-passing kernels.
func (t *ktr) stateStmt(s ast.Stmt) ([]kStmt, bool) {
	st := t.spec.state
	in := func(list []string, x string) bool {
		for _, y := range list {
			if x == y {
				return true
			}
		}
		return false
	}
	sigs := func() *kFieldUse { f := t.fields[st.slice]; f.used = true; return f }
	switch x := s.(type) {
	case *ast.ExprStmt:
		call, ok := unparen(x.X).(*ast.CallExpr)
		if !ok {
			return nil, false
		}
		if in(st.ignoreCalls, exprStr(call)) {
			return nil, true
		}
		sel, ok := unparen(call.Fun).(*ast.SelectorExpr)
		if !ok || sel.Sel.Name != st.setter || len(call.Args) != 1 {
			t.fail(x, "call statement `%s` (only the element setter %s and the ignored calls %v)", exprStr(x), st.setter, st.ignoreCalls)
		}
		v := t.value(call.Args[0], kType{k: kInt})
		if t.isArg(sel.X) {
			if t.inLoop > 0 {
				t.fail(x, "setter on the argument signal inside a loop")
			}
			sl := t.stateSlice()
			getter := ""
			for m, f := range sl.proj {
				if f == st.setField {
					getter = m
				}
			}
			cur := t.resolveText(st.arg+"."+getter+"()", x)
			idm := ""
			for m, f := range sl.proj {
				if f == "id" {
					idm = m
				}
			}
			id := t.resolveText(st.arg+"."+idm+"()", x)
			lf := sigs()
			t.markStale("")
			return []kStmt{
				kLet{cur, v, kType{k: kInt}, false},
				kLet{lf.f.name, "(List.map (fun s_ => if s_.id = " + id + " then { s_ with " + st.setField + " := " + cur + " } else s_) " + lf.f.name + ")", lf.ty, false},
			}, true
		}
		id, ok := unparen(sel.X).(*ast.Ident)
		if !ok {
			t.fail(x, "setter on `%s`", exprStr(sel.X))
		}
		name, ok := t.vars[t.info.Uses[id]]
		if !ok || t.names[name].k != kElem {
			t.fail(x, "setter on `%s`, which is not an element variable", id.Name)
		}
		if t.alias[name] && t.loopElem == "cur_" {
			lf := sigs()
			t.markStale(name)
			delete(t.stale, "cur_")
			return []kStmt{
				kLet{"cur_", "{ cur_ with " + st.setField + " := " + v + " }", t.names[name], false},
				kLet{name, "cur_", t.names[name], false},
				kLet{lf.f.name, "(pre_ ++ cur_ :: rest_)", lf.ty, false},
			}, true
		}
		if t.loopElem == "" || name != t.loopElem {
			t.fail(x, "setter on the element variable `%s`, which is not the range variable of the enclosing loop over %s", id.Name, st.slice)
		}
		lf := sigs()
		t.markStale(name)
		return []kStmt{
			kLet{name, "{ " + name + " with " + st.setField + " := " + v + " }", t.names[name], false},
			kLet{lf.f.name, "(pre_ ++ " + name + " :: rest_)", lf.ty, false},
		}, true
	case *ast.AssignStmt:
		if len(x.Lhs) != 1 || len(x.Rhs) != 1 {
			return nil, false
		}
		lhs := exprStr(x.Lhs[0])
		if x.Tok == token.ASSIGN {
			switch {
			case lhs == st.slice:
				lf := sigs()
				rhs := t.listExpr(x.Rhs[0])
				t.markStale("")
				return []kStmt{kLet{lf.f.name, rhs, lf.ty, false}, kStruct{}}, true
			case st.size != "" && lhs == st.size:
				if !st.outSize {
					t.fail(x, "assignment to %s in a kernel whose size is not an output", st.size)
				}
				f := t.fields[st.size]
				f.used = true
				return []kStmt{kLet{f.f.name, t.value(x.Rhs[0], f.ty), f.ty, false}}, true
			case in(st.ignoreAssign, lhs):
				return nil, true
			}
			// xs = append(xs, e) for a local []int
			if id, ok := unparen(x.Lhs[0]).(*ast.Ident); ok {
				if name, ok := t.vars[t.info.Uses[id]]; ok && t.names[name].k == kList && t.names[name].elem == "Int" {
					call, isCall := unparen(x.Rhs[0]).(*ast.CallExpr)
					if isCall && exprStr(call.Fun) == "append" && len(call.Args) == 2 && !call.Ellipsis.IsValid() && exprStr(call.Args[0]) == id.Name {
						return []kStmt{kLet{name, "(" + name + " ++ [" + t.value(call.Args[1], kType{k: kInt}) + "])", t.names[name], false}}, true
					}
					t.fail(x, "assignment `%s` to a local slice (only xs = append(xs, e))", exprStr(x))
				}
			}
			if id, ok := unparen(x.Lhs[0]).(*ast.Ident); ok {
				if name, ok := t.vars[t.info.Uses[id]]; ok && t.names[name].k == kElemOpt {
					ety := kType{k: kElem, elem: t.names[name].elem}
					rhs := unparen(x.Rhs[0])
					if rid, ok := rhs.(*ast.Ident); ok {
						if _, isNil := t.info.Uses[rid].(*types.Nil); isNil {
							return []kStmt{kLet{name, "none", t.names[name], false}}, true
						}
					}
					if ix, ok := rhs.(*ast.IndexExpr); ok {
						ls, lty := t.expr(ix.X)
						if lty.k != kList || lty.elem != ety.elem {
							t.fail(ix, "index into `%s`", exprStr(ix.X))
						}
						idx := t.value(ix.Index, kType{k: kInt})
						delete(t.stale, name)
						return []kStmt{kIndex{name: name, list: ls, idx: idx, ty: ety, opt: true}}, true
					}
					v, vty := t.expr(rhs)
					if vty == ety {
						delete(t.stale, name)
						return []kStmt{kLet{name, "(some " + v + ")", t.names[name], false}}, true
					}
					t.fail(x, "assignment of `%s` to a nilable element variable", exprStr(rhs))
				}
			}
			return nil, false
		}
		if x.Tok == token.DEFINE {
			// xs := []int{}
			if cl, ok := unparen(x.Rhs[0]).(*ast.CompositeLit); ok && len(cl.Elts) == 0 {
				if sl, isSlice := t.info.Types[cl].Type.Underlying().(*types.Slice); isSlice {
					if b, isBasic := sl.Elem().Underlying().(*types.Basic); isBasic && b.Kind() == types.Int {
						if id, isID := x.Lhs[0].(*ast.Ident); isID {
							ty := kType{k: kList, elem: "Int"}
							return []kStmt{kLet{t.declare(id, ty), "[]", ty, true}}, true
						}
					}
				}
			}
			if call, ok := unparen(x.Rhs[0]).(*ast.CallExpr); ok {
				if cs, k, ok := t.kernelCall(call); ok {
					id, isID := x.Lhs[0].(*ast.Ident)
					if !isID || len(k.res) != 1 {
						t.fail(x, "definition from a call of %s", k.spec.goName)
					}
					if k.mayPanic {
						return []kStmt{kBind{t.declare(id, k.res[0]), cs, k.res[0]}}, true
					}
					return []kStmt{kLet{t.declare(id, k.res[0]), cs, k.res[0], true}}, true
				}
			}
		}
	case *ast.ReturnStmt:
		if len(x.Results) == 0 {
			if len(t.res) != 0 {
				t.fail(x, "bare return in a function with results")
			}
			sigs()
			return []kStmt{kRet{t.stateTuple("")}}, true
		}
		if len(x.Results) != 1 || len(t.res) != 1 {
			t.fail(x, "return of %d values", len(x.Results))
		}
		sigs()
		return []kStmt{kRet{t.stateTuple(t.value(x.Results[0], t.res[0]))}}, true
	case *ast.IfStmt:
		if x.Init != nil {
			cp := *x
			cp.Init = nil
			return t.block([]ast.Stmt{x.Init, &cp}), true
		}
		// if p != nil { .. } for a nilable element variable p
		if b, ok := unparen(x.Cond).(*ast.BinaryExpr); ok && (b.Op == token.NEQ || b.Op == token.EQL) {
			var side ast.Expr
			if id, ok := unparen(b.Y).(*ast.Ident); ok {
				if _, isNil := t.info.Uses[id].(*types.Nil); isNil {
					side = b.X
				}
			}
			if id, ok := unparen(side).(*ast.Ident); side != nil && ok {
				if name, ok := t.vars[t.info.Uses[id]]; ok && t.names[name].k == kElemOpt {
					if x.Else != nil {
						if _, isBlock := x.Else.(*ast.BlockStmt); !isBlock {
							t.fail(x, "else-if after a nil test of an element variable")
						}
					}
					opt := t.names[name]
					some := func(list []ast.Stmt) []kStmt {
						t.names[name] = kType{k: kElem, elem: opt.elem}
						r := t.block(list)
						t.names[name] = opt
						return r
					}
					var thenS, elsS []ast.Stmt
					thenS = x.Body.List
					if x.Else != nil {
						elsS = x.Else.(*ast.BlockStmt).List
					}
					var a, bb []kStmt
					if b.Op == token.NEQ {
						a, bb = some(thenS), t.block(elsS)
					} else {
						bb, a = t.block(thenS), some(elsS)
					}
					return []kStmt{kIf{"", a, bb, "if", x.Pos(), name}}, true
				}
			}
		}
	}
	return nil, false
}

// countedLoop translates `for i := a; i < len(<state slice>); i++ { body }`: the loop over the
// elements from index a on (a stateful loop whose prefix starts as the first a elements); inside
// the body `<state slice>[i]` is the current element.
func (t *ktr) countedLoop(x *ast.ForStmt) []kStmt {
	st := t.spec.state
	if t.inLoop > 0 {
		t.fail(x, "nested loop")
	}
	bad := func() {
		t.fail(x, "for loop that is not `for i := a; i < len(%s); i++`", st.slice)
	}
	init, ok := x.Init.(*ast.AssignStmt)
	if !ok || init.Tok != token.DEFINE || len(init.Lhs) != 1 || len(init.Rhs) != 1 {
		bad()
	}
	iv, ok := init.Lhs[0].(*ast.Ident)
	if !ok {
		bad()
	}
	cond, ok := unparen(x.Cond).(*ast.BinaryExpr)
	if !ok || cond.Op != token.LSS || exprStr(cond.X) != iv.Name || exprStr(cond.Y) != "len("+st.slice+")" {
		bad()
	}
	post, ok := x.Post.(*ast.IncDecStmt)
	if !ok || post.Tok != token.INC || exprStr(post.X) != iv.Name {
		bad()
	}
	lf := t.fields[st.slice]
	lf.used = true
	start := t.value(init.Rhs[0], kType{k: kInt})
	elemTy := kType{k: kElem, elem: lf.ty.elem}
	lp := kLoop{list: lf.f.name, elem: "cur_", elemTy: elemTy, pos: x.Pos(), vars: append([]kVar(nil), t.scope...),
		stateful: true, listTy: lf.ty, start: start}
	savedV := map[types.Object]string{}
	for k, v := range t.vars {
		savedV[k] = v
	}
	savedN := map[string]kType{}
	for k, v := range t.names {
		savedN[k] = v
	}
	nscope := len(t.scope)
	lp.idx = t.declare(iv, kType{k: kInt})
	if _, clash := t.names["cur_"]; clash {
		t.fail(x, "variable name cur_ is reserved")
	}
	t.names["cur_"] = elemTy
	t.scope = append(t.scope, kVar{"cur_", elemTy})
	t.loopElem, t.countedIdx = "cur_", lp.idx
	t.inLoop++
	sw := t.inSwitch
	t.inSwitch = 0
	lp.body = t.block(x.Body.List)
	t.inSwitch = sw
	t.inLoop--
	t.loopElem, t.countedIdx = "", ""
	t.vars, t.names, t.scope = savedV, savedN, t.scope[:nscope:nscope]
	var asg []kLet
	outerAssigned(lp.body, map[string]bool{}, map[string]bool{}, &asg)
	for _, a := range asg {
		if a.name == lp.idx {
			t.fail(x, "loop body assigns the loop variable `%s`", a.name)
		}
	}
	return []kStmt{lp}
}
