package main

// Tie of the first kind for C12, the SCALAR half: every transfer of a scalar field between the
// in-memory model and the protobuf tree, regenerated from the go/ast + go/types of saver.go and
// loader.go on every run.
//
//	Acme.Gen.savedScalars  : every WRITE of a scalar schema field in saver.go
//	                         (function, schema message, field, wire type, the Go expression that is
//	                         saved, its Go type, the conversion applied, enclosing conditions)
//	Acme.Gen.loadedScalars : every READ of a scalar schema field in loader.go
//	                         (function, schema message, field, wire type, the conversion applied,
//	                         what the value is used for, enclosing conditions)
//
// A scalar schema field is an exported field of a struct of package proto/gen/go/acmelib/v1
// (messages and oneof wrappers) whose type is a basic type, an enum of the schema package, a
// `*timestamppb.Timestamp` or a slice of a basic type.  Sub-messages, repeated messages and oneof
// interfaces are structure (Acme.Save, C12Struct).
//
// The conversion is classified from the syntax AND the types:
//
//	saver   uint32(x) / int32(x) / string(x)   conversion call; x must be a plain read (field path,
//	                                           getter call, type assertion); the source type is kept
//	        x.String()                         on an EntityID
//	        timestamppb.New(x)
//	        s.f(x)                             f of saver.go = one switch returning constants  → table
//	        local variable                     assigned constants only, under ONE switch       → table
//	        constant of the schema package                                                     → const
//	        plain read                                                                         → none
//	loader  T(x) with T a type                 int, NodeID, MessageID, CANID, EntityID …
//	        x.M()                              method of the wire value (Timestamp.IsValid / AsTime)
//	        len(x)
//	        then the USE: call argument f#i, composite-literal key, assignment target, map key /
//	        map value, switch tag (→ table), condition
//
// ANYTHING ELSE (arithmetic on the way, a nested conversion, a value that flows through an
// unrecognised statement) makes the extractor exit 1 with the position: the obligation is broken,
// never silently mis-classified.

import (
	"fmt"
	"go/ast"
	"go/token"
	"go/types"
	"os"
	"path/filepath"
	"sort"
	"strings"

	"golang.org/x/tools/go/packages"
)

func init() { extraWriters = append(extraWriters, writeScalars) }

const scalarPkgSuffix = "proto/gen/go/acmelib/v1"

type scalarSave struct{ fn, msg, field, wire, expr, src, conv, guard string }
type scalarLoad struct{ fn, msg, field, wire, conv, use, guard string }

// The Lean side compares strings for equality only (the kernel evaluates the classification by
// `decide`): compound texts are split here.

// splitWire: "[]string" → ("string", "", true); "enum X" → ("enum", "X", false)
func splitWire(w string) (kind, name string, rep bool) {
	if strings.HasPrefix(w, "[]") {
		w, rep = w[2:], true
	}
	if strings.HasPrefix(w, "enum ") {
		return "enum", w[5:], rep
	}
	return w, "", rep
}

// splitType: "NodeID(uint32)" → ("uint32", "NodeID"); "int" → ("int", "")
func splitType(t string) (base, name string) {
	if i := strings.IndexByte(t, '('); i > 0 && strings.HasSuffix(t, ")") {
		return t[i+1 : len(t)-1], t[:i]
	}
	return t, ""
}

// splitColon: "table:NAME" → ("table", "NAME"); "none" → ("none", "")
func splitColon(c string) (kind, arg string) {
	if i := strings.IndexByte(c, ':'); i > 0 {
		return c[:i], c[i+1:]
	}
	return c, ""
}

func scalarDie(n ast.Node, fn, what string) {
	fmt.Fprintf(os.Stderr, "extract/scalars: %s: %s: unclassified scalar transfer: %s\n", fset.Position(n.Pos()), fn, what)
	os.Exit(1)
}

// wireType names the type of a scalar schema field ("" = not scalar).
func wireType(t types.Type) string {
	switch x := t.(type) {
	case *types.Basic:
		return x.Name()
	case *types.Named:
		if x.Obj().Pkg() != nil && strings.HasSuffix(x.Obj().Pkg().Path(), scalarPkgSuffix) {
			if _, ok := x.Underlying().(*types.Basic); ok {
				return "enum " + x.Obj().Name()
			}
		}
	case *types.Pointer:
		if n, ok := x.Elem().(*types.Named); ok && n.Obj().Pkg() != nil &&
			strings.HasSuffix(n.Obj().Pkg().Path(), "timestamppb") && n.Obj().Name() == "Timestamp" {
			return "timestamp"
		}
	case *types.Slice:
		if b, ok := x.Elem().(*types.Basic); ok {
			return "[]" + b.Name()
		}
	}
	return ""
}

// goType names a model-side type: `int`, `float64`, `NodeID(uint32)`, `EntityID(string)` …
func goType(t types.Type) string {
	if t == nil {
		return "?"
	}
	switch x := t.(type) {
	case *types.Basic:
		return x.Name()
	case *types.Named:
		if b, ok := x.Underlying().(*types.Basic); ok {
			return x.Obj().Name() + "(" + b.Name() + ")"
		}
		return x.Obj().Name()
	}
	return types.TypeString(t, func(p *types.Package) string { return p.Name() })
}

type scalarCtx struct {
	info   *types.Info
	saved  []scalarSave
	loaded []scalarLoad
	funcs  map[string]*ast.FuncDecl // functions of saver.go / loader.go by object name
	// constant tables met on the way: name → default constant ("" = the target keeps its value), pairs
	saveTables, loadTables map[string]*scalarTable
}

type scalarTable struct {
	def   string
	pairs [][2]string
}

func (c *scalarCtx) protoStruct(t types.Type) string {
	name, st := structOf(t, scalarPkgSuffix)
	if st == nil {
		return ""
	}
	return name
}

// schemaField: sel is `x.F` with x a schema struct and F a scalar field.
func (c *scalarCtx) schemaField(sel *ast.SelectorExpr) (msg, field, wire string, ok bool) {
	s, isSel := c.info.Selections[sel]
	if !isSel || s.Kind() != types.FieldVal {
		return
	}
	tv, has := c.info.Types[sel.X]
	if !has {
		return
	}
	msg = c.protoStruct(tv.Type)
	if msg == "" {
		return
	}
	wire = wireType(s.Obj().Type())
	if wire == "" {
		return "", "", "", false
	}
	return msg, sel.Sel.Name, wire, true
}

// plainRead: a field path, a getter call without arguments on one, or a type assertion of one.
func (c *scalarCtx) plainRead(e ast.Expr) bool {
	switch x := e.(type) {
	case *ast.Ident:
		return true
	case *ast.SelectorExpr:
		return c.plainRead(x.X)
	case *ast.ParenExpr:
		return c.plainRead(x.X)
	case *ast.TypeAssertExpr:
		return x.Type != nil && c.plainRead(x.X)
	case *ast.CallExpr:
		if len(x.Args) != 0 {
			return false
		}
		if tv, ok := c.info.Types[x.Fun]; ok && tv.IsType() {
			return false
		}
		sel, ok := x.Fun.(*ast.SelectorExpr)
		return ok && c.plainRead(sel.X)
	}
	return false
}

func (c *scalarCtx) isConst(e ast.Expr) bool {
	switch x := e.(type) {
	case *ast.Ident:
		_, ok := c.info.Uses[x].(*types.Const)
		return ok
	case *ast.SelectorExpr:
		_, ok := c.info.Uses[x.Sel].(*types.Const)
		return ok
	}
	return false
}

// constantSwitchOf: fd's body is one switch whose clauses return one constant each.
func (c *scalarCtx) constantSwitchOf(fd *ast.FuncDecl) (string, bool) {
	if fd == nil || fd.Body == nil || len(fd.Body.List) != 1 {
		return "", false
	}
	sw, ok := fd.Body.List[0].(*ast.SwitchStmt)
	if !ok || sw.Tag == nil {
		return "", false
	}
	t := &scalarTable{}
	for _, cl := range sw.Body.List {
		cc := cl.(*ast.CaseClause)
		if len(cc.Body) != 1 {
			return "", false
		}
		rs, ok := cc.Body[0].(*ast.ReturnStmt)
		if !ok || len(rs.Results) != 1 || !c.isConst(rs.Results[0]) {
			return "", false
		}
		if len(cc.List) == 0 {
			t.def = exprStr(rs.Results[0])
		}
		for _, k := range cc.List {
			if !c.isConst(k) {
				return "", false
			}
			t.pairs = append(t.pairs, [2]string{exprStr(k), exprStr(rs.Results[0])})
		}
	}
	name := funcName(fd) + ": switch " + exprStr(sw.Tag)
	c.saveTables[name] = t
	return name, true
}

// pathTo returns the chain of nodes from root down to target (inclusive).
func pathTo(root ast.Node, target ast.Node) []ast.Node {
	var stack, res []ast.Node
	ast.Inspect(root, func(n ast.Node) bool {
		if res != nil {
			return false
		}
		if n == nil {
			stack = stack[:len(stack)-1]
			return true
		}
		stack = append(stack, n)
		if n == target {
			res = append([]ast.Node{}, stack...)
			return false
		}
		return true
	})
	return res
}

// guardOf renders the conditions that enclose the last node of the path.
func guardOf(path []ast.Node) string {
	var gs []string
	for i := 0; i+1 < len(path); i++ {
		switch x := path[i].(type) {
		case *ast.IfStmt:
			next := path[i+1]
			switch {
			case next == ast.Node(x.Body):
				g := exprStr(x.Cond)
				if x.Init != nil {
					g = exprStr(x.Init) + "; " + g
				}
				gs = append(gs, g)
			case x.Else != nil && next == x.Else:
				gs = append(gs, "!("+exprStr(x.Cond)+")")
			}
		case *ast.CaseClause:
			var sw string
			for j := i - 1; j >= 0; j-- {
				if s, ok := path[j].(*ast.SwitchStmt); ok {
					sw = "switch " + exprStr(s.Tag)
					break
				}
				if s, ok := path[j].(*ast.TypeSwitchStmt); ok {
					sw = "switch " + exprStr(s.Assign)
					break
				}
			}
			inBody := false
			for _, b := range x.Body {
				if path[i+1] == ast.Node(b) {
					inBody = true
				}
			}
			if !inBody {
				continue
			}
			cs := "default"
			if len(x.List) > 0 {
				var xs []string
				for _, e := range x.List {
					xs = append(xs, exprStr(e))
				}
				cs = "case " + strings.Join(xs, ", ")
			}
			gs = append(gs, cs+" of "+sw)
		case *ast.ForStmt, *ast.RangeStmt:
			// loops do not condition the transfer of the element they visit
		}
	}
	return strings.Join(gs, " && ")
}

// ---- saver side ----

// classifySaved classifies the right-hand side written to a scalar schema field.
func (c *scalarCtx) classifySaved(fd *ast.FuncDecl, rhs ast.Expr) (expr, src, conv string) {
	fn := funcName(fd)
	typeOf := func(e ast.Expr) string {
		if tv, ok := c.info.Types[e]; ok {
			return goType(tv.Type)
		}
		return "?"
	}
	switch x := rhs.(type) {
	case *ast.ParenExpr:
		return c.classifySaved(fd, x.X)
	case *ast.CallExpr:
		// conversion T(x)
		if tv, ok := c.info.Types[x.Fun]; ok && tv.IsType() {
			if len(x.Args) != 1 || !c.plainRead(x.Args[0]) {
				scalarDie(rhs, fn, "conversion of something that is not a plain read: "+exprStr(rhs))
			}
			return exprStr(x.Args[0]), typeOf(x.Args[0]), exprStr(x.Fun)
		}
		if sel, ok := x.Fun.(*ast.SelectorExpr); ok {
			// x.String() on an entity id
			if len(x.Args) == 0 && sel.Sel.Name == "String" && c.plainRead(sel.X) {
				if t := typeOf(sel.X); t == "EntityID(string)" {
					return exprStr(sel.X), t, "EntityID.String"
				}
			}
			// timestamppb.New(x)
			if exprStr(x.Fun) == "timestamppb.New" && len(x.Args) == 1 && c.plainRead(x.Args[0]) {
				return exprStr(x.Args[0]), typeOf(x.Args[0]), "timestamppb.New"
			}
			// a table function of the same file
			if len(x.Args) == 1 && c.plainRead(x.Args[0]) {
				if obj, ok := c.info.Uses[sel.Sel].(*types.Func); ok {
					if name, ok := c.constantSwitchOf(c.funcs[obj.FullName()]); ok {
						return exprStr(x.Args[0]), typeOf(x.Args[0]), "table:" + name
					}
				}
			}
		}
		if c.plainRead(rhs) { // getter: sig.StartValue()
			return exprStr(rhs), typeOf(rhs), "none"
		}
		scalarDie(rhs, fn, "call "+exprStr(rhs))
	case *ast.Ident:
		if c.isConst(x) {
			return exprStr(x), typeOf(x), "const"
		}
		obj := c.info.Uses[x]
		if v, ok := obj.(*types.Var); ok && !v.IsField() && wireType(v.Type()) != "" && strings.HasPrefix(wireType(v.Type()), "enum ") {
			// a local of an enum type of the schema: every assignment must be a constant, the
			// non-initial ones under one switch
			var tag string
			var tagExpr ast.Expr
			ok := true
			tbl := &scalarTable{}
			ast.Inspect(fd.Body, func(n ast.Node) bool {
				as, isAs := n.(*ast.AssignStmt)
				if !isAs {
					return true
				}
				for i, l := range as.Lhs {
					id, isID := l.(*ast.Ident)
					if !isID {
						continue
					}
					o := c.info.Defs[id]
					if o == nil {
						o = c.info.Uses[id]
					}
					if o != obj {
						continue
					}
					if i >= len(as.Rhs) || !c.isConst(as.Rhs[i]) {
						ok = false
						continue
					}
					if as.Tok == token.DEFINE {
						tbl.def = exprStr(as.Rhs[i]) // the initial (unspecified) value
						continue
					}
					p := pathTo(fd.Body, as)
					var sw *ast.SwitchStmt
					var cc *ast.CaseClause
					for j := len(p) - 1; j >= 0; j-- {
						if s, isSw := p[j].(*ast.SwitchStmt); isSw {
							sw = s
							break
						}
						if s, isCC := p[j].(*ast.CaseClause); isCC && cc == nil {
							cc = s
						}
					}
					if sw == nil || sw.Tag == nil || cc == nil || len(cc.List) == 0 {
						ok = false
						continue
					}
					for _, k := range cc.List {
						if !c.isConst(k) {
							ok = false
						}
						tbl.pairs = append(tbl.pairs, [2]string{exprStr(k), exprStr(as.Rhs[i])})
					}
					if tag == "" {
						tag, tagExpr = exprStr(sw.Tag), sw.Tag
					} else if tag != exprStr(sw.Tag) {
						ok = false
					}
				}
				return true
			})
			if !ok || tag == "" {
				scalarDie(rhs, fn, "local "+x.Name+" is not a constant table over one switch")
			}
			c.saveTables[fn+": switch "+tag] = tbl
			return tag, typeOf(tagExpr), "table:" + fn + ": switch " + tag
		}
		if c.plainRead(rhs) {
			return exprStr(rhs), typeOf(rhs), "none"
		}
	case *ast.SelectorExpr:
		if c.isConst(x) {
			return exprStr(x), typeOf(x), "const"
		}
		if c.plainRead(rhs) {
			return exprStr(rhs), typeOf(rhs), "none"
		}
	case *ast.TypeAssertExpr:
		if c.plainRead(rhs) {
			return exprStr(rhs), typeOf(rhs), "none"
		}
	}
	scalarDie(rhs, fn, exprStr(rhs))
	return
}

func (c *scalarCtx) saverFunc(fd *ast.FuncDecl) {
	fn := funcName(fd)
	add := func(at ast.Node, msg, field, wire string, rhs ast.Expr) {
		expr, src, conv := c.classifySaved(fd, rhs)
		path := pathTo(fd.Body, at)
		if conv == "const" {
			// a constant written under a case of a switch over a model value is one row of a table:
			// the writes of one field under the clauses of one switch are merged into one transfer
			var sw *ast.SwitchStmt
			var cc *ast.CaseClause
			for j := len(path) - 1; j >= 0; j-- {
				if s, ok := path[j].(*ast.CaseClause); ok && cc == nil {
					cc = s
				}
				if s, ok := path[j].(*ast.SwitchStmt); ok {
					sw = s
					break
				}
			}
			if sw != nil && sw.Tag != nil && cc != nil && len(cc.List) > 0 {
				name := fn + ": switch " + exprStr(sw.Tag) + " → " + msg + "." + field
				t := c.saveTables[name]
				if t == nil {
					t = &scalarTable{}
					c.saveTables[name] = t
				}
				for _, k := range cc.List {
					if !c.isConst(k) {
						scalarDie(at, fn, "constant written under a non-constant case")
					}
					t.pairs = append(t.pairs, [2]string{exprStr(k), expr})
				}
				src = "?"
				if tv, ok := c.info.Types[sw.Tag]; ok {
					src = goType(tv.Type)
				}
				for _, prev := range c.saved {
					if prev.fn == fn && prev.msg == msg && prev.field == field && prev.conv == "table:"+name {
						return
					}
				}
				// the guard of the merged transfer is the guard of the switch
				c.saved = append(c.saved, scalarSave{fn, msg, field, wire, exprStr(sw.Tag), src, "table:" + name, guardOf(pathTo(fd.Body, sw))})
				return
			}
		}
		c.saved = append(c.saved, scalarSave{fn, msg, field, wire, expr, src, conv, guardOf(path)})
	}
	ast.Inspect(fd.Body, func(n ast.Node) bool {
		switch x := n.(type) {
		case *ast.AssignStmt:
			for i, l := range x.Lhs {
				sel, ok := l.(*ast.SelectorExpr)
				if !ok {
					continue
				}
				msg, field, wire, ok := c.schemaField(sel)
				if !ok {
					continue
				}
				if len(x.Lhs) != len(x.Rhs) || x.Tok != token.ASSIGN {
					scalarDie(x, fn, "write of "+msg+"."+field+" in an unsupported assignment form")
				}
				rhs := x.Rhs[i]
				if strings.HasPrefix(wire, "[]") {
					call, ok := rhs.(*ast.CallExpr)
					if !ok || exprStr(call.Fun) != "append" || len(call.Args) != 2 || exprStr(call.Args[0]) != exprStr(sel) {
						scalarDie(x, fn, "repeated scalar field "+msg+"."+field+" written by something else than append(field, x)")
					}
					rhs = call.Args[1]
				}
				add(x, msg, field, wire, rhs)
			}
		case *ast.IncDecStmt:
			if sel, ok := x.X.(*ast.SelectorExpr); ok {
				if msg, field, _, ok := c.schemaField(sel); ok {
					scalarDie(x, fn, "in-place update of "+msg+"."+field)
				}
			}
		case *ast.CompositeLit:
			tv, ok := c.info.Types[x]
			if !ok {
				return true
			}
			msg := c.protoStruct(tv.Type)
			if msg == "" {
				return true
			}
			_, st := structOf(tv.Type, scalarPkgSuffix)
			for _, e := range x.Elts {
				kv, ok := e.(*ast.KeyValueExpr)
				if !ok {
					scalarDie(e, fn, "positional composite literal of "+msg)
				}
				id, ok := kv.Key.(*ast.Ident)
				if !ok {
					continue
				}
				for i := 0; i < st.NumFields(); i++ {
					if st.Field(i).Name() == id.Name {
						if wire := wireType(st.Field(i).Type()); wire != "" {
							add(kv, msg, id.Name, wire, kv.Value)
						}
					}
				}
			}
		case *ast.UnaryExpr:
			// &pX.F of a scalar field would let the value escape the inventory
			if x.Op == token.AND {
				if sel, ok := x.X.(*ast.SelectorExpr); ok {
					if msg, field, _, ok := c.schemaField(sel); ok {
						scalarDie(x, fn, "address of "+msg+"."+field)
					}
				}
			}
		}
		return true
	})
}

// ---- loader side ----

func (c *scalarCtx) loaderFunc(fd *ast.FuncDecl) {
	fn := funcName(fd)
	written := map[ast.Node]bool{}
	ast.Inspect(fd.Body, func(n ast.Node) bool {
		if as, ok := n.(*ast.AssignStmt); ok {
			for _, l := range as.Lhs {
				if sel, ok := l.(*ast.SelectorExpr); ok {
					if msg, field, _, ok := c.schemaField(sel); ok {
						scalarDie(as, fn, "the loader writes the schema field "+msg+"."+field)
					}
					written[sel] = true
				}
			}
		}
		return true
	})
	var stack []ast.Node
	ast.Inspect(fd.Body, func(n ast.Node) bool {
		if n == nil {
			stack = stack[:len(stack)-1]
			return true
		}
		stack = append(stack, n)
		var msg, field, wire string
		switch x := n.(type) {
		case *ast.SelectorExpr:
			if written[x] {
				return true
			}
			m, f, w, ok := c.schemaField(x)
			if !ok {
				return true
			}
			msg, field, wire = m, f, w
		case *ast.CallExpr:
			sel, ok := x.Fun.(*ast.SelectorExpr)
			if !ok || len(x.Args) != 0 || !strings.HasPrefix(sel.Sel.Name, "Get") {
				return true
			}
			tv, ok := c.info.Types[sel.X]
			if !ok {
				return true
			}
			m := c.protoStruct(tv.Type)
			if m == "" {
				return true
			}
			rt, ok := c.info.Types[x]
			if !ok || wireType(rt.Type) == "" {
				return true
			}
			msg, field, wire = m, strings.TrimPrefix(sel.Sel.Name, "Get"), wireType(rt.Type)
		default:
			return true
		}
		conv, use := c.classifyUse(fd, append([]ast.Node{}, stack...))
		c.loaded = append(c.loaded, scalarLoad{fn, msg, field, wire, conv, use, guardOf(append([]ast.Node{}, stack...))})
		return true
	})
}

// classifyUse walks from the read (last node of the path) towards the statement that uses it.
func (c *scalarCtx) classifyUse(fd *ast.FuncDecl, path []ast.Node) (conv, use string) {
	fn := funcName(fd)
	conv = "none"
	setConv := func(at ast.Node, s string) {
		if conv != "none" {
			scalarDie(at, fn, "two conversions on the way: "+conv+" then "+s)
		}
		conv = s
	}
	i := len(path) - 1
	cur := path[i]
	for i--; i >= 0; i-- {
		p := path[i]
		switch x := p.(type) {
		case *ast.ParenExpr:
			cur = p
			continue
		case *ast.SelectorExpr:
			// cur.M(...) : a method of the wire value
			if x.X == cur && i > 0 {
				if call, ok := path[i-1].(*ast.CallExpr); ok && call.Fun == ast.Expr(x) && len(call.Args) == 0 {
					setConv(p, "method:"+x.Sel.Name)
					cur = call
					i--
					continue
				}
			}
			scalarDie(p, fn, "selection on a scalar value: "+exprStr(x))
		case *ast.CallExpr:
			if tv, ok := c.info.Types[x.Fun]; ok && tv.IsType() {
				setConv(p, exprStr(x.Fun))
				cur = p
				continue
			}
			if id, ok := x.Fun.(*ast.Ident); ok && id.Name == "len" {
				if _, isBuiltin := c.info.Uses[id].(*types.Builtin); isBuiltin {
					setConv(p, "len")
					cur = p
					continue
				}
			}
			for k, a := range x.Args {
				if a == cur {
					return conv, fmt.Sprintf("arg:%s#%d", exprStr(x.Fun), k)
				}
			}
			scalarDie(p, fn, "use in call "+exprStr(x))
		case *ast.KeyValueExpr:
			if x.Value == cur && i > 0 {
				if lit, ok := path[i-1].(*ast.CompositeLit); ok {
					tn := "?"
					if tv, ok := c.info.Types[lit]; ok {
						tn = goType(tv.Type)
					}
					return conv, "lit:" + tn + "." + exprStr(x.Key)
				}
			}
			scalarDie(p, fn, "use in key-value "+exprStr(x))
		case *ast.IndexExpr:
			if x.Index == cur {
				// m[key]: look-up, or the key of a store
				if i > 0 {
					if as, ok := path[i-1].(*ast.AssignStmt); ok {
						for _, l := range as.Lhs {
							if l == ast.Expr(x) {
								return conv, "storekey:" + exprStr(x.X)
							}
						}
					}
				}
				return conv, "key:" + exprStr(x.X)
			}
			scalarDie(p, fn, "indexing a scalar value: "+exprStr(x))
		case *ast.AssignStmt:
			for k, r := range x.Rhs {
				if r != cur {
					continue
				}
				if len(x.Lhs) != len(x.Rhs) {
					scalarDie(p, fn, "multi-value assignment from a scalar field")
				}
				switch l := x.Lhs[k].(type) {
				case *ast.Ident:
					return conv, "local:" + l.Name
				case *ast.IndexExpr:
					return conv, "mapval:" + exprStr(l.X)
				default:
					return conv, "field:" + exprStr(l)
				}
			}
			scalarDie(p, fn, "use in assignment "+exprStr(x))
		case *ast.SwitchStmt:
			if x.Tag == cur {
				name := fn + ": switch " + exprStr(x.Tag)
				c.loadTables[name] = c.loaderTable(x, fn)
				return conv, "table:" + name
			}
			scalarDie(p, fn, "use in switch")
		case *ast.BinaryExpr:
			// a comparison with a constant: a condition, not a transfer
			other := x.X
			if other == cur {
				other = x.Y
			}
			switch x.Op {
			case token.EQL, token.NEQ, token.LSS, token.LEQ, token.GTR, token.GEQ:
				if tv, ok := c.info.Types[other]; ok && tv.Value != nil {
					return conv, "cond:" + exprStr(x)
				}
			}
			scalarDie(p, fn, "arithmetic / comparison on a scalar field: "+exprStr(x))
		case *ast.RangeStmt:
			// a repeated scalar field visited element by element
			if x.X == cur && strings.HasPrefix(goTypeOfRange(c, x), "[]") {
				v := "_"
				if x.Value != nil {
					v = exprStr(x.Value)
				}
				return conv, "range:" + v
			}
			scalarDie(p, fn, "use in range statement")
		case *ast.IfStmt:
			if x.Cond == cur {
				return conv, "cond:" + exprStr(x.Cond)
			}
			scalarDie(p, fn, "use in if statement")
		default:
			scalarDie(p, fn, fmt.Sprintf("use in %T: %s", p, exprStr(cur)))
		}
	}
	scalarDie(cur, fn, "use not found")
	return
}

// ---- output ----

func writeScalars(out string, root, dbc *packages.Package) {
	c := &scalarCtx{info: root.TypesInfo, funcs: map[string]*ast.FuncDecl{},
		saveTables: map[string]*scalarTable{}, loadTables: map[string]*scalarTable{}}
	var saverFuncs, loaderFuncs []*ast.FuncDecl
	for _, f := range root.Syntax {
		base := filepath.Base(fset.Position(f.Pos()).Filename)
		if base != "saver.go" && base != "loader.go" {
			continue
		}
		for _, d := range f.Decls {
			fd, ok := d.(*ast.FuncDecl)
			if !ok || fd.Body == nil {
				continue
			}
			if obj, ok := c.info.Defs[fd.Name].(*types.Func); ok {
				c.funcs[obj.FullName()] = fd
			}
			if base == "saver.go" {
				saverFuncs = append(saverFuncs, fd)
			} else {
				loaderFuncs = append(loaderFuncs, fd)
			}
		}
	}
	if len(saverFuncs) == 0 || len(loaderFuncs) == 0 {
		fmt.Fprintln(os.Stderr, "extract/scalars: saver.go / loader.go not found in package acmelib")
		os.Exit(1)
	}
	for _, fd := range saverFuncs {
		c.saverFunc(fd)
	}
	for _, fd := range loaderFuncs {
		c.loaderFunc(fd)
	}
	// scalar schema fields may be touched in these two files only (the hooks of verif_hooks.go
	// call the saver / the loader)
	for _, f := range root.Syntax {
		base := filepath.Base(fset.Position(f.Pos()).Filename)
		if base == "saver.go" || base == "loader.go" || strings.HasSuffix(base, "_test.go") {
			continue
		}
		ast.Inspect(f, func(n ast.Node) bool {
			if sel, ok := n.(*ast.SelectorExpr); ok {
				if msg, field, _, ok := c.schemaField(sel); ok {
					fmt.Fprintf(os.Stderr, "extract/scalars: %s: schema field %s.%s used outside saver.go / loader.go\n", fset.Position(n.Pos()), msg, field)
					os.Exit(1)
				}
			}
			return true
		})
	}
	sort.SliceStable(c.saved, func(i, j int) bool {
		a, b := c.saved[i], c.saved[j]
		if a.msg != b.msg {
			return a.msg < b.msg
		}
		if a.field != b.field {
			return a.field < b.field
		}
		if a.fn != b.fn {
			return a.fn < b.fn
		}
		return a.expr < b.expr
	})
	sort.SliceStable(c.loaded, func(i, j int) bool {
		a, b := c.loaded[i], c.loaded[j]
		if a.msg != b.msg {
			return a.msg < b.msg
		}
		if a.field != b.field {
			return a.field < b.field
		}
		if a.fn != b.fn {
			return a.fn < b.fn
		}
		if a.use != b.use {
			return a.use < b.use
		}
		return a.guard < b.guard
	})

	var b strings.Builder
	b.WriteString("/- GENERATED by /verif/tools/extract (scalars.go) from /repo — do not edit. -/\n")
	b.WriteString("namespace Acme.Gen\n\n")
	b.WriteString("/-- one WRITE of a scalar schema field in saver.go.  `wire`: uint32 | int32 | float64 | string | bool | enum | timestamp (`wireName`: the enum type; `rep`: a repeated field, written element by element); `expr`: the Go expression that is saved, of basic type `src` (named type `srcName`); `conv`: uint32 | int32 | string | EntityID.String | timestamppb.New | table (`table`: its name in `savedTables`) | const | none; `guard`: the enclosing conditions -/\n")
	b.WriteString("structure ScalarSave where\n  fn : String\n  msg : String\n  field : String\n  wire : String\n  wireName : String\n  rep : Bool\n  expr : String\n  src : String\n  srcName : String\n  conv : String\n  table : String\n  guard : String\n  deriving DecidableEq, Repr\n\n")
	b.WriteString("/-- one READ of a scalar schema field in loader.go.  `conv`: the conversion applied to the value (int, NodeID, MessageID, CANID, EntityID, method, len, none; `convArg`: the method); `useKind`: arg | lit | field | local | key | storekey | mapval | range | table | cond, `use`: the callee#index, literal key, target, map, loop variable, table name, condition -/\n")
	b.WriteString("structure ScalarLoad where\n  fn : String\n  msg : String\n  field : String\n  wire : String\n  wireName : String\n  rep : Bool\n  conv : String\n  convArg : String\n  useKind : String\n  use : String\n  guard : String\n  deriving DecidableEq, Repr\n\n")
	lb := func(x bool) string {
		if x {
			return "true"
		}
		return "false"
	}
	b.WriteString("/-- every write of a scalar field of the schema in saver.go -/\n")
	b.WriteString("def savedScalars : List ScalarSave := [\n")
	for i, s := range c.saved {
		wk, wn, rep := splitWire(s.wire)
		sb, sn := splitType(s.src)
		ck, ca := splitColon(s.conv)
		b.WriteString(fmt.Sprintf("  ⟨%s, %s, %s, %s, %s, %s, %s, %s, %s, %s, %s, %s⟩", leanStr(s.fn), leanStr(s.msg), leanStr(s.field), leanStr(wk), leanStr(wn), lb(rep),
			leanStr(s.expr), leanStr(sb), leanStr(sn), leanStr(ck), leanStr(ca), leanStr(s.guard)))
		if i+1 < len(c.saved) {
			b.WriteString(",")
		}
		b.WriteString("\n")
	}
	b.WriteString("]\n\n")
	b.WriteString("/-- every read of a scalar field of the schema in loader.go -/\n")
	b.WriteString("def loadedScalars : List ScalarLoad := [\n")
	for i, s := range c.loaded {
		wk, wn, rep := splitWire(s.wire)
		ck, ca := splitColon(s.conv)
		uk, ua := splitColon(s.use)
		b.WriteString(fmt.Sprintf("  ⟨%s, %s, %s, %s, %s, %s, %s, %s, %s, %s, %s⟩", leanStr(s.fn), leanStr(s.msg), leanStr(s.field), leanStr(wk), leanStr(wn), lb(rep),
			leanStr(ck), leanStr(ca), leanStr(uk), leanStr(ua), leanStr(s.guard)))
		if i+1 < len(c.loaded) {
			b.WriteString(",")
		}
		b.WriteString("\n")
	}
	b.WriteString("]\n\n")
	emitTables := func(name, doc string, m map[string]*scalarTable) {
		var names []string
		for k := range m {
			names = append(names, k)
		}
		sort.Strings(names)
		b.WriteString("/-- " + doc + " -/\n")
		b.WriteString("def " + name + " : List (String × String × List (String × String)) := [\n")
		for i, n := range names {
			t := m[n]
			b.WriteString("  (" + leanStr(n) + ", " + leanStr(t.def) + ", [")
			for j, pr := range t.pairs {
				if j > 0 {
					b.WriteString(", ")
				}
				b.WriteString("(" + leanStr(pr[0]) + ", " + leanStr(pr[1]) + ")")
			}
			b.WriteString("])")
			if i+1 < len(names) {
				b.WriteString(",")
			}
			b.WriteString("\n")
		}
		b.WriteString("]\n\n")
	}
	emitTables("savedTables", "the constant tables of saver.go named by `table:` conversions: (name, constant written when no case applies, (model constant, schema constant) pairs)", c.saveTables)
	emitTables("loadedTables", "the constant tables of loader.go named by `table:` uses: (name, \"\" = the model keeps the value its constructor gave it, (schema constant, model constant) pairs)", c.loadTables)
	b.WriteString("end Acme.Gen\n")
	if err := os.WriteFile(filepath.Join(out, "Scalars.lean"), []byte(b.String()), 0o644); err != nil {
		panic(err)
	}
}

func goTypeOfRange(c *scalarCtx, x *ast.RangeStmt) string {
	if tv, ok := c.info.Types[x.X]; ok {
		return wireType(tv.Type)
	}
	return ""
}

// loaderTable: every clause of a switch over a schema enum holds ONE statement that assigns or
// passes one constant.
func (c *scalarCtx) loaderTable(sw *ast.SwitchStmt, fn string) *scalarTable {
	t := &scalarTable{}
	for _, cl := range sw.Body.List {
		cc := cl.(*ast.CaseClause)
		if len(cc.Body) != 1 {
			scalarDie(cc, fn, "clause of a constant table with more than one statement")
		}
		var val ast.Expr
		switch b := cc.Body[0].(type) {
		case *ast.AssignStmt:
			if len(b.Rhs) == 1 && len(b.Lhs) == 1 {
				val = b.Rhs[0]
			}
		case *ast.ExprStmt:
			if call, ok := b.X.(*ast.CallExpr); ok && len(call.Args) == 1 {
				val = call.Args[0]
			}
		}
		if val == nil || !c.isConst(val) {
			scalarDie(cc, fn, "clause of a constant table that does not assign / pass one constant")
		}
		if len(cc.List) == 0 {
			t.def = exprStr(val)
		}
		for _, k := range cc.List {
			if !c.isConst(k) {
				scalarDie(cc, fn, "case of a constant table that is not a constant")
			}
			t.pairs = append(t.pairs, [2]string{exprStr(k), exprStr(val)})
		}
	}
	return t
}
