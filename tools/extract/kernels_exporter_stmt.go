// Statement / expression translation of the exporter translator (see kernels_exporter.go).
package main

import (
	"fmt"
	"go/ast"
	"go/constant"
	"go/token"
	"go/types"
	"sort"
	"strings"
)

var xpKindLean = map[string]string{"Sig": "Sig", "StdSig": "StdSig", "EnumSig": "EnumSig", "MuxSig": "MuxSig",
	"SigType": "SigType", "SigUnit?": "Option SigUnit", "SigUnit": "SigUnit", "SigEnum": "SigEnum",
	"EnumValue": "EnumValue", "ParentMsg": "ParentMsg", "Msg": "Msg", "Recv": "String",
	"[]Recv": "List String", "[]Sig": "List Sig", "[][]Sig": "List (List Sig)", "[]EnumValue": "List EnumValue",
	"AttrAss": "AttrAssignment", "Attr": "Attr", "StrAttr": "StrAttr", "IntAttr": "IntAttr", "FloatAttr": "FloatAttr",
	"EnumAttr": "EnumAttr", "AnyVal": "AnyVal", "NodeInt": "NodeInt", "Bus": "Bus", "[]NodeInt": "List NodeInt", "[]Msg": "List Msg", "[]SigEnum": "List SigEnum"}

type xpK func() []string

type xpLoop struct{ recur, done func() []string }

func xpInd(lines []string) []string {
	res := make([]string, len(lines))
	for i, l := range lines {
		res[i] = "  " + l
	}
	return res
}

func xpTuple(names []string) string {
	if len(names) == 1 {
		return names[0]
	}
	return "(" + strings.Join(names, ", ") + ")"
}

// ---------------------------------------------------------------- variables

func (t *xptr) declare(id *ast.Ident, kind string) *xpVar {
	obj := t.info.Defs[id]
	if obj == nil {
		t.fail(id, "identifier %s is not a definition", id.Name)
	}
	name := id.Name
	if r, ok := xpReserved[name]; ok {
		if r == "" {
			t.fail(id, "the local name %s is used by the generated text itself", name)
		}
		name = r
	}
	if strings.HasSuffix(name, "_groups") || strings.Contains(name, "_loop") {
		t.fail(id, "the local name %s could clash with a generated name", name)
	}
	if kind == "" {
		kind = t.kindOfType(obj.Type())
	}
	v := &xpVar{lean: name, kind: kind}
	t.vars[obj] = v
	return v
}

func (t *xptr) varOf(id *ast.Ident) *xpVar {
	obj := t.info.Uses[id]
	if obj == nil {
		obj = t.info.Defs[id]
	}
	v := t.vars[obj]
	if v == nil {
		t.fail(id, "variable %s is not a local of the translated function", id.Name)
	}
	if t.taint[obj] {
		t.fail(id, "variable %s belongs to the skipped attribute statements but is read by a translated one", id.Name)
	}
	return v
}

func (t *xptr) varType(obj types.Object, at ast.Node) string {
	v := t.vars[obj]
	if v != nil && v.kind != "" {
		if l, ok := xpKindLean[v.kind]; ok {
			return l
		}
		t.fail(at, "no Lean type for the kind %s", v.kind)
	}
	return t.leanType(obj.Type(), at)
}

// ---------------------------------------------------------------- model paths

// model: e as a path into a model object: Lean text and the kind of the result
func (t *xptr) model(e ast.Expr) (string, string, bool) {
	switch x := e.(type) {
	case *ast.ParenExpr:
		return t.model(x.X)
	case *ast.Ident:
		obj := t.info.Uses[x]
		if v := t.vars[obj]; v != nil && v.kind != "" {
			t.varOf(x)
			return v.lean, v.kind, true
		}
	case *ast.SelectorExpr:
		if lx, kx, ok := t.model(x.X); ok {
			return t.project(lx, kx, x.Sel.Name, x)
		}
	case *ast.CallExpr:
		if s, ok := x.Fun.(*ast.SelectorExpr); ok && len(x.Args) == 0 {
			if lx, kx, ok := t.model(s.X); ok {
				return t.project(lx, kx, s.Sel.Name+"()", x)
			}
		}
	}
	return "", "", false
}

func (t *xptr) project(lx, kx, member string, at ast.Node) (string, string, bool) {
	p, ok := xpProj[kx+" "+member]
	if !ok {
		t.fail(at, "member %s of a %s is not in the projection table", member, kx)
	}
	tpl := p[0]
	if tpl == "pm" {
		if t.msgPar != "" {
			return t.msgPar + ".parent", p[1], true
		}
		if !t.cur.usesPm {
			t.fail(at, "internal: parent message read in a function without the parameter")
		}
		return "pm", p[1], true
	}
	if strings.HasSuffix(tpl, "%_groups") && strings.ContainsAny(lx, " .(") {
		t.fail(at, "GetSignalGroups() of something that is not a variable")
	}
	return strings.ReplaceAll(tpl, "%", lx), p[1], true
}

// ---------------------------------------------------------------- expressions

func (t *xptr) constant(obj *types.Const, at ast.Node) string {
	name := t.typeName(obj.Type())
	if e, ok := t.enums[name]; ok {
		c, ok := e.consts[obj.Name()]
		if !ok {
			t.fail(at, "constant %s is not in the translator's table", obj.Name())
		}
		return e.lean + "." + c
	}
	switch obj.Val().Kind() {
	case constant.String:
		return xpLit(constant.StringVal(obj.Val()))
	case constant.Int:
		return obj.Val().ExactString()
	}
	t.fail(at, "constant %s of type %s", obj.Name(), name)
	return ""
}

func xpLit(s string) string {
	var b strings.Builder
	b.WriteByte('"')
	for _, r := range s {
		switch {
		case r == '"':
			b.WriteString("\\\"")
		case r == '\\':
			b.WriteString("\\\\")
		case r == '\n':
			b.WriteString("\\n")
		case r == '\t':
			b.WriteString("\\t")
		case r < 0x20 || r == 0x7f:
			fmt.Fprintf(&b, "\\x%02x", r)
		default:
			b.WriteRune(r)
		}
	}
	b.WriteByte('"')
	return b.String()
}

// recvPath: e.currDBCMsg.Signals / e.dbcFile.X / e.sigEnums as a field of st
func (t *xptr) recvPath(e ast.Expr) (string, bool) {
	s, ok := e.(*ast.SelectorExpr)
	if !ok {
		return "", false
	}
	if id, ok := s.X.(*ast.Ident); ok && t.isRecv(id) {
		if xpRecvMaps[s.Sel.Name] {
			return "st." + s.Sel.Name, true
		}
		return "", false
	}
	in, ok := s.X.(*ast.SelectorExpr)
	if !ok {
		return "", false
	}
	id, ok := in.X.(*ast.Ident)
	if !ok || !t.isRecv(id) {
		return "", false
	}
	switch in.Sel.Name {
	case "currDBCMsg":
		if s.Sel.Name == "Signals" {
			return "st.curSignals", true
		}
	case "dbcFile":
		if f, ok := xpFileFields[s.Sel.Name]; ok {
			return "st." + f, true
		}
		t.fail(e, "section %s of e.dbcFile is not in the translator's table", s.Sel.Name)
	}
	t.fail(e, "field path %s of the exporter", exprStr(e))
	return "", false
}

func (t *xptr) expr(e ast.Expr) string {
	switch x := e.(type) {
	case *ast.ParenExpr:
		return t.expr(x.X)
	case *ast.BasicLit:
		switch x.Kind {
		case token.INT:
			return x.Value
		case token.STRING:
			tv := t.info.Types[x]
			return xpLit(constant.StringVal(tv.Value))
		}
		t.fail(e, "literal %s", x.Value)
	case *ast.Ident:
		switch x.Name {
		case "true", "false":
			if _, ok := t.info.Uses[x].(*types.Const); ok {
				return x.Name
			}
		}
		switch obj := t.info.Uses[x].(type) {
		case *types.Const:
			return t.constant(obj, x)
		case *types.Var:
			v := t.varOf(x)
			if v.alias {
				return "{ " + v.lean + " with signals := st.curSignals }"
			}
			return v.lean
		}
		t.fail(e, "identifier %s", x.Name)
	case *ast.SelectorExpr:
		if c, ok := t.info.Uses[x.Sel].(*types.Const); ok {
			return t.constant(c, x)
		}
		if p, ok := t.recvPath(x); ok {
			return p
		}
		if l, _, ok := t.model(x); ok {
			return l
		}
		if id, ok := x.X.(*ast.Ident); ok {
			if s := t.dbcStruct(t.info.TypeOf(id)); s != nil {
				f, ok := s.fields[x.Sel.Name]
				if !ok {
					t.fail(e, "field %s is not in the translator's table", x.Sel.Name)
				}
				v := t.varOf(id)
				if v.alias && x.Sel.Name == "Signals" {
					return "st.curSignals"
				}
				return v.lean + "." + f
			}
		}
		t.fail(e, "selector %s", exprStr(e))
	case *ast.UnaryExpr:
		switch x.Op {
		case token.NOT:
			return "(!" + t.expr(x.X) + ")"
		case token.AND:
			if cl, ok := x.X.(*ast.CompositeLit); ok {
				return t.composite(cl)
			}
		case token.SUB:
			return "(-" + t.expr(x.X) + ")"
		}
		t.fail(e, "unary operator %s", x.Op)
	case *ast.BinaryExpr:
		switch x.Op {
		case token.ADD, token.SUB, token.MUL:
			if !t.isInt(x.X) || !t.isInt(x.Y) {
				t.fail(e, "arithmetic on %s", t.info.TypeOf(x.X))
			}
			return "(" + t.expr(x.X) + " " + x.Op.String() + " " + t.expr(x.Y) + ")"
		case token.REM:
			if !t.isInt(x.X) || !t.isInt(x.Y) {
				t.fail(e, "%% on %s", t.info.TypeOf(x.X))
			}
			return "(Int.tmod " + t.expr(x.X) + " " + t.expr(x.Y) + ")"
		case token.LAND:
			return "(" + t.expr(x.X) + " && " + t.expr(x.Y) + ")"
		case token.LOR:
			return "(" + t.expr(x.X) + " || " + t.expr(x.Y) + ")"
		case token.EQL, token.NEQ, token.LSS, token.LEQ, token.GTR, token.GEQ:
			return "(decide " + t.cond(e) + ")"
		}
		t.fail(e, "binary operator %s", x.Op)
	case *ast.CompositeLit:
		return t.composite(x)
	case *ast.IndexExpr:
		if m, ok := types.Unalias(t.info.TypeOf(x.X)).Underlying().(*types.Map); ok {
			return "(mapGet " + t.expr(x.X) + " " + t.expr(x.Index) + " " + t.zero(m.Elem(), e) + ")"
		}
		t.fail(e, "index expression %s (a slice is indexed only as the whole right-hand side of an assignment)", exprStr(e))
	case *ast.CallExpr:
		return t.call(x)
	case *ast.TypeAssertExpr:
		if n, ok := t.hoisted[x]; ok {
			return n
		}
		t.fail(e, "type assertion %s (only inside the right-hand side of an assignment)", exprStr(e))
	}
	t.fail(e, "expression %s", exprStr(e))
	return ""
}

func (t *xptr) composite(cl *ast.CompositeLit) string {
	ty := t.info.TypeOf(cl)
	switch u := types.Unalias(ty).Underlying().(type) {
	case *types.Slice:
		var el []string
		for _, e := range cl.Elts {
			if _, ok := e.(*ast.KeyValueExpr); ok {
				t.fail(cl, "keyed slice literal")
			}
			el = append(el, t.expr(e))
		}
		return "[" + strings.Join(el, ", ") + "]"
	case *types.Struct:
		nm, ok := types.Unalias(ty).(*types.Named)
		if !ok || nm.Obj().Pkg() != t.dbc || t.structs[nm.Obj().Name()] == nil {
			t.fail(cl, "literal of type %s", ty.String())
		}
		s := t.structs[nm.Obj().Name()]
		var fs []string
		for _, e := range cl.Elts {
			kv, ok := e.(*ast.KeyValueExpr)
			if !ok {
				t.fail(cl, "positional struct literal")
			}
			f, ok := s.fields[kv.Key.(*ast.Ident).Name]
			if !ok {
				t.fail(kv, "field %s is not in the translator's table", exprStr(kv.Key))
			}
			fs = append(fs, f+" := "+t.expr(kv.Value))
		}
		_ = u
		if len(fs) == 0 {
			return "{}"
		}
		return "{ " + strings.Join(fs, ", ") + " }"
	}
	t.fail(cl, "literal of type %s", ty.String())
	return ""
}

func (t *xptr) call(c *ast.CallExpr) string {
	if m, ok := t.recvCall(c); ok && xpFreeFuncs[m] {
		g := t.sigs[m]
		if g == nil || g.mayPanic || g.writesSt {
			t.fail(c, "call of %s inside an expression", m)
		}
		return "(" + t.callText(m, c) + ")"
	}
	if id, ok := c.Fun.(*ast.Ident); ok {
		if _, isBuiltin := t.info.Uses[id].(*types.Builtin); isBuiltin || t.info.Types[c.Fun].IsType() {
			switch id.Name {
			case "uint32":
				if t.isInt(c.Args[0]) {
					return "(u32 " + t.expr(c.Args[0]) + ")"
				}
				if t.isU32(c.Args[0]) {
					return t.expr(c.Args[0])
				}
				t.fail(c, "uint32 of a %s", t.info.TypeOf(c.Args[0]))
			case "float64":
				if t.isInt(c.Args[0]) {
					return "((" + t.expr(c.Args[0]) + " : Int) : Rat)"
				}
				t.fail(c, "float64 of a %s", t.info.TypeOf(c.Args[0]))
			case "len":
				return "(" + t.atom(c.Args[0]) + ".length : Int)"
			case "append":
				if c.Ellipsis.IsValid() {
					t.fail(c, "append with ...")
				}
				var el []string
				for _, a := range c.Args[1:] {
					el = append(el, t.expr(a))
					t.escape(a)
				}
				return t.expr(c.Args[0]) + " ++ [" + strings.Join(el, ", ") + "]"
			}
			t.fail(c, "builtin / conversion %s", id.Name)
		}
		if f, ok := t.info.Uses[id].(*types.Func); ok && f.Pkg() == t.root && id.Name == "clearSpaces" {
			return "(clr " + t.expr(c.Args[0]) + ")"
		}
		t.fail(c, "call of %s", id.Name)
	}
	if l, _, ok := t.model(c); ok {
		return l
	}
	if m, ok := t.recvCall(c); ok {
		g := t.sigs[m]
		if g == nil {
			t.fail(c, "method %s is not translated", m)
		}
		if g.mayPanic || g.writesSt || len(g.out) > 0 || g.decl.Type.Results == nil || len(g.decl.Type.Results.List) != 1 {
			t.fail(c, "call of %s inside an expression (it has effects or several results)", m)
		}
		return "(" + t.callText(m, c) + ")"
	}
	t.fail(c, "call %s", exprStr(c))
	return ""
}

func (t *xptr) atom(e ast.Expr) string {
	s := t.expr(e)
	if xpIsAtom(s) {
		return s
	}
	return "(" + s + ")"
}

func (t *xptr) escape(a ast.Expr) {
	if id, ok := a.(*ast.Ident); ok {
		if v, ok := t.info.Uses[id].(*types.Var); ok && t.dbcStruct(v.Type()) != nil && t.vars[v] != nil {
			t.vars[v].escaped = true
		}
	}
}

// callText: `name clr pm args st` of a translated method
func (t *xptr) callText(m string, c *ast.CallExpr) string {
	g := t.sigs[m]
	t.calls[m] = true
	parts := []string{m}
	if g.usesClr {
		parts = append(parts, "clr")
	}
	if g.usesSort != "" {
		t.fail(c, "call of %s, which sorts (the sort routine is a parameter of a root function only)", m)
	}
	if g.usesPm {
		hasMsg := false
		for _, p := range xpParamObjs(t.info, g.decl) {
			if t.typeName(p.Type()) == "*Message" {
				hasMsg = true
			}
		}
		if !hasMsg {
			if t.msgPar != "" {
				parts = append(parts, t.msgPar+".parent")
			} else {
				parts = append(parts, "pm")
			}
		}
	}
	for j, a := range c.Args {
		if g.written[j] {
			id, ok := a.(*ast.Ident)
			if !ok {
				t.fail(a, "a written pointer parameter must be handed a variable")
			}
			if v := t.varOf(id); v.escaped || v.alias {
				t.fail(a, "%s was appended to an output list and is written by %s afterwards (aliasing)", id.Name, m)
			}
		}
		parts = append(parts, t.atom(a))
		if t.kindOfType(t.info.TypeOf(a)) == "MuxSig" {
			id, ok := a.(*ast.Ident)
			if !ok {
				t.fail(a, "a multiplexer argument must be a variable")
			}
			parts = append(parts, t.varOf(id).lean+"_groups")
		}
	}
	if g.writesSt {
		parts = append(parts, "st")
	}
	return strings.Join(parts, " ")
}

// ---------------------------------------------------------------- conditions

func (t *xptr) cond(e ast.Expr) string {
	switch x := e.(type) {
	case *ast.ParenExpr:
		return t.cond(x.X)
	case *ast.UnaryExpr:
		if x.Op == token.NOT {
			return "¬ " + t.cond(x.X)
		}
	case *ast.BinaryExpr:
		switch x.Op {
		case token.LAND:
			return "(" + t.cond(x.X) + " ∧ " + t.cond(x.Y) + ")"
		case token.LOR:
			return "(" + t.cond(x.X) + " ∨ " + t.cond(x.Y) + ")"
		case token.EQL, token.NEQ:
			if id, ok := x.Y.(*ast.Ident); ok && id.Name == "nil" {
				l, k, ok := t.model(x.X)
				if !ok || k != "nil?" {
					t.fail(e, "comparison of %s with nil", exprStr(x.X))
				}
				if x.Op == token.NEQ {
					return "(" + l + " = true)"
				}
				return "(" + l + " = false)"
			}
			op := "="
			if x.Op == token.NEQ {
				op = "≠"
			}
			return "(" + t.expr(x.X) + " " + op + " " + t.expr(x.Y) + ")"
		case token.LSS, token.LEQ, token.GTR, token.GEQ:
			if !t.isInt(x.X) || !t.isInt(x.Y) {
				t.fail(e, "order comparison on %s", t.info.TypeOf(x.X))
			}
			op := map[token.Token]string{token.LSS: "<", token.LEQ: "≤", token.GTR: ">", token.GEQ: "≥"}[x.Op]
			return "(" + t.expr(x.X) + " " + op + " " + t.expr(x.Y) + ")"
		}
	}
	if t.isBool(e) {
		return "(" + t.expr(e) + " = true)"
	}
	t.fail(e, "condition %s", exprStr(e))
	return ""
}

// ---------------------------------------------------------------- the slice

func (t *xptr) hasSeed(e ast.Expr) bool {
	found := false
	ast.Inspect(e, func(n ast.Node) bool {
		switch x := n.(type) {
		case *ast.CallExpr:
			name := ""
			switch f := x.Fun.(type) {
			case *ast.Ident:
				name = f.Name
			case *ast.SelectorExpr:
				name = f.Sel.Name
			}
			for _, s := range xpSliceSeeds {
				if name == s {
					found = true
				}
			}
			if name == "new" && len(x.Args) == 1 && exprStr(x.Args[0]) == "dbc."+xpSliceNew {
				found = true
			}
		case *ast.Ident:
			if o := t.info.Uses[x]; o != nil && t.taint[o] {
				found = true
			}
		}
		return true
	})
	return found
}

func (t *xptr) sliced(s ast.Stmt) bool {
	switch x := s.(type) {
	case *ast.AssignStmt:
		seed := false
		for _, r := range x.Rhs {
			if t.hasSeed(r) {
				seed = true
			}
		}
		all, some := true, false
		for _, l := range x.Lhs {
			if sel, ok := l.(*ast.SelectorExpr); ok {
				if in, ok := sel.X.(*ast.SelectorExpr); ok && in.Sel.Name == "dbcFile" && xpSliceSinks[sel.Sel.Name] {
					if id, ok := in.X.(*ast.Ident); ok && t.isRecv(id) {
						some = true
						continue
					}
				}
			}
			r := xpRootIdent(l)
			if r == nil {
				all = false
				continue
			}
			obj := t.info.Defs[r]
			if obj == nil {
				obj = t.info.Uses[r]
			}
			if x.Tok == token.DEFINE && seed && t.info.Defs[r] != nil {
				t.taint[obj] = true
			}
			if obj != nil && t.taint[obj] {
				some = true
			} else {
				all = false
			}
		}
		if all && some {
			return true
		}
		if some {
			t.fail(s, "statement writes both skipped (attribute) and translated variables")
		}
		return false
	case *ast.ExprStmt:
		if c, ok := x.X.(*ast.CallExpr); ok {
			if m, ok := t.recvCall(c); ok && xpSliceCalls[m] {
				return true
			}
		}
	case *ast.IfStmt:
		if x.Init != nil {
			return false
		}
		list := append([]ast.Stmt{}, x.Body.List...)
		if x.Else != nil {
			b, ok := x.Else.(*ast.BlockStmt)
			if !ok {
				return false
			}
			list = append(list, b.List...)
		}
		n := 0
		for _, y := range list {
			if t.sliced(y) {
				n++
			}
		}
		if n == len(list) && n > 0 {
			return true
		}
		if n > 0 {
			t.fail(s, "an if statement mixes skipped (attribute) and translated statements")
		}
	case *ast.RangeStmt:
		if !t.hasSeed(x.X) { // the attribute assignments themselves, or a variable that holds them
			return false
		}
		for _, kv := range []ast.Expr{x.Key, x.Value} {
			if id, ok := kv.(*ast.Ident); ok && id.Name != "_" && t.info.Defs[id] != nil {
				t.taint[t.info.Defs[id]] = true
			}
		}
		for _, y := range x.Body.List {
			if !t.sliced(y) {
				t.fail(y, "a loop over skipped (attribute) data contains a translated statement")
			}
		}
		return true
	}
	return false
}

// ---------------------------------------------------------------- facts about a piece of code

type xpFacts struct{ clr, pm, panics, st bool }

func (t *xptr) facts(n ast.Node) xpFacts {
	var f xpFacts
	skip := func(s ast.Stmt) bool { return t.sliced(s) }
	ast.Inspect(n, func(x ast.Node) bool {
		if s, ok := x.(ast.Stmt); ok {
			if _, isBlock := s.(*ast.BlockStmt); !isBlock && skip(s) {
				return false
			}
		}
		switch y := x.(type) {
		case *ast.RangeStmt:
			// the make / range idiom does not index
		case *ast.BlockStmt:
			if i := t.mapIdiom(y.List); i >= 0 {
				for j, s := range y.List {
					if j == i || j == i+1 {
						continue
					}
					g := t.facts(s)
					f.clr, f.pm, f.panics, f.st = f.clr || g.clr, f.pm || g.pm, f.panics || g.panics, f.st || g.st
				}
				_, _, _, e, _ := t.mapIdiomAt(y.List, i)
				g := t.facts(e)
				f.clr, f.pm = f.clr || g.clr, f.pm || g.pm
				return false
			}
		case *ast.AssignStmt:
			for _, l := range y.Lhs {
				if r := xpRootIdent(l); r != nil && t.isRecv(r) {
					f.st = true
				}
			}
		case *ast.TypeAssertExpr:
			f.panics = true
		case *ast.IndexExpr:
			if _, ok := types.Unalias(t.info.TypeOf(y.X)).Underlying().(*types.Slice); ok {
				f.panics = true
			}
		case *ast.SelectorExpr:
			if y.Sel.Name == "ParentMessage" || y.Sel.Name == "parentMsg" {
				f.pm = true
			}
		case *ast.CallExpr:
			if id, ok := y.Fun.(*ast.Ident); ok && id.Name == "clearSpaces" {
				f.clr = true
			}
			if m, ok := t.recvCall(y); ok && t.sigs[m] != nil {
				g := t.sigs[m]
				f.clr, f.pm, f.panics, f.st = f.clr || g.usesClr, f.pm || t.needsPm(g), f.panics || g.mayPanic, f.st || g.writesSt
			}
		}
		return true
	})
	return f
}

// jumps: the statements contain a return / continue / break, or something monadic
func (t *xptr) jumps(list []ast.Stmt) bool {
	res := false
	for _, s := range list {
		ast.Inspect(s, func(x ast.Node) bool {
			switch x.(type) {
			case *ast.ReturnStmt, *ast.BranchStmt:
				res = true
			}
			return true
		})
		if t.facts(s).panics {
			res = true
		}
	}
	return res
}

// assigned: the variables declared before `from` that the statements assign, in declaration order
func (t *xptr) assigned(list []ast.Stmt, from token.Pos) []types.Object {
	set := map[types.Object]bool{}
	posts := map[ast.Stmt]bool{}
	for _, s := range list {
		ast.Inspect(s, func(x ast.Node) bool {
			if st, ok := x.(ast.Stmt); ok {
				if _, isBlock := st.(*ast.BlockStmt); !isBlock && t.sliced(st) {
					return false
				}
			}
			switch y := x.(type) {
			case *ast.AssignStmt:
				for _, l := range y.Lhs {
					if r := xpRootIdent(l); r != nil {
						if o, ok := t.info.Uses[r].(*types.Var); ok && t.vars[o] != nil && o.Pos() < from {
							set[o] = true
						}
					}
				}
			case *ast.ForStmt:
				if y.Post != nil {
					posts[y.Post] = true
				}
			case *ast.IncDecStmt:
				if !posts[y] {
					t.fail(y, "++ / -- outside the post statement of a counted loop")
				}
			case *ast.CallExpr:
				if m, ok := t.recvCall(y); ok && t.sigs[m] != nil {
					for j, a := range y.Args {
						if t.sigs[m].out[j] {
							if id, ok := a.(*ast.Ident); ok {
								if o, ok := t.info.Uses[id].(*types.Var); ok && t.vars[o] != nil && o.Pos() < from {
									set[o] = true
								}
							}
						}
					}
				}
			}
			return true
		})
	}
	var res []types.Object
	for o := range set {
		res = append(res, o)
	}
	sort.Slice(res, func(i, j int) bool { return res[i].Pos() < res[j].Pos() })
	return res
}

// free: the local variables declared before `from` that the node mentions, in declaration order
func (t *xptr) free(n ast.Node, from token.Pos) []types.Object {
	set := map[types.Object]bool{}
	ast.Inspect(n, func(x ast.Node) bool {
		if st, ok := x.(ast.Stmt); ok {
			if _, isBlock := st.(*ast.BlockStmt); !isBlock && t.sliced(st) {
				return false
			}
		}
		if id, ok := x.(*ast.Ident); ok {
			if o, ok := t.info.Uses[id].(*types.Var); ok && t.vars[o] != nil && o.Pos() < from {
				set[o] = true
			}
		}
		return true
	})
	var res []types.Object
	for o := range set {
		res = append(res, o)
	}
	sort.Slice(res, func(i, j int) bool { return res[i].Pos() < res[j].Pos() })
	return res
}

func (t *xptr) usesGroups(n ast.Node, o types.Object) bool {
	res := false
	ast.Inspect(n, func(x ast.Node) bool {
		if s, ok := x.(*ast.SelectorExpr); ok && s.Sel.Name == "GetSignalGroups" {
			if id, ok := s.X.(*ast.Ident); ok && t.info.Uses[id] == o {
				res = true
			}
		}
		if c, ok := x.(*ast.CallExpr); ok {
			if _, ok := t.recvCall(c); ok {
				for _, a := range c.Args {
					if id, ok := a.(*ast.Ident); ok && t.info.Uses[id] == o {
						res = true
					}
				}
			}
		}
		return true
	})
	return res
}
