// Statements, function driver and writer of the interval-tree translator (see kernels_bst.go).
package main

import (
	"fmt"
	"go/ast"
	"go/token"
	"os"
	"path/filepath"
	"strings"

	"golang.org/x/tools/go/packages"
)

func (x *bx) block(st *bstate, stmts []ast.Stmt, k func(*bstate) string) string {
	if len(stmts) == 0 {
		return k(st)
	}
	return x.stmt(st, stmts[0], func(st *bstate) string { return x.block(st, stmts[1:], k) })
}

func (x *bx) letInt(st *bstate, goName string, v bval, k func(*bstate) string) string {
	if v.s == x.bound && x.bound != "" {
		x.bound = ""
		st.vars[goName] = v
		return k(st)
	}
	name := st.fresh(goName)
	rhs := v.s
	if v.k == bBool {
		rhs = boolTerm(v)
		v = bval{k: bBool, s: name}
	} else {
		v.s = name
	}
	st.vars[goName] = v
	return "let " + name + " := " + rhs + x.nl() + k(st)
}

func (x *bx) declare(st *bstate, name string) {
	for _, o := range st.order {
		if o == name {
			return
		}
	}
	st.order = append(st.order, name)
}

func (x *bx) stmt(st *bstate, s ast.Stmt, k func(*bstate) string) string {
	switch v := s.(type) {
	case *ast.BlockStmt:
		return x.block(st, v.List, k)
	case *ast.EmptyStmt:
		return k(st)
	case *ast.ExprStmt:
		call, ok := unparen(v.X).(*ast.CallExpr)
		if !ok || x.callee(call) == nil {
			x.fail(s, "expression statement %s", exprStr(v.X))
		}
		if len(x.callee(call).results) != 0 {
			x.fail(s, "result of %s is dropped", exprStr(call.Fun))
		}
		return x.evalCall(st, call, func(st *bstate, _ []bval) string { return k(st) })
	case *ast.IncDecStmt:
		one := &ast.BasicLit{Kind: token.INT, Value: "1"}
		op := token.ADD
		if v.Tok == token.DEC {
			op = token.SUB
		}
		return x.assign(st, s, v.X, nil, func(st *bstate, old bval) bval {
			return x.binop(s, op, old, bval{k: bInt, s: one.Value})
		}, false, k)
	case *ast.AssignStmt:
		if len(v.Lhs) != 1 || len(v.Rhs) != 1 {
			x.fail(s, "multiple assignment")
		}
		switch v.Tok {
		case token.DEFINE, token.ASSIGN:
			return x.assign(st, s, v.Lhs[0], v.Rhs[0], nil, v.Tok == token.DEFINE, k)
		case token.ADD_ASSIGN, token.SUB_ASSIGN:
			op := token.ADD
			if v.Tok == token.SUB_ASSIGN {
				op = token.SUB
			}
			r, ok := x.tryPure(st, v.Rhs[0])
			if !ok || r.k != bInt {
				x.fail(s, "operand of %s", v.Tok)
			}
			return x.assign(st, s, v.Lhs[0], nil, func(st *bstate, old bval) bval { return x.binop(s, op, old, r) }, false, k)
		}
		x.fail(s, "assignment operator %s", v.Tok)
	case *ast.IfStmt:
		if v.Init != nil {
			x.fail(s, "if with an init statement")
		}
		return x.evalCond(st, v.Cond,
			func(st *bstate) string { return x.block(st, v.Body.List, k) },
			func(st *bstate) string {
				if v.Else == nil {
					return k(st)
				}
				return x.stmt(st, v.Else, k)
			})
	case *ast.ReturnStmt:
		if len(v.Results) != len(x.sig.results) {
			x.fail(s, "return with %d values", len(v.Results))
		}
		vals := make([]bval, len(v.Results))
		var step func(st *bstate, i int) string
		step = func(st *bstate, i int) string {
			if i == len(vals) {
				return x.ret(st, s, vals)
			}
			return x.evalExpr(st, v.Results[i], func(st *bstate, b bval) string {
				vals[i] = b
				return step(st, i+1)
			})
		}
		return step(st, 0)
	case *ast.ForStmt:
		return x.loop(st, v, k)
	}
	x.fail(s, "statement %T", s)
	return ""
}

// assign: lhs = rhs, or lhs = upd(lhs) when rhs is nil.
func (x *bx) assign(st *bstate, at ast.Stmt, lhs ast.Expr, rhs ast.Expr, upd func(*bstate, bval) bval, define bool, k func(*bstate) string) string {
	lhs = unparen(lhs)
	evalR := func(st *bstate, old func(*bstate) bval, kk func(*bstate, bval) string) string {
		if rhs == nil {
			return kk(st, upd(st, old(st)))
		}
		return x.evalExpr(st, rhs, kk)
	}
	switch l := lhs.(type) {
	case *ast.Ident:
		if l.Name == "_" {
			x.fail(at, "blank assignment")
		}
		if _, known := st.vars[l.Name]; !known && !define {
			x.fail(at, "assignment to %s, which is not a local variable", l.Name)
		}
		if _, known := st.vars[l.Name]; known && define {
			x.fail(at, "redeclaration of %s in an inner scope (shadowing)", l.Name)
		}
		if rhs != nil {
			if c, ok := unparen(rhs).(*ast.CallExpr); ok && x.isTranslatedCall(c) {
				x.hint = l.Name
			}
			if x.isAppend(rhs) {
				x.fail(at, "append to a local slice")
			}
		}
		return evalR(st, func(st *bstate) bval {
			b := st.vars[l.Name]
			if b.k != bInt {
				x.fail(at, "update of a non-int variable")
			}
			return b
		}, func(st *bstate, v bval) string {
			x.declare(st, l.Name)
			switch v.k {
			case bPtr, bItem, bList:
				st.used[l.Name] = true
				st.vars[l.Name] = v
				return k(st)
			}
			return x.letInt(st, l.Name, v, k)
		})
	case *ast.StarExpr:
		id, ok := unparen(l.X).(*ast.Ident)
		if !ok || rhs == nil {
			x.fail(at, "assignment through %s", exprStr(lhs))
		}
		b, ok := st.vars[id.Name]
		if !ok || b.k != bList {
			x.fail(at, "assignment through %s", exprStr(lhs))
		}
		call, ok := unparen(rhs).(*ast.CallExpr)
		if !ok || !x.isAppend(rhs) || len(call.Args) != 2 || exprStr(unparen(call.Args[0])) != "*"+id.Name || call.Ellipsis != token.NoPos {
			x.fail(at, "only `*%s = append(*%s, item)` is supported", id.Name, id.Name)
		}
		return x.evalExpr(st, call.Args[1], func(st *bstate, it bval) string {
			if it.k != bItem {
				x.fail(at, "appended value is not an item")
			}
			el := it.parts[0]
			if len(it.parts) > 1 {
				el = "(" + strings.Join(it.parts, ", ") + ")"
			}
			name := st.fresh(id.Name)
			old := st.vars[id.Name].s
			st.vars[id.Name] = bval{k: bList, s: name}
			return "let " + name + " := " + old + " ++ [" + el + "]" + x.nl() + k(st)
		})
	case *ast.SelectorExpr:
		f := l.Sel.Name
		if x.isRecvT(l.X) {
			var fl *bfield
			for i := range x.tr.treeFlds {
				if x.tr.treeFlds[i].goName == f {
					fl = &x.tr.treeFlds[i]
				}
			}
			if fl == nil {
				x.fail(at, "field %s", f)
			}
			return evalR(st, func(st *bstate) bval { return st.tf[f] }, func(st *bstate, v bval) string {
				if v.k != fl.kind {
					x.fail(at, "kind of the value assigned to %s", exprStr(lhs))
				}
				if v.k == bPtr {
					if st.cells[v.cell].view {
						x.fail(at, "a view is stored into the tree struct")
					}
					st.tf[f] = v
					return k(st)
				}
				name := st.fresh("t_" + f)
				st.tf[f] = bval{k: v.k, s: name}
				return "let " + name + " := " + v.s + x.nl() + k(st)
			})
		}
		if !x.tr.isNodePtr(x.typeOf(l.X)) {
			x.fail(at, "assignment to %s", exprStr(lhs))
		}
		return x.evalPtr(st, l.X, func(st *bstate, c int) string {
			store := func(st *bstate, v bval) string {
				return x.deref(st, c, at, func(st *bstate) string {
					cell := &st.cells[c]
					if cell.view {
						x.fail(at, "write through a view (result of a method that writes nothing)")
					}
					old, ok := cell.fields[f]
					if !ok || old.k != v.k {
						x.fail(at, "field %s / kind of the value", f)
					}
					if v.k == bPtr && st.cells[v.cell].view {
						x.fail(at, "a view is stored into a node")
					}
					cell.fields[f] = v
					cell.dirty = true
					x.killViews(st, []int{c}, fmt.Sprintf("the write at line %d", fset.Position(at.Pos()).Line))
					return k(st)
				})
			}
			if rhs == nil {
				return x.deref(st, c, at, func(st *bstate) string { return store(st, upd(st, st.cells[c].fields[f])) })
			}
			return x.evalExpr(st, rhs, store)
		})
	}
	x.fail(at, "assignment to %s", exprStr(lhs))
	return ""
}

func (x *bx) isTranslatedCall(c *ast.CallExpr) bool {
	if _, ok := c.Fun.(*ast.SelectorExpr); !ok {
		return false
	}
	sel := c.Fun.(*ast.SelectorExpr)
	if x.accessorIndex(sel.Sel.Name) >= 0 && x.tr.isItem(x.typeOf(sel.X)) {
		return false
	}
	return x.callee(c) != nil
}

func (x *bx) isAppend(e ast.Expr) bool {
	c, ok := unparen(e).(*ast.CallExpr)
	if !ok {
		return false
	}
	id, ok := c.Fun.(*ast.Ident)
	return ok && id.Name == "append"
}

func (x *bx) ret(st *bstate, at ast.Node, vals []bval) string {
	var parts []string
	var visited []int
	for i, rk := range x.sig.results {
		v := vals[i]
		if v.k != rk {
			x.fail(at, "kind of result %d", i)
		}
		switch rk {
		case bPtr:
			if x.sig.mutating && st.cells[v.cell].view {
				x.fail(at, "a writing method returns a view")
			}
			parts = append(parts, x.materialize(st, v.cell, at, &visited))
		case bBool:
			parts = append(parts, boolTerm(v))
		case bItem:
			x.fail(at, "item result")
		default:
			parts = append(parts, v.s)
		}
	}
	for _, p := range x.sig.outPtrParams() {
		parts = append(parts, x.materialize(st, x.paramCells[p.name], at, &visited))
	}
	for _, f := range x.tr.tOuts(x.sig) {
		b := st.tf[f.goName]
		if b.k == bPtr {
			parts = append(parts, x.materialize(st, b.cell, at, &visited))
		} else {
			parts = append(parts, b.s)
		}
	}
	for _, p := range x.sig.refParams() {
		parts = append(parts, st.vars[p.name].s)
	}
	if len(parts) == 0 {
		x.fail(at, "function without result and effect")
	}
	t := parts[0]
	if len(parts) > 1 {
		t = "(" + strings.Join(parts, ", ") + ")"
	}
	if x.sig.mayPanic {
		return ".val " + t
	}
	return t
}

// loop: `for cond { body }` ↦ an auxiliary recursive definition that contains the rest of the function.
func (x *bx) loop(st *bstate, f *ast.ForStmt, k func(*bstate) string) string {
	if f.Init != nil || f.Post != nil || f.Cond == nil {
		x.fail(f, "for statement other than `for cond { .. }`")
	}
	if len(x.sig.outPtrParams()) > 0 {
		x.fail(f, "loop in a writing method that hands its receiver back")
	}
	ast.Inspect(f.Body, func(n ast.Node) bool {
		switch n.(type) {
		case *ast.BranchStmt, *ast.ForStmt, *ast.RangeStmt, *ast.LabeledStmt:
			x.fail(n, "break / continue / goto / nested loop")
		}
		return true
	})
	x.nloops++
	name := fmt.Sprintf("%s_loop%d", x.sig.name, x.nloops)
	inner := &bstate{vars: map[string]bval{}, tf: map[string]bval{}, used: map[string]bool{}}
	var params, args []string
	for _, fl := range x.tr.tFields(x.sig) {
		b := st.tf[fl.goName]
		pn := "t_" + fl.goName
		inner.used[pn] = true
		params = append(params, fmt.Sprintf("(%s : %s)", pn, x.tr.leanType(fl.kind)))
		if b.k == bPtr {
			var vis []int
			args = append(args, x.materialize(st, b.cell, f, &vis))
			inner.tf[fl.goName] = bval{k: bPtr, cell: inner.newCell(bcell{st: cClosed, term: pn, parent: -1})}
		} else {
			args = append(args, b.s)
			inner.tf[fl.goName] = bval{k: b.k, s: pn}
		}
	}
	var visited []int
	for _, vn := range st.order {
		b := st.vars[vn]
		ln := leanIdent(vn)
		inner.used[ln] = true
		inner.order = append(inner.order, vn)
		switch b.k {
		case bPtr:
			if st.cells[b.cell].st == cOpen && !x.selfClean(st, b.cell) {
				x.fail(f, "loop entered with a modified node in %s", vn)
			}
			args = append(args, x.materialize(st, b.cell, f, &visited))
			params = append(params, fmt.Sprintf("(%s : Tree)", ln))
			inner.vars[vn] = bval{k: bPtr, cell: inner.newCell(bcell{st: cClosed, term: ln, parent: -1, view: st.cells[b.cell].view})}
		case bItem:
			var ns []string
			for _, a := range x.tr.accLean {
				n := vn + "_" + a
				inner.used[n] = true
				ns = append(ns, n)
			}
			args = append(args, b.parts...)
			params = append(params, fmt.Sprintf("(%s : Int)", strings.Join(ns, " ")))
			inner.vars[vn] = bval{k: bItem, parts: ns}
		case bBool:
			args = append(args, boolTerm(b))
			params = append(params, fmt.Sprintf("(%s : Bool)", ln))
			inner.vars[vn] = bval{k: bBool, s: ln}
		default:
			args = append(args, b.s)
			params = append(params, fmt.Sprintf("(%s : %s)", ln, x.tr.leanType(b.k)))
			inner.vars[vn] = bval{k: b.k, s: ln}
		}
	}
	saveDepth := x.depth
	x.depth = 1
	body := x.evalCond(inner, f.Cond,
		func(s2 *bstate) string {
			return x.block(s2, f.Body.List, func(s3 *bstate) string {
				var as []string
				var vis []int
				for _, fl := range x.tr.tFields(x.sig) {
					b := s3.tf[fl.goName]
					if b.k == bPtr {
						as = append(as, x.materialize(s3, b.cell, f, &vis))
					} else {
						as = append(as, b.s)
					}
				}
				for _, vn := range inner.order {
					b := s3.vars[vn]
					switch b.k {
					case bPtr:
						as = append(as, x.materialize(s3, b.cell, f, &vis))
					case bItem:
						as = append(as, b.parts...)
					case bBool:
						as = append(as, boolTerm(b))
					default:
						as = append(as, b.s)
					}
				}
				return name + " " + strings.Join(as, " ")
			})
		},
		k)
	x.depth = saveDepth
	x.aux = append(x.aux, fmt.Sprintf("/-- the loop at %s:%d of `%s`, together with the code after it -/\ndef %s %s : %s :=\n  %s\n",
		bstSrcFile, fset.Position(f.Pos()).Line, x.sig.name, name, strings.Join(params, " "), x.tr.retType(x.sig), body))
	return name + " " + strings.Join(args, " ")
}

// ---- one function ----

func (tr *bstTr) translate(s *bsig) (text string, panics bool) {
	x := &bx{tr: tr, sig: s, depth: 1, paramCells: map[string]int{}}
	st := &bstate{vars: map[string]bval{}, tf: map[string]bval{}, used: map[string]bool{}}
	for _, f := range tr.tFields(s) {
		n := "t_" + f.goName
		st.used[n] = true
		if f.kind == bPtr {
			st.tf[f.goName] = bval{k: bPtr, cell: st.newCell(bcell{st: cClosed, term: n, parent: -1})}
		} else {
			st.tf[f.goName] = bval{k: f.kind, s: n}
		}
	}
	for _, p := range s.params {
		ln := leanIdent(p.name)
		st.used[ln] = true
		st.order = append(st.order, p.name)
		switch p.kind {
		case bPtr:
			c := st.newCell(bcell{st: cClosed, term: ln, parent: -1})
			st.vars[p.name] = bval{k: bPtr, cell: c}
			x.paramCells[p.name] = c
		case bItem:
			v := bval{k: bItem}
			for _, a := range tr.accLean {
				st.used[p.name+"_"+a] = true
				v.parts = append(v.parts, p.name+"_"+a)
			}
			st.vars[p.name] = v
		default:
			st.vars[p.name] = bval{k: p.kind, s: ln}
		}
	}
	body := x.block(st, s.decl.Body.List, func(st *bstate) string {
		if len(s.results) != 0 {
			x.fail(s.decl, "control reaches the end of a function with results")
		}
		return x.ret(st, s.decl, nil)
	})
	recv := ""
	if s.decl.Recv != nil {
		recv = "(" + exprStr(s.decl.Recv.List[0].Type) + ") "
	}
	var sb strings.Builder
	for _, a := range x.aux {
		sb.WriteString(a + "\n")
	}
	fmt.Fprintf(&sb, "/-- %s:%d `func %s%s`%s -/\ndef %s %s : %s :=\n  %s\n", bstSrcFile, s.line, recv, s.name,
		effectsDoc(tr, s), s.name, tr.leanParams(s), tr.retType(s), body)
	return sb.String(), x.panics
}

func effectsDoc(tr *bstTr, s *bsig) string {
	var d []string
	if s.mutating {
		d = append(d, "writes node fields")
	}
	if len(s.tWrites) > 0 {
		d = append(d, "writes t."+strings.Join(sortedKeys(s.tWrites), ", t."))
	}
	if s.mayPanic {
		d = append(d, "can dereference nil")
	}
	if len(d) == 0 {
		return ""
	}
	return " (" + strings.Join(d, "; ") + ")"
}

// ---- driver ----

func writeBst(out string, root, dbc *packages.Package) {
	if root.Module == nil || root.Module.Dir == "" {
		fmt.Fprintln(os.Stderr, "extract/bst: module directory of package acmelib unknown")
		os.Exit(1)
	}
	cfg := &packages.Config{
		Mode: packages.NeedName | packages.NeedFiles | packages.NeedSyntax | packages.NeedTypes | packages.NeedTypesInfo | packages.NeedImports | packages.NeedDeps,
		Dir:  root.Module.Dir,
		Fset: fset,
		Env:  append(os.Environ(), "GOFLAGS=-mod=mod", "GOPROXY=off"),
	}
	pkgs, err := packages.Load(cfg, "./internal")
	if err != nil || len(pkgs) != 1 || len(pkgs[0].Errors) > 0 {
		fmt.Fprintln(os.Stderr, "extract/bst: cannot load ./internal:", err)
		if len(pkgs) > 0 {
			packages.PrintErrors(pkgs)
		}
		os.Exit(1)
	}
	tr := &bstTr{pkg: pkgs[0], info: pkgs[0].TypesInfo, sigs: map[string]*bsig{}}
	for _, f := range tr.pkg.Syntax {
		if filepath.Base(fset.Position(f.Pos()).Filename) == bstSrcFile {
			tr.file = f
		}
	}
	if tr.file == nil {
		fmt.Fprintln(os.Stderr, "extract/bst: internal/"+bstSrcFile+" not found")
		os.Exit(1)
	}
	tr.readConstraint()
	tr.nodeFlds = tr.structFields("node")
	tr.treeFlds = tr.structFields("IntervalBST")
	wanted := map[string]bool{}
	for _, w := range bstWanted {
		wanted[w] = true
	}
	var srcOrder []string
	for _, d := range tr.file.Decls {
		fd, ok := d.(*ast.FuncDecl)
		if !ok {
			continue
		}
		n := fd.Name.Name
		if _, skip := bstSkipped[n]; skip {
			continue
		}
		if !wanted[n] {
			bstFail(fd, n, "this function of %s is neither translated nor listed as skipped (a new function may break the invariant the proofs are about)", bstSrcFile)
		}
		if fd.Body == nil {
			bstFail(fd, n, "no body")
		}
		tr.sigs[n] = tr.buildSig(fd)
		srcOrder = append(srcOrder, n)
	}
	for _, w := range bstWanted {
		if tr.sigs[w] == nil {
			bstFail(tr.file, w, "function not found in %s", bstSrcFile)
		}
	}
	tr.closeEffects()
	for _, n := range srcOrder {
		s := tr.sigs[n]
		for _, f := range tr.tFields(s) {
			if f.kind != bPtr {
				continue
			}
			for _, p := range s.params {
				if p.kind == bPtr {
					bstFail(s.decl, n, "the function has a node parameter and also reaches t.%s (aliasing between them is not modelled)", f.goName)
				}
			}
		}
	}
	// callees first
	done := map[string]bool{}
	var visit func(n string)
	visit = func(n string) {
		if done[n] {
			return
		}
		done[n] = true
		for _, c := range srcOrder {
			if tr.sigs[n].calls[c] && c != n {
				visit(c)
			}
		}
		tr.order = append(tr.order, n)
	}
	for _, n := range srcOrder {
		visit(n)
	}
	// may-panic: least fixpoint
	texts := map[string]string{}
	for round := 0; ; round++ {
		changed := false
		for _, n := range tr.order {
			s := tr.sigs[n]
			t, p := tr.translate(s)
			texts[n] = t
			if p && !s.mayPanic {
				s.mayPanic, changed = true, true
			}
		}
		if !changed {
			break
		}
		if round > len(tr.order)+2 {
			fmt.Fprintln(os.Stderr, "extract/bst: may-panic analysis does not converge")
			os.Exit(1)
		}
	}

	var sb strings.Builder
	sb.WriteString("/-\nGENERATED by /verif/tools/extract (kernels_bst*.go) from /repo/internal/" + bstSrcFile + " — do not edit.\n")
	sb.WriteString("Every definition is the translation of the Go function of the same name; see the header of\nkernels_bst.go for the idiom.  Proved equal to the hand model Acme.Avl in Acme/Proofs/GenBst*.lean.\n-/\n")
	sb.WriteString("import Acme.Core.GenPrelude\n\nset_option linter.unusedVariables false\n\nnamespace Acme.Gen.Bst\nopen Acme.GoSem (Res)\n\n")
	sb.WriteString("/-- `*node[T]`: nil ↦ leaf; the fields of `struct node` in declaration order -/\ninductive Tree where\n  | leaf\n  | node")
	for _, f := range tr.nodeFlds {
		for _, ln := range f.lean {
			t := "Int"
			if f.kind == bPtr {
				t = "Tree"
			}
			fmt.Fprintf(&sb, " (%s : %s)", ln, t)
		}
	}
	sb.WriteString("\n  deriving Repr, DecidableEq, Inhabited\n\n")
	for _, n := range tr.order {
		sb.WriteString(texts[n] + "\n")
	}
	sb.WriteString("/-- (function, line, writes node fields, can dereference nil) -/\ndef translated : List (String × Nat × Bool × Bool) := [\n")
	for i, n := range tr.order {
		s := tr.sigs[n]
		sep := ","
		if i == len(tr.order)-1 {
			sep = ""
		}
		fmt.Fprintf(&sb, "  (%s, %d, %v, %v)%s\n", leanStr(n), s.line, s.mutating, s.mayPanic, sep)
	}
	sb.WriteString("]\n\nend Acme.Gen.Bst\n")
	if err := os.WriteFile(filepath.Join(out, "Bst.lean"), []byte(sb.String()), 0o644); err != nil {
		fmt.Fprintln(os.Stderr, "extract/bst:", err)
		os.Exit(1)
	}
}
