package main

// Tie B for C06 ("a mutating call that returns an error leaves the model unchanged"): a static
// inventory, regenerated from the source on every run, of every function of package acmelib in
// which an ERROR RETURN is reachable AFTER a mutation of model memory — i.e. the shape
// "verify and commit interleaved" that makes a refused call non-atomic.
//
//	mutation      = a store / map update / map delete / in-place sort whose target is a field of
//	                a model object not allocated by the running function (the criterion of the
//	                store-site inventory), or a call of a function that (transitively, class-
//	                hierarchy call graph) contains one
//	error return  = a `return` whose error-typed result is not the constant nil
//	reported      = (file, function, first mutation that can precede an error return, the
//	                returned error expression), one line per function
//
// A function whose checks all precede its first mutation is not listed.  The list must equal
// the hand-classified table Acme.Expect.atomicSites (each entry with the reason it is harmless
// or the known finding it belongs to).

import (
	"go/token"
	"go/types"
	"path/filepath"
	"sort"
	"strings"

	"golang.org/x/tools/go/callgraph/cha"
	"golang.org/x/tools/go/packages"
	"golang.org/x/tools/go/ssa"
	"golang.org/x/tools/go/ssa/ssautil"
)

func init() { extraWriters = append(extraWriters, writeAtomicSites) }

func writeAtomicSites(out string, root, dbc *packages.Package) {
	prog, _ := ssautil.AllPackages([]*packages.Package{root, dbc}, ssa.InstantiateGenerics)
	prog.Build()
	cg := cha.CallGraph(prog)

	inPkg := func(fn *ssa.Function) bool {
		if fn == nil {
			return false
		}
		p := fn.Pkg
		if p == nil && fn.Origin() != nil {
			p = fn.Origin().Pkg
		}
		return p != nil && strings.HasSuffix(p.Pkg.Path(), "squadracorsepolito/acmelib")
	}
	fileOf := func(fn *ssa.Function) string {
		if fn.Pos().IsValid() {
			return filepath.Base(prog.Fset.Position(fn.Pos()).Filename)
		}
		if fn.Origin() != nil && fn.Origin().Pos().IsValid() {
			return filepath.Base(prog.Fset.Position(fn.Origin().Pos()).Filename)
		}
		return ""
	}
	skipFile := func(f string) bool {
		return f == "" || strings.HasSuffix(f, "_test.go") || strings.HasPrefix(f, "verif_") ||
			f == "importer.go" || f == "loader.go" || f == "exporter.go" || f == "saver.go" || f == "md_exporter.go"
	}
	nameOf := func(fn *ssa.Function) string {
		name := fn.Name()
		if fn.Signature.Recv() != nil {
			name = namedOf(fn.Signature.Recv().Type()) + "." + fn.Name()
		}
		if fn.Parent() != nil {
			p := fn.Parent()
			pn := p.Name()
			if p.Signature.Recv() != nil {
				pn = namedOf(p.Signature.Recv().Type()) + "." + p.Name()
			}
			name = pn + "$func"
		}
		return name
	}

	// direct mutation of one instruction
	directMut := func(ins ssa.Instruction) (string, bool) {
		switch x := ins.(type) {
		case *ssa.Store:
			if o, ok := owner(x.Addr, 0); ok && !fresh(x.Addr) {
				// the two error side channels (classified in the store-site inventory: set and
				// cleared inside one mutator call, not part of the observable model)
				if o == "Node.intErrNum" || o == "SignalEnum.parErrID" {
					return "", false
				}
				return "store " + o, true
			}
		case *ssa.MapUpdate:
			if o, ok := owner(x.Map, 0); ok {
				return "map-update " + o, true
			}
		case *ssa.Call:
			if bi, ok := x.Call.Value.(*ssa.Builtin); ok && bi.Name() == "delete" {
				if o, ok := owner(x.Call.Args[0], 0); ok {
					return "map-delete " + o, true
				}
			}
		}
		return "", false
	}

	// functions that mutate, transitively
	mutates := map[*ssa.Function]bool{}
	var fns []*ssa.Function
	for fn := range cg.Nodes {
		if fn != nil && inPkg(fn) {
			fns = append(fns, fn)
		}
	}
	for _, fn := range fns {
		for _, b := range fn.Blocks {
			for _, ins := range b.Instrs {
				if _, ok := directMut(ins); ok {
					mutates[fn] = true
				}
			}
		}
	}
	for changed := true; changed; {
		changed = false
		for _, fn := range fns {
			if mutates[fn] {
				continue
			}
			n := cg.Nodes[fn]
			if n == nil {
				continue
			}
			for _, e := range n.Out {
				if c := e.Callee.Func; c != nil && mutates[c] {
					mutates[fn] = true
					changed = true
					break
				}
			}
		}
	}
	// callees of one call site
	calleesOf := func(fn *ssa.Function, site ssa.CallInstruction) []*ssa.Function {
		var res []*ssa.Function
		if n := cg.Nodes[fn]; n != nil {
			for _, e := range n.Out {
				if e.Site == site && e.Callee.Func != nil {
					res = append(res, e.Callee.Func)
				}
			}
		}
		return res
	}

	errType := types.Universe.Lookup("error").Type()
	var sites []site
	for _, fn := range fns {
		f := fileOf(fn)
		if skipFile(f) || fn.Blocks == nil {
			continue
		}
		// does the function return an error?
		res := fn.Signature.Results()
		errIdx := -1
		for i := 0; i < res.Len(); i++ {
			if types.Identical(res.At(i).Type(), errType) {
				errIdx = i
			}
		}
		if errIdx < 0 {
			continue
		}
		// every mutating instruction, every error return
		type mut struct {
			ins  ssa.Instruction
			b    *ssa.BasicBlock
			idx  int
			what string
		}
		type eret struct {
			b    *ssa.BasicBlock
			idx  int
			v    ssa.Value
			what string
		}
		var muts []mut
		rets := map[*ssa.BasicBlock]*eret{}
		for _, b := range fn.Blocks {
			for i, ins := range b.Instrs {
				if d, ok := directMut(ins); ok {
					muts = append(muts, mut{ins, b, i, d})
				} else if c, ok := ins.(ssa.CallInstruction); ok {
					for _, callee := range calleesOf(fn, c) {
						if mutates[callee] && inPkg(callee) {
							muts = append(muts, mut{ins, b, i, "call " + nameOf(callee)})
							break
						}
					}
				}
				if r, ok := ins.(*ssa.Return); ok && errIdx < len(r.Results) {
					v := r.Results[errIdx]
					if c, isConst := v.(*ssa.Const); !(isConst && c.IsNil()) {
						rets[b] = &eret{b, i, v, describeErr(v)}
					}
				}
			}
		}
		// the error handed on from the mutating call itself is the CALLEE's business (it is analysed
		// as a function of its own): an error return counts when its value does not derive from it
		var derives func(v ssa.Value, m ssa.Instruction, depth int) bool
		derives = func(v ssa.Value, m ssa.Instruction, depth int) bool {
			if depth > 12 {
				return false
			}
			if vi, ok := v.(ssa.Instruction); ok && vi == m {
				return true
			}
			switch x := v.(type) {
			case *ssa.Extract:
				return derives(x.Tuple, m, depth+1)
			case *ssa.MakeInterface:
				return derives(x.X, m, depth+1)
			case *ssa.ChangeInterface:
				return derives(x.X, m, depth+1)
			case *ssa.UnOp:
				return derives(x.X, m, depth+1)
			case *ssa.Phi:
				for _, e := range x.Edges {
					if derives(e, m, depth+1) {
						return true
					}
				}
			case *ssa.Call:
				// wrappers: errorf(err), &XxxError{Err: err} are built from the callee's error
				for _, a := range x.Call.Args {
					if derives(a, m, depth+1) {
						return true
					}
				}
			case *ssa.Alloc:
				// &T{Err: err}: look at the stores into the fresh struct
				for _, ref := range *x.Referrers() {
					if fa, ok := ref.(*ssa.FieldAddr); ok {
						for _, r2 := range *fa.Referrers() {
							if st, ok := r2.(*ssa.Store); ok && derives(st.Val, m, depth+1) {
								return true
							}
						}
					}
				}
			}
			return false
		}
		found := ""
		for _, m := range muts {
			if found != "" {
				break
			}
			if r := rets[m.b]; r != nil && r.idx > m.idx && !derives(r.v, m.ins, 0) {
				found = m.what + " -> return " + r.what
				break
			}
			seen := map[*ssa.BasicBlock]bool{}
			stack := append([]*ssa.BasicBlock{}, m.b.Succs...)
			for len(stack) > 0 && found == "" {
				x := stack[len(stack)-1]
				stack = stack[:len(stack)-1]
				if seen[x] {
					continue
				}
				seen[x] = true
				if r := rets[x]; r != nil && !derives(r.v, m.ins, 0) {
					found = m.what + " -> return " + r.what
					break
				}
				stack = append(stack, x.Succs...)
			}
		}
		if found != "" {
			sites = append(sites, site{f, nameOf(fn), "error-after-mutation", found})
		}
	}
	sort.Slice(sites, func(i, j int) bool {
		if sites[i].file != sites[j].file {
			return sites[i].file < sites[j].file
		}
		return sites[i].fn < sites[j].fn
	})
	writeSites(filepath.Join(out, "AtomicSites.lean"), "Acme.Gen", "atomicSites",
		"every function of package acmelib (model files) in which a return with a non-nil error is reachable after a mutation of model memory: (file, function, kind, first such mutation -> the error returned)",
		sites)
	_ = token.NoPos
}

// describeErr names an error value: the called function / the allocated type / the parameter.
func describeErr(v ssa.Value) string {
	switch x := v.(type) {
	case *ssa.Call:
		if f := x.Call.StaticCallee(); f != nil {
			return f.Name() + "(..)"
		}
		if x.Call.Method != nil {
			return x.Call.Method.Name() + "(..)"
		}
		return "call"
	case *ssa.MakeInterface:
		return describeErr(x.X)
	case *ssa.Alloc:
		return "&" + namedOf(x.Type())
	case *ssa.Phi:
		return "err (phi)"
	case *ssa.Parameter:
		return x.Name()
	case *ssa.Extract:
		return describeErr(x.Tuple)
	case *ssa.UnOp:
		return describeErr(x.X)
	case *ssa.Global:
		return x.Name()
	}
	return "err"
}
