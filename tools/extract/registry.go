package main

// Tie B for C04 / C05: which function touches which REGISTRY how.  Every call of a mutating
// method of the generic `set` (add, remove, modifyKey, clear) on a field of a model object, and
// every call of addRef / removeRef / addAttributeAssignment / removeAttributeAssignment, in the
// model files of package acmelib: (file, function, operation, registry field as written).
// A key that is registered in two places (interface and bus, multiplexer and message) must be
// released in both; a function that stops releasing one of them changes this inventory.

import (
	"go/ast"
	"path/filepath"
	"strings"

	"golang.org/x/tools/go/packages"
)

func init() { extraWriters = append(extraWriters, writeRegistryOps) }

func writeRegistryOps(out string, root, dbc *packages.Package) {
	ops := map[string]bool{"add": true, "remove": true, "modifyKey": true, "clear": true,
		"addRef": true, "removeRef": true, "addAttributeAssignment": true, "removeAttributeAssignment": true}
	skip := map[string]bool{"importer.go": true, "loader.go": true, "exporter.go": true, "saver.go": true,
		"md_exporter.go": true, "helpers.go": true}
	var sites []site
	for _, f := range root.Syntax {
		base := filepath.Base(fset.Position(f.Pos()).Filename)
		if strings.HasSuffix(base, "_test.go") || strings.HasPrefix(base, "verif_") || skip[base] {
			continue
		}
		for _, d := range f.Decls {
			fd, ok := d.(*ast.FuncDecl)
			if !ok || fd.Body == nil {
				continue
			}
			fn := funcName(fd)
			ast.Inspect(fd.Body, func(n ast.Node) bool {
				c, ok := n.(*ast.CallExpr)
				if !ok {
					return true
				}
				sel, ok := c.Fun.(*ast.SelectorExpr)
				if !ok || !ops[sel.Sel.Name] {
					return true
				}
				// the receiver expression must be a field path (x.f or x.f.g), not a local map helper
				if _, isSel := sel.X.(*ast.SelectorExpr); !isSel {
					if sel.Sel.Name != "addRef" && sel.Sel.Name != "removeRef" &&
						sel.Sel.Name != "addAttributeAssignment" && sel.Sel.Name != "removeAttributeAssignment" {
						return true
					}
				}
				sites = append(sites, site{base, fn, sel.Sel.Name, exprStr(sel.X)})
				return true
			})
		}
	}
	writeSites(filepath.Join(out, "RegistryOps.lean"), "Acme.Gen", "registryOps",
		"every mutating call on a registry (set.add / remove / modifyKey / clear on a field path; addRef / removeRef; add / removeAttributeAssignment) in the model files: (file, function, operation, registry as written)",
		sites)
}
