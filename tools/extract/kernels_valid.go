// Validation kernels: the argument checks of constructors and verify-functions that several hand
// models re-implement.
//
//	signal_type.go  newSignalTypeFromEntity           K.newSignalTypeFromEntity  ↔ Payload.step (.typeNew ..)
//	attribute.go    newIntegerAttributeFromBase       K.newIntegerAttribute      ↔ Attr.newInt
//	attribute.go    newFloatAttributeFromBase         K.newFloatAttribute        ↔ Attr.newFloat
//	signal_enum.go  (*SignalEnum).verifyValueName     K.verifyValueName          ↔ Payload.hasValName
//	signal_enum.go  (*SignalEnum).verifyValueIndex    K.verifyValueIndex         ↔ Payload.verifyValueIndex
//
// Constructs used here (generic parts in kernels.go):
//
//	(*T, error) results           a nilable struct pointer of the struct table ↦ `Option record`:
//	                              `return nil, &ArgumentError{..}` ↦ (none, some ..), `return &T{..}, nil`
//	                              ↦ (some {..}, none); the fields `attribute` / `entity` / `withRefs`
//	                              (and the parameters `base`, `ent` they come from) are NOT translated
//	&ArgumentError{Name: "min", Err: &ErrGreaterThen{Target: "max"}}   ↦ some (Cause.ErrGreaterThen,
//	                              "min", "max"): a cause that is a struct carrying the name of the bound
//	VCause (causeType)            the causes of these kernels are a SEPARATE generated inductive: `Cause`
//	                              stays the set of sentinels of the layout kernels (its match in
//	                              Acme.GenK.ofCause must break when one of THOSE gains a sentinel)
//	float64 (floatOrder)          ↦ `Rat`, ORDER ONLY: the exact value the float denotes; parameters,
//	                              constants, `<` `>` `<=` `>=` `==` `!=` and copying are translated;
//	                              arithmetic and conversions are rejected.  NaN (for which every
//	                              comparison is false) and the infinities are outside the model, as
//	                              in Acme.Core.Attr
//	se.valueNames.verifyKeyUnique(name)   (opaque) the set's keys are a list parameter; the call is
//	                              `if names.contains name then some ErrIsDuplicated else none` —
//	                              `set.verifyKeyUnique` (helpers.go, a generic method) is trusted
//	se.verifySize(newSize)        (opaque) ↦ the extra parameter `verifySize : Int → Option Cause`
//	                              (the layout checks of every signal that references the enum)
package main

var validTypes = map[string]kType{
	"string":            {k: kStr},
	"untyped string":    {k: kStr},
	"*SignalType":       {k: kElemOpt, elem: "Acme.GoSem.KSigType"},
	"*IntegerAttribute": {k: kElemOpt, elem: "Acme.GoSem.KIntAttr"},
	"*FloatAttribute":   {k: kElemOpt, elem: "Acme.GoSem.KFloatAttr"},
}

var validStructs = map[string]kStructSpec{
	"SignalType": {lean: "Acme.GoSem.KSigType", fields: map[string]string{
		"entity": "", "withRefs": "",
		"kind": "kind := %", "size": "size := %", "signed": "signed := %", "min": "min := %", "max": "max := %",
		"scale": "scale := %", "offset": "offset := %"}},
	"IntegerAttribute": {lean: "Acme.GoSem.KIntAttr", fields: map[string]string{
		"attribute": "", "defValue": "defValue := %", "min": "min := %", "max": "max := %", "isHexFormat": "isHexFormat := %"}},
	"FloatAttribute": {lean: "Acme.GoSem.KFloatAttr", fields: map[string]string{
		"attribute": "", "defValue": "defValue := %", "min": "min := %", "max": "max := %"}},
}

var dupCause = []string{"ErrIsDuplicated"}

var validKernelSpecs = []kernelSpec{
	{pkg: "acmelib", file: "signal_type.go", goName: "newSignalTypeFromEntity", lean: "newSignalTypeFromEntity",
		goTypes: validTypes, structs: validStructs, floatOrder: true, errLean: "(VCause × String)", causeType: "VCause",
		model: "Acme.Payload.step (.typeNew ..): the size checks"},
	{pkg: "acmelib", file: "attribute.go", goName: "newIntegerAttributeFromBase", lean: "newIntegerAttribute",
		goTypes: validTypes, structs: validStructs, errLean: "(VCause × String × String)", causeType: "VCause",
		model: "Acme.Attr.newInt"},
	{pkg: "acmelib", file: "attribute.go", goName: "newFloatAttributeFromBase", lean: "newFloatAttribute",
		goTypes: validTypes, structs: validStructs, floatOrder: true, errLean: "(VCause × String × String)", causeType: "VCause",
		model: "Acme.Attr.newFloat"},
	{pkg: "acmelib", file: "signal_enum.go", goName: "SignalEnum.verifyValueName", lean: "verifyValueName",
		goTypes: validTypes, errLean: "VCause", causeType: "VCause",
		extraParams: []kVar{{"names", kType{k: kFunc, elem: "List String"}}},
		opaque: []kOpaque{{fun: "se.valueNames.verifyKeyUnique", args: []kType{{k: kStr}}, res: kType{k: kErrT, elem: "VCause"},
			lean: "(if List.contains names %1 = true then some VCause.ErrIsDuplicated else none)", causes: dupCause}},
		model: "Acme.Payload.hasValName"},
	{pkg: "acmelib", file: "signal_enum.go", goName: "SignalEnum.verifyValueIndex", lean: "verifyValueIndex",
		goTypes: validTypes, errLean: "VCause", causeType: "VCause",
		fields: []kField{{"se.minSize", "minSize"}},
		vias: []kVia{{"se.values.entries()", "vals", kType{k: kList, elem: "Acme.GoSem.IdIndex"}},
			{"value.entityID", "id", kType{k: kId}}},
		idTypes: []string{"EntityID"},
		extraParams: []kVar{{"indexes", kType{k: kFunc, elem: "List Int"}},
			{"verifySize", kType{k: kFunc, elem: "Int → Option VCause"}}},
		opaque: []kOpaque{
			{fun: "se.valueIndexes.verifyKeyUnique", args: []kType{{k: kInt}}, res: kType{k: kErrT, elem: "VCause"},
				lean: "(if List.contains indexes %1 = true then some VCause.ErrIsDuplicated else none)", causes: dupCause},
			// verifySize can fail with the sentinels of the layout checks
			{fun: "se.verifySize", args: []kType{{k: kInt}}, res: kType{k: kErrT, elem: "VCause"}, lean: "(verifySize %1)",
				causes: []string{"ErrIsNegative", "ErrIsZero", "ErrOutOfBounds", "ErrNoSpaceLeft", "ErrIntersect", "ErrTooSmall"}}},
		model: "Acme.Payload.verifyValueIndex"},
}

func init() { kernelSpecs = append(kernelSpecs, validKernelSpecs...) }
