// Comparators.lean: every comparator function literal that package acmelib passes to
// slices.SortFunc / slices.SortStableFunc, translated from the CURRENT source to a Lean
// definition `Acme.Gen.Cmp.<file>_<function>_<n> : Keys → Keys → Int` over a generated record of
// exactly the keys the comparator reads, together with the helper functions it calls
// (orCompare, compareEntityIDs, ...: translated from their declarations) and two tables
// (`comparators`: the inventory; `all`: the comparators themselves, for the aggregated theorem).
// Acme/Proofs/GenComparators.lean proves each one a total preorder (what slices.SortFunc needs)
// and, for those that end in the entity id, that a tie implies equal entity ids (property C15).
//
// Subset (anything else makes the extractor exit 1, naming the construct):
//
//	keys         projections of the two parameters: field selections and getter calls without
//	             arguments (a.node.name, a.attribute.Name()); integer kinds ↦ Int (by value),
//	             string kinds (string, EntityID) ↦ String, float64 ↦ Int (its rank under
//	             cmp.Compare, which is a total preorder on float64: NaN first, -0 = +0)
//	expressions  integer constants, locals, x - y on integers, conversions int(x) of integers of
//	             at most 32 bits or signed 64, string(x) of strings, cmp.Compare, strings.Compare,
//	             calls of plain functions of package acmelib (translated as helpers; a parameter of
//	             type func() int ↦ Unit → Int, a func() int literal ↦ fun _ => ..)
//	statements   return e; x := e; if [x := e;] cond { .. } [else { .. }] with comparisons of the
//	             above as conditions
//
// sort.Slice / sort.SliceStable and comparators that are not function literals are reported as
// errors (there are none in the source).
package main

import (
	"fmt"
	"go/ast"
	"go/constant"
	"go/token"
	"go/types"
	"os"
	"path/filepath"
	"sort"
	"strings"

	"golang.org/x/tools/go/packages"
)

func init() { extraWriters = append(extraWriters, writeComparators) }

type cKind int

const (
	cInt cKind = iota
	cStr
	cRank // float64 ordered by cmp.Compare ↦ Int
	cThunk
	cBool
)

func (k cKind) lean() string {
	switch k {
	case cInt, cRank:
		return "Int"
	case cStr:
		return "String"
	case cThunk:
		return "Unit → Int"
	}
	return "Bool"
}

type cKey struct {
	name   string // Lean field name
	path   string // Go projection, without the parameter
	kind   cKind
	goType string
	isID   bool // Go type EntityID
}

type cmpOut struct {
	name, file, fn, sorted string
	keys                   []*cKey
	body                   string
	src                    string
	idKey                  string // Lean field compared last, "" when the chain does not end in the entity id
	floatKeys              bool
}

type cmpErr struct {
	pos token.Pos
	msg string
}

type ctr struct {
	info    *types.Info
	pkg     *packages.Package
	a, b    types.Object     // the two parameters of the comparator (nil inside a helper)
	keys    map[string]*cKey // by path
	order   []*cKey
	locals  map[types.Object]cKind
	lnames  map[types.Object]string
	helpers *helperSet
}

type helperSet struct {
	defs  map[types.Object]string // translated helper definitions
	order []types.Object
	kinds map[types.Object][]cKind
	busy  map[types.Object]bool
}

func (t *ctr) fail(n ast.Node, format string, a ...any) {
	pos := token.NoPos
	if n != nil {
		pos = n.Pos()
	}
	panic(cmpErr{pos, fmt.Sprintf(format, a...)})
}

func (t *ctr) kindOf(ty types.Type, at ast.Node) cKind {
	ty = types.Unalias(ty)
	if sig, ok := ty.Underlying().(*types.Signature); ok {
		if sig.Params().Len() == 0 && sig.Results().Len() == 1 {
			if b, ok := sig.Results().At(0).Type().Underlying().(*types.Basic); ok && b.Kind() == types.Int {
				return cThunk
			}
		}
		t.fail(at, "function type %s (only func() int)", ty)
	}
	b, ok := ty.Underlying().(*types.Basic)
	if !ok {
		t.fail(at, "value of type %s (keys are integers, strings and float64)", ty)
	}
	switch {
	case b.Info()&types.IsInteger != 0:
		return cInt
	case b.Info()&types.IsString != 0:
		return cStr
	case b.Kind() == types.Float64 || b.Kind() == types.Float32 || b.Kind() == types.UntypedFloat:
		return cRank
	case b.Info()&types.IsBoolean != 0:
		return cBool
	}
	t.fail(at, "value of type %s (keys are integers, strings and float64)", ty)
	return cInt
}

// projection recognises a.f.g / a.f.M() chains rooted at one of the two parameters.
func (t *ctr) projection(e ast.Expr) (root types.Object, path string, ok bool) {
	switch x := unparen(e).(type) {
	case *ast.Ident:
		obj := t.info.Uses[x]
		if obj != nil && (obj == t.a || obj == t.b) {
			return obj, "", true
		}
	case *ast.SelectorExpr:
		if r, p, ok := t.projection(x.X); ok {
			if sel, isSel := t.info.Selections[x]; isSel && sel.Kind() == types.FieldVal {
				return r, join(p, x.Sel.Name), true
			}
			if sel, isSel := t.info.Selections[x]; isSel && sel.Kind() == types.MethodVal {
				return r, join(p, x.Sel.Name+"()"), true
			}
		}
	case *ast.CallExpr:
		if len(x.Args) == 0 {
			if sel, isSel := unparen(x.Fun).(*ast.SelectorExpr); isSel {
				if s, ok := t.info.Selections[sel]; ok && s.Kind() == types.MethodVal {
					if r, p, ok := t.projection(sel.X); ok {
						return r, join(p, sel.Sel.Name+"()"), true
					}
				}
			}
		}
	}
	return nil, "", false
}

func join(p, s string) string {
	if p == "" {
		return s
	}
	return p + "." + s
}

// keyName: node.entityID ↦ node_entityID; attribute.Name() ↦ attribute_name
func keyName(path string) string {
	var parts []string
	for _, p := range strings.Split(path, ".") {
		if strings.HasSuffix(p, "()") {
			p = strings.TrimSuffix(p, "()")
			if p == "EntityID" {
				p = "entityID"
			} else {
				p = strings.ToLower(p[:1]) + p[1:]
			}
		}
		parts = append(parts, p)
	}
	return mangle(strings.Join(parts, "_"))
}

func (t *ctr) key(e ast.Expr, root types.Object, path string) (string, cKind) {
	if path == "" {
		t.fail(e, "the comparator parameter itself used as a value")
	}
	k, ok := t.keys[path]
	if !ok {
		gt := t.info.Types[e].Type
		k = &cKey{name: keyName(path), path: path, kind: t.kindOf(gt, e), goType: gt.String()}
		if nt, isNamed := types.Unalias(gt).(*types.Named); isNamed && nt.Obj().Name() == "EntityID" {
			k.isID = true
		}
		if k.kind == cThunk || k.kind == cBool {
			t.fail(e, "key `%s` of type %s", path, gt)
		}
		for _, o := range t.order {
			if o.name == k.name {
				t.fail(e, "two keys named %s", k.name)
			}
		}
		t.keys[path] = k
		t.order = append(t.order, k)
	}
	who := "a"
	if root == t.b {
		who = "b"
	}
	return who + "." + k.name, k.kind
}

func (t *ctr) expr(e ast.Expr) (string, cKind) {
	e = unparen(e)
	if t.a != nil {
		if root, path, ok := t.projection(e); ok {
			return t.key(e, root, path)
		}
	}
	tv := t.info.Types[e]
	if tv.Value != nil {
		if iv := constant.ToInt(tv.Value); iv.Kind() == constant.Int {
			return "(" + iv.ExactString() + " : Int)", cInt
		}
		t.fail(e, "constant %s", tv.Value)
	}
	switch x := e.(type) {
	case *ast.Ident:
		obj := t.info.Uses[x]
		if k, ok := t.locals[obj]; ok {
			return t.lnames[obj], k
		}
		t.fail(x, "identifier `%s`", x.Name)
	case *ast.BinaryExpr:
		if x.Op == token.SUB {
			l, lk := t.expr(x.X)
			r, rk := t.expr(x.Y)
			if lk != cInt || rk != cInt {
				t.fail(x, "subtraction of non-integers")
			}
			return "(" + l + " - " + r + ")", cInt
		}
		t.fail(x, "operator %s in a comparator", x.Op)
	case *ast.UnaryExpr:
		if x.Op == token.SUB {
			v, k := t.expr(x.X)
			if k == cInt {
				return "(-" + v + ")", cInt
			}
		}
		t.fail(x, "unary %s", x.Op)
	case *ast.FuncLit:
		if t.kindOf(t.info.Types[x].Type, x) == cThunk {
			return "(fun _ =>\n" + t.stmts(x.Body.List, 3) + "    )", cThunk
		}
	case *ast.CallExpr:
		return t.call(x)
	}
	t.fail(e, "expression `%s` (%T)", exprStr(e), e)
	return "", cInt
}

func (t *ctr) call(c *ast.CallExpr) (string, cKind) {
	fun := unparen(c.Fun)
	if tvf, ok := t.info.Types[fun]; ok && tvf.IsType() { // conversion
		if len(c.Args) != 1 {
			t.fail(c, "conversion")
		}
		v, k := t.expr(c.Args[0])
		to := t.kindOf(tvf.Type, c)
		from, _ := t.info.Types[c.Args[0]].Type.Underlying().(*types.Basic)
		switch {
		case to == cStr && k == cStr:
			return v, cStr
		case to == cInt && k == cInt && from != nil:
			tb := tvf.Type.Underlying().(*types.Basic)
			wide := func(b *types.Basic) bool {
				switch b.Kind() {
				case types.Uint64, types.Uint, types.Uintptr:
					return true
				}
				return false
			}
			narrow := func(b *types.Basic) bool {
				switch b.Kind() {
				case types.Int, types.Int64, types.Uint64, types.Uint, types.Uintptr:
					return false
				}
				return true
			}
			// value-preserving: target int / int64 from anything but an unsigned 64-bit type
			if (tb.Kind() == types.Int || tb.Kind() == types.Int64) && !wide(from) || (!narrow(tb) && tb.Kind() == from.Kind()) {
				return v, cInt
			}
		}
		t.fail(c, "conversion `%s` (only value-preserving integer conversions and string(..))", exprStr(c))
	}
	if tm, ok := fun.(*ast.Ident); ok && t.locals != nil { // call of a func() int parameter
		if obj := t.info.Uses[tm]; obj != nil {
			if k, isLocal := t.locals[obj]; isLocal && k == cThunk && len(c.Args) == 0 {
				return "(" + t.lnames[obj] + " ())", cInt
			}
		}
	}
	var obj types.Object
	switch f := fun.(type) {
	case *ast.Ident:
		obj = t.info.Uses[f]
	case *ast.SelectorExpr:
		obj = t.info.Uses[f.Sel]
	}
	fn, ok := obj.(*types.Func)
	if !ok || fn.Pkg() == nil {
		t.fail(c, "call `%s`", exprStr(c))
	}
	full := fn.Pkg().Path() + "." + fn.Name()
	if sig := fn.Type().(*types.Signature); sig.Recv() != nil {
		t.fail(c, "method call `%s` that is not a key of the comparator parameters", exprStr(c))
	}
	switch full {
	case "cmp.Compare", "strings.Compare":
		if len(c.Args) != 2 {
			t.fail(c, "%s with %d arguments", full, len(c.Args))
		}
		l, lk := t.expr(c.Args[0])
		r, rk := t.expr(c.Args[1])
		if lk != rk {
			t.fail(c, "%s of a %s and a %s", full, lk.lean(), rk.lean())
		}
		switch {
		case full == "strings.Compare" && lk == cStr:
			return "(Acme.CmpLib.stringsCompare " + l + " " + r + ")", cInt
		case full == "cmp.Compare" && lk == cStr:
			return "(Acme.CmpLib.cmpCompareStr " + l + " " + r + ")", cInt
		case full == "cmp.Compare" && (lk == cInt || lk == cRank):
			return "(Acme.CmpLib.cmpCompareInt " + l + " " + r + ")", cInt
		}
		t.fail(c, "%s on %s", full, lk.lean())
	}
	if fn.Pkg() == t.pkg.Types {
		kinds := t.helpers.translate(t, fn, c)
		if len(kinds) != len(c.Args) {
			t.fail(c, "call of %s with %d arguments", fn.Name(), len(c.Args))
		}
		s := "(" + mangle(fn.Name())
		for i, a := range c.Args {
			v, k := t.expr(a)
			want := kinds[i]
			if k != want && !(k == cRank && want == cInt) {
				t.fail(a, "argument %d of %s: %s where %s is expected", i+1, fn.Name(), k.lean(), want.lean())
			}
			s += " " + v
		}
		return s + ")", cInt
	}
	t.fail(c, "call of `%s` (only cmp.Compare, strings.Compare and plain functions of package acmelib)", full)
	return "", cInt
}

func (t *ctr) cond(e ast.Expr) string {
	e = unparen(e)
	if b, ok := e.(*ast.BinaryExpr); ok {
		sym := map[token.Token]string{token.EQL: "=", token.NEQ: "≠", token.LSS: "<", token.LEQ: "≤", token.GTR: ">", token.GEQ: "≥"}[b.Op]
		if sym != "" {
			l, lk := t.expr(b.X)
			r, rk := t.expr(b.Y)
			if lk != rk || lk == cThunk {
				t.fail(e, "comparison of a %s with a %s", lk.lean(), rk.lean())
			}
			return "(" + l + " " + sym + " " + r + ")"
		}
		switch b.Op {
		case token.LAND:
			return "(" + t.cond(b.X) + " ∧ " + t.cond(b.Y) + ")"
		case token.LOR:
			return "(" + t.cond(b.X) + " ∨ " + t.cond(b.Y) + ")"
		}
	}
	if u, ok := e.(*ast.UnaryExpr); ok && u.Op == token.NOT {
		return "(¬ " + t.cond(u.X) + ")"
	}
	t.fail(e, "condition `%s`", exprStr(e))
	return ""
}

func (t *ctr) define(s ast.Stmt, ind int) string {
	as, ok := s.(*ast.AssignStmt)
	if !ok || as.Tok != token.DEFINE || len(as.Lhs) != 1 || len(as.Rhs) != 1 {
		t.fail(s, "statement `%s` (only x := e)", exprStr(s))
	}
	id, ok := as.Lhs[0].(*ast.Ident)
	if !ok {
		t.fail(s, "definition of `%s`", exprStr(as.Lhs[0]))
	}
	v, k := t.expr(as.Rhs[0])
	obj := t.info.Defs[id]
	name := mangle(id.Name)
	if name == "a" || name == "b" {
		t.fail(s, "local variable named %s", name)
	}
	t.locals[obj] = k
	t.lnames[obj] = name
	return pad(ind) + "let " + name + " : " + k.lean() + " := " + v + "\n"
}

// stmts translates a statement list that returns on every path.
func (t *ctr) stmts(list []ast.Stmt, ind int) string {
	if len(list) == 0 {
		panic(cmpErr{token.NoPos, "a path of the comparator does not return"})
	}
	switch x := list[0].(type) {
	case *ast.ReturnStmt:
		if len(x.Results) != 1 {
			t.fail(x, "return of %d values", len(x.Results))
		}
		v, k := t.expr(x.Results[0])
		if k != cInt {
			t.fail(x, "return of a %s", k.lean())
		}
		return pad(ind) + v + "\n"
	case *ast.AssignStmt:
		return t.define(x, ind) + t.stmts(list[1:], ind)
	case *ast.IfStmt:
		s := ""
		if x.Init != nil {
			s = t.define(x.Init, ind)
		}
		s += pad(ind) + "if " + t.cond(x.Cond) + " then\n" + t.stmts(x.Body.List, ind+1) + pad(ind) + "else\n"
		switch e := x.Else.(type) {
		case nil:
			return s + t.stmts(list[1:], ind+1)
		case *ast.BlockStmt:
			return s + t.stmts(append(append([]ast.Stmt(nil), e.List...), list[1:]...), ind+1)
		case *ast.IfStmt:
			return s + t.stmts(append([]ast.Stmt{e}, list[1:]...), ind+1)
		}
	case *ast.BlockStmt:
		return t.stmts(append(append([]ast.Stmt(nil), x.List...), list[1:]...), ind)
	}
	t.fail(list[0], "statement `%s` (%T)", exprStr(list[0]), list[0])
	return ""
}

// translate a plain function of package acmelib called by a comparator
func (h *helperSet) translate(from *ctr, fn *types.Func, at ast.Node) []cKind {
	if k, ok := h.kinds[fn]; ok {
		return k
	}
	if h.busy[fn] {
		from.fail(at, "recursive helper %s", fn.Name())
	}
	h.busy[fn] = true
	var fd *ast.FuncDecl
	for _, f := range from.pkg.Syntax {
		for _, d := range f.Decls {
			if x, ok := d.(*ast.FuncDecl); ok && from.info.Defs[x.Name] == fn {
				fd = x
			}
		}
	}
	if fd == nil || fd.Body == nil || fd.Type.TypeParams != nil {
		from.fail(at, "helper %s has no (non-generic) declaration in package acmelib", fn.Name())
	}
	t := &ctr{info: from.info, pkg: from.pkg, locals: map[types.Object]cKind{}, lnames: map[types.Object]string{},
		keys: map[string]*cKey{}, helpers: h}
	var params string
	var kinds []cKind
	for _, fl := range fd.Type.Params.List {
		for _, id := range fl.Names {
			obj := t.info.Defs[id]
			k := t.kindOf(obj.Type(), id)
			if k == cBool {
				t.fail(id, "bool parameter of a helper")
			}
			t.locals[obj] = k
			t.lnames[obj] = mangle(id.Name)
			params += " (" + mangle(id.Name) + " : " + k.lean() + ")"
			kinds = append(kinds, k)
		}
	}
	if fd.Type.Results == nil || len(fd.Type.Results.List) != 1 || t.kindOf(t.info.Types[fd.Type.Results.List[0].Type].Type, fd) != cInt {
		t.fail(fd, "helper %s does not return one int", fn.Name())
	}
	body := t.stmts(fd.Body.List, 1)
	h.kinds[fn] = kinds
	h.defs[fn] = "/- " + fileOf(fd) + ", " + fn.Name() + "\n\n" + exprSrc(fd) + "\n-/\ndef " + mangle(fn.Name()) + params + " : Int :=\n" + body + "\n"
	h.order = append(h.order, fn)
	delete(h.busy, fn)
	return kinds
}

// idTail finds the key compared last: the chain ends in a comparison of the same EntityID-typed
// projection of a and of b.
func (t *ctr) idTail(list []ast.Stmt) string {
	if len(list) == 0 {
		return ""
	}
	ret, ok := list[len(list)-1].(*ast.ReturnStmt)
	if !ok || len(ret.Results) != 1 {
		return ""
	}
	call, ok := unparen(ret.Results[0]).(*ast.CallExpr)
	if !ok || len(call.Args) == 0 {
		return ""
	}
	if fl, ok := unparen(call.Args[len(call.Args)-1]).(*ast.FuncLit); ok {
		return t.idTail(fl.Body.List)
	}
	if len(call.Args) != 2 {
		return ""
	}
	strip := func(e ast.Expr) ast.Expr {
		for {
			e = unparen(e)
			c, ok := e.(*ast.CallExpr)
			if !ok || len(c.Args) != 1 {
				return e
			}
			if tv, ok := t.info.Types[unparen(c.Fun)]; !ok || !tv.IsType() {
				return e
			}
			e = c.Args[0]
		}
	}
	r1, p1, ok1 := t.projection(strip(call.Args[0]))
	r2, p2, ok2 := t.projection(strip(call.Args[1]))
	if !ok1 || !ok2 || p1 != p2 || r1 == r2 {
		return ""
	}
	if k, ok := t.keys[p1]; ok && k.isID {
		return k.name
	}
	return ""
}

func writeComparators(outDir string, root, _ *packages.Package) {
	path := filepath.Join(outDir, "Comparators.lean")
	os.Remove(path)
	curName := ""
	defer func() {
		if r := recover(); r != nil {
			var pos token.Pos
			var msg string
			switch e := r.(type) {
			case cmpErr:
				pos, msg = e.pos, e.msg
			case kErr:
				pos, msg = e.pos, e.msg
			default:
				panic(r)
			}
			where := ""
			if pos.IsValid() {
				ps := fset.Position(pos)
				where = fmt.Sprintf("%s:%d: ", filepath.Base(ps.Filename), ps.Line)
			}
			fmt.Fprintf(os.Stderr, "extract/comparators: %scomparator %s: unsupported by the translator: %s\n", where, curName, msg)
			os.Exit(1)
		}
	}()

	helpers := &helperSet{defs: map[types.Object]string{}, kinds: map[types.Object][]cKind{}, busy: map[types.Object]bool{}}
	var outs []*cmpOut
	files := append([]*ast.File(nil), root.Syntax...)
	sort.Slice(files, func(i, j int) bool { return fileOf(files[i]) < fileOf(files[j]) })
	for _, f := range files {
		fname := fset.Position(f.Pos()).Filename
		if strings.HasSuffix(fname, "_test.go") || strings.Contains(filepath.Base(fname), "verif_") {
			continue
		}
		for _, d := range f.Decls {
			fd, ok := d.(*ast.FuncDecl)
			if !ok || fd.Body == nil {
				continue
			}
			n := 0
			ast.Inspect(fd.Body, func(nd ast.Node) bool {
				c, ok := nd.(*ast.CallExpr)
				if !ok {
					return true
				}
				s := exprStr(c.Fun)
				base := strings.TrimSuffix(fileOf(f), ".go") + "_" + strings.ReplaceAll(funcName(fd), ".", "_")
				switch s {
				case "sort.Slice", "sort.SliceStable", "sort.Sort", "sort.Stable":
					curName = base
					panic(cmpErr{c.Pos(), s + " (index-based comparators are not translated)"})
				case "slices.SortFunc", "slices.SortStableFunc":
				default:
					return true
				}
				n++
				curName = fmt.Sprintf("%s_%d", base, n)
				if len(c.Args) != 2 {
					panic(cmpErr{c.Pos(), "sort call with other than two arguments"})
				}
				fl, ok := unparen(c.Args[1]).(*ast.FuncLit)
				if !ok {
					panic(cmpErr{c.Pos(), "comparator `" + exprStr(c.Args[1]) + "` is not a function literal"})
				}
				t := &ctr{info: root.TypesInfo, pkg: root, keys: map[string]*cKey{}, locals: map[types.Object]cKind{},
					lnames: map[types.Object]string{}, helpers: helpers}
				var ps []types.Object
				for _, fld := range fl.Type.Params.List {
					for _, id := range fld.Names {
						ps = append(ps, t.info.Defs[id])
					}
				}
				if len(ps) != 2 || !types.Identical(ps[0].Type(), ps[1].Type()) {
					t.fail(fl, "comparator without two parameters of one type")
				}
				t.a, t.b = ps[0], ps[1]
				o := &cmpOut{name: curName, file: fileOf(f), fn: funcName(fd), sorted: exprStr(c.Args[0])}
				o.body = t.stmts(fl.Body.List, 1)
				o.keys = t.order
				o.idKey = t.idTail(fl.Body.List)
				for _, k := range o.keys {
					if k.kind == cRank {
						o.floatKeys = true
					}
				}
				start, end := fset.Position(fl.Pos()), fset.Position(fl.End())
				if data, err := os.ReadFile(start.Filename); err == nil && end.Offset <= len(data) {
					o.src = strings.ReplaceAll(strings.ReplaceAll(string(data[start.Offset:end.Offset]), "-/", "- /"), "/-", "/ -")
				}
				outs = append(outs, o)
				return true
			})
		}
	}

	var b strings.Builder
	b.WriteString("/- GENERATED by /verif/tools/extract (comparators.go) from /repo — do not edit.\n")
	b.WriteString("   Every comparator passed to slices.SortFunc in package acmelib, and the helpers it calls.\n")
	b.WriteString("   Proved total (and, where it ends in the entity id, tie-free) in Acme/Proofs/GenComparators.lean. -/\n")
	b.WriteString("import Acme.Core.CmpLib\n\nset_option linter.unusedVariables false\n\nnamespace Acme.Gen.Cmp\n\n")
	for _, fn := range helpers.order {
		b.WriteString(helpers.defs[fn])
	}
	var all, table []string
	for _, o := range outs {
		b.WriteString("/- " + o.file + ", " + o.fn + ": slices.SortFunc(" + o.sorted + ", ..)\n\n" + o.src + "\n-/\n")
		b.WriteString("structure " + o.name + "_Keys where\n")
		var ks []string
		for _, k := range o.keys {
			note := ""
			if k.kind == cRank {
				note = " (rank under cmp.Compare)"
			}
			b.WriteString("  " + k.name + " : " + k.kind.lean() + "  -- ." + k.path + " : " + k.goType + note + "\n")
			ks = append(ks, leanStr(k.path))
		}
		b.WriteString("  deriving Repr, DecidableEq\n\n")
		b.WriteString("def " + o.name + " (a b : " + o.name + "_Keys) : Int :=\n" + o.body + "\n")
		idk := "none"
		if o.idKey != "" {
			idk = "(some (fun k => k." + o.idKey + "))"
		}
		all = append(all, "⟨"+leanStr(o.name)+", "+o.name+"_Keys, "+o.name+", "+idk+"⟩")
		ends := "false"
		if o.idKey != "" {
			ends = "true"
		}
		table = append(table, "("+leanStr(o.name)+", "+leanStr(o.file)+", "+leanStr(o.fn)+", "+leanStr(o.sorted)+", ["+strings.Join(ks, ", ")+"], "+ends+")")
	}
	b.WriteString("/-- the comparators: (definition, file, function, sorted expression, keys read, ends in the entity id) -/\n")
	b.WriteString("def comparators : List (String × String × String × String × List String × Bool) := [\n  " + strings.Join(table, ",\n  ") + "\n]\n\n")
	b.WriteString("/-- the comparators themselves (key record, function, the entity-id key compared last) -/\n")
	b.WriteString("def all : List Acme.CmpLib.AnyCmp := [\n  " + strings.Join(all, ",\n  ") + "\n]\n\n")
	b.WriteString("end Acme.Gen.Cmp\n")
	if err := os.WriteFile(path, []byte(b.String()), 0o644); err != nil {
		panic(err)
	}
}
