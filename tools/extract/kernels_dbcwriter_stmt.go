// kernels_dbcwriter_stmt.go: functions and statements of the DBC writer translator
// (see kernels_dbcwriter.go for the subset).
package main

import (
	"fmt"
	"go/ast"
	"go/token"
	"go/types"
	"strings"
)

// need: translate a function (once), after everything it calls
func (t *dwtr) need(name string, at ast.Node) {
	fn, ok := t.fns[name]
	if !ok {
		t.fail(at, "function %s is not declared in %s", name, dwSrcFile)
	}
	switch fn.state {
	case 2:
		return
	case 1:
		t.fail(at, "recursion through %s", name)
	}
	fn.state = 1
	// save the per-function state of the caller
	sv := *t
	t.cur, t.vars, t.visible, t.optBnd, t.defers, t.recv = fn, map[types.Object]*dwVar{}, nil, map[string]string{}, nil, nil
	var def string
	switch fn.kind {
	case 2: // inlined at the call sites
	case 3:
		t.bindRecv(fn)
		def = "/-- `" + fn.goName + "` -/\ndef " + fn.goName + " (hex : Bool) (out : String) : String :=\n  out" +
			t.pieces(t.fmtOf(fn, nil, fn.decl), nil, fn.decl) + "\n"
	case 4:
		def = t.entry(fn)
	default:
		def = t.function(fn)
	}
	out, gdefs, globals, keyOf := t.out, t.gdefs, t.globals, t.keyOf
	*t = sv
	t.out, t.gdefs, t.globals, t.keyOf = out, gdefs, globals, keyOf
	if def != "" {
		t.out = append(t.out, def)
	}
	fn.state = 2
}

func (t *dwtr) bindRecv(fn *dwFn) {
	if fn.method {
		t.recv = t.info.Defs[fn.decl.Recv.List[0].Names[0]]
	}
}

func (t *dwtr) declare(id *ast.Ident, ty dwType) *dwVar {
	obj := t.info.Defs[id]
	if obj == nil {
		t.fail(id, "`%s` is not a new variable", id.Name)
	}
	name := mangle(id.Name)
	if dwOwnNames[name] || strings.HasSuffix(name, "_loop") {
		t.fail(id, "variable name `%s` is used by the generated text", id.Name)
	}
	if _, clash := t.fns[id.Name]; clash {
		t.fail(id, "variable `%s` shadows a translated function", id.Name)
	}
	v := &dwVar{name: name, ty: ty}
	t.vars[obj] = v
	t.visible = append(t.visible, obj)
	return v
}

// paramList: the Lean binders of the visible variables
func (t *dwtr) binders() (decl, use string) {
	for _, o := range t.visible {
		v := t.vars[o]
		decl += " (" + v.name + " : " + t.leanType(v.ty) + ")"
		use += " " + v.name
	}
	return
}

func (t *dwtr) header(fn *dwFn) string {
	h := "def " + fn.goName
	if tp := fn.decl.Type.TypeParams; tp != nil {
		for _, f := range tp.List {
			if exprStr(f.Type) != "any" {
				t.fail(f, "type parameter constraint %s", exprStr(f.Type))
			}
			for _, n := range f.Names {
				h += " {" + n.Name + " : Type}"
			}
		}
	}
	if fn.method {
		h += " (hex : Bool)"
	}
	for _, f := range fn.decl.Type.Params.List {
		if len(f.Names) == 0 {
			t.fail(f, "unnamed parameter")
		}
		for _, id := range f.Names {
			ty := t.goType(t.info.Defs[id].Type(), id)
			if ty.k == dwOpt {
				t.fail(id, "optional parameter")
			}
			t.declare(id, ty)
		}
	}
	d, _ := t.binders()
	return h + d
}

func (t *dwtr) hexArg() string {
	if t.cur.method {
		return " hex"
	}
	return ""
}

func (t *dwtr) function(fn *dwFn) string {
	t.bindRecv(fn)
	h := t.header(fn)
	if fn.kind == 1 {
		return "/-- `" + fn.goName + "` -/\n" + h + " : String :=\n" + t.valueSeq(fn.decl.Body.List, "  ") + "\n"
	}
	c := &dwBlock{top: true}
	return "/-- `" + fn.goName + "` -/\n" + h + " (out : String) : String :=\n" + t.seq(fn.decl.Body.List, "  ", c) + "\n"
}

// entry: `Write(w io.Writer, ast *File, hex bool)` = `x := newWriter(w, hex); x.writeFile(ast)`
func (t *dwtr) entry(fn *dwFn) string {
	var ps []*ast.Ident
	for _, f := range fn.decl.Type.Params.List {
		ps = append(ps, f.Names...)
	}
	b := fn.decl.Body.List
	bad := func() { t.fail(fn.decl, "Write does not have the shape `x := newWriter(w, hex); x.<method>(ast)`") }
	if len(ps) != 3 || len(b) != 2 || exprStr(fn.decl.Type.Params.List[0].Type) != "io.Writer" {
		bad()
	}
	as, ok := b[0].(*ast.AssignStmt)
	if !ok || as.Tok != token.DEFINE || len(as.Lhs) != 1 || len(as.Rhs) != 1 ||
		exprStr(as.Rhs[0]) != "newWriter("+ps[0].Name+", "+ps[2].Name+")" {
		bad()
	}
	es, ok := b[1].(*ast.ExprStmt)
	if !ok {
		bad()
	}
	call, ok := es.X.(*ast.CallExpr)
	if !ok || len(call.Args) != 1 || exprStr(call.Args[0]) != ps[1].Name {
		bad()
	}
	sel, ok := call.Fun.(*ast.SelectorExpr)
	if !ok || exprStr(sel.X) != exprStr(as.Lhs[0]) {
		bad()
	}
	callee, ok := t.fns[sel.Sel.Name]
	if !ok || callee.kind != 0 || !callee.method {
		bad()
	}
	t.need(callee.goName, call)
	aty := t.goType(t.info.Defs[ps[1]].Type(), ps[1])
	return "/-- `Write`: the text written to an io.Writer that starts empty -/\ndef Write (" + mangle(ps[1].Name) + " : " +
		t.leanType(aty) + ") (" + mangle(ps[2].Name) + " : Bool) : String :=\n  " + callee.goName + " " + mangle(ps[2].Name) + " " +
		mangle(ps[1].Name) + " \"\"\n"
}

// valueSeq: `if c { return e }` .. `return e`
func (t *dwtr) valueSeq(l []ast.Stmt, ind string) string {
	if len(l) == 0 {
		t.fail(t.cur.decl, "missing return")
	}
	switch s := l[0].(type) {
	case *ast.ReturnStmt:
		if len(s.Results) != 1 || len(l) != 1 {
			t.fail(s, "return statement")
		}
		e, ty := t.expr(s.Results[0])
		if ty.k != dwStr {
			t.fail(s, "returned value is not a string")
		}
		return ind + e
	case *ast.IfStmt:
		if s.Init != nil || s.Else != nil || len(s.Body.List) != 1 {
			t.fail(s, "if statement in a value function (only `if c { return e }`)")
		}
		return ind + "if " + t.cond(s.Cond) + " then\n" + t.valueSeq(s.Body.List, ind+"  ") + "\n" + ind + "else\n" +
			t.valueSeq(l[1:], ind+"  ")
	}
	t.fail(l[0], "statement `%s` in a value function", exprStr(l[0]))
	return ""
}

// ---------------------------------------------------------------- effectful statements

type dwBlock struct {
	top bool   // the statement list of the function body itself
	fin string // what a nested block evaluates to (the tuple of assigned variables / the recursive call)
}

// exit: the deferred calls (LIFO), then the accumulated text
func (t *dwtr) exit(ind string) string {
	s := ""
	for i := len(t.defers) - 1; i >= 0; i-- {
		s += ind + "let out := " + t.defers[i] + " out\n"
	}
	return s + ind + "out"
}

func (t *dwtr) endOf(c *dwBlock, ind string) string {
	if c.top {
		return t.exit(ind)
	}
	return ind + c.fin
}

// assigned: the variables declared outside `n` that `n` assigns, `out` first when `n` has an effect
func (t *dwtr) assigned(nodes ...ast.Node) []string {
	effect := false
	var vars []types.Object
	seen := map[types.Object]bool{}
	for _, n := range nodes {
		if n == nil {
			continue
		}
		ast.Inspect(n, func(x ast.Node) bool {
			switch s := x.(type) {
			case *ast.ExprStmt, *ast.RangeStmt, *ast.DeferStmt:
				effect = true
			case *ast.IncDecStmt:
				t.fail(s, "statement `%s`", exprStr(s))
			case *ast.AssignStmt:
				if s.Tok == token.DEFINE {
					return true
				}
				for _, l := range s.Lhs {
					id, ok := l.(*ast.Ident)
					if !ok || s.Tok != token.ASSIGN {
						t.fail(s, "assignment `%s`", exprStr(s))
					}
					obj := t.info.Uses[id]
					if _, known := t.vars[obj]; known && !seen[obj] {
						seen[obj] = true
						vars = append(vars, obj)
					}
				}
			}
			return true
		})
	}
	var res []string
	if effect {
		res = append(res, "out")
	}
	for _, o := range t.visible { // declaration order
		if seen[o] {
			res = append(res, t.vars[o].name)
		}
	}
	return res
}

func dwTuple(vs []string) string {
	if len(vs) == 1 {
		return vs[0]
	}
	return "(" + strings.Join(vs, ", ") + ")"
}

func (t *dwtr) noJump(n ast.Node, what string) {
	ast.Inspect(n, func(x ast.Node) bool {
		switch s := x.(type) {
		case *ast.ReturnStmt, *ast.BranchStmt, *ast.DeferStmt, *ast.GoStmt, *ast.LabeledStmt, *ast.FuncLit:
			t.fail(s, "`%s` inside %s", exprStr(s), what)
		}
		return true
	})
}

func dwEndsInReturn(b *ast.BlockStmt) bool {
	if len(b.List) == 0 {
		return false
	}
	r, ok := b.List[len(b.List)-1].(*ast.ReturnStmt)
	return ok && len(r.Results) == 0
}

// scoped: run f with the variable scope restored afterwards
func (t *dwtr) scoped(f func() string) string {
	n := len(t.visible)
	s := f()
	t.visible = t.visible[:n]
	return s
}

func (t *dwtr) seq(l []ast.Stmt, ind string, c *dwBlock) string {
	if len(l) == 0 {
		return t.endOf(c, ind)
	}
	rest := func() string { return t.seq(l[1:], ind, c) }
	switch s := l[0].(type) {
	case *ast.EmptyStmt:
		return rest()
	case *ast.ReturnStmt:
		if len(s.Results) != 0 || len(l) != 1 || !c.top {
			t.fail(s, "return statement (only a bare return at the end of the function body or of an `if` of the body)")
		}
		return t.exit(ind)
	case *ast.DeferStmt:
		if !c.top {
			t.fail(s, "defer outside the statement list of the function body")
		}
		sel, ok := s.Call.Fun.(*ast.SelectorExpr)
		if !ok || !t.isRecv(sel.X) || len(s.Call.Args) != 0 {
			t.fail(s, "defer shape `%s` (only `defer w.m()` of a parameterless method of the receiver)", exprStr(s))
		}
		fn, ok := t.fns[sel.Sel.Name]
		if !ok || !fn.method || (fn.kind != 0 && fn.kind != 3) || len(fn.decl.Type.Params.List) != 0 {
			t.fail(s, "defer shape `%s` (only `defer w.m()` of a parameterless method of the receiver)", exprStr(s))
		}
		t.need(fn.goName, s)
		t.defers = append(t.defers, fn.goName+" hex")
		return rest()
	case *ast.ExprStmt:
		call, ok := s.X.(*ast.CallExpr)
		if !ok {
			t.fail(s, "expression statement `%s`", exprStr(s))
		}
		return ind + "let out := " + t.effect(call) + "\n" + rest()
	case *ast.AssignStmt:
		if len(s.Lhs) != 1 || len(s.Rhs) != 1 {
			t.fail(s, "assignment `%s`", exprStr(s))
		}
		id, ok := s.Lhs[0].(*ast.Ident)
		if !ok {
			t.fail(s, "assignment `%s`", exprStr(s))
		}
		e, ty := t.expr(s.Rhs[0])
		switch s.Tok {
		case token.DEFINE:
			if ty.k == dwFunc || ty.k == dwOpt {
				t.fail(s, "local variable of type %s", t.leanType(ty))
			}
			v := t.declare(id, ty)
			return ind + "let " + v.name + " : " + t.leanType(ty) + " := " + e + "\n" + rest()
		case token.ASSIGN:
			v, ok := t.vars[t.info.Uses[id]]
			if !ok || !dwSame(v.ty, ty) {
				t.fail(s, "assignment `%s`", exprStr(s))
			}
			return ind + "let " + v.name + " : " + t.leanType(ty) + " := " + e + "\n" + rest()
		}
		t.fail(s, "assignment operator %s", s.Tok)
	case *ast.IfStmt:
		return t.ifStmt(s, l[1:], ind, c)
	case *ast.SwitchStmt:
		return t.switchStmt(s, ind) + rest()
	case *ast.RangeStmt:
		return t.rangeStmt(s, ind) + rest()
	}
	t.fail(l[0], "statement `%s`", strings.SplitN(exprStr(l[0]), "{", 2)[0])
	return ""
}

func (t *dwtr) ifStmt(s *ast.IfStmt, after []ast.Stmt, ind string, c *dwBlock) string {
	if s.Init != nil {
		t.fail(s, "if with an init statement")
	}
	// a branch that leaves the function: if c then A <exit> else <rest>
	if dwEndsInReturn(s.Body) {
		if !c.top || s.Else != nil {
			t.fail(s, "returning `if` (only in the statement list of the function body, without else)")
		}
		if _, _, _, _, isNil := t.nilCheck(s.Cond); isNil {
			t.fail(s, "returning nil check")
		}
		cnd := t.cond(s.Cond)
		t.noJump(&ast.BlockStmt{List: s.Body.List[:len(s.Body.List)-1]}, "a returning branch")
		nd := len(t.defers)
		th := t.scoped(func() string { return t.seq(s.Body.List, ind+"  ", &dwBlock{top: true}) })
		if len(t.defers) != nd {
			t.fail(s, "defer inside a branch")
		}
		el := t.seq(after, ind+"  ", c)
		return ind + "if " + cnd + " then\n" + th + "\n" + ind + "else\n" + el
	}
	t.noJump(s, "an `if` that does not leave the function")
	vs := t.assigned(s.Body, s.Else)
	rest := func() string { return t.seq(after, ind, c) }
	if len(vs) == 0 {
		t.cond(s.Cond) // still refuse what is outside the subset
		return rest()
	}
	inner := &dwBlock{fin: dwTuple(vs)}
	elseText := func(i string) string {
		switch e := s.Else.(type) {
		case nil:
			return i + inner.fin
		case *ast.BlockStmt:
			return t.scoped(func() string { return t.seq(e.List, i, inner) })
		case *ast.IfStmt:
			return t.scoped(func() string { return t.seq([]ast.Stmt{e}, i, inner) })
		}
		t.fail(s.Else, "else branch")
		return ""
	}
	head := ind + "let " + dwTuple(vs) + " :=\n"
	i2, i3 := ind+"  ", ind+"    "
	if scrut, key, elem, thenSome, isNil := t.nilCheck(s.Cond); isNil {
		t.nOpt++
		b := fmt.Sprintf("opt%d_", t.nOpt)
		_ = elem
		someText := func(body func(string) string) string {
			if _, dup := t.optBnd[key]; dup {
				t.fail(s, "nested nil check of `%s`", key)
			}
			t.optBnd[key] = b
			r := body(i3)
			delete(t.optBnd, key)
			return r
		}
		thenB := func(i string) string { return t.scoped(func() string { return t.seq(s.Body.List, i, inner) }) }
		var sm, nn string
		if thenSome {
			sm, nn = someText(thenB), elseText(i3)
		} else {
			nn, sm = thenB(i3), someText(elseText)
		}
		return head + i2 + "match " + scrut + " with\n" + i2 + "| some " + b + " =>\n" + sm + "\n" + i2 + "| none =>\n" + nn + "\n" + rest()
	}
	cnd := t.cond(s.Cond)
	th := t.scoped(func() string { return t.seq(s.Body.List, i3, inner) })
	return head + i2 + "if " + cnd + " then\n" + th + "\n" + i2 + "else\n" + elseText(i3) + "\n" + rest()
}

func (t *dwtr) switchStmt(s *ast.SwitchStmt, ind string) string {
	if s.Init != nil || s.Tag == nil {
		t.fail(s, "switch without tag / with init")
	}
	t.noJump(s, "a switch")
	tag, ty := t.expr(s.Tag)
	if ty.k != dwEnum {
		t.fail(s, "switch on `%s`, which is not a translated enum", exprStr(s.Tag))
	}
	sp := t.enums[ty.name]
	vs := t.assigned(s.Body)
	if len(vs) == 0 {
		return ""
	}
	inner := &dwBlock{fin: dwTuple(vs)}
	i2, i3 := ind+"  ", ind+"    "
	out := ind + "let " + dwTuple(vs) + " :=\n" + i2 + "match " + tag + " with\n"
	covered := map[string]bool{}
	hasDefault := false
	var deflt string
	for _, cs := range s.Body.List {
		cc := cs.(*ast.CaseClause)
		body := t.scoped(func() string { return t.seq(cc.Body, i3, inner) })
		if cc.List == nil {
			hasDefault = true
			deflt = i2 + "| _ =>\n" + body + "\n"
			continue
		}
		var pats []string
		for _, e := range cc.List {
			p, pty, ok := t.constExpr(e)
			if !ok || !dwSame(pty, ty) {
				t.fail(e, "case `%s` is not a constant of the tag's enum", exprStr(e))
			}
			covered[p] = true
			pats = append(pats, p)
		}
		out += i2 + "| " + strings.Join(pats, " | ") + " =>\n" + body + "\n"
	}
	if hasDefault {
		if len(covered) == len(sp.consts) {
			t.fail(s, "default clause of a switch that lists every constant")
		}
		out += deflt
	} else if len(covered) < len(sp.consts) {
		out += i2 + "| _ =>\n" + i3 + inner.fin + "\n" // no case: nothing happens
	}
	return out
}

func (t *dwtr) rangeStmt(s *ast.RangeStmt, ind string) string {
	if s.Tok != token.DEFINE {
		t.fail(s, "range without `:=`")
	}
	t.noJump(s.Body, "a loop body")
	for _, v := range t.assigned(s.Body) {
		if v != "out" {
			t.fail(s, "loop body assigns the variable `%s`", v)
		}
	}
	identOrBlank := func(e ast.Expr) *ast.Ident {
		if e == nil {
			return nil
		}
		id, ok := e.(*ast.Ident)
		if !ok {
			t.fail(e, "range variable `%s`", exprStr(e))
		}
		if id.Name == "_" {
			return nil
		}
		return id
	}
	key, val := identOrBlank(s.Key), identOrBlank(s.Value)
	t.cur.nLoop++
	name := fmt.Sprintf("%s_loop%d", t.cur.goName, t.cur.nLoop)
	decl, use := t.binders()
	hexD := ""
	if t.cur.method {
		hexD = " (hex : Bool)"
	}
	tparams := ""
	if tp := t.cur.decl.Type.TypeParams; tp != nil {
		for _, f := range tp.List {
			for _, n := range f.Names {
				tparams += " {" + n.Name + " : Type}"
			}
		}
	}
	// the iterated value: a list, or a package-level map literal (table in source order)
	var list, elemPat, sig, nilPat, call string
	var ety dwType
	isMap := false
	if id, ok := unparen(s.X).(*ast.Ident); ok {
		if gv, ok := t.info.Uses[id].(*types.Var); ok && gv.Parent() == t.pkg.Scope() {
			if _, ok := gv.Type().Underlying().(*types.Map); ok {
				isMap = true
				list = t.mapTable(id, gv, s, val)
			}
		}
	}
	if !isMap {
		var lty dwType
		list, lty = t.expr(s.X)
		if lty.k != dwList {
			t.fail(s, "range over `%s`, which is not a slice", exprStr(s.X))
		}
		ety = *lty.elem
	}
	body := t.scoped(func() string {
		withIdx := false
		if isMap {
			mt := t.info.Uses[unparen(s.X).(*ast.Ident)].Type().Underlying().(*types.Map)
			kt, vt := t.goType(mt.Key(), s), t.goType(mt.Elem(), s)
			kn, vn := "_", "_"
			if key != nil {
				kn = t.declare(key, kt).name
			}
			if val != nil {
				vn = t.declare(val, vt).name
			}
			elemPat = "(" + kn + ", " + vn + ")"
			sig = "List (" + t.leanType(kt) + " × " + t.leanType(vt) + ")"
		} else {
			if key != nil {
				withIdx = true
				t.declare(key, dwType{k: dwInt})
			}
			elemPat = "_"
			if val != nil {
				elemPat = t.declare(val, ety).name
			}
			sig = "List (" + t.leanType(ety) + ")"
		}
		idxD, idxPat, idxNext, idx0 := "", "", "", ""
		if withIdx {
			k := mangle(key.Name)
			idxD, idxPat, idxNext, idx0 = "Int → ", k+", ", " ("+k+" + 1)", " (0 : Int)"
		}
		sig = idxD + sig + " → String → String"
		nilPat = strings.Repeat("_, ", strings.Count(idxPat, ",")) + "[], out => out"
		call = name + t.hexArg() + use + idx0 + " " + list + " out"
		rec := name + t.hexArg() + use + idxNext + " rest_ out"
		return "  | " + idxPat + elemPat + " :: rest_, out =>\n" + t.seq(s.Body.List, "    ", &dwBlock{fin: rec})
	})
	def := "/-- loop " + fmt.Sprint(t.cur.nLoop) + " of `" + t.cur.goName + "`: `for " + exprStr(s.Key)
	if s.Value != nil {
		def += ", " + exprStr(s.Value)
	}
	def += " := range " + exprStr(s.X) + "` -/\ndef " + name + tparams + hexD + decl + " : " + sig + "\n  | " + nilPat + "\n" + body + "\n"
	t.out = append(t.out, def)
	return ind + "let out := " + call + "\n"
}

// mapTable: `for k, v := range <package-level map literal> { if v == e { .. } }`; the values must be pairwise
// distinct so that at most one iteration acts and the map iteration order is irrelevant
func (t *dwtr) mapTable(id *ast.Ident, gv *types.Var, s *ast.RangeStmt, val *ast.Ident) string {
	mt := gv.Type().Underlying().(*types.Map)
	kt, vt := t.goType(mt.Key(), id), t.goType(mt.Elem(), id)
	if kt.k != dwStr || vt.k != dwEnum {
		t.fail(id, "range over the map %s of type %s", gv.Name(), gv.Type().String())
	}
	bad := func() {
		t.fail(s, "range over the map %s: the body must be one `if <value variable> == e { .. }` (map iteration order)", gv.Name())
	}
	if val == nil || len(s.Body.List) != 1 {
		bad()
	}
	is, ok := s.Body.List[0].(*ast.IfStmt)
	if !ok || is.Init != nil || is.Else != nil {
		bad()
	}
	b, ok := unparen(is.Cond).(*ast.BinaryExpr)
	if !ok || b.Op != token.EQL || (exprStr(b.X) != val.Name && exprStr(b.Y) != val.Name) {
		bad()
	}
	if !t.globals[gv.Name()] {
		cl, _ := t.globalLit(dwPkgs, gv.Name())
		seen := map[string]string{}
		var els []string
		for _, el := range cl.Elts {
			kv, ok := el.(*ast.KeyValueExpr)
			if !ok {
				t.fail(el, "element of the map literal")
			}
			k := t.constString(kv.Key)
			v, _, ok := t.constExpr(kv.Value)
			if !ok {
				t.fail(kv.Value, "value of the map literal is not a constant")
			}
			if o, dup := seen[v]; dup {
				t.fail(kv, "keys %q and %q of %s have the same value: the loop depends on the map iteration order", o, k, gv.Name())
			}
			seen[v] = k
			els = append(els, "("+t.lit(k, kv.Key)+", "+v+")")
		}
		t.globals[gv.Name()] = true
		t.gdefs = append(t.gdefs, "/-- `"+gv.Name()+"` (keyword.go), entries in source order -/\ndef "+mangle(gv.Name())+" : List ("+
			t.leanType(kt)+" × "+t.leanType(vt)+") :=\n  ["+strings.Join(els, ", ")+"]\n")
	}
	return mangle(gv.Name())
}

// effect: the new accumulated text after a call statement
func (t *dwtr) effect(c *ast.CallExpr) string {
	switch f := c.Fun.(type) {
	case *ast.SelectorExpr:
		if !t.isRecv(f.X) {
			t.fail(c, "call statement `%s`", exprStr(c.Fun))
		}
		fn, ok := t.fns[f.Sel.Name]
		if !ok || !fn.method {
			t.fail(c, "method %s is not declared in %s", f.Sel.Name, dwSrcFile)
		}
		switch fn.kind {
		case 2:
			t.need(fn.goName, c)
			if len(c.Args) == 0 || c.Ellipsis.IsValid() {
				t.fail(c, "arguments of %s", fn.goName)
			}
			tv := t.info.Types[c.Args[0]]
			if tv.Value == nil {
				t.fail(c.Args[0], "format `%s` is not a constant", exprStr(c.Args[0]))
			}
			f0 := t.constString(c.Args[0])
			return "out" + t.pieces(t.fmtOf(fn, &f0, c), c.Args[1:], c)
		case 0, 3:
			t.need(fn.goName, c)
			return fn.goName + " hex" + t.args(c, fn) + " out"
		}
		t.fail(c, "call of the value function %s as a statement", fn.goName)
	case *ast.Ident:
		obj := t.info.Uses[f]
		if v, ok := t.vars[obj]; ok && v.ty.k == dwFunc {
			if len(c.Args) != len(v.ty.params) || c.Ellipsis.IsValid() {
				t.fail(c, "arguments of %s", f.Name)
			}
			s := v.name
			for _, a := range c.Args {
				x, _ := t.expr(a)
				s += " " + x
			}
			return s + " out"
		}
		if fn, ok := t.fns[f.Name]; ok && !fn.method && fn.kind == 0 {
			if _, isFn := obj.(*types.Func); isFn {
				t.need(fn.goName, c)
				return fn.goName + t.args(c, fn) + " out"
			}
		}
	}
	t.fail(c, "call statement `%s`", exprStr(c.Fun))
	return ""
}

// pieces: ` ++ p₁ ++ p₂ ..` for a Printf format and its arguments
func (t *dwtr) pieces(format string, args []ast.Expr, at ast.Node) string {
	var out strings.Builder
	var lit strings.Builder
	flush := func() {
		if lit.Len() > 0 {
			out.WriteString(" ++ " + t.lit(lit.String(), at))
			lit.Reset()
		}
	}
	n := 0
	for i := 0; i < len(format); i++ {
		ch := format[i]
		if ch != '%' {
			lit.WriteByte(ch)
			continue
		}
		i++
		if i >= len(format) {
			t.fail(at, "format %q ends in `%%`", format)
		}
		v := format[i]
		if v == '%' {
			lit.WriteByte('%')
			continue
		}
		if v != 's' && v != 'd' && v != 'v' {
			t.fail(at, "format %q: verb / flag `%%%c` (only %%s %%d %%v %%%%)", format, v)
		}
		if n >= len(args) {
			t.fail(at, "format %q has more verbs than arguments", format)
		}
		s, ty := t.expr(args[n])
		switch {
		case ty.k == dwStr && (v == 's' || v == 'v'):
		case ty.k == dwInt && (v == 'd' || v == 'v'):
			s = "(Acme.Dbc.formatInt " + s + ")"
		case ty.k == dwU32 && (v == 'd' || v == 'v'):
			s = "(Acme.Dbc.formatUint " + s + ")"
		default:
			t.fail(args[n], "format %q: verb `%%%c` applied to `%s` of type %s", format, v, exprStr(args[n]), t.leanType(ty))
		}
		n++
		flush()
		out.WriteString(" ++ " + s)
	}
	flush()
	if n != len(args) {
		t.fail(at, "format %q has %d verbs for %d arguments", format, n, len(args))
	}
	return out.String()
}
