// Symbolic execution of one function of interval_bst.go into a Lean term (see kernels_bst.go).
package main

import (
	"fmt"
	"go/ast"
	"go/constant"
	"go/token"
	"go/types"
	"strings"
)

type bx struct {
	tr         *bstTr
	sig        *bsig
	depth      int
	aux        []string
	nloops     int
	panics     bool
	paramCells map[string]int
	hint       string
	bound      string
}

func (x *bx) fail(n ast.Node, format string, args ...any) {
	bstFail(n, x.sig.name, format, args...)
}

func (x *bx) nl() string { return "\n" + strings.Repeat("  ", x.depth) }

// in runs f one indentation level deeper.
func (x *bx) in(f func() string) string {
	x.depth++
	s := f()
	x.depth--
	return s
}

func (x *bx) typeOf(e ast.Expr) types.Type { return x.tr.info.TypeOf(e) }

func (x *bx) isRecvT(e ast.Expr) bool {
	id, ok := unparen(e).(*ast.Ident)
	return ok && x.sig.recvKind == 2 && id.Name == x.sig.recvName
}

// ---- values ----

func boolProp(v bval) string {
	if v.isProp {
		return v.s
	}
	return "(" + v.s + " = true)"
}
func boolTerm(v bval) string {
	if v.isProp {
		return "(decide " + v.s + ")"
	}
	return v.s
}

func (x *bx) binop(n ast.Node, op token.Token, l, r bval) bval {
	switch op {
	case token.ADD, token.SUB, token.MUL:
		if l.k != bInt || r.k != bInt {
			x.fail(n, "arithmetic on non-int operands")
		}
		return bval{k: bInt, s: fmt.Sprintf("(%s %s %s)", l.s, op.String(), r.s)}
	case token.LSS, token.LEQ, token.GTR, token.GEQ, token.EQL, token.NEQ:
		sym := map[token.Token]string{token.LSS: "<", token.LEQ: "≤", token.GTR: ">", token.GEQ: "≥", token.EQL: "=", token.NEQ: "≠"}[op]
		if l.k == bInt && r.k == bInt {
			return bval{k: bBool, isProp: true, s: fmt.Sprintf("(%s %s %s)", l.s, sym, r.s)}
		}
		if l.k == bBool && r.k == bBool && (op == token.EQL || op == token.NEQ) {
			return bval{k: bBool, isProp: true, s: fmt.Sprintf("(%s %s %s)", boolTerm(l), sym, boolTerm(r))}
		}
		x.fail(n, "comparison %s on these operand types", op)
	case token.LAND:
		return bval{k: bBool, isProp: true, s: fmt.Sprintf("(%s ∧ %s)", boolProp(l), boolProp(r))}
	case token.LOR:
		return bval{k: bBool, isProp: true, s: fmt.Sprintf("(%s ∨ %s)", boolProp(l), boolProp(r))}
	}
	x.fail(n, "operator %s", op)
	return bval{}
}

func notVal(v bval) bval {
	if v.isProp {
		return bval{k: bBool, isProp: true, s: "(¬ " + v.s + ")"}
	}
	return bval{k: bBool, s: "(!" + v.s + ")"}
}

func (x *bx) accessorIndex(name string) int {
	for i, a := range x.tr.accessors {
		if a == name {
			return i
		}
	}
	return -1
}

// callee returns the signature of a call of a translated method, or nil.
func (x *bx) callee(c *ast.CallExpr) *bsig {
	sel, ok := c.Fun.(*ast.SelectorExpr)
	if !ok {
		return nil
	}
	f, ok := x.tr.info.ObjectOf(sel.Sel).(*types.Func)
	if !ok || f.Pkg() != x.tr.pkg.Types {
		return nil
	}
	s := x.tr.sigs[sel.Sel.Name]
	if s == nil {
		x.fail(c, "call of %s, which is not translated", sel.Sel.Name)
	}
	return s
}

// ---- cells ----

func (x *bx) isAncestorOrEq(st *bstate, d, s int) bool {
	for s >= 0 {
		if s == d {
			return true
		}
		s = st.cells[s].parent
	}
	return false
}

// killViews: the cells in `touched` were written or consumed.
func (x *bx) killViews(st *bstate, touched []int, why string) {
	for i := range st.cells {
		c := &st.cells[i]
		if !c.view || c.st == cDead {
			continue
		}
		for _, d := range c.deps {
			for _, s := range touched {
				if x.isAncestorOrEq(st, d, s) {
					c.st, c.deadWhy = cDead, "a view taken before "+why
				}
			}
		}
	}
}

func (x *bx) openCell(st *bstate, id int) {
	c := st.cells[id]
	base := c.term
	fields := map[string]bval{}
	oleft := map[string]int{}
	for _, f := range x.tr.nodeFlds {
		switch f.kind {
		case bInt:
			fields[f.goName] = bval{k: bInt, s: st.fresh(base + "_" + f.goName)}
		case bItem:
			v := bval{k: bItem}
			for _, ln := range f.lean {
				v.parts = append(v.parts, st.fresh(base+"_"+ln))
			}
			fields[f.goName] = v
		case bPtr:
			ch := st.newCell(bcell{st: cClosed, term: st.fresh(base + "_" + f.goName), view: c.view, deps: c.deps, parent: id})
			fields[f.goName] = bval{k: bPtr, cell: ch}
			oleft[f.goName] = ch
		}
	}
	nc := &st.cells[id]
	nc.st, nc.fields, nc.oleft = cOpen, fields, oleft
}

func (x *bx) pattern(st *bstate, id int) string {
	c := st.cells[id]
	var as []string
	for _, f := range x.tr.nodeFlds {
		v := c.fields[f.goName]
		switch f.kind {
		case bInt:
			as = append(as, v.s)
		case bItem:
			as = append(as, v.parts...)
		case bPtr:
			as = append(as, st.cells[v.cell].term)
		}
	}
	return ".node " + strings.Join(as, " ")
}

// deref makes sure the cell is open; a closed cell is matched (leaf ↦ panic).
func (x *bx) deref(st *bstate, id int, at ast.Node, k func(*bstate) string) string {
	c := st.cells[id]
	switch c.st {
	case cOpen:
		return k(st)
	case cNil:
		x.panics = true
		return ".panic"
	case cDead:
		x.fail(at, "use of a node after it was handed over (%s)", c.deadWhy)
	}
	x.panics = true
	x.openCell(st, id)
	pat := x.pattern(st, id)
	return "(match " + c.term + " with" + x.nl() + "| .leaf => .panic" + x.nl() + "| " + pat + " =>" +
		x.in(func() string { return x.nl() + k(st) }) + ")"
}

// nilTest branches on `cell == nil`.
func (x *bx) nilTest(st *bstate, id int, at ast.Node, kNil, kNode func(*bstate) string) string {
	c := st.cells[id]
	switch c.st {
	case cOpen:
		return kNode(st)
	case cNil:
		return kNil(st)
	case cDead:
		x.fail(at, "use of a node after it was handed over (%s)", c.deadWhy)
	}
	sn := st.clone()
	sn.cells[id].st = cNil
	so := st.clone()
	x.openCell(so, id)
	pat := x.pattern(so, id)
	return "(match " + c.term + " with" + x.nl() + "| .leaf =>" + x.in(func() string { return x.nl() + kNil(sn) }) +
		x.nl() + "| " + pat + " =>" + x.in(func() string { return x.nl() + kNode(so) }) + ")"
}

// selfClean: the content of the cell is what its term denotes.
func (x *bx) selfClean(st *bstate, id int) bool {
	c := st.cells[id]
	switch c.st {
	case cClosed, cNil:
		return true
	case cOpen:
		if c.dirty || c.term == "" {
			return false
		}
		for _, f := range x.tr.nodeFlds {
			if f.kind == bPtr {
				ch := c.fields[f.goName].cell
				if ch != c.oleft[f.goName] || !x.clean(st, ch) {
					return false
				}
			}
		}
		return true
	}
	return false
}

// clean: the cell still is the child its parent was opened with.
func (x *bx) clean(st *bstate, id int) bool {
	return !st.cells[id].changed && x.selfClean(st, id)
}

// materialize reads a cell back as a Lean term of type Tree.
func (x *bx) materialize(st *bstate, id int, at ast.Node, visited *[]int) string {
	for _, v := range *visited {
		if v == id {
			x.fail(at, "a node is reachable twice (sharing or a cycle): the value is not a tree")
		}
	}
	c := st.cells[id]
	if c.st == cDead {
		x.fail(at, "use of a node after it was handed over (%s)", c.deadWhy)
	}
	if c.st == cNil {
		return ".leaf" // nil is not a node: it may be shared
	}
	*visited = append(*visited, id)
	if c.st == cClosed {
		return c.term
	}
	if x.selfClean(st, id) {
		x.collect(st, id, visited)
		return c.term
	}
	var as []string
	for _, f := range x.tr.nodeFlds {
		v := c.fields[f.goName]
		switch f.kind {
		case bInt:
			as = append(as, v.s)
		case bItem:
			as = append(as, v.parts...)
		case bPtr:
			as = append(as, x.materialize(st, v.cell, at, visited))
		}
	}
	return "(.node " + strings.Join(as, " ") + ")"
}

func (x *bx) collect(st *bstate, id int, visited *[]int) {
	c := st.cells[id]
	if c.st != cOpen {
		return
	}
	for _, f := range x.tr.nodeFlds {
		if f.kind == bPtr {
			ch := c.fields[f.goName].cell
			*visited = append(*visited, ch)
			x.collect(st, ch, visited)
		}
	}
}

func (x *bx) consume(st *bstate, visited []int, why string) {
	for _, id := range visited {
		st.cells[id].st, st.cells[id].deadWhy = cDead, why
	}
	x.killViews(st, visited, why)
}

// ---- pure expressions ----

func (x *bx) tryPurePtr(st *bstate, e ast.Expr) (int, bool) {
	switch v := unparen(e).(type) {
	case *ast.Ident:
		if b, ok := st.vars[v.Name]; ok && b.k == bPtr {
			return b.cell, true
		}
	case *ast.SelectorExpr:
		if x.isRecvT(v.X) {
			if b, ok := st.tf[v.Sel.Name]; ok && b.k == bPtr {
				return b.cell, true
			}
			return 0, false
		}
		if x.tr.isNodePtr(x.typeOf(v.X)) {
			c, ok := x.tryPurePtr(st, v.X)
			if ok && st.cells[c].st == cOpen {
				if b, ok := st.cells[c].fields[v.Sel.Name]; ok && b.k == bPtr {
					return b.cell, true
				}
			}
		}
	}
	return 0, false
}

func (x *bx) tryPure(st *bstate, e ast.Expr) (bval, bool) {
	no := bval{}
	e = unparen(e)
	if tv, ok := x.tr.info.Types[e]; ok && tv.Value != nil {
		switch tv.Value.Kind() {
		case constant.Int:
			s := tv.Value.ExactString()
			if strings.HasPrefix(s, "-") {
				s = "(" + s + ")"
			}
			return bval{k: bInt, s: s}, true
		case constant.Bool:
			return bval{k: bBool, s: tv.Value.String()}, true
		}
	}
	switch v := e.(type) {
	case *ast.Ident:
		if b, ok := st.vars[v.Name]; ok && b.k != bPtr {
			return b, true
		}
	case *ast.StarExpr:
		if id, ok := unparen(v.X).(*ast.Ident); ok {
			if b, ok := st.vars[id.Name]; ok && b.k == bList {
				return b, true
			}
		}
	case *ast.SelectorExpr:
		if x.isRecvT(v.X) {
			if b, ok := st.tf[v.Sel.Name]; ok && b.k != bPtr {
				return b, true
			}
			return no, false
		}
		if x.tr.isNodePtr(x.typeOf(v.X)) {
			c, ok := x.tryPurePtr(st, v.X)
			if ok && st.cells[c].st == cOpen {
				if b, ok := st.cells[c].fields[v.Sel.Name]; ok && b.k != bPtr {
					return b, true
				}
			}
		}
	case *ast.UnaryExpr:
		o, ok := x.tryPure(st, v.X)
		if !ok {
			return no, false
		}
		switch {
		case v.Op == token.NOT && o.k == bBool:
			return notVal(o), true
		case v.Op == token.SUB && o.k == bInt:
			return bval{k: bInt, s: "(-" + o.s + ")"}, true
		}
	case *ast.BinaryExpr:
		if x.isNilCmp(v) {
			return no, false
		}
		l, ok := x.tryPure(st, v.X)
		if !ok {
			return no, false
		}
		r, ok := x.tryPure(st, v.Y)
		if !ok {
			return no, false
		}
		return x.binop(v, v.Op, l, r), true
	case *ast.CallExpr:
		if id, ok := v.Fun.(*ast.Ident); ok {
			if _, isB := x.tr.info.ObjectOf(id).(*types.Builtin); isB {
				switch id.Name {
				case "max", "min":
					if len(v.Args) != 2 {
						return no, false
					}
					a, ok1 := x.tryPure(st, v.Args[0])
					b, ok2 := x.tryPure(st, v.Args[1])
					if ok1 && ok2 && a.k == bInt && b.k == bInt {
						return bval{k: bInt, s: fmt.Sprintf("(%s %s %s)", id.Name, a.s, b.s)}, true
					}
				case "make":
					if len(v.Args) >= 2 && x.tr.isItemSlice(x.typeOf(v.Args[0])) {
						if tv, ok := x.tr.info.Types[v.Args[1]]; ok && tv.Value != nil && tv.Value.ExactString() == "0" {
							return bval{k: bList, s: "([] : " + x.tr.leanType(bList) + ")"}, true
						}
					}
				}
			}
			return no, false
		}
		sel, ok := v.Fun.(*ast.SelectorExpr)
		if !ok {
			return no, false
		}
		if i := x.accessorIndex(sel.Sel.Name); i >= 0 && x.tr.isItem(x.typeOf(sel.X)) && len(v.Args) == 0 {
			it, ok := x.tryPure(st, sel.X)
			if ok && it.k == bItem {
				return bval{k: bInt, s: it.parts[i]}, true
			}
			return no, false
		}
		cs := x.callee(v)
		if cs == nil || cs.mayPanic || cs.mutating || len(cs.tWrites) > 0 || len(cs.refParams()) > 0 || len(cs.results) != 1 || cs.results[0] == bPtr {
			return no, false
		}
		// all arguments pure
		stc := st // reading only
		var args []string
		for _, f := range x.tr.tFields(cs) {
			b, ok := stc.tf[f.goName]
			if !ok {
				return no, false
			}
			if b.k == bPtr {
				var vis []int
				args = append(args, x.materialize(stc, b.cell, v, &vis))
			} else {
				args = append(args, b.s)
			}
		}
		var actual []ast.Expr
		if cs.recvKind == 1 {
			actual = append(actual, sel.X)
		} else if cs.recvKind == 2 && !x.isRecvT(sel.X) {
			return no, false
		}
		actual = append(actual, v.Args...)
		if len(actual) != len(cs.params) {
			return no, false
		}
		for i, p := range cs.params {
			if p.kind == bPtr {
				c, ok := x.tryPurePtr(st, actual[i])
				if !ok {
					if id, isId := unparen(actual[i]).(*ast.Ident); !isId || id.Name != "nil" {
						return no, false
					}
					args = append(args, ".leaf")
					continue
				}
				var vis []int
				args = append(args, x.materialize(st, c, v, &vis))
				continue
			}
			a, ok := x.tryPure(st, actual[i])
			if !ok {
				return no, false
			}
			if a.k == bItem {
				args = append(args, a.parts...)
			} else if a.k == bBool {
				args = append(args, boolTerm(a))
			} else {
				args = append(args, a.s)
			}
		}
		return bval{k: cs.results[0], s: "(" + cs.name + " " + strings.Join(args, " ") + ")"}, true
	}
	return no, false
}

func (x *bx) isNilCmp(b *ast.BinaryExpr) bool {
	if b.Op != token.EQL && b.Op != token.NEQ {
		return false
	}
	return x.tr.isNodePtr(x.typeOf(b.X)) || x.tr.isNodePtr(x.typeOf(b.Y))
}

func isNilIdent(e ast.Expr) bool {
	id, ok := unparen(e).(*ast.Ident)
	return ok && id.Name == "nil"
}

// ---- general expressions (continuation style) ----

func (x *bx) evalPtr(st *bstate, e ast.Expr, k func(*bstate, int) string) string {
	e = unparen(e)
	if c, ok := x.tryPurePtr(st, e); ok {
		return k(st, c)
	}
	switch v := e.(type) {
	case *ast.Ident:
		if v.Name == "nil" {
			return k(st, st.newCell(bcell{st: cNil, parent: -1}))
		}
		x.fail(e, "pointer variable %s is not known here", v.Name)
	case *ast.SelectorExpr:
		if x.isRecvT(v.X) {
			x.fail(e, "field %s of the tree struct is not a parameter of this function", v.Sel.Name)
		}
		if !x.tr.isNodePtr(x.typeOf(v.X)) {
			x.fail(e, "selector %s", exprStr(e))
		}
		return x.evalPtr(st, v.X, func(st *bstate, c int) string {
			return x.deref(st, c, e, func(st *bstate) string {
				b, ok := st.cells[c].fields[v.Sel.Name]
				if !ok || b.k != bPtr {
					x.fail(e, "field %s", v.Sel.Name)
				}
				return k(st, b.cell)
			})
		})
	case *ast.CallExpr:
		cs := x.callee(v)
		if cs == nil || len(cs.results) != 1 || cs.results[0] != bPtr {
			x.fail(e, "call %s as a node pointer", exprStr(v.Fun))
		}
		return x.evalCall(st, v, func(st *bstate, rs []bval) string { return k(st, rs[0].cell) })
	case *ast.UnaryExpr:
		cl, ok := v.X.(*ast.CompositeLit)
		if v.Op != token.AND || !ok || namedName(x.typeOf(cl)) != "node" {
			x.fail(e, "expression %s", exprStr(e))
		}
		fields := map[string]bval{}
		oleft := map[string]int{}
		for _, f := range x.tr.nodeFlds {
			switch f.kind {
			case bInt:
				fields[f.goName] = bval{k: bInt, s: "0"}
			case bPtr:
				fields[f.goName] = bval{k: bPtr, cell: st.newCell(bcell{st: cNil, parent: -1})}
				oleft[f.goName] = -1
			}
		}
		for _, el := range cl.Elts {
			kv, ok := el.(*ast.KeyValueExpr)
			if !ok {
				x.fail(el, "positional composite literal")
			}
			name := kv.Key.(*ast.Ident).Name
			var fl *bfield
			for i := range x.tr.nodeFlds {
				if x.tr.nodeFlds[i].goName == name {
					fl = &x.tr.nodeFlds[i]
				}
			}
			if fl == nil {
				x.fail(el, "unknown field %s", name)
			}
			if fl.kind == bPtr {
				c, ok := x.tryPurePtr(st, kv.Value)
				if !ok && isNilIdent(kv.Value) {
					continue
				}
				if !ok {
					x.fail(el, "pointer field initialiser %s", exprStr(kv.Value))
				}
				if st.cells[c].view {
					x.fail(el, "a view is stored into a node")
				}
				fields[name] = bval{k: bPtr, cell: c}
				continue
			}
			val, ok := x.tryPure(st, kv.Value)
			if !ok || val.k != fl.kind {
				x.fail(el, "field initialiser %s", exprStr(kv.Value))
			}
			fields[name] = val
		}
		for _, f := range x.tr.nodeFlds {
			if _, ok := fields[f.goName]; !ok {
				x.fail(e, "composite literal leaves field %s (of the item type) unset", f.goName)
			}
		}
		id := st.newCell(bcell{st: cOpen, term: "", fields: fields, oleft: oleft, dirty: true, parent: -1})
		return k(st, id)
	}
	x.fail(e, "pointer expression %s", exprStr(e))
	return ""
}

func (x *bx) evalExpr(st *bstate, e ast.Expr, k func(*bstate, bval) string) string {
	e = unparen(e)
	if v, ok := x.tryPure(st, e); ok {
		return k(st, v)
	}
	if x.tr.isNodePtr(x.typeOf(e)) || isNilIdent(e) {
		return x.evalPtr(st, e, func(st *bstate, c int) string { return k(st, bval{k: bPtr, cell: c}) })
	}
	switch v := e.(type) {
	case *ast.SelectorExpr:
		if x.isRecvT(v.X) {
			x.fail(e, "field %s of the tree struct is not a parameter of this function", v.Sel.Name)
		}
		if !x.tr.isNodePtr(x.typeOf(v.X)) {
			x.fail(e, "selector %s", exprStr(e))
		}
		return x.evalPtr(st, v.X, func(st *bstate, c int) string {
			return x.deref(st, c, e, func(st *bstate) string {
				b, ok := st.cells[c].fields[v.Sel.Name]
				if !ok {
					x.fail(e, "field %s", v.Sel.Name)
				}
				return k(st, b)
			})
		})
	case *ast.CallExpr:
		if id, ok := v.Fun.(*ast.Ident); ok && (id.Name == "max" || id.Name == "min") && len(v.Args) == 2 {
			if _, isB := x.tr.info.ObjectOf(id).(*types.Builtin); isB {
				return x.evalExpr(st, v.Args[0], func(st *bstate, a bval) string {
					return x.evalExpr(st, v.Args[1], func(st *bstate, b bval) string {
						if a.k != bInt || b.k != bInt {
							x.fail(e, "%s on non-int operands", id.Name)
						}
						return k(st, bval{k: bInt, s: fmt.Sprintf("(%s %s %s)", id.Name, a.s, b.s)})
					})
				})
			}
		}
		if sel, ok := v.Fun.(*ast.SelectorExpr); ok {
			if i := x.accessorIndex(sel.Sel.Name); i >= 0 && x.tr.isItem(x.typeOf(sel.X)) && len(v.Args) == 0 {
				return x.evalExpr(st, sel.X, func(st *bstate, it bval) string {
					return k(st, bval{k: bInt, s: it.parts[i]})
				})
			}
		}
		cs := x.callee(v)
		if cs == nil {
			x.fail(e, "call %s", exprStr(v.Fun))
		}
		if len(cs.results) != 1 {
			x.fail(e, "call of %s used as a value", cs.name)
		}
		return x.evalCall(st, v, func(st *bstate, rs []bval) string { return k(st, rs[0]) })
	case *ast.UnaryExpr:
		if v.Op == token.NOT {
			return x.boolByCases(st, e, k)
		}
		if v.Op == token.SUB {
			return x.evalExpr(st, v.X, func(st *bstate, o bval) string {
				return k(st, bval{k: bInt, s: "(-" + o.s + ")"})
			})
		}
	case *ast.BinaryExpr:
		if v.Op == token.LAND || v.Op == token.LOR || x.isNilCmp(v) {
			return x.boolByCases(st, e, k)
		}
		return x.evalExpr(st, v.X, func(st *bstate, l bval) string {
			return x.evalExpr(st, v.Y, func(st *bstate, r bval) string {
				return k(st, x.binop(v, v.Op, l, r))
			})
		})
	}
	x.fail(e, "expression %s", exprStr(e))
	return ""
}

// boolByCases: a boolean expression with effects (nil tests, short-circuit with a call that can
// panic) is evaluated as a condition; the continuation is emitted for both outcomes.
func (x *bx) boolByCases(st *bstate, e ast.Expr, k func(*bstate, bval) string) string {
	return x.evalCond(st, e,
		func(st *bstate) string { return k(st, bval{k: bBool, s: "true"}) },
		func(st *bstate) string { return k(st, bval{k: bBool, s: "false"}) })
}

func (x *bx) emitIf(st *bstate, p string, kT, kF func(*bstate) string) string {
	a := st.clone()
	b := st.clone()
	return "(if " + p + " then" + x.in(func() string { return x.nl() + kT(a) }) + x.nl() + "else" +
		x.in(func() string { return x.nl() + kF(b) }) + ")"
}

func (x *bx) evalCond(st *bstate, e ast.Expr, kT, kF func(*bstate) string) string {
	e = unparen(e)
	if v, ok := x.tryPure(st, e); ok && v.k == bBool {
		if v.s == "true" && !v.isProp {
			return kT(st)
		}
		if v.s == "false" && !v.isProp {
			return kF(st)
		}
		return x.emitIf(st, boolProp(v), kT, kF)
	}
	switch v := e.(type) {
	case *ast.UnaryExpr:
		if v.Op == token.NOT {
			return x.evalCond(st, v.X, kF, kT)
		}
	case *ast.BinaryExpr:
		switch {
		case v.Op == token.LAND:
			return x.evalCond(st, v.X, func(st *bstate) string { return x.evalCond(st, v.Y, kT, kF) }, kF)
		case v.Op == token.LOR:
			return x.evalCond(st, v.X, kT, func(st *bstate) string { return x.evalCond(st, v.Y, kT, kF) })
		case x.isNilCmp(v):
			p := v.X
			if isNilIdent(v.X) {
				p = v.Y
			} else if !isNilIdent(v.Y) {
				x.fail(e, "comparison of two node pointers")
			}
			kNil, kNode := kT, kF
			if v.Op == token.NEQ {
				kNil, kNode = kF, kT
			}
			return x.evalPtr(st, p, func(st *bstate, c int) string { return x.nilTest(st, c, e, kNil, kNode) })
		}
	}
	return x.evalExpr(st, e, func(st *bstate, v bval) string {
		if v.k != bBool {
			x.fail(e, "condition %s is not boolean", exprStr(e))
		}
		if v.s == "true" && !v.isProp {
			return kT(st)
		}
		if v.s == "false" && !v.isProp {
			return kF(st)
		}
		return x.emitIf(st, boolProp(v), kT, kF)
	})
}

// ---- calls ----

func (x *bx) evalCall(st *bstate, call *ast.CallExpr, k func(*bstate, []bval) string) string {
	cs := x.callee(call)
	sel := call.Fun.(*ast.SelectorExpr)
	hint := x.hint
	x.hint = ""
	var actual []ast.Expr
	switch cs.recvKind {
	case 1:
		actual = append(actual, sel.X)
	case 2:
		if !x.isRecvT(sel.X) {
			x.fail(call, "method %s called on something else than the receiver", cs.name)
		}
	}
	actual = append(actual, call.Args...)
	if len(actual) != len(cs.params) {
		x.fail(call, "argument count of %s", cs.name)
	}
	vals := make([]bval, len(actual))
	var step func(st *bstate, i int) string
	step = func(st *bstate, i int) string {
		if i == len(actual) {
			return x.finishCall(st, call, cs, vals, hint, k)
		}
		p := cs.params[i]
		switch p.kind {
		case bPtr:
			return x.evalPtr(st, actual[i], func(st *bstate, c int) string {
				vals[i] = bval{k: bPtr, cell: c}
				return step(st, i+1)
			})
		case bList:
			a := unparen(actual[i])
			if u, ok := a.(*ast.UnaryExpr); ok && u.Op == token.AND {
				a = unparen(u.X)
			}
			id, ok := a.(*ast.Ident)
			if !ok {
				x.fail(actual[i], "by-reference argument %s", exprStr(actual[i]))
			}
			b, ok := st.vars[id.Name]
			if !ok || b.k != bList {
				x.fail(actual[i], "by-reference argument %s is not a slice variable", id.Name)
			}
			vals[i] = bval{k: bList, s: id.Name} // the Go variable name
			return step(st, i+1)
		}
		return x.evalExpr(st, actual[i], func(st *bstate, v bval) string {
			if v.k != p.kind {
				x.fail(actual[i], "argument kind")
			}
			vals[i] = v
			return step(st, i+1)
		})
	}
	return step(st, 0)
}

func (x *bx) finishCall(st *bstate, call *ast.CallExpr, cs *bsig, vals []bval, hint string, k func(*bstate, []bval) string) string {
	why := fmt.Sprintf("the call of %s at line %d", cs.name, fset.Position(call.Pos()).Line)
	var args []string
	var visitedAll []int
	for _, f := range x.tr.tFields(cs) {
		b, ok := st.tf[f.goName]
		if !ok {
			x.fail(call, "field %s of the tree struct is not available", f.goName)
		}
		if b.k == bPtr {
			var vis []int
			args = append(args, x.materialize(st, b.cell, call, &vis))
			if cs.tWrites[f.goName] || cs.mutating {
				x.consume(st, vis, why)
			}
		} else {
			args = append(args, b.s)
		}
	}
	var ptrArgCells []int
	for i, p := range cs.params {
		v := vals[i]
		switch p.kind {
		case bPtr:
			if cs.mutating && st.cells[v.cell].view {
				x.fail(call, "a view (result of a method that writes nothing) is passed to the writing method %s", cs.name)
			}
			args = append(args, x.materialize(st, v.cell, call, &visitedAll))
			ptrArgCells = append(ptrArgCells, v.cell)
		case bItem:
			args = append(args, v.parts...)
		case bBool:
			args = append(args, boolTerm(v))
		case bList:
			args = append(args, st.vars[v.s].s)
		default:
			args = append(args, v.s)
		}
	}
	if cs.mutating {
		x.consume(st, visitedAll, why)
	}
	callTerm := cs.name
	if len(args) > 0 {
		callTerm += " " + strings.Join(args, " ")
	}
	// bind the outputs
	var pat []string
	var results []bval
	for i, rk := range cs.results {
		h := hint
		if h == "" || i > 0 {
			h = "r"
		}
		name := st.fresh(h)
		pat = append(pat, name)
		if rk == bPtr {
			c := bcell{st: cClosed, term: name, parent: -1, fromCall: true}
			if !cs.mutating {
				c.view, c.deps = true, append([]int{}, visitedAll...)
			}
			results = append(results, bval{k: bPtr, cell: st.newCell(c)})
		} else {
			results = append(results, bval{k: rk, s: name})
		}
		if i == 0 {
			x.bound = name
		}
	}
	if len(cs.outPtrParams()) > 0 {
		if len(ptrArgCells) != 1 {
			x.fail(call, "writing method %s without pointer result has %d pointer parameters (aliasing between them is not modelled)", cs.name, len(ptrArgCells))
		}
		c := &st.cells[ptrArgCells[0]]
		base := c.term
		if base == "" || c.fromCall {
			base = strings.TrimRight(base, "0123456789_")
			if base == "" {
				base = "n"
			}
		}
		name := st.fresh(base)
		pat = append(pat, name)
		*c = bcell{st: cClosed, term: name, parent: c.parent, changed: true, fromCall: true}
	}
	for _, f := range x.tr.tOuts(cs) {
		name := st.fresh("t_" + f.goName)
		pat = append(pat, name)
		if f.kind == bPtr {
			st.tf[f.goName] = bval{k: bPtr, cell: st.newCell(bcell{st: cClosed, term: name, parent: -1, fromCall: true})}
		} else {
			st.tf[f.goName] = bval{k: f.kind, s: name}
		}
	}
	for i, p := range cs.params {
		if p.kind == bList {
			name := st.fresh(vals[i].s)
			pat = append(pat, name)
			st.vars[vals[i].s] = bval{k: bList, s: name}
		}
	}
	if len(pat) == 0 {
		x.fail(call, "call of %s, which has no result and no effect", cs.name)
	}
	p := pat[0]
	if len(pat) > 1 {
		p = "(" + strings.Join(pat, ", ") + ")"
	}
	if cs.mayPanic {
		x.panics = true
		return "(match " + callTerm + " with" + x.nl() + "| .panic => .panic" + x.nl() + "| .val " + p + " =>" +
			x.in(func() string { return x.nl() + k(st, results) }) + ")"
	}
	if len(pat) > 1 {
		return "(match " + callTerm + " with" + x.nl() + "| " + p + " =>" +
			x.in(func() string { return x.nl() + k(st, results) }) + ")"
	}
	return "let " + p + " := " + callTerm + x.nl() + k(st, results)
}
