// Kernels.lean: Lean definitions of a whitelist of pure integer kernels of /repo, translated
// from the CURRENT source (go/ast + go/types) on every run.  Acme/Proofs/GenKernels.lean proves
// each generated definition equal to the hand-written model function, so that a change of such
// a Go function changes the generated Lean text and breaks a proof obligation.
//
// The translator covers a small, explicit subset of Go and FAILS LOUDLY (exit status 1 with a
// message naming the construct) on anything else: a rewrite outside the subset is reported, it
// is never mistranslated.
//
//	types        int (and named types over it) ↦ Int; intN / uintN / uint / uintptr ↦ BitVec N
//	             with the signedness kept by the translator; bool ↦ Bool (conditions ↦ Prop);
//	             float64 only in functions marked exactFloat, and there only as the conversion
//	             float64(integer) / an integral constant (↦ the exact integer)
//	statements   x := e, x = e, x op= e, x++, x--, var x T [= e], return e[, e...],
//	             if c {..} [else {..} | else if ..], switch [tag] { case C, D: .. default: .. }
//	             (no init statements, no loops, no break / fallthrough / goto, no shadowing);
//	             an if / switch none of whose branches returns may assign ONE outer variable
//	expressions  literals and named constants (through go/types constant values), parameters and
//	             locals, + - * / % (truncated), & | ^ &^, << >>, unary - ^ !, comparisons,
//	             && ||, integer conversions T(x), bits.Len64, calls of earlier whitelisted kernels
//	field reads  only those listed in the per-function parameterisation table (kernelSpec.fields):
//	             the listed expression becomes a parameter of the Lean definition
package main

import (
	"fmt"
	"go/ast"
	"go/constant"
	"go/token"
	"go/types"
	"math/big"
	"os"
	"path/filepath"
	"strings"

	"golang.org/x/tools/go/packages"
)

func init() { extraWriters = append(extraWriters, writeKernels) }

// ---- the whitelist ----

// kField: every occurrence of the Go expression `expr` (compared as printed source text) in the
// function is replaced by the parameter `name`, whose type is the Go type of the expression.
type kField struct{ expr, name string }

type kernelSpec struct {
	pkg        string // "acmelib" or "dbc"
	file       string // base name of the source file
	goName     string // Recv.Name as printed by funcName
	lean       string // name of the generated definition (namespace Acme.Gen.K)
	fields     []kField
	exactFloat bool   // float64(integer expr) ↦ the exact integer; integral float constants ↦ Int
	model      string // the hand-written model function it is proved equal to (documentation)
}

var kernelSpecs = []kernelSpec{
	{pkg: "acmelib", file: "helpers.go", goName: "calcSizeFromValue", lean: "calcSizeFromValue",
		model: "Acme.Arith.calcSize"},
	{pkg: "acmelib", file: "helpers.go", goName: "calcValueFromSize", lean: "calcValueFromSize",
		model: "Acme.Arith.calcValue"},
	{pkg: "acmelib", file: "importer.go", goName: "importer.getSignalStartBit", lean: "getSignalStartBit",
		fields: []kField{
			{"dbcSig.StartBit", "sigStartBit"},
			{"dbcSig.ByteOrder == dbc.SignalLittleEndian", "littleEndian"},
		},
		model: "Acme.Conv.convStart (big endian) / identity (little endian)"},
	{pkg: "acmelib", file: "exporter.go", goName: "exporter.getStartBit", lean: "exporterStartBit",
		model: "Acme.Conv.convStart (big endian) / identity (little endian)"},
	{pkg: "acmelib", file: "signal_enum.go", goName: "calcEnumSize", lean: "calcEnumSize",
		model: "Acme.Arith.enumSize"},
	{pkg: "acmelib", file: "canid_builder.go", goName: "CANIDBuilder.calculateOp", lean: "calculateOp",
		fields: []kField{{"op.kind", "opKind"}, {"op.from", "opFrom"}, {"op.len", "opLen"}},
		model:  "Acme.CanId.calcOp"},
	{pkg: "acmelib", file: "signal_type.go", goName: "calcTypeRange", lean: "calcTypeRange",
		exactFloat: true, model: "Acme.Arith.typeRange"},
}

// library functions with a definition in Acme/Core/GenPrelude.lean
var kBuiltins = map[string]struct {
	lean string
	arg  kType
	res  kType
}{
	"math/bits.Len64": {"Acme.GoSem.len64", kType{k: kBV, w: 64}, kType{k: kInt}},
}

// ---- types ----

type kKind int

const (
	kInt     kKind = iota // Go int ↦ Int
	kBV                   // sized integer ↦ BitVec w
	kBool                 // bool ↦ Bool
	kExact                // float64 holding an exact integer ↦ Int (exactFloat functions only)
	kUntyped              // untyped integer constant
)

type kType struct {
	k      kKind
	w      int
	signed bool
}

func (t kType) lean() string {
	switch t.k {
	case kInt, kExact, kUntyped:
		return "Int"
	case kBV:
		return fmt.Sprintf("BitVec %d", t.w)
	case kBool:
		return "Bool"
	}
	return "?"
}

func (t kType) String() string {
	switch t.k {
	case kInt:
		return "int"
	case kBV:
		if t.signed {
			return fmt.Sprintf("int%d", t.w)
		}
		return fmt.Sprintf("uint%d", t.w)
	case kBool:
		return "bool"
	case kExact:
		return "float64(exact integer)"
	}
	return "untyped constant"
}

// ---- intermediate form: straight-line lets, returns and two-armed conditionals ----

type kStmt interface{}
type kLet struct {
	name, rhs string
	ty        kType
	decl      bool // declares the variable (:= / var) rather than assigning to it
}
type kRet struct{ val string }
type kIf struct {
	cond      string
	then, els []kStmt
	what      string // "if" / "switch", for messages
	pos       token.Pos
}

type kernelOut struct {
	spec   *kernelSpec
	params []string // "(name : Type)"
	res    []kType
	body   string
	src    string
	plain  bool // the Lean parameters are exactly the Go parameters (callable from other kernels)
	nparam int
}

type kErr struct {
	pos token.Pos
	msg string
}

type ktr struct {
	spec   *kernelSpec
	info   *types.Info
	fd     *ast.FuncDecl
	fields map[string]*kFieldUse
	vars   map[types.Object]string // visible variables ↦ Lean name
	names  map[string]kType        // visible Lean names
	funcs  map[types.Object]*kernelOut
	res    []kType
}

type kFieldUse struct {
	f    kField
	ty   kType
	root *ast.Ident
	used bool
}

func (t *ktr) fail(n ast.Node, format string, a ...any) {
	pos := token.NoPos
	if n != nil {
		pos = n.Pos()
	}
	panic(kErr{pos, fmt.Sprintf(format, a...)})
}

var leanReserved = map[string]bool{}

func init() {
	for _, w := range strings.Fields(`from at end fun let in if then else do have show match with open section
		namespace def theorem instance structure class where by using mut for return Type Prop Sort import
		variable universe example calc deriving extends private protected partial unsafe nomatch nofun this
		at suffices obtain exists forall macro syntax notation prefix infix infixl infixr postfix abbrev
		axiom opaque inductive mutual attribute export local scoped noncomputable set_option unless try catch
		finally break continue true false`) {
		leanReserved[w] = true
	}
}

func mangle(s string) string {
	if leanReserved[s] || s == "_" {
		return s + "_"
	}
	return s
}

func unparen(e ast.Expr) ast.Expr {
	for {
		p, ok := e.(*ast.ParenExpr)
		if !ok {
			return e
		}
		e = p.X
	}
}

func (t *ktr) typeOf(ty types.Type, at ast.Node) kType {
	b, ok := ty.Underlying().(*types.Basic)
	if !ok {
		t.fail(at, "value of type %s (only integer and bool types are supported)", ty)
	}
	switch b.Kind() {
	case types.Int:
		return kType{k: kInt}
	case types.Int8:
		return kType{k: kBV, w: 8, signed: true}
	case types.Int16:
		return kType{k: kBV, w: 16, signed: true}
	case types.Int32:
		return kType{k: kBV, w: 32, signed: true}
	case types.Int64:
		return kType{k: kBV, w: 64, signed: true}
	case types.Uint8:
		return kType{k: kBV, w: 8}
	case types.Uint16:
		return kType{k: kBV, w: 16}
	case types.Uint32:
		return kType{k: kBV, w: 32}
	case types.Uint64, types.Uint, types.Uintptr:
		return kType{k: kBV, w: 64}
	case types.Bool, types.UntypedBool:
		return kType{k: kBool}
	case types.UntypedInt, types.UntypedRune:
		return kType{k: kUntyped}
	case types.Float64, types.UntypedFloat:
		if t.spec.exactFloat {
			return kType{k: kExact}
		}
	}
	t.fail(at, "value of type %s (only integer and bool types are supported)", ty)
	return kType{}
}

func (t *ktr) supported(ty types.Type) bool {
	b, ok := ty.Underlying().(*types.Basic)
	if !ok {
		return false
	}
	return b.Info()&(types.IsInteger|types.IsBoolean) != 0 && b.Info()&types.IsUntyped == 0
}

func (t *ktr) constLit(v constant.Value, ty kType, at ast.Node, asProp bool) string {
	if ty.k == kBool {
		if v.Kind() != constant.Bool {
			t.fail(at, "constant %s of a bool type", v)
		}
		if constant.BoolVal(v) {
			if asProp {
				return "True"
			}
			return "true"
		}
		if asProp {
			return "False"
		}
		return "false"
	}
	iv := constant.ToInt(v)
	if iv.Kind() != constant.Int {
		t.fail(at, "non-integral constant %s", v)
	}
	n, ok := new(big.Int).SetString(iv.ExactString(), 10)
	if !ok {
		t.fail(at, "constant %s", v)
	}
	switch ty.k {
	case kBV:
		m := new(big.Int).Lsh(big.NewInt(1), uint(ty.w))
		n.Mod(n, m) // two's complement representation of a negative constant
		return fmt.Sprintf("(%s#%d)", n.String(), ty.w)
	default:
		return fmt.Sprintf("(%s : Int)", n.String())
	}
}

func (t *ktr) fieldMatch(e ast.Expr) *kFieldUse {
	switch e.(type) {
	case *ast.SelectorExpr, *ast.BinaryExpr, *ast.CallExpr, *ast.IndexExpr, *ast.StarExpr, *ast.UnaryExpr:
		if f, ok := t.fields[exprStr(e)]; ok {
			return f
		}
	}
	return nil
}

// expr translates a value expression.
func (t *ktr) expr(e ast.Expr) (string, kType) {
	e = unparen(e)
	if f := t.fieldMatch(e); f != nil {
		f.used = true
		return f.f.name, f.ty
	}
	tv := t.info.Types[e]
	if tv.Value != nil {
		ty := t.typeOf(tv.Type, e)
		return t.constLit(tv.Value, ty, e, false), ty
	}
	switch x := e.(type) {
	case *ast.Ident:
		obj := t.info.Uses[x]
		name, ok := t.vars[obj]
		if !ok {
			t.fail(x, "identifier `%s` is not an integer / bool parameter or a local variable of the kernel", x.Name)
		}
		return name, t.typeOf(obj.Type(), x)
	case *ast.BinaryExpr:
		switch x.Op {
		case token.EQL, token.NEQ, token.LSS, token.LEQ, token.GTR, token.GEQ, token.LAND, token.LOR:
			return "(decide " + t.prop(e) + ")", kType{k: kBool}
		}
		return t.binary(x, x.X, x.Op, x.Y, t.typeOf(tv.Type, e))
	case *ast.UnaryExpr:
		switch x.Op {
		case token.NOT:
			return "(decide " + t.prop(e) + ")", kType{k: kBool}
		case token.ADD:
			return t.expr(x.X)
		case token.SUB:
			a, at := t.expr(x.X)
			if at.k != kInt && at.k != kBV {
				t.fail(x, "unary - on %s", at)
			}
			return "(-" + a + ")", at
		case token.XOR:
			a, at := t.expr(x.X)
			switch at.k {
			case kInt:
				return "(Acme.GoSem.intNot " + a + ")", at
			case kBV:
				return "(~~~" + a + ")", at
			}
			t.fail(x, "unary ^ on %s", at)
		}
		t.fail(x, "unary operator %s", x.Op)
	case *ast.CallExpr:
		return t.call(x)
	case *ast.SelectorExpr:
		t.fail(x, "field / package member read `%s` that is not in the parameterisation table of %s", exprStr(x), t.spec.goName)
	}
	t.fail(e, "expression `%s` (%T)", exprStr(e), e)
	return "", kType{}
}

func (t *ktr) conv(a string, from, to kType, at ast.Node) string {
	switch to.k {
	case kInt, kExact:
		switch from.k {
		case kInt, kUntyped:
			return a
		case kExact:
			if to.k == kExact {
				return a
			}
			t.fail(at, "conversion of a float64 to an integer")
		case kBV:
			if !from.signed && (from.w < 64 || to.k == kExact) {
				return "(" + a + ".toNat : Int)"
			}
			return "(" + a + ".toInt)" // signed source, or uint64 → int (reinterpreted)
		}
	case kBV:
		switch from.k {
		case kInt, kUntyped:
			return fmt.Sprintf("(BitVec.ofInt %d %s)", to.w, a)
		case kBV:
			if from.w == to.w {
				return a
			}
			if from.signed {
				return fmt.Sprintf("(BitVec.signExtend %d %s)", to.w, a)
			}
			return fmt.Sprintf("(BitVec.setWidth %d %s)", to.w, a)
		}
	}
	t.fail(at, "conversion from %s to %s", from, to)
	return ""
}

func (t *ktr) call(c *ast.CallExpr) (string, kType) {
	if c.Ellipsis.IsValid() {
		t.fail(c, "variadic call")
	}
	fun := unparen(c.Fun)
	if tvf, ok := t.info.Types[fun]; ok && tvf.IsType() {
		if len(c.Args) != 1 {
			t.fail(c, "conversion with %d arguments", len(c.Args))
		}
		to := t.typeOf(tvf.Type, c)
		a, from := t.expr(c.Args[0])
		return t.conv(a, from, to, c), to
	}
	var obj types.Object
	switch f := fun.(type) {
	case *ast.Ident:
		obj = t.info.Uses[f]
	case *ast.SelectorExpr:
		obj = t.info.Uses[f.Sel]
	}
	fn, ok := obj.(*types.Func)
	if !ok || fn.Pkg() == nil {
		t.fail(c, "call `%s` (only conversions, bits.Len64 and earlier whitelisted kernels may be called)", exprStr(c))
	}
	full := fn.Pkg().Path() + "." + fn.Name()
	if sig, ok := fn.Type().(*types.Signature); ok && sig.Recv() == nil {
		if b, ok := kBuiltins[full]; ok {
			if len(c.Args) != 1 {
				t.fail(c, "%s with %d arguments", full, len(c.Args))
			}
			a, at := t.expr(c.Args[0])
			if at != b.arg {
				t.fail(c, "%s applied to a %s", full, at)
			}
			return "(" + b.lean + " " + a + ")", b.res
		}
	}
	if k, ok := t.funcs[obj]; ok {
		if !k.plain || len(k.res) != 1 || len(c.Args) != k.nparam {
			t.fail(c, "call of kernel %s, whose Lean parameters differ from its Go parameters", k.spec.goName)
		}
		s := "(" + k.spec.lean
		for _, a := range c.Args {
			as, _ := t.expr(a)
			s += " " + as
		}
		return s + ")", k.res[0]
	}
	t.fail(c, "call of `%s`, which is neither bits.Len64 nor an earlier whitelisted kernel", full)
	return "", kType{}
}

func (t *ktr) shiftCount(y ast.Expr) string {
	if tv := t.info.Types[unparen(y)]; tv.Value != nil {
		iv := constant.ToInt(tv.Value)
		if iv.Kind() != constant.Int || constant.Sign(iv) < 0 {
			t.fail(y, "shift count %s", tv.Value)
		}
		return iv.ExactString()
	}
	c, ct := t.expr(y)
	switch {
	case ct.k == kInt:
		return "(Int.toNat " + c + ")"
	case ct.k == kBV && !ct.signed:
		return "(BitVec.toNat " + c + ")"
	case ct.k == kBV:
		return "(Int.toNat (BitVec.toInt " + c + "))"
	}
	t.fail(y, "shift count of type %s", ct)
	return ""
}

// binary translates `x op y` (arithmetic, bitwise, shifts) at result type res.
func (t *ktr) binary(at ast.Node, x ast.Expr, op token.Token, y ast.Expr, res kType) (string, kType) {
	if op == token.SHL || op == token.SHR {
		a, aty := t.expr(x)
		if aty.k == kUntyped {
			aty = res
		}
		n := t.shiftCount(y)
		switch {
		case aty.k == kInt && op == token.SHL:
			return "(Acme.GoSem.intShl " + a + " " + n + ")", aty
		case aty.k == kInt:
			return "(Acme.GoSem.intShr " + a + " " + n + ")", aty
		case aty.k == kBV && op == token.SHL:
			return "(" + a + " <<< " + n + ")", aty
		case aty.k == kBV && !aty.signed:
			return "(" + a + " >>> " + n + ")", aty
		case aty.k == kBV:
			return "(BitVec.sshiftRight " + a + " " + n + ")", aty
		}
		t.fail(at, "shift of a %s", aty)
	}
	a, aty := t.expr(x)
	b, bty := t.expr(y)
	if aty != bty || (aty != res && res.k != kUntyped) {
		t.fail(at, "operator %s on operands of types %s and %s (result %s)", op, aty, bty, res)
	}
	switch aty.k {
	case kInt:
		switch op {
		case token.ADD:
			return "(" + a + " + " + b + ")", aty
		case token.SUB:
			return "(" + a + " - " + b + ")", aty
		case token.MUL:
			return "(" + a + " * " + b + ")", aty
		case token.QUO:
			return "(Int.tdiv " + a + " " + b + ")", aty
		case token.REM:
			return "(Int.tmod " + a + " " + b + ")", aty
		case token.AND:
			return "(Acme.GoSem.intAnd " + a + " " + b + ")", aty
		case token.OR:
			return "(Acme.GoSem.intOr " + a + " " + b + ")", aty
		case token.XOR:
			return "(Acme.GoSem.intXor " + a + " " + b + ")", aty
		case token.AND_NOT:
			return "(Acme.GoSem.intAndNot " + a + " " + b + ")", aty
		}
	case kBV:
		switch op {
		case token.ADD:
			return "(" + a + " + " + b + ")", aty
		case token.SUB:
			return "(" + a + " - " + b + ")", aty
		case token.MUL:
			return "(" + a + " * " + b + ")", aty
		case token.QUO:
			if aty.signed {
				return "(BitVec.sdiv " + a + " " + b + ")", aty
			}
			return "(" + a + " / " + b + ")", aty
		case token.REM:
			if aty.signed {
				return "(BitVec.srem " + a + " " + b + ")", aty
			}
			return "(" + a + " % " + b + ")", aty
		case token.AND:
			return "(" + a + " &&& " + b + ")", aty
		case token.OR:
			return "(" + a + " ||| " + b + ")", aty
		case token.XOR:
			return "(" + a + " ^^^ " + b + ")", aty
		case token.AND_NOT:
			return "(" + a + " &&& ~~~" + b + ")", aty
		}
	case kExact:
		t.fail(at, "floating-point arithmetic (operator %s)", op)
	}
	t.fail(at, "operator %s on %s", op, aty)
	return "", kType{}
}

func (t *ktr) compare(at ast.Node, x ast.Expr, op token.Token, y ast.Expr) string {
	a, aty := t.expr(x)
	b, bty := t.expr(y)
	if aty.k == kUntyped {
		aty = bty
	}
	if bty.k == kUntyped {
		bty = aty
	}
	if aty != bty {
		t.fail(at, "comparison of a %s with a %s", aty, bty)
	}
	sym := map[token.Token]string{token.EQL: "=", token.NEQ: "≠", token.LSS: "<", token.LEQ: "≤", token.GTR: ">", token.GEQ: "≥"}[op]
	if sym == "" {
		t.fail(at, "comparison operator %s", op)
	}
	ordered := op != token.EQL && op != token.NEQ
	switch {
	case aty.k == kBool && ordered, aty.k == kExact:
		t.fail(at, "comparison %s on %s", op, aty)
	case aty.k == kBV && aty.signed && ordered:
		return "(BitVec.toInt " + a + " " + sym + " BitVec.toInt " + b + ")"
	}
	return "(" + a + " " + sym + " " + b + ")"
}

// prop translates a condition to a decidable Prop.
func (t *ktr) prop(e ast.Expr) string {
	e = unparen(e)
	if f := t.fieldMatch(e); f != nil {
		if f.ty.k != kBool {
			t.fail(e, "`%s` used as a condition", exprStr(e))
		}
		f.used = true
		return "(" + f.f.name + " = true)"
	}
	if tv := t.info.Types[e]; tv.Value != nil {
		return t.constLit(tv.Value, t.typeOf(tv.Type, e), e, true)
	}
	switch x := e.(type) {
	case *ast.BinaryExpr:
		switch x.Op {
		case token.LAND:
			return "(" + t.prop(x.X) + " ∧ " + t.prop(x.Y) + ")"
		case token.LOR:
			return "(" + t.prop(x.X) + " ∨ " + t.prop(x.Y) + ")"
		case token.EQL, token.NEQ, token.LSS, token.LEQ, token.GTR, token.GEQ:
			return t.compare(x, x.X, x.Op, x.Y)
		}
	case *ast.UnaryExpr:
		if x.Op == token.NOT {
			return "(¬ " + t.prop(x.X) + ")"
		}
	case *ast.Ident, *ast.CallExpr:
		a, aty := t.expr(e)
		if aty.k == kBool {
			return "(" + a + " = true)"
		}
	}
	t.fail(e, "condition `%s` (%T)", exprStr(e), e)
	return ""
}

// boolExpr translates an expression of any supported type in value position.
func (t *ktr) value(e ast.Expr, want kType) string {
	s, ty := t.expr(e)
	if ty.k == kUntyped && want.k != kBool {
		ty = want
	}
	if ty != want {
		t.fail(e, "`%s` has type %s where %s is expected", exprStr(e), ty, want)
	}
	return s
}

func (t *ktr) declare(id *ast.Ident, ty kType) string {
	obj := t.info.Defs[id]
	if obj == nil {
		t.fail(id, "redeclaration of `%s`", id.Name)
	}
	name := mangle(id.Name)
	if _, clash := t.names[name]; clash {
		t.fail(id, "declaration of `%s` shadows a visible variable", id.Name)
	}
	t.vars[obj] = name
	t.names[name] = ty
	return name
}

func (t *ktr) block(list []ast.Stmt) []kStmt {
	savedV := map[types.Object]string{}
	for k, v := range t.vars {
		savedV[k] = v
	}
	savedN := map[string]kType{}
	for k, v := range t.names {
		savedN[k] = v
	}
	var out []kStmt
	for _, s := range list {
		out = append(out, t.stmt(s)...)
	}
	t.vars, t.names = savedV, savedN
	return out
}

var assignOps = map[token.Token]token.Token{
	token.ADD_ASSIGN: token.ADD, token.SUB_ASSIGN: token.SUB, token.MUL_ASSIGN: token.MUL,
	token.QUO_ASSIGN: token.QUO, token.REM_ASSIGN: token.REM, token.AND_ASSIGN: token.AND,
	token.OR_ASSIGN: token.OR, token.XOR_ASSIGN: token.XOR, token.SHL_ASSIGN: token.SHL,
	token.SHR_ASSIGN: token.SHR, token.AND_NOT_ASSIGN: token.AND_NOT,
}

func (t *ktr) assigned(id ast.Expr) (string, kType) {
	x, ok := unparen(id).(*ast.Ident)
	if !ok {
		t.fail(id, "assignment to `%s` (only local variables and parameters may be assigned)", exprStr(id))
	}
	obj := t.info.Uses[x]
	name, ok := t.vars[obj]
	if !ok {
		t.fail(id, "assignment to `%s`, which is not a local variable or a parameter of the kernel", x.Name)
	}
	return name, t.typeOf(obj.Type(), x)
}

func (t *ktr) stmt(s ast.Stmt) []kStmt {
	switch x := s.(type) {
	case *ast.EmptyStmt:
		return nil
	case *ast.BlockStmt:
		return t.block(x.List)
	case *ast.ReturnStmt:
		if len(x.Results) != len(t.res) {
			t.fail(x, "return of %d values in a function with %d results (named results are not supported)", len(x.Results), len(t.res))
		}
		var vs []string
		for i, r := range x.Results {
			vs = append(vs, t.value(r, t.res[i]))
		}
		if len(vs) == 1 {
			return []kStmt{kRet{vs[0]}}
		}
		return []kStmt{kRet{"(" + strings.Join(vs, ", ") + ")"}}
	case *ast.AssignStmt:
		if len(x.Lhs) != 1 || len(x.Rhs) != 1 {
			t.fail(x, "assignment with %d left-hand and %d right-hand sides", len(x.Lhs), len(x.Rhs))
		}
		switch {
		case x.Tok == token.DEFINE:
			id, ok := x.Lhs[0].(*ast.Ident)
			if !ok {
				t.fail(x, "definition of `%s`", exprStr(x.Lhs[0]))
			}
			rhs, ty := t.expr(x.Rhs[0])
			if ty.k == kUntyped {
				ty = kType{k: kInt}
			}
			if id.Name == "_" {
				return nil
			}
			return []kStmt{kLet{t.declare(id, ty), rhs, ty, true}}
		case x.Tok == token.ASSIGN:
			name, ty := t.assigned(x.Lhs[0])
			return []kStmt{kLet{name, t.value(x.Rhs[0], ty), ty, false}}
		default:
			op, ok := assignOps[x.Tok]
			if !ok {
				t.fail(x, "assignment operator %s", x.Tok)
			}
			name, ty := t.assigned(x.Lhs[0])
			rhs, _ := t.binary(x, x.Lhs[0], op, x.Rhs[0], ty)
			return []kStmt{kLet{name, rhs, ty, false}}
		}
	case *ast.IncDecStmt:
		name, ty := t.assigned(x.X)
		op := " + "
		if x.Tok == token.DEC {
			op = " - "
		}
		one := t.constLit(constant.MakeInt64(1), ty, x, false)
		if ty.k != kInt && ty.k != kBV {
			t.fail(x, "%s on a %s", x.Tok, ty)
		}
		return []kStmt{kLet{name, "(" + name + op + one + ")", ty, false}}
	case *ast.DeclStmt:
		gd, ok := x.Decl.(*ast.GenDecl)
		if !ok || gd.Tok != token.VAR {
			t.fail(x, "local declaration `%s`", exprStr(x))
		}
		var out []kStmt
		for _, sp := range gd.Specs {
			vs := sp.(*ast.ValueSpec)
			if len(vs.Names) != 1 || len(vs.Values) > 1 {
				t.fail(x, "var declaration of several variables")
			}
			ty := t.typeOf(t.info.Defs[vs.Names[0]].Type(), vs)
			var rhs string
			if len(vs.Values) == 1 {
				rhs = t.value(vs.Values[0], ty)
			} else if ty.k == kBool {
				rhs = "false"
			} else {
				rhs = t.constLit(constant.MakeInt64(0), ty, x, false)
			}
			out = append(out, kLet{t.declare(vs.Names[0], ty), rhs, ty, true})
		}
		return out
	case *ast.IfStmt:
		if x.Init != nil {
			t.fail(x, "if statement with an init statement")
		}
		cond := t.prop(x.Cond)
		then := t.block(x.Body.List)
		var els []kStmt
		switch e := x.Else.(type) {
		case nil:
		case *ast.BlockStmt:
			els = t.block(e.List)
		case *ast.IfStmt:
			els = t.block([]ast.Stmt{e})
		default:
			t.fail(x, "else branch %T", e)
		}
		return []kStmt{kIf{cond, then, els, "if", x.Pos()}}
	case *ast.SwitchStmt:
		if x.Init != nil {
			t.fail(x, "switch statement with an init statement")
		}
		type clause struct {
			cond string
			body []kStmt
		}
		var clauses []clause
		var deflt []kStmt
		for _, c := range x.Body.List {
			cc := c.(*ast.CaseClause)
			for _, b := range cc.Body {
				if _, isBr := b.(*ast.BranchStmt); isBr {
					t.fail(b, "break / fallthrough in a switch")
				}
			}
			body := t.block(cc.Body)
			if cc.List == nil {
				deflt = body
				continue
			}
			var cs []string
			for _, e := range cc.List {
				if x.Tag != nil {
					cs = append(cs, t.compare(e, x.Tag, token.EQL, e))
				} else {
					cs = append(cs, t.prop(e))
				}
			}
			cond := cs[0]
			if len(cs) > 1 {
				cond = "(" + strings.Join(cs, " ∨ ") + ")"
			}
			clauses = append(clauses, clause{cond, body})
		}
		if len(clauses) == 0 {
			return deflt
		}
		cur := deflt
		for i := len(clauses) - 1; i >= 0; i-- {
			cur = []kStmt{kIf{clauses[i].cond, clauses[i].body, cur, "switch", x.Pos()}}
		}
		return cur
	case *ast.ForStmt, *ast.RangeStmt:
		t.fail(s, "loop (%T)", s)
	}
	t.fail(s, "statement `%s` (%T)", exprStr(s), s)
	return nil
}

// ---- emission ----

func terminates(ss []kStmt) bool {
	if len(ss) == 0 {
		return false
	}
	switch x := ss[len(ss)-1].(type) {
	case kRet:
		return true
	case kIf:
		return terminates(x.then) && terminates(x.els)
	}
	return false
}

func hasReturn(ss []kStmt) bool {
	for _, s := range ss {
		switch x := s.(type) {
		case kRet:
			return true
		case kIf:
			if hasReturn(x.then) || hasReturn(x.els) {
				return true
			}
		}
	}
	return false
}

// outerAssigned lists (in order of first assignment) the variables assigned in ss that are not
// declared in ss.
func outerAssigned(ss []kStmt, declared map[string]bool, seen map[string]bool, out *[]kLet) {
	for _, s := range ss {
		switch x := s.(type) {
		case kLet:
			if x.decl {
				declared[x.name] = true
			} else if !declared[x.name] && !seen[x.name] {
				seen[x.name] = true
				*out = append(*out, x)
			}
		case kIf:
			for _, br := range [][]kStmt{x.then, x.els} {
				d := map[string]bool{}
				for k := range declared {
					d[k] = true
				}
				outerAssigned(br, d, seen, out)
			}
		}
	}
}

func pad(n int) string { return strings.Repeat("  ", n) }

func (t *ktr) emit(ss []kStmt, ind int, k func(ind int) string) string {
	if len(ss) == 0 {
		return k(ind)
	}
	rest := func(ind int) string { return t.emit(ss[1:], ind, k) }
	switch s := ss[0].(type) {
	case kRet:
		if len(ss) > 1 {
			panic(kErr{token.NoPos, "statements after a return"})
		}
		return pad(ind) + s.val + "\n"
	case kLet:
		return pad(ind) + "let " + s.name + " : " + s.ty.lean() + " := " + s.rhs + "\n" + rest(ind)
	case kIf:
		tT, tE := terminates(s.then), terminates(s.els)
		if tT || tE {
			if tT && tE && len(ss) > 1 {
				panic(kErr{s.pos, "statements after an " + s.what + " all of whose branches return"})
			}
			return pad(ind) + "if " + s.cond + " then\n" + t.emit(s.then, ind+1, rest) +
				pad(ind) + "else\n" + t.emit(s.els, ind+1, rest)
		}
		if hasReturn(s.then) || hasReturn(s.els) {
			panic(kErr{s.pos, s.what + " with a branch that returns on some paths only"})
		}
		var vars []kLet
		outerAssigned([]kStmt{s}, map[string]bool{}, map[string]bool{}, &vars)
		if len(vars) != 1 {
			var ns []string
			for _, v := range vars {
				ns = append(ns, v.name)
			}
			panic(kErr{s.pos, fmt.Sprintf("%s without return that assigns %d outer variables %v (exactly one is supported)", s.what, len(vars), ns)})
		}
		v := vars[0]
		kv := func(ind int) string { return pad(ind) + v.name + "\n" }
		return pad(ind) + "let " + v.name + " : " + v.ty.lean() + " :=\n" +
			pad(ind+1) + "if " + s.cond + " then\n" + t.emit(s.then, ind+2, kv) +
			pad(ind+1) + "else\n" + t.emit(s.els, ind+2, kv) + rest(ind)
	}
	panic(kErr{token.NoPos, fmt.Sprintf("internal: statement %T", ss[0])})
}

func rootIdent(e ast.Expr) *ast.Ident {
	for {
		switch x := e.(type) {
		case *ast.Ident:
			return x
		case *ast.ParenExpr:
			e = x.X
		case *ast.SelectorExpr:
			e = x.X
		case *ast.BinaryExpr:
			e = x.X
		case *ast.StarExpr:
			e = x.X
		case *ast.UnaryExpr:
			e = x.X
		case *ast.IndexExpr:
			e = x.X
		case *ast.CallExpr:
			e = x.Fun
		default:
			return nil
		}
	}
}

func translateKernel(spec *kernelSpec, p *packages.Package, funcs map[types.Object]*kernelOut) *kernelOut {
	var fd *ast.FuncDecl
	for _, f := range inFiles(p, []string{spec.file}) {
		for _, d := range f.Decls {
			if x, ok := d.(*ast.FuncDecl); ok && x.Body != nil && funcName(x) == spec.goName {
				fd = x
			}
		}
	}
	t := &ktr{spec: spec, info: p.TypesInfo, fd: fd, fields: map[string]*kFieldUse{},
		vars: map[types.Object]string{}, names: map[string]kType{}, funcs: funcs}
	if fd == nil {
		t.fail(nil, "function %s not found in %s", spec.goName, spec.file)
	}
	if fd.Type.TypeParams != nil {
		t.fail(fd, "generic function")
	}

	// the parameterisation table: type and root of every listed expression
	for _, f := range spec.fields {
		t.fields[f.expr] = &kFieldUse{f: f}
	}
	ast.Inspect(fd.Body, func(n ast.Node) bool {
		e, ok := n.(ast.Expr)
		if !ok {
			return true
		}
		if f := t.fieldMatch(e); f != nil && f.root == nil {
			f.root = rootIdent(e)
			f.ty = t.typeOf(t.info.Types[e].Type, e)
			if f.ty.k == kUntyped {
				t.fail(e, "parameterised expression `%s` is an untyped constant", f.f.expr)
			}
			return false
		}
		return true
	})
	for _, f := range spec.fields {
		if t.fields[f.expr].root == nil {
			t.fail(fd, "the parameterised expression `%s` does not occur in the function any more", f.expr)
		}
	}

	out := &kernelOut{spec: spec, plain: true}
	addParam := func(name string, ty kType) {
		out.params = append(out.params, "("+name+" : "+ty.lean()+")")
	}
	var plist []*ast.Field
	if fd.Recv != nil {
		plist = append(plist, fd.Recv.List...)
	}
	plist = append(plist, fd.Type.Params.List...)
	placed := map[string]bool{}
	for _, fl := range plist {
		if len(fl.Names) == 0 {
			out.plain = false
			continue
		}
		for _, id := range fl.Names {
			obj := t.info.Defs[id]
			if obj != nil && t.supported(obj.Type()) && id.Name != "_" {
				ty := t.typeOf(obj.Type(), id)
				addParam(t.declare(id, ty), ty)
				out.nparam++
				continue
			}
			// a receiver / pointer / struct parameter: replaced by the listed reads through it
			out.plain = false
			for _, f := range spec.fields {
				fu := t.fields[f.expr]
				if fu.root != nil && t.info.Uses[fu.root] == obj && obj != nil {
					if _, clash := t.names[f.name]; clash {
						t.fail(id, "parameter name %s used twice", f.name)
					}
					t.names[f.name] = fu.ty
					addParam(f.name, fu.ty)
					placed[f.expr] = true
				}
			}
		}
	}
	for _, f := range spec.fields {
		if !placed[f.expr] {
			t.fail(fd, "the parameterised expression `%s` does not read through a parameter of the function", f.expr)
		}
	}
	if fd.Type.Results == nil || len(fd.Type.Results.List) == 0 {
		t.fail(fd, "function without result")
	}
	for _, fl := range fd.Type.Results.List {
		if len(fl.Names) > 0 {
			t.fail(fl, "named results")
		}
		t.res = append(t.res, t.typeOf(t.info.Types[fl.Type].Type, fl))
	}
	out.res = t.res

	ir := t.block(fd.Body.List)
	if !terminates(ir) {
		t.fail(fd, "function body that does not end in a return on every path")
	}
	out.body = t.emit(ir, 1, func(int) string { panic(kErr{fd.Pos(), "missing return"}) })
	for _, f := range spec.fields {
		if !t.fields[f.expr].used {
			t.fail(fd, "the parameterised expression `%s` is not reached by the translation", f.expr)
		}
	}
	out.src = exprSrc(fd)
	if obj := t.info.Defs[fd.Name]; obj != nil {
		funcs[obj] = out
	}
	return out
}

// exprSrc prints the declaration as it stands in the source (for the comment above the def).
func exprSrc(fd *ast.FuncDecl) string {
	start, end := fset.Position(fd.Pos()), fset.Position(fd.End())
	data, err := os.ReadFile(start.Filename)
	if err != nil || end.Offset > len(data) {
		return ""
	}
	src := strings.ReplaceAll(string(data[start.Offset:end.Offset]), "-/", "- /")
	return strings.ReplaceAll(src, "/-", "/ -")
}

func writeKernels(outDir string, root, dbc *packages.Package) {
	path := filepath.Join(outDir, "Kernels.lean")
	os.Remove(path) // never keep a stale generated file
	var cur *kernelSpec
	defer func() {
		if r := recover(); r != nil {
			ke, ok := r.(kErr)
			if !ok {
				panic(r)
			}
			where := ""
			if ke.pos.IsValid() {
				ps := fset.Position(ke.pos)
				where = fmt.Sprintf("%s:%d: ", filepath.Base(ps.Filename), ps.Line)
			}
			fmt.Fprintf(os.Stderr, "extract/kernels: %skernel %s: unsupported by the translator: %s\n", where, cur.goName, ke.msg)
			os.Exit(1)
		}
	}()

	var b strings.Builder
	b.WriteString("/- GENERATED by /verif/tools/extract (kernels.go) from /repo — do not edit.\n")
	b.WriteString("   Go functions translated to Lean; proved equal to the hand-written model in\n")
	b.WriteString("   Acme/Proofs/GenKernels.lean.  Operator semantics: Acme/Core/GenPrelude.lean. -/\n")
	b.WriteString("import Acme.Core.GenPrelude\n\nnamespace Acme.Gen.K\n\n")
	funcs := map[types.Object]*kernelOut{}
	var names []string
	for i := range kernelSpecs {
		cur = &kernelSpecs[i]
		p := root
		if cur.pkg == "dbc" {
			p = dbc
		}
		k := translateKernel(cur, p, funcs)
		var rs []string
		for _, r := range k.res {
			rs = append(rs, r.lean())
		}
		b.WriteString("/- " + cur.file + ", " + cur.goName + "   (hand model: " + cur.model + ")\n\n")
		b.WriteString(k.src + "\n-/\n")
		b.WriteString("def " + cur.lean + " " + strings.Join(k.params, " ") + " : " + strings.Join(rs, " × ") + " :=\n")
		b.WriteString(k.body + "\n")
		names = append(names, "("+leanStr(cur.lean)+", "+leanStr(cur.file)+", "+leanStr(cur.goName)+")")
	}
	b.WriteString("/-- the translated kernels: (definition, file, Go function) -/\n")
	b.WriteString("def kernels : List (String × String × String) := [\n  " + strings.Join(names, ",\n  ") + "\n]\n\n")
	b.WriteString("end Acme.Gen.K\n")
	if err := os.WriteFile(path, []byte(b.String()), 0o644); err != nil {
		panic(err)
	}
}
